#!/usr/bin/env python3
"""Regenerate coq/_CoqProject and coq/Makefile from the directory listing (same code path as ./check)."""
import importlib.machinery, importlib.util, os
root = os.path.dirname(os.path.dirname(os.path.abspath(__file__)))
l = importlib.machinery.SourceFileLoader('chk', os.path.join(root, 'check'))
spec = importlib.util.spec_from_loader('chk', l); m = importlib.util.module_from_spec(spec); l.exec_module(m)
m.coq_makefile()
