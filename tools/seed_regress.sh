#!/bin/bash
# Regression over stored seeds: for each seeded/<id>-<k> given (default: all), apply its patch to a scratch
# worktree of /repo and run the owning property's quick check from THIS checkout of /verif; one line per seed.
# usage: seed_regress.sh <scratch-repo-dir> [seed-dir-names...]      (creates/removes the scratch worktree itself)
ROOT=$(cd $(dirname $0)/.. && pwd); w=$1; shift
cd $ROOT
[ -d $w ] || git -C /repo worktree add -q --detach $w HEAD || exit 2
seeds="$@"; [ -z "$seeds" ] && seeds=$(ls seeded | sort)
for s in $seeds; do
  p=${s%%-*}
  ( cd $w && git checkout -q -- . && git clean -fdq && git apply $ROOT/seeded/$s/patch.diff ) || { echo "$s PATCH-FAILED"; continue; }
  cp evidence/$p.json .work/ev-backup-$p.json 2>/dev/null
  out=$(VERIF_REPO=$w ./check $p 2>&1 | grep -E "^VIOLATION|quick:" | tr '\n' ' ' | cut -c1-260)
  cp .work/ev-backup-$p.json evidence/$p.json 2>/dev/null
  echo "$s $out"
done
git -C /repo worktree remove --force $w
rm -rf $ROOT/harness/target-alt-*
