#!/bin/bash
# merge a development branch into main: _CoqProject is generated (untracked), known_findings.json is unioned by key
set -e
b=$1
cd /verif
git show HEAD:known_findings.json > /tmp/kf_ours.json
git show $b:known_findings.json > /tmp/kf_theirs.json 2>/dev/null || cp /tmp/kf_ours.json /tmp/kf_theirs.json
git merge --no-edit $b >/tmp/merge.log 2>&1 || true
git rm -q --cached coq/_CoqProject 2>/dev/null || true
python3 - <<'PY'
import json
o=json.load(open('/tmp/kf_ours.json')); t=json.load(open('/tmp/kf_theirs.json'))
idx={f['key']:i for i,f in enumerate(o['findings'])}
for f in t['findings']:
    if f['key'] not in idx:
        o['findings'].append(f); print('known_findings: added',f['key'])
    elif f != o['findings'][idx[f['key']]]:
        print('known_findings: differs (kept ours):',f['key'])
json.dump(o,open('/verif/known_findings.json','w'),indent=1)
PY
git add known_findings.json
git status --short | grep -E "^(UU|AA|DU|UD) " || true
