#!/bin/bash
# Generator-quality measurement (NOT a proof, NOT part of any verdict): which lines of the
# contracts/packages of the tree under test does the correspondence harness execute at
# all?  A line no check ever executes is a blind spot of the tie: a change there cannot be
# noticed.  Builds an instrumented copy of the harness (-C instrument-coverage) in its own
# target directory, runs the harness part of the listed properties (default: all 20,
# quick tier), merges the profiles and writes
#   .work/coverage/summary.txt     per-file line coverage of /repo's non-test sources
#   .work/coverage/uncovered.txt   the uncovered source lines, file by file
# usage: tools/coverage.sh [--tier quick|thorough] [Cxx ...]
set -e
ROOT=$(cd $(dirname $0)/.. && pwd)
REPO=${VERIF_REPO:-/repo}
TIER=quick
if [ "$1" = "--tier" ]; then TIER=$2; shift 2; fi
PROPS="$@"; [ -z "$PROPS" ] && PROPS=$(seq -f "C%02g" 1 20)
TOOLS=$(ls -d ~/.rustup/toolchains/nightly-x86_64-unknown-linux-gnu/lib/rustlib/*/bin | head -1)
OUT=$ROOT/.work/coverage; rm -rf $OUT; mkdir -p $OUT/prof $OUT/run
mkdir -p $ROOT/.work; ln -sfn $REPO $ROOT/.work/repo
export CARGO_NET_OFFLINE=true CARGO_TARGET_DIR=$ROOT/harness/target-cov VERIF_REPO=$REPO
export RUSTFLAGS="--cfg launchpad_verif -Awarnings -C instrument-coverage"
(cd $ROOT/harness && LLVM_PROFILE_FILE=$OUT/prof/build-%p.profraw cargo build --offline 2>&1 | tail -2)
BIN=$CARGO_TARGET_DIR/debug/lpverif
for p in $PROPS; do
  ( cd $ROOT/harness && LLVM_PROFILE_FILE=$OUT/prof/$p-%p.profraw $BIN $p --seed 1 --tier $TIER --out $OUT/run/$p > $OUT/run-$p.log 2>&1 || true ) &
  while [ $(jobs -r | wc -l) -ge 8 ]; do sleep 1; done
done
wait
$TOOLS/llvm-profdata merge -sparse $OUT/prof/*.profraw -o $OUT/all.profdata
# non-test sources of the tree under test only
REAL=$(realpath $REPO)
$TOOLS/llvm-cov report $BIN -instr-profile=$OUT/all.profdata --ignore-filename-regex='(/\.cargo/|/rustc/|/harness/|/test-suite/|/tests?/|testing|tests\.rs|test_|/examples/|/bin/schema|unit_tests|e2e)' 2>/dev/null > $OUT/summary.txt
$TOOLS/llvm-cov show $BIN -instr-profile=$OUT/all.profdata --ignore-filename-regex='(/\.cargo/|/rustc/|/harness/|/test-suite/|/tests?/|testing|tests\.rs|test_|/examples/|/bin/schema|unit_tests|e2e)' --show-line-counts-or-regions=false 2>/dev/null \
 | python3 -c '
import sys,re
cur=None; out=[]
for l in sys.stdin:
    m=re.match(r"^(/.*\.rs):$", l)
    if m: cur=m.group(1); continue
    m=re.match(r"^\s*(\d+)\|\s*0\|(.*)$", l)
    if m and cur and m.group(2).strip() not in ("}", "{", ""):
        out.append("%s:%s: %s" % (cur, m.group(1), m.group(2).rstrip()))
print("\n".join(out))' > $OUT/uncovered.txt
rm -rf $OUT/prof $OUT/run
tail -1 $OUT/summary.txt; wc -l $OUT/uncovered.txt
