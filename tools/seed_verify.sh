#!/bin/bash
# Confirm a seeded change: (a) patch only -> baseline suite passes, (b) patch+demo -> demo fails, (c) demo only -> passes.
# usage: seed_verify.sh <seeded-dir> <scratch-repo-worktree>
d=$(realpath $1); w=$2
[ -d $w ] || git -C /repo worktree add -q --detach $w HEAD
cd $w || exit 2
reset() { git checkout -q -- . && git clean -fdq -e target; }
count() { grep -E "^test result" | awk '{p+=$4; f+=$6} END{print p" passed "f" failed"}'; }
reset; git apply $d/patch.diff || { echo "PATCH DOES NOT APPLY"; exit 1; }
a=$(cargo test --workspace --no-fail-fast --offline 2>&1 | count)
git apply $d/demo.diff || { echo "DEMO DOES NOT APPLY"; reset; exit 1; }
b=$(cargo test --workspace --no-fail-fast --offline 2>&1 | count)
git apply -R $d/patch.diff
c=$(cargo test --workspace --no-fail-fast --offline 2>&1 | count)
reset
echo "$(basename $d): patch-only: $a | patch+demo: $b | demo-only: $c"
