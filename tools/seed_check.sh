#!/bin/bash
# Run a property's quick check against a scratch /repo worktree with a seeded change applied.
# usage: seed_check.sh <seeded-dir> <property>...
d=$(realpath $1); shift
w=/work/repo-mut
[ -d $w ] || { mkdir -p /work && git -C /repo worktree add -q --detach $w HEAD; } || exit 2
cd $w && git checkout -q -- . && git clean -fdq && git apply $d/patch.diff || exit 2
cd /verif
for p in "$@"; do
  cp evidence/$p.json /verif/.work/ev-backup-$p.json 2>/dev/null
  out=$(VERIF_REPO=$w ./check $p 2>&1 | grep -E "^VIOLATION|^KNOWN|quick:" | cut -c1-220)
  echo "[$(basename $d)] $out"
  rp=$(echo "$out" | grep -o "replay=[^ ]*" | head -1 | cut -d= -f2)
  case "$rp" in *.json) cp "$rp" /verif/seeded/$(basename $d)/detected-replay-$p.json 2>/dev/null;; esac
  cp evidence/replays/$p-broken-obligation.txt /verif/seeded/$(basename $d)/detected-broken-$p.txt 2>/dev/null
  cp /verif/.work/ev-backup-$p.json evidence/$p.json 2>/dev/null   # evidence/ describes /repo, not the scratch tree
done
cd $w && git checkout -q -- . && git clean -fdq
