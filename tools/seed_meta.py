#!/usr/bin/env python3
"""Write seeded/<id>-<k>/meta.json for the second-round seeds from README.md, the
seed_verify log and the files seed_check left in the directory."""
import json, os, re, sys, glob
root = '/verif/seeded'
log = open('/verif/.work/seed_verify.log').read()
first_missed = {  # seeds the checks missed (or reported without a concrete input) when they arrived
 'C03-3': 'MISSED by C03 as it stood (no tiered configuration had touching stages with different limits); touching-stage probes at T-1ns/T/T+1ns and a monitor that takes entitlement from the active stage were added, detected since',
 'C05-3': 'MISSED by C05 as it stood (instantiate probes always named the sender as minter); sender and named party are now varied independently, new theorem C05_instantiate_decided_by_sender_not_by_named_minter, detected since',
 'C07-3': 'MISSED by C07 as it stood (no SetWhitelist on an IBC factory whose minimum had been moved to the native denom); added to the corpus of all vending and open-edition minters, detected since',
 'C08-4': 'MISSED by C08 as it stood (governance params never made a zero price legal); degenerate params (min price 0, airdrop price 0, tiny limits) added to the creation probes, detected since',
 'C20-3': 'MISSED by C20 as it stood (factory migrations carried no params message); migrations with every subset of optional params from pairwise-distinct stored values and a frame theorem were added, detected since',
 'C16-3': 'reported by C16 as it stood only in the no-failing-input-found form (8 correspondence disagreements on non-ASCII texts, no monitor hit); near-miss-digest signatures by the listed key and multi-byte claim texts added, a concrete replay is produced since',
}
for d in sorted(glob.glob(root + '/C*-[34]')):
    sid = os.path.basename(d); prop = sid.split('-')[0]
    readme = open(d + '/README.md').read()
    title = readme.splitlines()[0].lstrip('# ').strip()
    m = re.search(r'^#+ *(What is needed[^\n]*|Needs[^\n]*|What it needs[^\n]*)\n(.*?)(?=^#+ )', readme, re.S | re.M)
    needs = re.sub(r'\s+', ' ', m.group(2)).strip()[:700] if m else 'see README.md'
    v = re.findall(r'^%s: (.*)$' % re.escape(sid), log, re.M)
    ev = sorted(os.path.basename(f) for f in glob.glob(d + '/detected-*'))
    meta = {
      'property': prop, 'round': 2, 'title': title, 'needs_to_manifest': needs,
      'confirmed_by_lead': {
        'command': 'tools/seed_verify.sh <dir> <scratch /repo worktree at c2c314c>  (cargo test --workspace --no-fail-fast --offline: patch only / patch+demo / demo only)',
        'result': sid + ': ' + (v[-1] if v else 'NOT VERIFIED')},
      'check_run': {
        'command': 'tools/seed_check.sh seeded/%s %s  (applies patch.diff to a scratch /repo worktree and runs VERIF_REPO=<it> ./check %s)' % (sid, prop, prop),
        'detected': any(e.endswith('.json') for e in ev), 'evidence': ev},
      'produced_by': 'independent sub-agent given only the property text and a scratch worktree of /repo',
    }
    if sid in first_missed: meta['check_run']['first_run'] = first_missed[sid]
    json.dump(meta, open(d + '/meta.json', 'w'), indent=1)
    print(sid, meta['check_run']['detected'], len(needs))
