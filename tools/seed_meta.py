#!/usr/bin/env python3
"""Write seeded/<id>-<k>/meta.json for the seeds of round 2 onwards from README.md, the
seed_verify log and the files seed_check left in the directory."""
import json, os, re, sys, glob
root = '/verif/seeded'
log = open('/verif/.work/seed_verify.log').read()
first_missed = {  # seeds the checks missed (or reported without a concrete input) when they arrived
 'C03-3': 'MISSED by C03 as it stood (no tiered configuration had touching stages with different limits); touching-stage probes at T-1ns/T/T+1ns and a monitor that takes entitlement from the active stage were added, detected since',
 'C05-3': 'MISSED by C05 as it stood (instantiate probes always named the sender as minter); sender and named party are now varied independently, new theorem C05_instantiate_decided_by_sender_not_by_named_minter, detected since',
 'C07-3': 'MISSED by C07 as it stood (no SetWhitelist on an IBC factory whose minimum had been moved to the native denom); added to the corpus of all vending and open-edition minters, detected since',
 'C08-4': 'MISSED by C08 as it stood (governance params never made a zero price legal); degenerate params (min price 0, airdrop price 0, tiny limits) added to the creation probes, detected since',
 'C20-3': 'MISSED by C20 as it stood (factory migrations carried no params message); migrations with every subset of optional params from pairwise-distinct stored values and a frame theorem were added, detected since',
 'C16-3': 'reported by C16 as it stood only in the no-failing-input-found form (8 correspondence disagreements on non-ASCII texts, no monitor hit); near-miss-digest signatures by the listed key and multi-byte claim texts added, a concrete replay is produced since',
 # third round
 'C02-5': 'reported by C02 as it stood only in the no-failing-input-found form (C07 gave a concrete replay); C02 monitors now take the price in force from the harness ledger of the principals\' operations, concrete replay since',
 'C04-5': 'MISSED by C04 as it stood (whitelist answers were an oracle and no history changed a whitelist after attaching it; C11 and C13 caught it); whitelist admin operations in the C04 histories and an independent ledger of intended membership, detected since',
 'C05-6': 'MISSED by C05 (and C20, C18) as they stood (no Migrate among the user messages; no governance-set status before a migration); Migrate rows for every contract from governance-set states and stored versions, status/params-changed-by-user-message monitors, C20 grid with governance as a life-stage dimension; detected by C05 and C20 since',
 'C06-5': 'MISSED by C06 as it stood (only the sg1 functions were driven; C08 caught it); call-site layer FeeSites + world-level monitors on every fee-disposing call site, detected since',
 'C06-6': 'MISSED by C06 as it stood (C16 caught it: the harness keeper refuses the wrong signer); call-site layer, detected since',
 'C07-5': 'MISSED by C07 as it stood (the governance minimum was read back from the factory; C18 caught it); governance proposals inside the price histories and a ledger of what governance supplied, detected by C07 and C08 since',
 'C08-5': 'MISSED by C08 as it stood (allow-list read back from the factory; C18 caught it); allow-list proposal sequences before creation and a ledger of the intended allow-list, detected since',
 'C09-5': 'MISSED by C09 as it stood (no migrate in collection histories; C20 caught it); Migrate steps over the cw2 grid in C09/C10 histories and the model, detected since',
 'C10-5': 'reported by C10 as it stood only in the no-failing-input-found form; Migrate steps between royalty updates, cadence monitor sees two raises inside 24 h, concrete replay since',
 'C11-6': 'MISSED by C11 as it stood (no flex member had mint count 0); boundary mint counts on both flex kinds, row-is-member theorems, detected since',
 'C14-5': 'MISSED by C14 as it stood (its migrate probe used the stored version, which returns early; C20 caught it); migrate steps over the cw2 grid in both Merkle whitelist histories and the minter world, membership sweep after every step, detected since',
 # fourth round
 'C01-8': 'MISSED by C01 as it stood (no history burned a token on the collection); holder-side Burn / TransferNft in every family\'s histories, ledger of ids ever issued, Holder.v frame theorems, detected since',
 'C02-7': 'MISSED by C02 as it stood (no tiered whitelist in the C02 worlds); tiered whitelists with touching stages at different prices, ledger selects the stage by the documented rule, detected since',
 'C08-7': 'reported by C08 as it stood only in the no-failing-input-found form (52 correspondence disagreements on the wiring vector); chain-level administration monitor (collection wasm admin = creator named in the request), concrete replay since',
 'C14-7': 'MISSED by C14 as it stood (no UpdateStageConfig moved a stage across a neighbour); stage-update operations with the list_i <-> root_i pairing kept in the harness ledger, detected since',
 'C14-8': 'MISSED by C14 as it stood (no mint named stage Some(0) against a stage-less leaf or vice versa); stage argument x leaf format cross cases on every Merkle minter variant, detected since',
 'C19-8': 'MISSED by C19 as it stood (no open edition with an end time in the C19 worlds); every candidate anchor +/- offset probed at creation and on update against the harness ledger, detected since',
 # fifth round
 'C03-9': 'MISSED by C03 as it stood (no whitelist admin operation inside its histories; C11/C13 caught it); admin operations + ledger of limits, caps and allowances, detected since',
 'C03-10': 'MISSED by C03 as it stood; UpdateStageConfig with every subset of its optional fields, the ledger keeps omitted values, detected since',
 'C04-10': 'MISSED by C04 as it stood (C11 caught it); instantiate shapes with more / fewer member lists than stages, surplus lists belong to no stage in the ledger, detected since',
 'C05-10': 'MISSED by every check as they stood (no world had a payment address different from the creator); every optional / secondary address is its own principal and a caller role, detected since',
 'C06-10': 'MISSED by C06 as it stood (needs the factory to hold stranded coins); prior contract balance as a dimension of every call-site case, contract-balance-used monitor, detected since',
 'C07-9': 'MISSED by C07 as it stood (C08 caught it); governance minimum amount {0,1,usual} x denom as a full dimension, created-in-foreign-denom monitor and theorem, detected since',
 'C08-9': 'MISSED by C08 as it stood (every proposal supplied every field; C18 caught it); proposals that omit fields, the ledger keeps the omitted values, detected since',
 'C08-10': 'MISSED by C08 as it stood; update probes after governance lowered the maximum below the limit the minter holds (descending), detected since',
 'C10-9': 'reported by C10 as it stood only in the no-failing-input-found form; initial-royalty grid on all five variants and raise monitors judged against the ledger entry (a 0 % entry is an entry), concrete replay since',
 'C13-10': 'reported by C13 as it stood only in the no-failing-input-found form; per-stage answers judged against a ledger of stages with their member lists, concrete replay since',
 'C14-9': 'MISSED by C14 as it stood (roots were always given in one spelling); root spellings at instantiate as a dimension, detected since',
 'C15-10': 'MISSED by C15 as it stood (splits was never instantiated with attached funds); funds at instantiate on both paths and a conservation monitor from instantiate on, detected since',
 'C18-9': 'MISSED by C18 as it stood (C06 and C08 caught it); old-vs-new discriminating observation probes after every accepted UpdateParams, detected since',
 'C20-10': 'MISSED by C20 as it stood (the world always supplied tree URIs); optional instantiate fields present / absent / empty as a dimension, appearing keys count as changes, detected since',
 # sixth round
 'C06-11': 'MISSED by C06 as it stood (the developer address was always a valid account); developer address forms (incl. strings that fail validation) as a dimension, monitor judges against the configured developer, detected since',
 'C10-11': 'MISSED by C10 as it stood (only base->updatable migrations were in the histories); each variant\'s own migrate, repeated, with the recorded version modelled, detected since',
 'C20-11': 'MISSED by C20 as it stood (no migration from an end state); end-state life stages before migration, detected since',
 # seventh round
 'C03-13': 'MISSED by C03 as it stood (whitelist admin operations were only sent by the admin); every admin operation also sent by non-admins, ledger follows only the admin, detected since',
 'C04-13': 'MISSED by C04 as it stood; member messages of 99/100/101/150 entries with tracked buyers at the pagination boundary, detected since',
 'C04-14': 'MISSED by C04 as it stood (C08 probes this at the factory); creation-time attach at six instants of the whitelist window, created-with-active-whitelist monitor, detected since',
 'C06-13': 'MISSED by C06 as it stood; governance changes between creation and the probed call as a call-site dimension, fee-stranded monitor, detected since',
 'C12-14': 'MISSED by C12 as it stood (every world had members); member population as a dimension, detected since',
 'C16-13': 'MISSED by C16 as it stood; collection-whitelist admin operations between claims, detected since',
 'C16-14': 'MISSED by C16 as it stood; malformed spellings of a listed key as list entries, accepted-malformed-address monitor, detected since',
 'C17-13': 'MISSED by C17 as it stood; factory freeze / unfreeze between deposits, detected since',
 'C17-14': 'reported by C17 as it stood only in the no-failing-input-found form; sub-second start-time updates and a ledger start time, concrete replay since',
 'C18-13': 'the C18 harness aborted on the failing Params query (no verdict line); check now reports a harness abort as a violation and failing factory queries are a monitor violation, concrete replay since',
 'C19-14': 'MISSED by C19 as it stood; chain clock before / at / after genesis as a dimension of the creation probes, detected since',
 'C20-14': 'MISSED by C20 as it stood (the grid always rewrote the cw2 record); as-instantiated and keep-name rows, instantiate-recorded-foreign-identity monitor, detected since',
}
for d in sorted(glob.glob(root + '/C*-[3-9]')) + sorted(glob.glob(root + '/C*-1[01234]')):
    sid = os.path.basename(d); prop = sid.split('-')[0]
    readme = open(d + '/README.md').read()
    title = readme.splitlines()[0].lstrip('# ').strip()
    m = re.search(r'^#+ *(What is needed[^\n]*|Needs[^\n]*|What it needs[^\n]*)\n(.*?)(?=^#+ )', readme, re.S | re.M)
    needs = re.sub(r'\s+', ' ', m.group(2)).strip()[:700] if m else 'see README.md'
    v = re.findall(r'^%s: (.*)$' % re.escape(sid), log, re.M)
    ev = sorted(os.path.basename(f) for f in glob.glob(d + '/detected-*'))
    meta = {
      'property': prop, 'round': (int(sid.split('-')[1]) + 1) // 2, 'title': title, 'needs_to_manifest': needs,
      'confirmed_by_lead': {
        'command': 'tools/seed_verify.sh <dir> <scratch /repo worktree at c2c314c>  (cargo test --workspace --no-fail-fast --offline: patch only / patch+demo / demo only)',
        'result': sid + ': ' + (v[-1] if v else 'NOT VERIFIED')},
      'check_run': {
        'command': 'tools/seed_check.sh seeded/%s %s  (applies patch.diff to a scratch /repo worktree and runs VERIF_REPO=<it> ./check %s)' % (sid, prop, prop),
        'detected': any(e.endswith('.json') for e in ev), 'evidence': ev},
      'produced_by': 'independent sub-agent given only the property text and a scratch worktree of /repo',
    }
    if sid in first_missed: meta['check_run']['first_run'] = first_missed[sid]
    json.dump(meta, open(d + '/meta.json', 'w'), indent=1)
    print(sid, meta['check_run']['detected'], len(needs))
