#!/bin/bash
# Collect the two deliveries of each seeding worktree /tmp/<prefix>-Cxx into seeded/Cxx-<off+1>, -<off+2>,
# remove the worktree, confirm each seed (seed_verify) and run the owning property's check against it.
# usage: seed_collect.sh <prefix> <offset> Cxx...
pre=$1; off=$2; shift 2
cd /verif
for id in "$@"; do
  for k in 1 2; do
    d=seeded/$id-$((off+k)); mkdir -p $d
    cp /tmp/$pre-$id/seeded/$k/{patch.diff,demo.diff,README.md} $d/ || echo "MISSING $id $k"
  done
  git -C /repo worktree remove --force /tmp/$pre-$id
done
git -C /repo worktree prune
for id in "$@"; do for k in 1 2; do tools/seed_verify.sh seeded/$id-$((off+k)) /work/repo-lead >> .work/seed_verify.log 2>&1; done; done &
for id in "$@"; do for k in 1 2; do tools/seed_check.sh seeded/$id-$((off+k)) $id 2>&1 | grep -v "^KNOWN\|KNOWN-FINDING" ; done; done | tee -a .work/seed_check_r3.log
wait
