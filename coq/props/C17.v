(* C17 — Token-merge mints happen exactly when the required tokens were burned.
   ONLY statements (closed by `exact <lemma>`), examples and the axiom audit.

   Vocabulary (model/TokenMerge.v): `receive now caller cw_sender recip tok pick st` is
   ExecuteMsg::ReceiveNft with info.sender = caller, Cw721ReceiveMsg.sender = cw_sender,
   payload DepositToken{recipient: recip}, token `tok`; `pick` is the token id the
   pseudo-random choice produced (oracle input, universally quantified here).
   `recipient_of cw_sender recip` = the explicit recipient if given, else cw_sender.
   `ledger st r c` = RECEIVED_TOKENS[(r,c)] (0 when absent), `count st r` = MINTER_ADDRS[r].
   `req_amount c req` = amount of the first mint_tokens entry whose collection is c.
   Messages: TMint r t = Mint{token_id t, owner r} to the minter's collection;
   TBurn c t = Burn{token_id t} sent to collection c.  Err = the call fails, all writes
   are discarded (structural in the model, checked on the real contracts by the tie). *)
From LP Require Import Num Pay Sg1 Consts TokenMerge TokenMergeProofs.
Import ListNotations.
Local Open Scope N_scope.

(* An accepted deposit satisfies every guard of the property: strictly after the start
   time, the caller is a required collection, the recipient still lacks tokens of that
   collection, the recipient is below its per-address limit. *)
Theorem C17_deposit_ok_guards : forall now caller cw_sender recip tok pick st st' ms,
  receive now caller cw_sender recip tok pick st = Ok (st', ms) ->
  tm_start st < now /\
  (exists amt, In (caller, amt) (tm_req st) /\ req_amount caller (tm_req st) = Some amt /\
               ledger st (recipient_of cw_sender recip) caller < amt) /\
  count st (recipient_of cw_sender recip) < tm_limit st /\
  recipient_of cw_sender recip <> 0.
Proof. exact deposit_ok_guards. Qed.

(* A mint is emitted exactly when, counting this deposit, every requirement is met; any
   mint goes to the recipient with the picked id; exactly the deposited token is burned,
   at the collection that called. *)
Theorem C17_mints_iff_complete : forall now caller cw_sender recip tok pick st st' ms,
  receive now caller cw_sender recip tok pick st = Ok (st', ms) ->
  ((exists t, In (TMint (recipient_of cw_sender recip) t) ms) <->
   (forall c a, In (c, a) (tm_req st) ->
      a <= (if c =? caller then ledger st (recipient_of cw_sender recip) c + 1
            else ledger st (recipient_of cw_sender recip) c))) /\
  (forall r' t, In (TMint r' t) ms -> r' = recipient_of cw_sender recip /\ t = pick) /\
  (forall c t, In (TBurn c t) ms <-> c = caller /\ t = tok).
Proof. exact mints_iff_complete. Qed.

(* Deposit that does not complete the set: one Burn of exactly that token to the sending
   collection, the ledger grows by one at that key only, nothing else changes. *)
Theorem C17_deposit_without_mint : forall now caller cw_sender recip tok pick st st' ms,
  receive now caller cw_sender recip tok pick st = Ok (st', ms) ->
  ~ (forall c a, In (c, a) (tm_req st) ->
      a <= (if c =? caller then ledger st (recipient_of cw_sender recip) c + 1
            else ledger st (recipient_of cw_sender recip) c)) ->
  ms = [TBurn caller tok] /\
  ledger st' (recipient_of cw_sender recip) caller = ledger st (recipient_of cw_sender recip) caller + 1 /\
  (forall r' c', (r', c') <> (recipient_of cw_sender recip, caller) -> ledger st' r' c' = ledger st r' c') /\
  tm_counts st' = tm_counts st /\ tm_mintable st' = tm_mintable st /\ tm_avail st' = tm_avail st /\
  tm_start st' = tm_start st /\ tm_limit st' = tm_limit st /\ tm_req st' = tm_req st /\ tm_admin st' = tm_admin st.
Proof. exact deposit_without_mint. Qed.

(* Completing deposit: Mint to the recipient then Burn of the deposited token; supply was
   not exhausted and drops by one; the recipient's ledger is zero for every required
   collection, its mint count grows by one; nobody else's ledger or count changes. *)
Theorem C17_deposit_with_mint : forall now caller cw_sender recip tok pick st st' ms,
  receive now caller cw_sender recip tok pick st = Ok (st', ms) ->
  (forall c a, In (c, a) (tm_req st) ->
      a <= (if c =? caller then ledger st (recipient_of cw_sender recip) c + 1
            else ledger st (recipient_of cw_sender recip) c)) ->
  let r := recipient_of cw_sender recip in
  ms = [TMint r pick; TBurn caller tok] /\
  0 < tm_mintable st /\ In pick (tm_avail st) /\
  (forall c a, In (c, a) (tm_req st) -> ledger st' r c = 0) /\
  (forall r' c', r' <> r -> ledger st' r' c' = ledger st r' c') /\
  count st' r = count st r + 1 /\ (forall r', r' <> r -> count st' r' = count st r') /\
  tm_mintable st' + 1 = tm_mintable st /\ tm_avail st' = remove_tok pick (tm_avail st) /\
  tm_start st' = tm_start st /\ tm_limit st' = tm_limit st /\ tm_req st' = tm_req st /\ tm_admin st' = tm_admin st.
Proof. exact deposit_with_mint. Qed.

(* Only a required collection can credit: any other caller (a user account calling the
   hook directly, a foreign collection) is rejected. *)
Theorem C17_direct_call_rejected : forall now caller cw_sender recip tok pick st,
  ~ In caller (map fst (tm_req st)) -> receive now caller cw_sender recip tok pick st = Err.
Proof. exact direct_call_rejected_notin. Qed.

Theorem C17_not_after_start_rejected : forall now caller cw_sender recip tok pick st,
  now <= tm_start st -> receive now caller cw_sender recip tok pick st = Err.
Proof. exact not_after_start_rejected. Qed.

Theorem C17_at_limit_rejected : forall now caller cw_sender recip tok pick st,
  tm_limit st <= count st (recipient_of cw_sender recip) -> receive now caller cw_sender recip tok pick st = Err.
Proof. exact at_limit_rejected. Qed.

Theorem C17_beyond_requirement_rejected : forall now caller cw_sender recip tok pick st a,
  req_amount caller (tm_req st) = Some a -> a <= ledger st (recipient_of cw_sender recip) caller ->
  receive now caller cw_sender recip tok pick st = Err.
Proof. exact beyond_requirement_rejected. Qed.

(* a deposit that would complete the set after sell-out is rejected (nothing is burned) *)
Theorem C17_sold_out_completing_rejected : forall now caller cw_sender recip tok pick st,
  tm_mintable st = 0 ->
  (forall c a, In (c, a) (tm_req st) ->
      a <= (if c =? caller then ledger st (recipient_of cw_sender recip) c + 1
            else ledger st (recipient_of cw_sender recip) c)) ->
  receive now caller cw_sender recip tok pick st = Err.
Proof. exact sold_out_completing_rejected. Qed.

(* Over ALL histories of ALL entry points (deposits, MintTo/MintFor, Shuffle, Purge,
   BurnRemaining, UpdateStartTime, UpdatePerAddressLimit; failed calls leave no trace),
   starting from an empty ledger: for every recipient r and collection c required with
   amount a, the ledger never exceeds a, and
       (mints emitted to r by deposit steps) * a + ledger(r,c)
         = (Burn messages sent to c in deposit steps credited to r);
   a collection that is not required is never credited and nothing of it is ever burned.
   `cred`/`dmints` are counted from the emitted messages only (ghost_msgs). *)
Theorem C17_accounting_invariant : forall minter st0 h,
  tm_ledger st0 = [] ->
  let st := fst (grun minter h (st0, ghost0)) in
  let g := snd (grun minter h (st0, ghost0)) in
  tm_req st = tm_req st0 /\
  (forall r c a, req_amount c (tm_req st0) = Some a ->
     ledger st r c <= a /\ dmints g r * a + ledger st r c = cred g r c) /\
  (forall r c, req_amount c (tm_req st0) = None -> ledger st r c = 0 /\ cred g r c = 0).
Proof. exact accounting_invariant. Qed.

(* the same for requirement lists of distinct collections, stated with list membership *)
Theorem C17_accounting_invariant_distinct : forall minter st0 h,
  tm_ledger st0 = [] -> NoDup (map fst (tm_req st0)) ->
  let st := fst (grun minter h (st0, ghost0)) in
  let g := snd (grun minter h (st0, ghost0)) in
  (forall r c a, In (c, a) (tm_req st0) ->
     ledger st r c <= a /\ dmints g r * a + ledger st r c = cred g r c) /\
  (forall r c, ~ In c (map fst (tm_req st0)) -> ledger st r c = 0 /\ cred g r c = 0).
Proof. exact accounting_invariant_nodup. Qed.

(* no other entry point touches the ledger or the requirement list *)
Theorem C17_other_entry_points_frame : forall minter now op st st' ms,
  (forall a b c d e, op <> OReceive a b c d e) ->
  step minter now op st = Ok (st', ms) ->
  tm_ledger st' = tm_ledger st /\ tm_req st' = tm_req st.
Proof. exact step_other_frame. Qed.

(* World level (minter + source collections + target collection, messages executed in
   order, everything reverts on any failure). A rejected operation changes nothing: in
   particular the SendNft reverts and the token stays with its owner. *)
Theorem C17_world_rejected_unchanged : forall now op w w',
  wstep now op w = (w', false) -> w' = w.
Proof. exact wstep_rejected_unchanged. Qed.

(* An accepted SendNft deposit: the sender owned the token, afterwards the token does not
   exist (burned), every other source token is untouched; either nothing is minted, or
   the picked id, which did not exist, now belongs to the recipient and no other target
   token changes. *)
Theorem C17_world_deposit_burns : forall now coll caller tok wf recip pick w w',
  wstep now (WSend coll caller tok wf recip pick) w = (w', true) ->
  let r := recipient_of caller recip in
  caller <> 0 /\ src_owner w coll tok = caller /\ src_owner w' coll tok = 0 /\
  (forall c t, (c, t) <> (coll, tok) -> src_owner w' c t = src_owner w c t) /\
  exists ms, receive now coll caller recip tok pick (w_m w) = Ok (w_m w', ms) /\
    ((ms = [TBurn coll tok] /\ forall t, tgt_owner w' t = tgt_owner w t) \/
     (ms = [TMint r pick; TBurn coll tok] /\ tgt_owner w pick = 0 /\ tgt_owner w' pick = r /\
      forall t, t <> pick -> tgt_owner w' t = tgt_owner w t)).
Proof. exact wsend_ok. Qed.

(* an account (anything that is not a required collection) calling ReceiveNft itself *)
Theorem C17_world_direct_call_rejected : forall now caller cw_sender tok recip pick w,
  ~ In caller (map fst (tm_req (w_m w))) ->
  wstep now (WDirect caller cw_sender tok recip pick) w = (w, false).
Proof. exact wdirect_user_rejected. Qed.

(* ---------- non-vacuity: concrete evaluations ---------- *)
(* requirements: 2 of collection 21, 1 of collection 22; start 1000; limit 2; 3 tokens *)
Example C17_ex_partial_deposit :
  receive 1001 21 11 None 101 0 (mkTm 5 1000 2 3 [(21, 2); (22, 1)] 50 0 500 3 [1; 2; 3] [] [])
  = Ok (mkTm 5 1000 2 3 [(21, 2); (22, 1)] 50 0 500 3 [1; 2; 3] [] [((11, 21), 1)], [TBurn 21 101]).
Proof. vm_compute. reflexivity. Qed.

Example C17_ex_completing_deposit :
  receive 1001 22 11 None 201 3 (mkTm 5 1000 2 3 [(21, 2); (22, 1)] 50 0 500 3 [1; 2; 3] [] [((11, 21), 2)])
  = Ok (mkTm 5 1000 2 3 [(21, 2); (22, 1)] 50 0 500 2 [1; 2] [(11, 1)] [], [TMint 11 3; TBurn 22 201]).
Proof. vm_compute. reflexivity. Qed.

Example C17_ex_at_start_rejected :
  receive 1000 21 11 None 101 0 (mkTm 5 1000 2 3 [(21, 2); (22, 1)] 50 0 500 3 [1; 2; 3] [] []) = Err.
Proof. vm_compute. reflexivity. Qed.

Example C17_ex_explicit_recipient :
  receive 1001 21 11 (Some 14) 101 0 (mkTm 5 1000 2 3 [(21, 2); (22, 1)] 50 0 500 3 [1; 2; 3] [] [])
  = Ok (mkTm 5 1000 2 3 [(21, 2); (22, 1)] 50 0 500 3 [1; 2; 3] [] [((14, 21), 1)], [TBurn 21 101]).
Proof. vm_compute. reflexivity. Qed.

(* a whole history in the world: user 11 sends tokens 101, 102 of collection 21 and 201 of
   22; the third deposit mints target token 2 to user 11 and all three are burned *)
Example C17_ex_world_history :
  let w0 := mkWorld (mkTm 5 1000 2 3 [(21, 2); (22, 1)] 50 0 500 3 [1; 2; 3] [] []) 7
                    [((21, 101), 11); ((21, 102), 11); ((22, 201), 11)] [] in
  let '(w1, ok1) := wstep 1001 (WSend 21 11 101 true None 0) w0 in
  let '(w2, ok2) := wstep 1002 (WSend 21 11 102 true None 0) w1 in
  let '(w3, ok3) := wstep 1003 (WSend 22 11 201 true None 2) w2 in
  (ok1, ok2, ok3) = (true, true, true) /\ w_src w3 = [] /\ w_tgt w3 = [(2, 11)] /\
  tm_ledger (w_m w3) = [] /\ tm_counts (w_m w3) = [(11, 1)] /\ tm_mintable (w_m w3) = 2.
Proof. vm_compute. repeat split; reflexivity. Qed.

(* the accounting identity on that history: one mint, 2 + 1 burns credited *)
Example C17_ex_accounting :
  let st0 := mkTm 5 1000 2 3 [(21, 2); (22, 1)] 50 0 500 3 [1; 2; 3] [] [] in
  let h := [(1001, OReceive 21 11 None 101 0); (1002, OReceive 21 11 None 102 0);
            (1003, OReceive 22 11 None 201 2); (1004, OReceive 21 11 None 103 0)] in
  let g := snd (grun 7 h (st0, ghost0)) in
  dmints g 11 = 1 /\ cred g 11 21 = 3 /\ cred g 11 22 = 1 /\ ledger (fst (grun 7 h (st0, ghost0))) 11 21 = 1.
Proof. vm_compute. repeat split; reflexivity. Qed.

(* Recorded behaviour the property text does not forbid (reported to the lead): after
   sell-out a deposit that does not complete the set is still accepted and burned,
   although no mint can follow (the completing one is refused, see
   C17_sold_out_completing_rejected). *)
Example C17_ex_sold_out_partial_deposit_burns :
  exists st', receive 1001 21 12 None 101 0 (mkTm 5 1000 2 1 [(21, 2)] 50 0 500 0 [] [(11, 1)] [])
              = Ok (st', [TBurn 21 101]) /\ tm_mintable st' = 0.
Proof. eexists. vm_compute. split; reflexivity. Qed.

Print Assumptions C17_deposit_ok_guards.
Print Assumptions C17_mints_iff_complete.
Print Assumptions C17_deposit_without_mint.
Print Assumptions C17_deposit_with_mint.
Print Assumptions C17_direct_call_rejected.
Print Assumptions C17_not_after_start_rejected.
Print Assumptions C17_at_limit_rejected.
Print Assumptions C17_beyond_requirement_rejected.
Print Assumptions C17_sold_out_completing_rejected.
Print Assumptions C17_accounting_invariant.
Print Assumptions C17_accounting_invariant_distinct.
Print Assumptions C17_other_entry_points_frame.
Print Assumptions C17_world_rejected_unchanged.
Print Assumptions C17_world_deposit_burns.
Print Assumptions C17_world_direct_call_rejected.


(* =====================================================================================
   Migrations and governance.  `tm_migrate is_admin stored st` is the minter's `migrate`
   entry point called on a contract whose cw2 info is `stored` (the accept/refuse logic is
   the one property C20 is stated over, model/Migrate.v); `tm_sudo_params` is what a sudo
   UpdateParams on the factory means for one existing minter (it re-reads the factory's
   max_per_address_limit, airdrop price and shuffle fee on every call).  The theorems
   above are extended to histories (`hstep`) that interleave entry points, migrations
   (accepted or refused, by anyone, from any stored info) and governance.
   ===================================================================================== *)
From Coq Require Import String.
From LP Require Import TokenMergeMigrate TokenMergeMigrateProofs.

(* migrate never touches the token-merge state: ledger, mint counts, supply, start time,
   limit, requirement list -- whatever the stored cw2 info; only the wasm admin gets through *)
Theorem C17_migrate_preserves_state : forall is_admin stored st st' c',
  tm_migrate is_admin stored st = Ok (st', c') -> st' = st.
Proof. exact tm_migrate_frame. Qed.

Theorem C17_migrate_needs_admin : forall stored st, tm_migrate false stored st = Err.
Proof. exact tm_migrate_not_admin. Qed.

(* an accepted migrate found the minter's own name and leaves either the stored info (same
   version) or the code's own name and version *)
Theorem C17_migrate_cw2 : forall is_admin stored st st' c',
  tm_migrate is_admin stored st = Ok (st', c') ->
  is_admin = true /\ fst stored = Migrate.own_name Migrate.TokenMergeMinter /\
  (c' = stored \/
   c' = (Migrate.own_name Migrate.TokenMergeMinter, Migrate.code_version_string Migrate.TokenMergeMinter)).
Proof. exact tm_migrate_cw2. Qed.

(* governance moves the three factory-side numbers only; in particular an existing minter's own
   per-address limit, ledger, mint counts, start time and supply are not touched *)
Theorem C17_sudo_params_frame : forall mx ap sf st,
  let st' := tm_sudo_params mx ap sf st in
  tm_ledger st' = tm_ledger st /\ tm_counts st' = tm_counts st /\ tm_req st' = tm_req st /\
  tm_limit st' = tm_limit st /\ tm_start st' = tm_start st /\ tm_admin st' = tm_admin st /\
  tm_num_tokens st' = tm_num_tokens st /\ tm_mintable st' = tm_mintable st /\ tm_avail st' = tm_avail st /\
  tm_max_limit st' = opt_or mx (tm_max_limit st) /\ tm_airdrop_price st' = opt_or ap (tm_airdrop_price st) /\
  tm_shuffle_fee st' = opt_or sf (tm_shuffle_fee st).
Proof. exact tm_sudo_frame. Qed.

(* the accounting invariant over all histories interleaving entry points, migrations and governance *)
Theorem C17_accounting_invariant_with_migrations : forall minter st0 (h : list hstep),
  tm_ledger st0 = [] ->
  let st := fst (gxrun minter h (st0, ghost0)) in
  let g := snd (gxrun minter h (st0, ghost0)) in
  tm_req st = tm_req st0 /\
  (forall r c a, req_amount c (tm_req st0) = Some a ->
     ledger st r c <= a /\ dmints g r * a + ledger st r c = cred g r c) /\
  (forall r c, req_amount c (tm_req st0) = None -> ledger st r c = 0 /\ cred g r c = 0).
Proof. exact accounting_invariant_x. Qed.

(* world level: a migrate step, accepted or refused, leaves the whole world as it was *)
Theorem C17_world_migrate_unchanged : forall now is_admin stored w w' ok c',
  wxstep now (XMigrate is_admin stored) w = (w', ok, c') ->
  w' = w /\ (ok = true -> is_admin = true) /\ (ok = false -> c' = Some stored).
Proof. exact wxstep_migrate. Qed.

Theorem C17_world_sudo_frame : forall now mx ap sf w w' ok c',
  wxstep now (XSudo mx ap sf) w = (w', ok, c') ->
  ok = true /\ w_src w' = w_src w /\ w_tgt w' = w_tgt w /\ w_minter w' = w_minter w /\
  w_m w' = tm_sudo_params mx ap sf (w_m w).
Proof. exact wxstep_sudo. Qed.

(* non-vacuity: a history with a partial deposit, an accepted migrate from 0.0.1, a refused one,
   governance lowering the factory maximum, and the completing deposit *)
Example C17_ex_history_with_migrations :
  let st0 := mkTm 5 1000 2 3 [(21, 2)] 50 0 500 3 [1; 2; 3] [] [] in
  let h := [HOp 1001 (OReceive 21 11 None 101 0);
            HMigrate true ("crates.io:sg-minter"%string, "0.0.1"%string);
            HMigrate false ("crates.io:sg-minter"%string, "0.0.1"%string);
            HSudo (Some 1) None None;
            HOp 1002 (OReceive 21 11 None 102 2)] in
  let s := gxrun 7 h (st0, ghost0) in
  (tm_ledger (fst s), tm_counts (fst s), tm_mintable (fst s), tm_limit (fst s), tm_max_limit (fst s),
   dmints (snd s) 11, cred (snd s) 11 21) = ([], [(11, 1)], 2, 2, 1, 1, 2).
Proof. vm_compute. reflexivity. Qed.

Example C17_ex_migrate_accepts_older_refuses_newer :
  is_ok (tm_migrate true ("crates.io:sg-minter"%string, "0.0.1"%string) (mkTm 5 1000 2 3 [(21, 2)] 50 0 500 3 [1; 2; 3] [] [])) = true /\
  is_ok (tm_migrate true ("crates.io:sg-minter"%string, "99.0.0"%string) (mkTm 5 1000 2 3 [(21, 2)] 50 0 500 3 [1; 2; 3] [] [])) = false /\
  is_ok (tm_migrate true ("crates.io:vending-minter"%string, "0.0.1"%string) (mkTm 5 1000 2 3 [(21, 2)] 50 0 500 3 [1; 2; 3] [] [])) = false.
Proof. vm_compute. repeat split; reflexivity. Qed.

Print Assumptions C17_migrate_preserves_state.
Print Assumptions C17_migrate_needs_admin.
Print Assumptions C17_migrate_cw2.
Print Assumptions C17_sudo_params_frame.
Print Assumptions C17_accounting_invariant_with_migrations.
Print Assumptions C17_world_migrate_unchanged.
Print Assumptions C17_world_sudo_frame.
