(* C18 — Governance updates take effect exactly as submitted.
   Statements only; each closed by `exact <lemma>`.  `unwrap_or o d` is "the supplied value
   if the field was supplied, otherwise the previous one"; NATIVE is the denom "ustars".
   Numbers range over all of N, hence over every u32/u64/u128 the messages can carry. *)
From Coq Require Import String.
From LP Require Import Params Status Consts ParamsProofs StatusProofs Sg1 Factory C18FactoryProofs.
Import ListNotations.
Local Open Scope N_scope.

Theorem C18_native_denom_is_ustars : sg_utils__NATIVE_DENOM = "ustars"%string.
Proof. reflexivity. Qed.

(* ---- base-factory (and the shared `update_params`) ---- *)
(* every scalar field: supplied value or the previous one; code ids: exactly
   dedup-of-consecutive after pushing the additions, then the removals (list level), which
   is union-then-difference (set level: additions before removals); an accepted update
   never carries a non-native minimum mint price *)
Theorem C18_base_update_frame : forall p m p', base_sudo p m = Ok p' ->
  cp_code_id p' = unwrap_or (cm_code_id m) (cp_code_id p) /\
  cp_frozen p' = unwrap_or (cm_frozen m) (cp_frozen p) /\
  cp_creation_fee p' = unwrap_or (cm_creation_fee m) (cp_creation_fee p) /\
  cp_min_mint_price p' = unwrap_or (cm_min_mint_price m) (cp_min_mint_price p) /\
  cp_mint_fee_bps p' = unwrap_or (cm_mint_fee_bps m) (cp_mint_fee_bps p) /\
  cp_offset p' = unwrap_or (cm_offset m) (cp_offset p) /\
  (forall x, In x (cp_allowed p') <->
             In x (dedup (cp_allowed p ++ unwrap_or (cm_add m) [])) /\ ~ In x (unwrap_or (cm_rm m) [])) /\
  (forall x, In x (cp_allowed p') <->
             (In x (cp_allowed p) \/ In x (unwrap_or (cm_add m) [])) /\ ~ In x (unwrap_or (cm_rm m) [])) /\
  (forall c, cm_min_mint_price m = Some c -> c_denom c = NATIVE).
Proof. exact base_update_frame. Qed.

(* refused exactly when the minimum mint price would move to a non-native denom; nothing
   else is ever refused.  A refusal carries no state: the parameters stay as they were. *)
Theorem C18_base_non_native_min_refused : forall p m,
  base_sudo p m = Err <-> exists c, cm_min_mint_price m = Some c /\ c_denom c <> NATIVE.
Proof. exact base_refusal. Qed.

(* the id list in general, as the three factories that share it and token-merge compute it *)
Theorem C18_code_ids_list_level : forall ids add rm x,
  In x (update_code_ids ids add rm) <->
  In x (dedup (ids ++ unwrap_or add [])) /\ ~ In x (unwrap_or rm []).
Proof. exact update_code_ids_In. Qed.

Theorem C18_code_ids_set_level : forall ids add rm x,
  In x (update_code_ids ids add rm) <->
  (In x ids \/ In x (unwrap_or add [])) /\ ~ In x (unwrap_or rm []).
Proof. exact update_code_ids_set. Qed.

Theorem C18_dedup_is_consecutive_only : dedup [3; 5; 3] = [3; 5; 3].
Proof. exact dedup_keeps_nonadjacent. Qed.

Theorem C18_allowed_id_query : forall ids x, q_allowed_id ids x = true <-> In x ids.
Proof. exact q_allowed_id_In. Qed.

(* ---- vending-factory ---- *)
Theorem C18_vending_update_frame : forall p m p', vending_sudo p m = Ok p' ->
  (let c := vp_common p in let c' := vp_common p' in let cm := vm_common m in
   cp_code_id c' = unwrap_or (cm_code_id cm) (cp_code_id c) /\
   cp_frozen c' = unwrap_or (cm_frozen cm) (cp_frozen c) /\
   cp_creation_fee c' = unwrap_or (cm_creation_fee cm) (cp_creation_fee c) /\
   cp_min_mint_price c' = unwrap_or (cm_min_mint_price cm) (cp_min_mint_price c) /\
   cp_mint_fee_bps c' = unwrap_or (cm_mint_fee_bps cm) (cp_mint_fee_bps c) /\
   cp_offset c' = unwrap_or (cm_offset cm) (cp_offset c) /\
   cp_allowed c' = update_code_ids (cp_allowed c) (cm_add cm) (cm_rm cm) /\
   (forall d, cm_min_mint_price cm = Some d -> c_denom d = NATIVE)) /\
  (let x := vp_ext p in let x' := vp_ext p' in let xm := vm_ext m in
   vx_max_token_limit x' = unwrap_or (vxm_max_token_limit xm) (vx_max_token_limit x) /\
   vx_max_per_address_limit x' = unwrap_or (vxm_max_per_address_limit xm) (vx_max_per_address_limit x) /\
   vx_airdrop_mint_price x' = unwrap_or (vxm_airdrop_mint_price xm) (vx_airdrop_mint_price x) /\
   vx_airdrop_mint_fee_bps x' = unwrap_or (vxm_airdrop_mint_fee_bps xm) (vx_airdrop_mint_fee_bps x) /\
   vx_shuffle_fee x' = unwrap_or (vxm_shuffle_fee xm) (vx_shuffle_fee x) /\
   (forall d, vxm_airdrop_mint_price xm = Some d -> c_denom d = NATIVE) /\
   (forall d, vxm_shuffle_fee xm = Some d -> c_denom d = NATIVE)).
Proof.
  exact (fun p m p' H =>
    conj (proj1 (vending_update_frame p m p' H))
         (vext_update_frame _ _ _ (proj2 (vending_update_frame p m p' H)))).
Qed.

Theorem C18_vending_refusal : forall p m,
  vending_sudo p m = Err <->
  (exists c, cm_min_mint_price (vm_common m) = Some c /\ c_denom c <> NATIVE) \/
  (exists c, vxm_airdrop_mint_price (vm_ext m) = Some c /\ c_denom c <> NATIVE) \/
  (exists c, vxm_shuffle_fee (vm_ext m) = Some c /\ c_denom c <> NATIVE).
Proof. exact vending_refusal. Qed.

(* ---- open-edition-factory ---- *)
(* the airdrop price has no native-denom requirement here; the message's
   extension.min_mint_price has no slot in the parameters and changes nothing *)
Theorem C18_oe_update_frame : forall p m p', oe_sudo p m = Ok p' ->
  (let c := op_common p in let c' := op_common p' in let cm := om_common m in
   cp_code_id c' = unwrap_or (cm_code_id cm) (cp_code_id c) /\
   cp_frozen c' = unwrap_or (cm_frozen cm) (cp_frozen c) /\
   cp_creation_fee c' = unwrap_or (cm_creation_fee cm) (cp_creation_fee c) /\
   cp_min_mint_price c' = unwrap_or (cm_min_mint_price cm) (cp_min_mint_price c) /\
   cp_mint_fee_bps c' = unwrap_or (cm_mint_fee_bps cm) (cp_mint_fee_bps c) /\
   cp_offset c' = unwrap_or (cm_offset cm) (cp_offset c) /\
   cp_allowed c' = update_code_ids (cp_allowed c) (cm_add cm) (cm_rm cm) /\
   (forall d, cm_min_mint_price cm = Some d -> c_denom d = NATIVE)) /\
  op_ext p' =
  (let x := op_ext p in let xm := om_ext m in
   {| ox_max_token_limit := unwrap_or (oxm_max_token_limit xm) (ox_max_token_limit x);
      ox_max_per_address_limit := unwrap_or (oxm_max_per_address_limit xm) (ox_max_per_address_limit x);
      ox_airdrop_mint_fee_bps := unwrap_or (oxm_airdrop_mint_fee_bps xm) (ox_airdrop_mint_fee_bps x);
      ox_airdrop_mint_price := unwrap_or (oxm_airdrop_mint_price xm) (ox_airdrop_mint_price x);
      ox_dev_fee_address := unwrap_or (oxm_dev_fee_address xm) (ox_dev_fee_address x) |}).
Proof. exact oe_update_frame. Qed.

Theorem C18_oe_non_native_min_refused : forall p m,
  oe_sudo p m = Err <-> exists c, cm_min_mint_price (om_common m) = Some c /\ c_denom c <> NATIVE.
Proof. exact oe_refusal. Qed.

Theorem C18_oe_extension_min_mint_price_is_dead : forall p c a b d e f g z,
  oe_sudo p (mkOM c (mkOXM a b d e f g)) = oe_sudo p (mkOM c (mkOXM a b z e f g)).
Proof. exact oe_ext_min_mint_price_dead. Qed.

(* ---- token-merge-factory (no minimum mint price, no mint fee in its structure) ---- *)
Theorem C18_tm_update_frame : forall p m p', tm_sudo p m = Ok p' ->
  tp_code_id p' = unwrap_or (tm_code_id m) (tp_code_id p) /\
  tp_frozen p' = unwrap_or (tm_frozen m) (tp_frozen p) /\
  tp_creation_fee p' = unwrap_or (tm_creation_fee m) (tp_creation_fee p) /\
  tp_offset p' = unwrap_or (tm_offset m) (tp_offset p) /\
  tp_max_token_limit p' = unwrap_or (vxm_max_token_limit (tm_ext m)) (tp_max_token_limit p) /\
  tp_max_per_address_limit p' = unwrap_or (vxm_max_per_address_limit (tm_ext m)) (tp_max_per_address_limit p) /\
  tp_airdrop_mint_price p' = unwrap_or (vxm_airdrop_mint_price (tm_ext m)) (tp_airdrop_mint_price p) /\
  tp_airdrop_mint_fee_bps p' = unwrap_or (vxm_airdrop_mint_fee_bps (tm_ext m)) (tp_airdrop_mint_fee_bps p) /\
  tp_shuffle_fee p' = unwrap_or (vxm_shuffle_fee (tm_ext m)) (tp_shuffle_fee p) /\
  tp_allowed p' = update_code_ids (tp_allowed p) (tm_add m) (tm_rm m) /\
  (forall c, vxm_airdrop_mint_price (tm_ext m) = Some c -> c_denom c = NATIVE) /\
  (forall c, vxm_shuffle_fee (tm_ext m) = Some c -> c_denom c = NATIVE).
Proof. exact tm_update_frame. Qed.

Theorem C18_tm_refusal : forall p m,
  tm_sudo p m = Err <->
  (exists c, vxm_airdrop_mint_price (tm_ext m) = Some c /\ c_denom c <> NATIVE) \/
  (exists c, vxm_shuffle_fee (tm_ext m) = Some c /\ c_denom c <> NATIVE).
Proof. exact tm_refusal. Qed.

(* ---- update_params changes nothing but the parameters (any factory, any `rest`) ---- *)
Theorem C18_update_params_touches_only_params :
  forall (P M R : Type) (upd : P -> M -> result P) (s s' : fstate P R) (m : M),
  fstate_sudo upd s m = Ok s' ->
  fs_rest s' = fs_rest s /\ upd (fs_params s) m = Ok (fs_params s').
Proof. exact fstate_sudo_frame. Qed.

(* ---- sequences of updates: per field, the last accepted message that supplied it wins;
   refused messages are skipped (base factory spelled out; the lemma is generic) ---- *)
Theorem C18_sequence_last_writer :
  forall (P M A : Type) (upd : P -> M -> result P) (acc : M -> bool) (g : P -> A) (mg : M -> option A),
  (forall p m p', upd p m = Ok p' -> acc m = true /\ g p' = unwrap_or (mg m) (g p)) ->
  (forall p m, upd p m = Err -> acc m = false) ->
  forall ms p,
    g (apply_seq upd p ms) = fold_left (fun a m => unwrap_or (mg m) a) (filter acc ms) (g p).
Proof. exact apply_seq_last_writer. Qed.

Theorem C18_base_sequence : forall ms p,
  let acc := filter (fun m => match cm_min_mint_price m with
                              | Some c => c_denom c =? NATIVE | None => true end) ms in
  let q := apply_seq base_sudo p ms in
  cp_code_id q = fold_left (fun a m => unwrap_or (cm_code_id m) a) acc (cp_code_id p) /\
  cp_frozen q = fold_left (fun a m => unwrap_or (cm_frozen m) a) acc (cp_frozen p) /\
  cp_creation_fee q = fold_left (fun a m => unwrap_or (cm_creation_fee m) a) acc (cp_creation_fee p) /\
  cp_min_mint_price q = fold_left (fun a m => unwrap_or (cm_min_mint_price m) a) acc (cp_min_mint_price p) /\
  cp_mint_fee_bps q = fold_left (fun a m => unwrap_or (cm_mint_fee_bps m) a) acc (cp_mint_fee_bps p) /\
  cp_offset q = fold_left (fun a m => unwrap_or (cm_offset m) a) acc (cp_offset p).
Proof. exact base_sequence_scalars. Qed.

(* ---- minter status: one model for the eleven minters (see model/Status.v) ---- *)
Theorem C18_status_roundtrip : forall (R : Type) (k : minter_kind) (s : minter_state R) (v b e : bool),
  exists s', sudo_update_status k s v b e = Ok s' /\ query_status s' = (v, b, e).
Proof. exact status_roundtrip. Qed.

Theorem C18_status_touches_only_status : forall (R : Type) k (s s' : minter_state R) v b e,
  sudo_update_status k s v b e = Ok s' -> ms_rest s' = ms_rest s.
Proof. exact status_frame. Qed.

Theorem C18_status_initial : forall (R : Type) k (rest : R),
  query_status (minter_instantiate k rest) = (false, false, false).
Proof. exact status_initial. Qed.

Theorem C18_status_sequence : forall (R : Type) k fs (s : minter_state R),
  query_status (apply_status_seq k s fs) = last fs (query_status s) /\
  ms_rest (apply_status_seq k s fs) = ms_rest s.
Proof. exact status_sequence_last. Qed.

Theorem C18_eleven_minters : length all_minter_kinds = 11%nat.
Proof. reflexivity. Qed.

(* ---- creations observe the new parameters ---- *)
(* fee_paid exact fee funds: exactly one coin, of the fee's denom, non-zero, and at least
   (open edition: exactly) the fee *)
Theorem C18_fee_paid_meaning : forall exact fee funds,
  fee_paid exact fee funds <->
  exists pay, funds = [mkCoin (c_denom fee) pay] /\ pay <> 0 /\
              (if exact then pay = c_amount fee else c_amount fee <= pay).
Proof. exact fee_paid_meaning. Qed.

Theorem C18_base_creations_observe_new_params : forall p m p' r, base_sudo p m = Ok p' ->
  (base_create p' r = Ok tt <->
   fee_paid false (unwrap_or (cm_creation_fee m) (cp_creation_fee p)) (br_funds r) /\
   ((In (br_code_id r) (cp_allowed p) \/ In (br_code_id r) (unwrap_or (cm_add m) [])) /\
    ~ In (br_code_id r) (unwrap_or (cm_rm m) [])) /\
   unwrap_or (cm_frozen m) (cp_frozen p) = false).
Proof. exact base_creations_observe. Qed.

Theorem C18_vending_creations_observe_new_params : forall p m p' r, vending_sudo p m = Ok p' ->
  let c := vp_common p in let cm := vm_common m in let x := vp_ext p in let xm := vm_ext m in
  let mmp := unwrap_or (cm_min_mint_price cm) (cp_min_mint_price c) in
  (vending_create p' r = Ok tt <->
   fee_paid false (unwrap_or (cm_creation_fee cm) (cp_creation_fee c)) (vr_funds r) /\
   ((In (vr_code_id r) (cp_allowed c) \/ In (vr_code_id r) (unwrap_or (cm_add cm) [])) /\
    ~ In (vr_code_id r) (unwrap_or (cm_rm cm) [])) /\
   unwrap_or (cm_frozen cm) (cp_frozen c) = false /\
   (1 <= vr_num_tokens r /\ vr_num_tokens r <= unwrap_or (vxm_max_token_limit xm) (vx_max_token_limit x)) /\
   (1 <= vr_per_address_limit r /\
    vr_per_address_limit r <= unwrap_or (vxm_max_per_address_limit xm) (vx_max_per_address_limit x)) /\
   c_denom mmp = c_denom (vr_mint_price r) /\ c_amount mmp <= c_amount (vr_mint_price r)).
Proof. exact vending_creations_observe. Qed.

Theorem C18_oe_creations_observe_new_params : forall p m p' r, oe_sudo p m = Ok p' ->
  let c := op_common p in let cm := om_common m in let x := op_ext p in let xm := om_ext m in
  let mmp := unwrap_or (cm_min_mint_price cm) (cp_min_mint_price c) in
  (oe_create p' r = Ok tt <->
   fee_paid true (unwrap_or (cm_creation_fee cm) (cp_creation_fee c)) (or_funds r) /\
   ((In (or_code_id r) (cp_allowed c) \/ In (or_code_id r) (unwrap_or (cm_add cm) [])) /\
    ~ In (or_code_id r) (unwrap_or (cm_rm cm) [])) /\
   unwrap_or (cm_frozen cm) (cp_frozen c) = false /\
   (forall n, or_num_tokens r = Some n ->
      1 <= n /\ n <= unwrap_or (oxm_max_token_limit xm) (ox_max_token_limit x)) /\
   (1 <= or_per_address_limit r /\
    or_per_address_limit r <= unwrap_or (oxm_max_per_address_limit xm) (ox_max_per_address_limit x)) /\
   (or_has_end_time r = true \/ or_num_tokens r <> None) /\
   c_amount mmp <= c_amount (or_mint_price r) /\ c_denom mmp = c_denom (or_mint_price r) /\
   (or_num_tokens r = None ->
      c_amount (or_mint_price r) <> 0 /\
      c_amount (unwrap_or (oxm_airdrop_mint_price xm) (ox_airdrop_mint_price x)) <> 0)).
Proof. exact oe_creations_observe. Qed.

Theorem C18_tm_creations_observe_new_params : forall p m p' r, tm_sudo p m = Ok p' ->
  (tm_create p' r = Ok tt <->
   fee_paid false (unwrap_or (tm_creation_fee m) (tp_creation_fee p)) (tr_funds r) /\
   ((In (tr_code_id r) (tp_allowed p) \/ In (tr_code_id r) (unwrap_or (tm_add m) [])) /\
    ~ In (tr_code_id r) (unwrap_or (tm_rm m) [])) /\
   unwrap_or (tm_frozen m) (tp_frozen p) = false /\
   (1 <= tr_num_tokens r /\
    tr_num_tokens r <= unwrap_or (vxm_max_token_limit (tm_ext m)) (tp_max_token_limit p)) /\
   (1 <= tr_per_address_limit r /\
    tr_per_address_limit r <= unwrap_or (vxm_max_per_address_limit (tm_ext m)) (tp_max_per_address_limit p))).
Proof. exact tm_creations_observe. Qed.

(* the directed shapes the harness replays *)
Theorem C18_freeze_blocks_creation : forall p m p' r,
  base_sudo p m = Ok p' -> cm_frozen m = Some true -> base_create p' r = Err.
Proof. exact freeze_blocks_creation. Qed.

Theorem C18_removed_code_id_blocks_creation : forall p m p' r rm,
  base_sudo p m = Ok p' -> cm_rm m = Some rm -> In (br_code_id r) rm -> base_create p' r = Err.
Proof. exact removed_code_id_blocks_creation. Qed.

Theorem C18_raised_fee_blocks_old_payment : forall p m p' r f pay,
  base_sudo p m = Ok p' -> cm_creation_fee m = Some f ->
  br_funds r = [mkCoin (c_denom f) pay] -> pay < c_amount f -> base_create p' r = Err.
Proof. exact raised_fee_blocks_old_payment. Qed.

Theorem C18_lowered_token_limit_blocks_old_max : forall p m p' r n,
  vending_sudo p m = Ok p' -> vxm_max_token_limit (vm_ext m) = Some n ->
  n < vr_num_tokens r -> vending_create p' r = Err.
Proof. exact lowered_token_limit_blocks_old_max. Qed.

(* ---- the creation fee governance supplied is the fee creations pay (Factory.v's
   factory_create, the C08 model of execute_create_minter incl. the sg1 fee helpers) ---- *)
(* after an accepted update that supplied creation_fee = f, each factory's parameters carry f *)
Theorem C18_supplied_fee_is_carried :
  (forall p m p' f, base_sudo p m = Ok p' -> cm_creation_fee m = Some f -> cp_creation_fee p' = f) /\
  (forall p m p' f, vending_sudo p m = Ok p' -> cm_creation_fee (vm_common m) = Some f ->
                    cp_creation_fee (vp_common p') = f) /\
  (forall p m p' f, oe_sudo p m = Ok p' -> cm_creation_fee (om_common m) = Some f ->
                    cp_creation_fee (op_common p') = f) /\
  (forall p m p' f, tm_sudo p m = Ok p' -> tm_creation_fee m = Some f -> tp_creation_fee p' = f).
Proof. exact (conj base_supplied_fee (conj vending_supplied_fee (conj oe_supplied_fee tm_supplied_fee))). Qed.

(* whenever the stored parameters carry the fee f (amount and denom), an accepted creation on
   ANY factory paid exactly one coin, in f's denom, non-zero, at least f (open edition: exactly f) *)
Theorem C18_accepted_creation_paid_the_carried_fee : forall k self g now funds r ms f,
  g_fee g = c_amount f /\ g_fee_denom g = c_denom f ->
  factory_create k self g now funds r = Ok ms ->
  exists paid, funds = [mkCoin (c_denom f) paid] /\ paid <> 0 /\ c_amount f <= paid /\
               (k = FOpen -> paid = c_amount f).
Proof. exact create_pays_fee. Qed.

Theorem C18_underpaying_the_carried_fee_is_refused : forall k self g now r f paid,
  g_fee g = c_amount f /\ g_fee_denom g = c_denom f -> paid < c_amount f ->
  factory_create k self g now [mkCoin (c_denom f) paid] r = Err.
Proof. exact underpay_refused. Qed.

Theorem C18_paying_in_another_denom_is_refused : forall k self g now r f d paid,
  g_fee g = c_amount f /\ g_fee_denom g = c_denom f -> d <> c_denom f ->
  factory_create k self g now [mkCoin d paid] r = Err.
Proof. exact other_denom_refused. Qed.

(* base factory, both directions: accepted iff the payment rule for f holds, the collection code
   is allowed and the factory is not frozen (native or not: the fee stage never refuses a
   payment of at least f) *)
Theorem C18_base_creation_iff_payment_rule : forall self g now funds r f,
  g_fee g = c_amount f /\ g_fee_denom g = c_denom f ->
  ((exists ms, factory_create FBase self g now funds r = Ok ms) <->
   (exists paid, funds = [mkCoin (c_denom f) paid] /\ paid <> 0 /\ c_amount f <= paid /\
                 (FBase = FOpen -> paid = c_amount f)) /\
   In (r_coll_code r) (g_allowed g) /\ g_frozen g = false).
Proof. exact base_create_iff_rule. Qed.

(* the network fee a mint pays under the factory's current mint_fee_bps *)
Theorem C18_mint_fee_reads_bps : forall price bps, mint_network_fee price bps = price * bps / 10000.
Proof. exact mint_network_fee_bps. Qed.

(* ---- non-vacuity: concrete evaluations ---- *)
(* add [5;5;7], rm [5]: 5 is gone although it was also added; 7 arrives *)
Example C18_ex_add_then_rm :
  base_sudo (mkCP 1 [3; 5] false (mkCoin NATIVE 5000000000) (mkCoin NATIVE 50000000) 1000 604800)
             (mkCM None (Some [5; 5; 7]) (Some [5]) None None None None None) =
  Ok (mkCP 1 [3; 7] false (mkCoin NATIVE 5000000000) (mkCoin NATIVE 50000000) 1000 604800).
Proof. vm_compute. reflexivity. Qed.

(* adding an id that is present but not adjacent keeps both copies in the list *)
Example C18_ex_nonadjacent_duplicate :
  base_sudo (mkCP 1 [3; 5] false (mkCoin NATIVE 5000000000) (mkCoin NATIVE 50000000) 1000 604800)
             (mkCM None (Some [3]) None None None None None None) =
  Ok (mkCP 1 [3; 5; 3] false (mkCoin NATIVE 5000000000) (mkCoin NATIVE 50000000) 1000 604800).
Proof. vm_compute. reflexivity. Qed.

Example C18_ex_partial_update :
  base_sudo (mkCP 1 [3; 5] false (mkCoin NATIVE 5000000000) (mkCoin NATIVE 50000000) 1000 604800)
             (mkCM (Some 77) None None (Some true) None None (Some 0) None) =
  Ok (mkCP 77 [3; 5] true (mkCoin NATIVE 5000000000) (mkCoin NATIVE 50000000) 0 604800).
Proof. vm_compute. reflexivity. Qed.

Example C18_ex_non_native_min_refused :
  base_sudo (mkCP 1 [3; 5] false (mkCoin NATIVE 5000000000) (mkCoin NATIVE 50000000) 1000 604800)
             (mkCM (Some 77) None None None None (Some (mkCoin 4 1)) None None) = Err.
Proof. vm_compute. reflexivity. Qed.

Example C18_ex_frozen_then_creation_fails :
  base_create (mkCP 1 [3; 5] true (mkCoin NATIVE 10) (mkCoin NATIVE 1) 0 0) (mkBR [mkCoin NATIVE 10] 3) = Err /\
  base_create (mkCP 1 [3; 5] false (mkCoin NATIVE 10) (mkCoin NATIVE 1) 0 0) (mkBR [mkCoin NATIVE 10] 3) = Ok tt.
Proof. vm_compute. split; reflexivity. Qed.

Example C18_ex_status :
  query_status (apply_status_seq MOpenEdition (minter_instantiate MOpenEdition tt)
                                 [(true, true, true); (false, true, false)]) = (false, true, false).
Proof. vm_compute. reflexivity. Qed.

Print Assumptions C18_native_denom_is_ustars.
Print Assumptions C18_base_update_frame.
Print Assumptions C18_base_non_native_min_refused.
Print Assumptions C18_code_ids_list_level.
Print Assumptions C18_code_ids_set_level.
Print Assumptions C18_dedup_is_consecutive_only.
Print Assumptions C18_allowed_id_query.
Print Assumptions C18_vending_update_frame.
Print Assumptions C18_vending_refusal.
Print Assumptions C18_oe_update_frame.
Print Assumptions C18_oe_non_native_min_refused.
Print Assumptions C18_oe_extension_min_mint_price_is_dead.
Print Assumptions C18_tm_update_frame.
Print Assumptions C18_tm_refusal.
Print Assumptions C18_update_params_touches_only_params.
Print Assumptions C18_sequence_last_writer.
Print Assumptions C18_base_sequence.
Print Assumptions C18_status_roundtrip.
Print Assumptions C18_status_touches_only_status.
Print Assumptions C18_status_initial.
Print Assumptions C18_status_sequence.
Print Assumptions C18_eleven_minters.
Print Assumptions C18_fee_paid_meaning.
Print Assumptions C18_base_creations_observe_new_params.
Print Assumptions C18_vending_creations_observe_new_params.
Print Assumptions C18_oe_creations_observe_new_params.
Print Assumptions C18_tm_creations_observe_new_params.
Print Assumptions C18_freeze_blocks_creation.
Print Assumptions C18_removed_code_id_blocks_creation.
Print Assumptions C18_raised_fee_blocks_old_payment.
Print Assumptions C18_lowered_token_limit_blocks_old_max.
Print Assumptions C18_mint_fee_reads_bps.
Print Assumptions C18_supplied_fee_is_carried.
Print Assumptions C18_accepted_creation_paid_the_carried_fee.
Print Assumptions C18_underpaying_the_carried_fee_is_refused.
Print Assumptions C18_paying_in_another_denom_is_refused.
Print Assumptions C18_base_creation_iff_payment_rule.
