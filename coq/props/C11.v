(* C11 — Whitelist membership accounting, capacity and fees are exact.
   ONLY statements, with the documented numbers written out (5000 members for the plain
   and flex whitelists, 30000 for the tiered ones, 100 STARS = 100000000 ustars per started
   thousand of the member limit, half burned / half to the fair-burn pool).  Every theorem
   holds for every `addr_validate` oracle, contract address, clock value, sender, attached
   funds and history of calls (accepted or rejected).
   Models: coq/model/Wl.v (plain, flex), coq/model/WlTiered.v (tiered, tiered-flex,
   immutable); they follow the repaired code of the `fix:` commits 8ef08b3 and 034dca7. *)
From LP Require Import Wl WlTiered Consts WlSchedProofs WlMemProofs WlTieredProofs WlTierInvProofs WlQueryProofs.
Import ListNotations.
Local Open Scope N_scope.

Theorem C11_constants :
  whitelist__MAX_MEMBERS = 5000 /\ whitelist_flex__MAX_MEMBERS = 5000 /\
  tiered_whitelist__MAX_MEMBERS = 30000 /\ tiered_whitelist_flex__MAX_MEMBERS = 30000 /\
  whitelist__PRICE_PER_1000_MEMBERS = 100000000 /\ whitelist_flex__PRICE_PER_1000_MEMBERS = 100000000 /\
  tiered_whitelist__PRICE_PER_1000_MEMBERS = 100000000 /\ tiered_whitelist_flex__PRICE_PER_1000_MEMBERS = 100000000.
Proof. repeat split. Qed.

(* ================= plain and flex whitelists ================= *)

(* creation: the stored members are exactly the distinct addresses of the message, the
   count is their number, count <= limit <= 5000, the limit is the requested one (>= 1) *)
Theorem C11_created_consistent :
  forall (valid : addr -> bool) self k e m w ms,
  k <> KMerkle -> inst valid k self e m = Ok (w, ms) ->
  (NoDup (keys (w_mem w)) /\ w_num w = nlen (w_mem w) /\
   w_num w <= w_limit w /\ w_limit w <= max_members (w_kind w)) /\
  w_limit w = i_limit m /\ 1 <= w_limit w /\
  (forall x, In x (keys (w_mem w)) <-> In x (map fst (i_members m))).
Proof. exact inst_mem. Qed.

Theorem C11_maximum_is_5000 : max_members KPlain = 5000 /\ max_members KFlex = 5000.
Proof. split; reflexivity. Qed.

(* every accepted call keeps: no address stored twice, count = number stored,
   count <= limit <= maximum; and never lowers the limit *)
Theorem C11_count_and_capacity_step :
  forall (valid : addr -> bool) self e o w w' ms,
  w_kind w <> KMerkle -> exec valid self e o w = Ok (w', ms) ->
  NoDup (keys (w_mem w)) /\ w_num w = nlen (w_mem w) /\
    w_num w <= w_limit w /\ w_limit w <= max_members (w_kind w) ->
  (NoDup (keys (w_mem w')) /\ w_num w' = nlen (w_mem w') /\
    w_num w' <= w_limit w' /\ w_limit w' <= max_members (w_kind w')) /\
  w_limit w <= w_limit w'.
Proof. exact exec_mem. Qed.

(* HasMember answers true exactly for stored members *)
Theorem C11_has_member_iff_stored :
  forall (valid : addr -> bool) a w b,
  q_has valid a w = Ok b -> (b = true <-> In a (keys (w_mem w))).
Proof. exact q_has_iff. Qed.

(* add_members: afterwards exactly the old members and the listed addresses are stored
   (an existing member is skipped by the plain whitelist); the flex whitelist accepts the
   call only if no listed address is stored or repeated, and then counts each once *)
Theorem C11_add_effect :
  forall (valid : addr -> bool) self e l w w' ms,
  exec valid self e (OAdd l) w = Ok (w', ms) ->
  NoDup (keys (w_mem w)) /\ w_num w = nlen (w_mem w) /\
    w_num w <= w_limit w /\ w_limit w <= max_members (w_kind w) ->
  (forall x, In x (keys (w_mem w')) <-> In x (keys (w_mem w)) \/ In x (map fst l)) /\
  (w_kind w = KFlex ->
     NoDup (map fst l) /\ (forall x, In x (map fst l) -> ~ In x (keys (w_mem w))) /\
     w_num w' = w_num w + nlen l).
Proof. exact exec_add_effect. Qed.

(* remove_members: accepted only if every listed address is stored (and none is listed
   twice); exactly those disappear and the count drops by their number *)
Theorem C11_remove_requires_members :
  forall (valid : addr -> bool) self e l w w' ms,
  exec valid self e (ORemove l) w = Ok (w', ms) ->
  NoDup (keys (w_mem w)) /\ w_num w = nlen (w_mem w) /\
    w_num w <= w_limit w /\ w_limit w <= max_members (w_kind w) ->
  NoDup l /\ (forall x, In x l -> In x (keys (w_mem w))) /\
  (forall x, In x (keys (w_mem w')) <-> In x (keys (w_mem w)) /\ ~ In x l) /\
  w_num w' + nlen l = w_num w.
Proof. exact exec_remove_effect. Qed.

(* no other call touches the stored members or the count *)
Theorem C11_other_calls_leave_members :
  forall (valid : addr -> bool) self e o w w' ms,
  exec valid self e o w = Ok (w', ms) ->
  match o with OAdd _ | ORemove _ => True | _ => w_mem w' = w_mem w /\ w_num w' = w_num w end.
Proof. exact exec_mem_frame. Qed.

(* creation fee: exactly 100 STARS per started thousand of the limit is attached, half is
   burned and the rest goes to the fair-burn pool: nothing stays in the whitelist *)
Theorem C11_creation_fee_exact_and_forwarded :
  forall (valid : addr -> bool) self k e m w ms,
  k <> KMerkle -> inst valid k self e m = Ok (w, ms) ->
  let fee := tiers (w_limit w) * 100000000 in
  e_funds e = [mkCoin NATIVE fee] /\
  ms = [Burn NATIVE (fee / 2); FundPool self NATIVE (fee - fee / 2)] /\ sum_out ms = fee.
Proof. exact inst_fee. Qed.

Theorem C11_tiers_is_started_thousands : forall l, tiers l = (l + 999) / 1000.
Proof. reflexivity. Qed.

(* increase_member_limit: strictly larger limit; the payment is exactly 100 STARS per
   newly started thousand (nothing when no new thousand is started) and all of it leaves;
   every other call emits nothing and leaves the limit alone *)
Theorem C11_call_fee_exact_and_forwarded :
  forall (valid : addr -> bool) self e o w w' ms,
  w_kind w <> KMerkle -> exec valid self e o w = Ok (w', ms) ->
  match o with
  | OIncrease n =>
      let fee := (tiers n - tiers (w_limit w)) * 100000000 in
      w_limit w < n /\ w_limit w' = n /\ may_pay (e_funds e) NATIVE = Ok fee /\ sum_out ms = fee /\
      (ms = [] \/ ms = [Burn NATIVE (fee / 2); FundPool self NATIVE (fee - fee / 2)])
  | _ => ms = [] /\ w_limit w' = w_limit w
  end.
Proof. exact exec_fee. Qed.

(* the history theorem: after creation and ANY sequence of calls, the state is consistent,
   the limit has not decreased and is at most 5000, the fees paid so far (creation +
   accepted increases) are exactly 100 STARS per started thousand of the current limit,
   and everything paid in fees has left the contract again *)
Theorem C11_history_accounting :
  forall (valid : addr -> bool) self k e m w0 ms0 (h : list (env * op)),
  k <> KMerkle -> inst valid k self e m = Ok (w0, ms0) ->
  let '(w, paid, out) := arun valid self h (w0, pay_of e, sum_out ms0) in
  w = run valid self h w0 /\
  NoDup (keys (w_mem w)) /\ w_num w = nlen (w_mem w) /\
  w_num w <= w_limit w /\ w_limit w <= 5000 /\ w_limit w0 <= w_limit w /\
  paid = tiers (w_limit w) * 100000000 /\ out = paid.
Proof. exact history_accounting. Qed.


(* ================= tiered and tiered-flex whitelists ================= *)
(* state: WHITELIST_STAGES as a list of ((stage id, address), mint count) entries,
   MEMBER_COUNT as a map stage id -> count.  `tkeys` are the stored (stage, address)
   pairs, `scount k` the number of entries stored for stage k. *)

(* creation: no (stage, address) pair stored twice; num_members = number of entries;
   nothing is stored at a stage id >= #stages; every stage's member_count = the number
   of entries stored for it; count <= limit <= 30000; at most 3 stages; the limit is the
   requested one.  (Repaired code: duplicates and surplus member lists are not counted.) *)
Theorem C11_tiered_created_consistent :
  forall (valid : addr -> bool) self flex e m w ms,
  t_inst valid flex self e m = Ok (w, ms) ->
  (NoDup (tkeys (t_mem w)) /\ t_num w = nlen (t_mem w) /\
   (forall p, In p (t_mem w) -> e_stage p < nlen (t_stages w)) /\
   (forall k, k < nlen (t_stages w) -> c_get k (t_cnt w) = scount k (t_mem w)) /\
   t_num w <= t_limit w /\ t_limit w <= T_MAX_MEMBERS (t_flex w) /\ nlen (t_stages w) <= 3) /\
  t_flex w = flex /\ t_limit w = ti_limit m /\ 1 <= t_limit w /\ t_stages w = ti_stages m.
Proof. exact t_inst_inv. Qed.

Theorem C11_tiered_maximum_is_30000 : forall flex, T_MAX_MEMBERS flex = 30000.
Proof. exact t_max. Qed.

(* every accepted call (add/remove members, add/remove stage, update stage, increase
   limit, admin calls) keeps all of the above and never lowers the limit *)
Theorem C11_tiered_count_and_capacity_step :
  forall (valid : addr -> bool) self e o w w' ms,
  t_exec valid self e o w = Ok (w', ms) ->
  NoDup (tkeys (t_mem w)) /\ t_num w = nlen (t_mem w) /\
   (forall p, In p (t_mem w) -> e_stage p < nlen (t_stages w)) /\
   (forall k, k < nlen (t_stages w) -> c_get k (t_cnt w) = scount k (t_mem w)) /\
   t_num w <= t_limit w /\ t_limit w <= T_MAX_MEMBERS (t_flex w) /\ nlen (t_stages w) <= 3 ->
  (NoDup (tkeys (t_mem w')) /\ t_num w' = nlen (t_mem w') /\
   (forall p, In p (t_mem w') -> e_stage p < nlen (t_stages w')) /\
   (forall k, k < nlen (t_stages w') -> c_get k (t_cnt w') = scount k (t_mem w')) /\
   t_num w' <= t_limit w' /\ t_limit w' <= T_MAX_MEMBERS (t_flex w') /\ nlen (t_stages w') <= 3) /\
  t_flex w' = t_flex w /\ t_limit w <= t_limit w'.
Proof. exact t_exec_inv. Qed.

(* in a consistent state the per-stage member counts add up to num_members *)
Theorem C11_tiered_stage_counts_sum_to_total :
  forall w,
  NoDup (tkeys (t_mem w)) /\ t_num w = nlen (t_mem w) /\
   (forall p, In p (t_mem w) -> e_stage p < nlen (t_stages w)) /\
   (forall k, k < nlen (t_stages w) -> c_get k (t_cnt w) = scount k (t_mem w)) /\
   t_num w <= t_limit w /\ t_limit w <= T_MAX_MEMBERS (t_flex w) /\ nlen (t_stages w) <= 3 ->
  sumN (length (t_stages w)) (fun j => c_get j (t_cnt w)) = t_num w.
Proof. exact (counts_sum_to_total (fun _ => true) 0). Qed.

(* StageMemberInfo.is_member is true exactly for stored (stage, address) pairs; the
   Stage query reports the stored number; HasMember = true only for a stored member *)
Theorem C11_tiered_is_member_iff_stored :
  forall (valid : addr -> bool) k a w b,
  tq_stage_member valid k a w = Ok b -> (b = true <-> In (k, a) (tkeys (t_mem w))).
Proof. exact tq_stage_member_iff. Qed.

Theorem C11_tiered_has_member_only_stored :
  forall (valid : addr -> bool) now a w,
  tq_has valid now a w = Ok true -> exists k, k < nlen (t_stages w) /\ In (k, a) (tkeys (t_mem w)).
Proof. exact tq_has_stored. Qed.

(* add_members to stage k: afterwards stage k holds exactly its old members and the listed
   addresses (existing ones are skipped, never counted twice); other stages untouched *)
Theorem C11_tiered_add_effect :
  forall (valid : addr -> bool) self e k l w w' ms,
  t_exec valid self e (TAdd k l) w = Ok (w', ms) ->
  NoDup (tkeys (t_mem w)) /\ t_num w = nlen (t_mem w) /\
   (forall p, In p (t_mem w) -> e_stage p < nlen (t_stages w)) /\
   (forall k, k < nlen (t_stages w) -> c_get k (t_cnt w) = scount k (t_mem w)) /\
   t_num w <= t_limit w /\ t_limit w <= T_MAX_MEMBERS (t_flex w) /\ nlen (t_stages w) <= 3 ->
  k < nlen (t_stages w) /\
  (forall x, In (k, x) (tkeys (t_mem w')) <-> In (k, x) (tkeys (t_mem w)) \/ In x (map fst l)) /\
  (forall j, j <> k -> scount j (t_mem w') = scount j (t_mem w)).
Proof. exact t_exec_add_effect. Qed.

(* remove_members from stage k: accepted only if every listed address is stored there and
   none is listed twice; exactly those disappear; the total drops by their number *)
Theorem C11_tiered_remove_requires_members :
  forall (valid : addr -> bool) self e k l w w' ms,
  t_exec valid self e (TRemove k l) w = Ok (w', ms) ->
  NoDup (tkeys (t_mem w)) /\ t_num w = nlen (t_mem w) /\
   (forall p, In p (t_mem w) -> e_stage p < nlen (t_stages w)) /\
   (forall k, k < nlen (t_stages w) -> c_get k (t_cnt w) = scount k (t_mem w)) /\
   t_num w <= t_limit w /\ t_limit w <= T_MAX_MEMBERS (t_flex w) /\ nlen (t_stages w) <= 3 ->
  NoDup l /\ (forall x, In x l -> In (k, x) (tkeys (t_mem w))) /\
  (forall x, In (k, x) (tkeys (t_mem w')) <-> In (k, x) (tkeys (t_mem w)) /\ ~ In x l) /\
  t_num w' + nlen l = t_num w /\
  (forall j, j <> k -> scount j (t_mem w') = scount j (t_mem w)).
Proof. exact t_exec_remove_effect. Qed.

(* HasMember answers for the first stage whose window contains the instant (start <= now
   <= end), true exactly when the address is stored for that stage *)
Theorem C11_tiered_has_member_iff_stored_in_active_stage :
  forall (valid : addr -> bool) now a w b,
  tq_has valid now a w = Ok b ->
  (b = true <-> exists k, active_index now 0 (t_stages w) = Some k /\ In (k, a) (tkeys (t_mem w))).
Proof. exact tq_has_iff. Qed.

(* add_stage: needs fewer than 3 stages; the new last stage holds exactly the listed
   addresses; nothing else changes *)
Theorem C11_tiered_add_stage_effect :
  forall (valid : addr -> bool) self e s l w w' ms,
  t_exec valid self e (TAddStage s l) w = Ok (w', ms) ->
  NoDup (tkeys (t_mem w)) /\ t_num w = nlen (t_mem w) /\
   (forall p, In p (t_mem w) -> e_stage p < nlen (t_stages w)) /\
   (forall k, k < nlen (t_stages w) -> c_get k (t_cnt w) = scount k (t_mem w)) /\
   t_num w <= t_limit w /\ t_limit w <= T_MAX_MEMBERS (t_flex w) /\ nlen (t_stages w) <= 3 ->
  let n := nlen (t_stages w) in
  t_stages w' = t_stages w ++ [s] /\ n < 3 /\
  (forall x, In (n, x) (tkeys (t_mem w')) <-> In x (map fst l)) /\
  (forall j, j <> n -> scount j (t_mem w') = scount j (t_mem w)) /\
  (forall p, In p (t_mem w') -> In p (t_mem w) \/ e_stage p = n).
Proof. exact t_exec_add_stage_effect. Qed.

(* remove_stage k: stage k and all later stages go, together with exactly their members *)
Theorem C11_tiered_remove_stage_effect :
  forall (valid : addr -> bool) self e k w w' ms,
  t_exec valid self e (TRemoveStage k) w = Ok (w', ms) ->
  NoDup (tkeys (t_mem w)) /\ t_num w = nlen (t_mem w) /\
   (forall p, In p (t_mem w) -> e_stage p < nlen (t_stages w)) /\
   (forall k, k < nlen (t_stages w) -> c_get k (t_cnt w) = scount k (t_mem w)) /\
   t_num w <= t_limit w /\ t_limit w <= T_MAX_MEMBERS (t_flex w) /\ nlen (t_stages w) <= 3 ->
  k < nlen (t_stages w) /\ t_stages w' = firstn (N.to_nat k) (t_stages w) /\
  (forall p, In p (t_mem w') <-> In p (t_mem w) /\ e_stage p < k) /\
  t_num w' + nlen (t_range k (nlen (t_stages w)) (t_mem w)) = t_num w.
Proof. exact t_exec_remove_stage_effect. Qed.

(* fees: as for the plain whitelist *)
Theorem C11_tiered_creation_fee_exact_and_forwarded :
  forall (valid : addr -> bool) self flex e m w ms,
  t_inst valid flex self e m = Ok (w, ms) ->
  let fee := tiers (t_limit w) * 100000000 in
  e_funds e = [mkCoin NATIVE fee] /\
  ms = [Burn NATIVE (fee / 2); FundPool self NATIVE (fee - fee / 2)] /\ sum_out ms = fee.
Proof. exact t_inst_fee. Qed.

Theorem C11_tiered_call_fee_exact_and_forwarded :
  forall (valid : addr -> bool) self e o w w' ms,
  t_exec valid self e o w = Ok (w', ms) ->
  match o with
  | TIncrease n =>
      let fee := (tiers n - tiers (t_limit w)) * 100000000 in
      t_limit w < n /\ t_limit w' = n /\ may_pay (e_funds e) NATIVE = Ok fee /\ sum_out ms = fee /\
      (ms = [] \/ ms = [Burn NATIVE (fee / 2); FundPool self NATIVE (fee - fee / 2)])
  | _ => ms = [] /\ t_limit w' = t_limit w
  end.
Proof. exact t_exec_fee. Qed.

(* the history theorem for the tiered kinds *)
Theorem C11_tiered_history_accounting :
  forall (valid : addr -> bool) self flex e m w0 ms0 (h : list (env * top)),
  t_inst valid flex self e m = Ok (w0, ms0) ->
  let '(w, paid, out) := t_arun valid self h (w0, pay_of e, sum_out ms0) in
  w = t_run valid self h w0 /\
  NoDup (tkeys (t_mem w)) /\ t_num w = nlen (t_mem w) /\
  (forall p, In p (t_mem w) -> e_stage p < nlen (t_stages w)) /\
  (forall k, k < nlen (t_stages w) -> c_get k (t_cnt w) = scount k (t_mem w)) /\
  sumN (length (t_stages w)) (fun j => c_get j (t_cnt w)) = t_num w /\
  t_num w <= t_limit w /\ t_limit w <= 30000 /\ t_limit w0 <= t_limit w /\ nlen (t_stages w) <= 3 /\
  paid = tiers (t_limit w) * 100000000 /\ out = paid.
Proof. exact t_history_accounting. Qed.

(* Member { member } (flex kinds): answers the stored pair; an error exactly when the
   well-formed address is not stored (flex) / only for a pair stored in the active stage
   (tiered-flex) *)
Theorem C11_flex_member_query_stored :
  forall (valid : addr -> bool) a w c,
  q_member valid a w = Ok c -> w_kind w = KFlex /\ In (a, c) (w_mem w).
Proof. exact q_member_stored. Qed.

Theorem C11_flex_member_query_error_means_absent :
  forall (valid : addr -> bool) a w,
  w_kind w = KFlex -> valid a = true -> q_member valid a w = Err -> ~ In a (keys (w_mem w)).
Proof. exact q_member_missing. Qed.

Theorem C11_tiered_flex_member_query_stored :
  forall (valid : addr -> bool) now a w c,
  tq_member valid now a w = Ok c ->
  t_flex w = true /\ exists k, active_index now 0 (t_stages w) = Some k /\ In (k, a, c) (t_mem w).
Proof. exact tq_member_stored. Qed.

(* ================= membership means "a row is stored", not "count > 0" ================= *)
(* plain / flex: whatever mint count c (0 included) is stored with a well-formed address,
   HasMember answers true and the flex Member query answers exactly c *)
Theorem C11_stored_row_is_member_whatever_count :
  forall (valid : addr -> bool) a c w,
  valid a = true -> In (a, c) (w_mem w) -> q_has valid a w = Ok true.
Proof. exact row_is_member. Qed.

Theorem C11_flex_member_query_answers_stored_count :
  forall (valid : addr -> bool) a c w,
  w_kind w = KFlex -> valid a = true -> NoDup (keys (w_mem w)) -> In (a, c) (w_mem w) ->
  q_member valid a w = Ok c.
Proof. exact row_member_query. Qed.

(* tiered kinds: a row ((k, a), c) stored for an existing stage -- c may be 0 -- is a member
   for StageMemberInfo and for AllStageMemberInfo (which reports exactly c on the flex
   kind), and for HasMember / Member while stage k is the running one *)
Theorem C11_tiered_stored_row_is_member_whatever_count :
  forall (valid : addr -> bool) k a c w,
  valid a = true -> NoDup (tkeys (t_mem w)) -> In (k, a, c) (t_mem w) -> k < nlen (t_stages w) ->
  tq_stage_member valid k a w = Ok true /\
  (exists l, tq_all_member valid a w = Ok l /\ exists p, In (k, true, p) l /\ (t_flex w = true -> p = c)) /\
  (forall now, active_index now 0 (t_stages w) = Some k ->
     tq_has valid now a w = Ok true /\ (t_flex w = true -> tq_member valid now a w = Ok c)).
Proof. exact t_row_is_member. Qed.

(* ================= admin list (all list kinds) ================= *)
(* CanExecute { sender } answers true exactly for an address in the stored admin list; the
   list changes only through update_admins (to exactly the given list) and freeze, both
   of which need a mutable list and a sender in it *)
Theorem C11_can_execute_iff_admin :
  forall (valid : addr -> bool) a w b,
  q_can_execute valid a w = Ok b -> (b = true <-> In a (w_admins w)).
Proof. exact q_can_execute_iff. Qed.

Theorem C11_admin_list_changes :
  forall (valid : addr -> bool) self e o w w' ms,
  exec valid self e o w = Ok (w', ms) ->
  match o with
  | OUpdAdmins l => w_mutable w = true /\ In (e_sender e) (w_admins w) /\ w_admins w' = l /\ w_mutable w' = true
  | OFreeze => w_mutable w = true /\ In (e_sender e) (w_admins w) /\ w_admins w' = w_admins w /\ w_mutable w' = false
  | _ => w_admins w' = w_admins w /\ w_mutable w' = w_mutable w
  end.
Proof. exact exec_admins_effect. Qed.

Theorem C11_tiered_can_execute_iff_admin :
  forall (valid : addr -> bool) a w b,
  tq_can_execute valid a w = Ok b -> (b = true <-> In a (t_admins w)).
Proof. exact tq_can_execute_iff. Qed.

Theorem C11_tiered_admin_list_changes :
  forall (valid : addr -> bool) self e o w w' ms,
  t_exec valid self e o w = Ok (w', ms) ->
  match o with
  | TUpdAdmins l => t_mutable w = true /\ In (e_sender e) (t_admins w) /\ t_admins w' = l /\ t_mutable w' = true
  | TFreeze => t_mutable w = true /\ In (e_sender e) (t_admins w) /\ t_admins w' = t_admins w /\ t_mutable w' = false
  | _ => t_admins w' = t_admins w /\ t_mutable w' = t_mutable w
  end.
Proof. exact t_exec_admins_effect. Qed.

(* AllStageMemberInfo { member }: one entry per configured stage; is_member is true exactly
   when the pair is stored; for tiered-flex the number reported is the stored mint count *)
Theorem C11_tiered_all_stage_member_info :
  forall (valid : addr -> bool) a w l,
  tq_all_member valid a w = Ok l ->
  length l = length (t_stages w) /\
  forall k b p, In (k, b, p) l ->
    k < nlen (t_stages w) /\ (b = true <-> In (k, a) (tkeys (t_mem w))) /\
    (t_flex w = true -> (b = true -> In (k, a, p) (t_mem w)) /\ (b = false -> p = 0)).
Proof. exact tq_all_member_spec. Qed.

(* whitelist-immutable: Config / Admin / PerAddressLimit report the creator and the two
   numbers given at creation; there is no execute message *)
Theorem C11_immutable_config_and_no_execute :
  (forall sender pal bps, imm_config sender pal bps = (sender, pal, bps)) /\ imm_exec = Err.
Proof. exact (conj imm_config_spec imm_exec_rejected). Qed.

(* ================= whitelist-immutable ================= *)
Theorem C11_immutable_consistent :
  forall funds ms l c,
  imm_inst funds ms = Ok (l, c) ->
  funds = [] /\ NoDup l /\ c = nlen l /\ 1 <= c /\ (forall x, In x l <-> In x ms).
Proof. exact imm_inst_spec. Qed.

Theorem C11_immutable_includes_iff :
  forall a funds ms st, imm_inst funds ms = Ok st -> (imm_includes a st = true <-> In a ms).
Proof. exact imm_includes_iff. Qed.

(* ================= non-vacuity ================= *)
Definition ex_valid (a : addr) : bool := 60 <=? a.
Definition G : N := 1647032400000000000.
Definition ex_env (fee : N) : env := mkEnv (G + 1) 60 [mkCoin NATIVE fee].
Definition ex_call (o : op) (fee : N) : env * op :=
  (mkEnv (G + 2) 60 (if fee =? 0 then [] else [mkCoin NATIVE fee]), o).

(* the shape of the repaired whitelist-flex defect: [aaa x2, bbb] is two members *)
Example C11_ex_flex_duplicates :
  match inst ex_valid KFlex 5 (ex_env 100000000)
          (mkImsg [(100, 1); (100, 2); (101, 1)] (G + 100) (G + 200) 0 10 None [60] true true) with
  | Ok (w, _) => (w_num w, w_mem w) = (2, [(101, 1); (100, 2)])
  | Err => False
  end.
Proof. vm_compute. reflexivity. Qed.

(* a full history over the fee tiers: 1000 -> 1001 (one more thousand) -> 2000 (free) *)
Example C11_ex_fee_chain :
  match inst ex_valid KPlain 5 (ex_env 100000000)
          (mkImsg [(101, 1); (100, 1); (101, 1)] (G + 100) (G + 200) 2 1000 None [60] true true) with
  | Ok (w0, ms0) =>
      let '(w, paid, out) :=
        arun ex_valid 5 [ex_call (OIncrease 1001) 100000000; ex_call (OIncrease 2000) 0;
                         ex_call (OIncrease 2001) 99999999; ex_call (OAdd [(102, 1); (100, 1)]) 0;
                         ex_call (ORemove [103]) 0; ex_call (ORemove [100]) 0]
             (w0, pay_of (ex_env 100000000), sum_out ms0) in
      (w_limit w, w_num w, paid, out) = (2000, 2, 200000000, 200000000)
  | Err => False
  end.
Proof. vm_compute. reflexivity. Qed.

Example C11_ex_limit_before_skip :
  (* full whitelist: adding an address that is already stored is refused *)
  match inst ex_valid KPlain 5 (ex_env 100000000)
          (mkImsg [(100, 1); (101, 1)] (G + 100) (G + 200) 2 2 None [60] true true) with
  | Ok (w, _) => is_ok (exec ex_valid 5 (fst (ex_call OFreeze 0)) (OAdd [(100, 1)]) w) = false
  | Err => False
  end.
Proof. vm_compute. reflexivity. Qed.


(* the shapes of the repaired tiered defects: [aaa, aaa] is one member; a surplus member
   list is not counted; add_stage [bbb, bbb, ccc] stores and counts two *)
Definition ex_stage (i : N) : stage := mkStage (G + 100 + 100 * i) (G + 200 + 100 * i) 2 0.
Example C11_ex_tiered_flex_duplicates_and_surplus :
  match t_inst ex_valid true 5 (ex_env 100000000)
          (mkTimsg [[(100, 1); (100, 3)]; [(101, 1); (102, 1)]] [ex_stage 0] 10 None [60] true) with
  | Ok (w, _) =>
      (t_num w, c_get 0 (t_cnt w), t_mem w) = (1, 1, [(0, 100, 3)]) /\
      match t_exec ex_valid 5 (mkEnv (G + 2) 60 []) (TAddStage (ex_stage 1) [(101, 1); (101, 2); (102, 1)]) w with
      | Ok (w', _) => (t_num w', c_get 1 (t_cnt w'), scount 1 (t_mem w')) = (3, 2, 2)
      | Err => False
      end
  | Err => False
  end.
Proof. vm_compute. split; reflexivity. Qed.

Example C11_ex_tiered_remove_stage :
  match t_inst ex_valid false 5 (ex_env 100000000)
          (mkTimsg [[(100, 1); (101, 1)]; [(101, 1); (102, 1)]; [(103, 1)]]
                   [ex_stage 0; ex_stage 1; ex_stage 2] 10 None [60] true) with
  | Ok (w0, ms0) =>
      let '(w, paid, out) :=
        t_arun ex_valid 5 [(mkEnv (G + 2) 60 [], TRemoveStage 1);
                           (mkEnv (G + 3) 60 [], TAdd 0 [(101, 1); (104, 1)]);
                           (mkEnv (G + 4) 61 [mkCoin NATIVE 100000000], TIncrease 1001)]
               (w0, pay_of (ex_env 100000000), sum_out ms0) in
      (t_num w, nlen (t_stages w), c_get 0 (t_cnt w), t_limit w, paid, out) = (3, 1, 3, 1001, 200000000, 200000000)
  | Err => False
  end.
Proof. vm_compute. reflexivity. Qed.


(* zero-count members are members: flex instantiate [(a,5); (a,0); (b,0)] stores a and b
   with count 0 (the later entry of a repeated address wins) and every query says "member" *)
Example C11_ex_flex_zero_count_members :
  match inst ex_valid KFlex 5 (ex_env 100000000)
          (mkImsg [(100, 5); (100, 0); (101, 0)] (G + 100) (G + 200) 0 10 None [60] true true) with
  | Ok (w, _) =>
      (w_num w, q_has ex_valid 100 w, q_has ex_valid 101 w, q_member ex_valid 100 w, q_member ex_valid 102 w)
      = (2, Ok true, Ok true, Ok 0, Err)
  | Err => False
  end.
Proof. vm_compute. reflexivity. Qed.

Example C11_ex_tiered_flex_zero_count_members :
  match t_inst ex_valid true 5 (ex_env 100000000)
          (mkTimsg [[(100, 0); (101, 1)]; [(100, 0)]] [ex_stage 0; ex_stage 1] 10 None [60] true) with
  | Ok (w, _) =>
      (t_num w, tq_all_member ex_valid 100 w, tq_stage_member ex_valid 1 100 w,
       tq_has ex_valid (G + 150) 100 w, tq_member ex_valid (G + 150) 100 w, tq_has ex_valid (G + 250) 101 w)
      = (3, Ok [(0, true, 0); (1, true, 0)], Ok true, Ok true, Ok 0, Ok false)
  | Err => False
  end.
Proof. vm_compute. reflexivity. Qed.

Example C11_ex_immutable :
  imm_inst [] [101; 100; 101] = Ok ([100; 101], 2) /\ imm_inst [] [] = Err.
Proof. vm_compute. split; reflexivity. Qed.

Print Assumptions C11_constants.
Print Assumptions C11_created_consistent.
Print Assumptions C11_maximum_is_5000.
Print Assumptions C11_count_and_capacity_step.
Print Assumptions C11_has_member_iff_stored.
Print Assumptions C11_add_effect.
Print Assumptions C11_remove_requires_members.
Print Assumptions C11_other_calls_leave_members.
Print Assumptions C11_creation_fee_exact_and_forwarded.
Print Assumptions C11_tiers_is_started_thousands.
Print Assumptions C11_call_fee_exact_and_forwarded.
Print Assumptions C11_history_accounting.
Print Assumptions C11_tiered_created_consistent.
Print Assumptions C11_tiered_maximum_is_30000.
Print Assumptions C11_tiered_count_and_capacity_step.
Print Assumptions C11_tiered_stage_counts_sum_to_total.
Print Assumptions C11_tiered_is_member_iff_stored.
Print Assumptions C11_tiered_has_member_only_stored.
Print Assumptions C11_tiered_add_effect.
Print Assumptions C11_tiered_remove_requires_members.
Print Assumptions C11_tiered_has_member_iff_stored_in_active_stage.
Print Assumptions C11_tiered_add_stage_effect.
Print Assumptions C11_tiered_remove_stage_effect.
Print Assumptions C11_tiered_creation_fee_exact_and_forwarded.
Print Assumptions C11_tiered_call_fee_exact_and_forwarded.
Print Assumptions C11_tiered_history_accounting.
Print Assumptions C11_flex_member_query_stored.
Print Assumptions C11_flex_member_query_error_means_absent.
Print Assumptions C11_tiered_flex_member_query_stored.
Print Assumptions C11_stored_row_is_member_whatever_count.
Print Assumptions C11_flex_member_query_answers_stored_count.
Print Assumptions C11_tiered_stored_row_is_member_whatever_count.
Print Assumptions C11_can_execute_iff_admin.
Print Assumptions C11_admin_list_changes.
Print Assumptions C11_tiered_can_execute_iff_admin.
Print Assumptions C11_tiered_admin_list_changes.
Print Assumptions C11_tiered_all_stage_member_info.
Print Assumptions C11_immutable_config_and_no_execute.
Print Assumptions C11_immutable_consistent.
Print Assumptions C11_immutable_includes_iff.
