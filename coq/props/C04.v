(* C04 — Mints happen only inside the sale window and only for entitled buyers.
   Part 1: the six vending minters (one model, three variant flags; every statement is
   for every variant, every factory-parameter and whitelist answer, every sender, clock
   and pseudo-random choice).  Vending minters have no end time.
   Part 2 (second half of the file): the three open-edition minters, with the end-time
   clauses.  The whitelist's own activity rule
   (start <= now < end; tiered: a stage with start <= now <= end) is C12/C13's theorem:
   here the whitelist's answers enter through the per-call oracle `wlview` and are
   universally quantified.  Statements only. *)
From LP Require Import Num Pay Sg1 MinterVending MinterVendingProofs MinterOpen C04Proofs C04OeProofs.
Import ListNotations.
Local Open Scope N_scope.

(* ---- vocabulary, spelled out ---- *)
Theorem C04_vocabulary_spelled_out : forall s wv vr v proof a w t,
  (wl_absent_or_inactive s wv <->
     (s_whitelist s = None \/ exists v, wv = Some v /\ wv_active v = false)) /\
  (membership_answer vr v proof =
     if v_merkle vr && ((wv_member_limit v =? 0) && (wv_num_members v =? 0)) && proof
     then wv_has_proof v else wv_has_plain v) /\
  (wl_total s a = get (s_wl s) a + (get (s_fs s) a + get (s_ss s) a + get (s_ts s) a)) /\
  (with_wl s w =
     mkVS (s_admin s) (s_payment s) (s_num_tokens s) (s_pal s) w (s_start s) (s_price s) (s_denom s)
          (s_discount s) (s_mintable s) (s_positions s) (s_minted s) (s_burned s) (s_public s) (s_wl s)
          (s_fs s) (s_ss s) (s_ts s) (s_fs_count s) (s_ss_count s) (s_ts_count s) (s_airdrops s)
          (s_last_discount s) (s_trading s)) /\
  (with_start s t =
     mkVS (s_admin s) (s_payment s) (s_num_tokens s) (s_pal s) (s_whitelist s) t (s_price s) (s_denom s)
          (s_discount s) (s_mintable s) (s_positions s) (s_minted s) (s_burned s) (s_public s) (s_wl s)
          (s_fs s) (s_ss s) (s_ts s) (s_fs_count s) (s_ss_count s) (s_ts_count s) (s_airdrops s)
          (s_last_discount s) (s_trading s)).
Proof. intros. repeat split; auto. Qed.

(* the public rules apply (is_public_mint answers "public") exactly when no whitelist is
   attached or the attached one answers "not active" *)
Theorem C04_public_rules_iff_no_active_whitelist : forall vr s wv a proof alloc,
  is_public_mint vr s wv a proof alloc = Ok true <-> wl_absent_or_inactive s wv.
Proof. exact is_public_true_iff. Qed.

(* ---- clause 1: a public mint never succeeds before the start time ---- *)
Theorem C04_public_before_start_fails : forall vr s e fp wv stage proof alloc choice,
  is_public_mint vr s wv (e_sender e) proof alloc = Ok true ->
  e_now e < s_start s ->
  step vr s e fp wv (OMint stage proof alloc choice) = Err.
Proof. exact public_before_start_fails. Qed.

Theorem C04_no_or_inactive_whitelist_before_start_fails : forall vr s e fp wv stage proof alloc choice,
  (s_whitelist s = None \/ exists v, wv = Some v /\ wv_active v = false) ->
  e_now e < s_start s ->
  step vr s e fp wv (OMint stage proof alloc choice) = Err.
Proof. exact no_or_inactive_wl_before_start_fails. Qed.

(* ---- clause 2: while the attached whitelist is active only members mint ---- *)
(* membership question: the sender's plain HasMember answer, or — exactly when the minter
   is a Merkle variant, the whitelist reports member_limit = num_members = 0 and a proof
   was sent — the answer to HasMember{leaf(stage, sender, allocation), proof}.  Anything
   but "yes" (a "no", or no answer) fails the mint, whatever the clock says about the
   public start. *)
Theorem C04_active_wl_nonmember_fails : forall vr s e fp w v stage proof alloc choice,
  s_whitelist s = Some w -> wv_active v = true ->
  (if v_merkle vr && ((wv_member_limit v =? 0) && (wv_num_members v =? 0)) && proof
   then wv_has_proof v else wv_has_plain v) <> Some true ->
  step vr s e fp (Some v) (OMint stage proof alloc choice) = Err.
Proof. exact active_wl_nonmember_fails. Qed.

Theorem C04_attached_wl_unanswered_fails : forall vr s e fp w stage proof alloc choice,
  s_whitelist s = Some w ->
  step vr s e fp None (OMint stage proof alloc choice) = Err.
Proof. exact attached_wl_unanswered_fails. Qed.

(* ---- clause 3: a member under an active whitelist pays exactly the whitelist price in
   the whitelist's denom, and the mint is counted as a whitelist mint, not a public one;
   the schedule is untouched ---- *)
Theorem C04_active_wl_member_pays_wl_price : forall vr s e fp w v stage proof alloc choice s' ms,
  s_whitelist s = Some w -> wv_active v = true ->
  step vr s e fp (Some v) (OMint stage proof alloc choice) = Ok (s', ms) ->
  membership_answer vr v proof = Some true /\
  mint_price s fp (Some v) false = Ok (wv_price v, wv_denom v) /\
  may_pay (e_funds e) (wv_denom v) = Ok (wv_price v) /\
  s_public s' = s_public s /\
  wl_total s' (e_sender e) = wl_total s (e_sender e) + 1 /\
  s_start s' = s_start s /\ s_whitelist s' = s_whitelist s.
Proof. exact active_wl_member_pays_wl_price. Qed.


(* membership reaches the minter only through the whitelist's answer to this very call.
   For ANY notion `intended` of who the members are meant to be: if the answer is faithful
   to it, only intended members mint while the whitelist is active; and if a non-intended
   buyer does mint in the whitelist phase, then the whitelist answered "member" for that
   buyer — a stale / wrong answer of the whitelist (the harness keeps its own ledger of
   intended membership and reports exactly this situation). *)
Theorem C04_faithful_whitelist_only_members_mint : forall (intended : addr -> Prop) vr s e fp w v stage proof alloc choice s' ms,
  s_whitelist s = Some w -> wv_active v = true ->
  (membership_answer vr v proof = Some true -> intended (e_sender e)) ->
  step vr s e fp (Some v) (OMint stage proof alloc choice) = Ok (s', ms) ->
  intended (e_sender e).
Proof. exact faithful_whitelist_only_members_mint. Qed.

Theorem C04_nonmember_mint_blames_whitelist_answer : forall (intended : addr -> Prop) vr s e fp w v stage proof alloc choice s' ms,
  s_whitelist s = Some w -> wv_active v = true ->
  step vr s e fp (Some v) (OMint stage proof alloc choice) = Ok (s', ms) ->
  ~ intended (e_sender e) ->
  membership_answer vr v proof = Some true /\ ~ intended (e_sender e).
Proof. exact nonmember_mint_blames_whitelist_answer. Qed.

(* ---- clause 4: when the whitelist is not active the public rules apply: the outcome is
   that of the same call on the state without a whitelist (whatever that call is told
   about whitelists), with the whitelist field put back ---- *)
Theorem C04_inactive_wl_public_rules : forall vr s e fp wv wv0 stage proof alloc choice,
  (s_whitelist s = None \/ exists v, wv = Some v /\ wv_active v = false) ->
  step vr s e fp wv (OMint stage proof alloc choice) =
  match step vr (with_wl s None) e fp wv0 (OMint stage proof alloc choice) with
  | Ok (s', ms) => Ok (with_wl s' (s_whitelist s), ms)
  | Err => Err
  end.
Proof. exact inactive_wl_public_rules_match. Qed.

(* ---- airdrops (MintTo / MintFor) on vending minters: admin only; NOT subject to the
   start gate nor to the whitelist — the outcome does not depend on the clock or on
   what the whitelist answers.  (This is what the code does; the property's start
   clause speaks of public mints only.) ---- *)
Theorem C04_airdrop_admin_only : forall vr s e fp wv o s' ms,
  (match o with OMintTo _ _ _ | OMintFor _ _ _ => True | _ => False end) ->
  step vr s e fp wv o = Ok (s', ms) ->
  e_sender e = s_admin s /\ s_start s' = s_start s /\ s_whitelist s' = s_whitelist s.
Proof. exact airdrop_admin_only. Qed.

Theorem C04_airdrop_ignores_clock_and_whitelist : forall vr s fp o now now' sender funds c wv wv',
  (match o with OMintTo _ _ _ | OMintFor _ _ _ => True | _ => False end) ->
  step vr s (mkEnv now sender funds c) fp wv o = step vr s (mkEnv now' sender funds c) fp wv' o.
Proof. exact airdrop_ignores_clock_and_whitelist. Qed.

(* ---- the start time changes only before the mint has started, never into the past,
   never before genesis (2022-03-11 21:00 UTC = 1647032400000000000 ns); the new state
   differs from the old one in the start time only ---- *)
Theorem C04_update_start_time_ok : forall vr s e fp wv t s' ms,
  step vr s e fp wv (OUpdateStartTime t) = Ok (s', ms) ->
  e_sender e = s_admin s /\ e_funds e = [] /\
  e_now e < s_start s /\ e_now e <= t /\ 1647032400000000000 <= t /\
  s' = with_start s t /\ ms = [].
Proof. exact update_start_time_ok. Qed.

Theorem C04_update_start_time_complete : forall vr s e fp wv t,
  e_sender e = s_admin s -> e_funds e = [] ->
  e_now e < s_start s -> e_now e <= t -> 1647032400000000000 <= t ->
  step vr s e fp wv (OUpdateStartTime t) = Ok (with_start s t, []).
Proof. exact update_start_time_complete. Qed.

(* ---- a whitelist is attached or replaced only by the admin, only before the mint
   start, never while the current one is active, never with a new one that is active
   (the price/denom conditions belong to C07 and are carried along); the new state
   differs from the old one in the whitelist only ---- *)
Theorem C04_set_whitelist_ok : forall vr s e fp wv wok w newview s' ms,
  step vr s e fp wv (OSetWhitelist wok w newview) = Ok (s', ms) ->
  e_sender e = s_admin s /\ e_funds e = [] /\
  e_now e < s_start s /\
  (s_whitelist s = None \/ exists v, wv = Some v /\ wv_active v = false) /\
  wok = true /\
  (exists nv, newview = Some nv /\ wv_active nv = false /\
              (v_flex vr = false -> wv_denom nv = s_denom s) /\
              fp_min_price fp <= wv_price nv /\ fp_min_denom fp = wv_denom nv) /\
  s' = with_wl s (Some w) /\ ms = [].
Proof. exact set_whitelist_ok. Qed.

(* ---- histories ---- *)
(* no other call changes the start time / the whitelist *)
Theorem C04_only_the_two_updates_change_the_schedule : forall vr s e fp wv o s' ms,
  step vr s e fp wv o = Ok (s', ms) ->
  ((forall t, o <> OUpdateStartTime t) -> s_start s' = s_start s) /\
  ((forall a b c, o <> OSetWhitelist a b c) -> s_whitelist s' = s_whitelist s).
Proof. exact step_keeps_schedule. Qed.

(* once the clock has reached the start time, no call changes the start time or the
   whitelist any more *)
Theorem C04_schedule_frozen_once_started : forall vr s e fp wv o s' ms,
  step vr s e fp wv o = Ok (s', ms) -> s_start s <= e_now e ->
  s_start s' = s_start s /\ s_whitelist s' = s_whitelist s.
Proof. exact started_frozen. Qed.

Theorem C04_trace_spelled_out : forall vr s c cs t,
  trace vr s [] = [] /\
  trace vr s (c :: cs) = (s, c) :: trace vr (apply_call vr s c) cs /\
  (clock_mono t [] <-> True) /\
  (clock_mono t (c :: cs) <-> t <= e_now (c_env c) /\ clock_mono (e_now (c_env c)) cs) /\
  (public_mint_succeeds vr s c <->
     exists stage proof alloc choice r,
       c_op c = OMint stage proof alloc choice /\
       step vr s (c_env c) (c_fp c) (c_wv c) (c_op c) = Ok r /\
       is_public_mint vr s (c_wv c) (e_sender (c_env c)) proof alloc = Ok true).
Proof.
  intros. split; [ reflexivity | ]. split; [ reflexivity | ]. split; [ reflexivity | ].
  split; reflexivity.
Qed.

(* in every history of calls of any kind (failed calls change nothing) whose clock does
   not run backwards, every mint that succeeded under the public rules happened at a
   clock >= the start time stored at that moment — and that start time (and the attached
   whitelist) is still the one in force at the end of the history *)
Theorem C04_history_public_mints_after_start : forall vr cs s t0 si c,
  clock_mono t0 cs -> In (si, c) (trace vr s cs) -> public_mint_succeeds vr si c ->
  s_start si <= e_now (c_env c) /\
  s_start (run vr s cs) = s_start si /\ s_whitelist (run vr s cs) = s_whitelist si.
Proof. exact history_public_mints_after_start. Qed.

(* ---- non-vacuity: a 3-token sale, start at 1700000000 s, whitelist (address 30)
   attached; price 100, whitelist price 60 ---- *)
Definition c04_fp : fparams := mkFP 50 0 1000 0 0 10000 500 50 604800.
Definition c04_start : N := 1700000000000000000.
Definition c04_s : vstate :=
  mkVS 10 None 3 2 (Some 30) c04_start 100 0 None 3 [(1, 2); (2, 3); (3, 1)] [] 0 [] [] [] [] [] 0 0 0 0 0 None.
Definition c04_plain : variant := mkVariant false false false.
Definition c04_merkle : variant := mkVariant false false true.
(* active, price 60 ustars, limit 2; sender is a member / is not / holds a proof *)
Definition c04_wv_member : wlview := mkWV true 60 0 2 1000 2 (Some true) None false None None None.
Definition c04_wv_stranger : wlview := mkWV true 60 0 2 1000 2 (Some false) None false None None None.
Definition c04_wv_proof (ok : bool) : wlview := mkWV true 60 0 2 0 0 None (Some ok) false None None None.
Definition c04_wv_inactive : wlview := mkWV false 60 0 2 1000 2 (Some true) None false None None None.

(* a member mints before the public start, pays 60, counted as a whitelist mint *)
Example C04_ex_member_mints_at_wl_price :
  match step c04_plain c04_s (mkEnv (c04_start - 1) 11 [mkCoin 0 60] 20) c04_fp (Some c04_wv_member)
             (OMint None false None 3) with
  | Ok (s', _) => wl_total s' 11 = 1 /\ get (s_public s') 11 = 0 /\ s_mintable s' = 2
  | Err => False
  end.
Proof. vm_compute. repeat split. Qed.

(* the same member offering the public price is rejected; a stranger is rejected even
   after the public start while the whitelist is still active; a valid proof is
   accepted by a Merkle variant and an invalid one is not *)
Example C04_ex_rejections :
  step c04_plain c04_s (mkEnv (c04_start - 1) 11 [mkCoin 0 100] 20) c04_fp (Some c04_wv_member)
       (OMint None false None 3) = Err /\
  step c04_plain c04_s (mkEnv (c04_start + 1) 12 [mkCoin 0 60] 20) c04_fp (Some c04_wv_stranger)
       (OMint None false None 3) = Err /\
  step c04_plain c04_s (mkEnv (c04_start + 1) 12 [mkCoin 0 100] 20) c04_fp (Some c04_wv_stranger)
       (OMint None false None 3) = Err /\
  is_ok (step c04_merkle c04_s (mkEnv (c04_start - 1) 12 [mkCoin 0 60] 20) c04_fp (Some (c04_wv_proof true))
       (OMint None true None 3)) = true /\
  step c04_merkle c04_s (mkEnv (c04_start - 1) 12 [mkCoin 0 60] 20) c04_fp (Some (c04_wv_proof false))
       (OMint None true None 3) = Err /\
  step c04_merkle c04_s (mkEnv (c04_start - 1) 12 [mkCoin 0 60] 20) c04_fp (Some (c04_wv_proof true))
       (OMint None false None 3) = Err.
Proof. vm_compute. repeat split. Qed.

(* inactive whitelist: one nanosecond before the start fails, at the start succeeds at
   the public price as a public mint *)
Example C04_ex_start_boundary :
  step c04_plain c04_s (mkEnv (c04_start - 1) 11 [mkCoin 0 100] 20) c04_fp (Some c04_wv_inactive)
       (OMint None false None 3) = Err /\
  match step c04_plain c04_s (mkEnv c04_start 11 [mkCoin 0 100] 20) c04_fp (Some c04_wv_inactive)
             (OMint None false None 3) with
  | Ok (s', _) => get (s_public s') 11 = 1 /\ wl_total s' 11 = 0
  | Err => False
  end.
Proof. vm_compute. repeat split. Qed.

(* an airdrop by the admin before the start succeeds; by anyone else it fails *)
Example C04_ex_airdrop_before_start :
  is_ok (step c04_plain c04_s (mkEnv (c04_start - 1000) 10 [] 20) c04_fp (Some c04_wv_member) (OMintTo true 12 3)) = true /\
  step c04_plain c04_s (mkEnv (c04_start - 1000) 11 [] 20) c04_fp (Some c04_wv_member) (OMintTo true 12 3) = Err.
Proof. vm_compute. repeat split. Qed.

(* schedule updates at the boundary instants *)
Example C04_ex_schedule_updates :
  let at_ t who := mkEnv t who [] 20 in
  is_ok (step c04_plain c04_s (at_ (c04_start - 1) 10) c04_fp (Some c04_wv_inactive) (OUpdateStartTime (c04_start - 1))) = true /\
  step c04_plain c04_s (at_ (c04_start - 1) 10) c04_fp (Some c04_wv_inactive) (OUpdateStartTime (c04_start - 2)) = Err /\
  step c04_plain c04_s (at_ c04_start 10) c04_fp (Some c04_wv_inactive) (OUpdateStartTime (c04_start + 5)) = Err /\
  is_ok (step c04_plain c04_s (at_ (c04_start - 1) 10) c04_fp (Some c04_wv_inactive)
              (OSetWhitelist true 31 (Some c04_wv_inactive))) = true /\
  step c04_plain c04_s (at_ c04_start 10) c04_fp (Some c04_wv_inactive) (OSetWhitelist true 31 (Some c04_wv_inactive)) = Err /\
  step c04_plain c04_s (at_ (c04_start - 1) 10) c04_fp (Some c04_wv_member) (OSetWhitelist true 31 (Some c04_wv_inactive)) = Err /\
  step c04_plain c04_s (at_ (c04_start - 1) 10) c04_fp (Some c04_wv_inactive) (OSetWhitelist true 31 (Some c04_wv_member)) = Err.
Proof. vm_compute. repeat split. Qed.


(* ===================================================================================
   Part 2 — the three open-edition minters (MinterOpen.ostep; ov_flex / ov_merkle flags)
   =================================================================================== *)
Theorem C04_oe_vocabulary_spelled_out : forall s wv vr v (proof : bool) a w t now,
  (o_wl_absent_or_inactive s wv <->
     (o_whitelist s = None \/ exists v, wv = Some v /\ wv_active v = false)) /\
  (o_membership_answer vr v proof =
     if ov_merkle vr then (if proof then wv_has_proof v else None) else wv_has_plain v) /\
  (o_wl_total s a = get (o_wl s) a + (get (o_fs s) a + get (o_ss s) a + get (o_ts s) a)) /\
  (o_past_end s now <-> exists en, o_end s = Some en /\ en <= now) /\
  (o_with_wl s w = o_set_config s (o_pal s) w (o_start s) (o_end s) (o_price s)) /\
  (o_with_start s t = o_set_config s (o_pal s) (o_whitelist s) t (o_end s) (o_price s)) /\
  (o_with_end s t = o_set_config s (o_pal s) (o_whitelist s) (o_start s) (Some t) (o_price s)) /\
  (forall pal wl st en pr,
     o_set_config s pal wl st en pr =
     mkOS (o_admin s) (o_payment s) (o_num_tokens s) pal wl st en pr (o_denom s)
          (o_mintable s) (o_token_index s) (o_total s) (o_airdrops s)
          (o_public s) (o_wl s) (o_fs s) (o_ss s) (o_ts s) (o_fs_count s) (o_ss_count s) (o_ts_count s)
          (o_minted s) (o_burned s) (o_trading s)).
Proof.
  intros. split; [ reflexivity | ]. split; [ reflexivity | ]. split; [ reflexivity | ].
  split; [ reflexivity | ]. split; [ reflexivity | ]. split; [ reflexivity | ]. split; reflexivity.
Qed.

Theorem C04_oe_public_rules_iff_no_active_whitelist : forall vr s wv a proof alloc,
  o_is_public_mint vr s wv a proof alloc = Ok true <-> o_wl_absent_or_inactive s wv.
Proof. exact o_is_public_true_iff. Qed.

(* a public mint never succeeds before the start time *)
Theorem C04_oe_public_before_start_fails : forall vr s e fp wv stage proof alloc,
  o_is_public_mint vr s wv (e_sender e) proof alloc = Ok true ->
  e_now e < o_start s ->
  ostep vr s e fp wv (EMint stage proof alloc) = Err.
Proof. exact oe_public_before_start_fails. Qed.

Theorem C04_oe_no_or_inactive_whitelist_before_start_fails : forall vr s e fp wv stage proof alloc,
  (o_whitelist s = None \/ exists v, wv = Some v /\ wv_active v = false) ->
  e_now e < o_start s ->
  ostep vr s e fp wv (EMint stage proof alloc) = Err.
Proof. exact oe_no_or_inactive_wl_before_start_fails. Qed.

(* no mint of any kind — public, whitelist or airdrop — succeeds at or after the end time *)
Theorem C04_oe_any_mint_at_or_after_end_fails : forall vr s e fp wv o en,
  (match o with EMint _ _ _ | EMintTo _ _ => True | _ => False end) ->
  o_end s = Some en -> en <= e_now e ->
  ostep vr s e fp wv o = Err.
Proof. exact oe_any_mint_at_or_after_end_fails. Qed.

(* while the attached whitelist is active only members mint; the Merkle variant accepts
   nothing but a verified proof *)
Theorem C04_oe_active_wl_nonmember_fails : forall vr s e fp w v stage (proof : bool) alloc,
  o_whitelist s = Some w -> wv_active v = true ->
  (if ov_merkle vr then (if proof then wv_has_proof v else None) else wv_has_plain v) <> Some true ->
  ostep vr s e fp (Some v) (EMint stage proof alloc) = Err.
Proof. exact oe_active_wl_nonmember_fails. Qed.

Theorem C04_oe_attached_wl_unanswered_fails : forall vr s e fp w stage proof alloc,
  o_whitelist s = Some w ->
  ostep vr s e fp None (EMint stage proof alloc) = Err.
Proof. exact oe_attached_wl_unanswered_fails. Qed.

(* a member under an active whitelist pays exactly the whitelist price in the whitelist's
   denom, is counted as a whitelist mint, the schedule is untouched, and the end time
   has not passed *)
Theorem C04_oe_active_wl_member_pays_wl_price : forall vr s e fp w v stage proof alloc s' ms,
  o_whitelist s = Some w -> wv_active v = true ->
  ostep vr s e fp (Some v) (EMint stage proof alloc) = Ok (s', ms) ->
  o_membership_answer vr v proof = Some true /\
  o_mint_price s fp (Some v) false = Ok (wv_price v, wv_denom v) /\
  may_pay (e_funds e) (wv_denom v) = Ok (wv_price v) /\
  o_public s' = o_public s /\
  o_wl_total s' (e_sender e) = o_wl_total s (e_sender e) + 1 /\
  o_start s' = o_start s /\ o_end s' = o_end s /\ o_whitelist s' = o_whitelist s /\
  ~ (exists en, o_end s = Some en /\ en <= e_now e).
Proof. exact oe_active_wl_member_pays_wl_price. Qed.


Theorem C04_oe_faithful_whitelist_only_members_mint : forall (intended : addr -> Prop) vr s e fp w v stage proof alloc s' ms,
  o_whitelist s = Some w -> wv_active v = true ->
  (o_membership_answer vr v proof = Some true -> intended (e_sender e)) ->
  ostep vr s e fp (Some v) (EMint stage proof alloc) = Ok (s', ms) ->
  intended (e_sender e).
Proof. exact oe_faithful_whitelist_only_members_mint. Qed.

Theorem C04_oe_nonmember_mint_blames_whitelist_answer : forall (intended : addr -> Prop) vr s e fp w v stage proof alloc s' ms,
  o_whitelist s = Some w -> wv_active v = true ->
  ostep vr s e fp (Some v) (EMint stage proof alloc) = Ok (s', ms) ->
  ~ intended (e_sender e) ->
  o_membership_answer vr v proof = Some true /\ ~ intended (e_sender e).
Proof. exact oe_nonmember_mint_blames_whitelist_answer. Qed.

(* when the whitelist is not active the public rules apply *)
Theorem C04_oe_inactive_wl_public_rules : forall vr s e fp wv wv0 stage proof alloc,
  (o_whitelist s = None \/ exists v, wv = Some v /\ wv_active v = false) ->
  ostep vr s e fp wv (EMint stage proof alloc) =
  match ostep vr (o_with_wl s None) e fp wv0 (EMint stage proof alloc) with
  | Ok (s', ms) => Ok (o_with_wl s' (o_whitelist s), ms)
  | Err => Err
  end.
Proof. exact oe_inactive_wl_public_rules. Qed.

(* airdrops (MintTo): admin only, never at or after the end time; not subject to the
   start gate nor to the whitelist: the outcome depends on the clock only through
   "has the end time passed" *)
Theorem C04_oe_airdrop_admin_only_before_end : forall vr s e fp wv rok r s' ms,
  ostep vr s e fp wv (EMintTo rok r) = Ok (s', ms) ->
  e_sender e = o_admin s /\ ~ (exists en, o_end s = Some en /\ en <= e_now e) /\
  o_start s' = o_start s /\ o_end s' = o_end s /\ o_whitelist s' = o_whitelist s.
Proof. exact oe_airdrop_admin_only_before_end. Qed.

Theorem C04_oe_airdrop_ignores_start_and_whitelist : forall vr s fp rok r now now' sender funds c wv wv',
  (match o_end s with Some en => en <=? now | None => false end) =
  (match o_end s with Some en => en <=? now' | None => false end) ->
  ostep vr s (mkEnv now sender funds c) fp wv (EMintTo rok r) =
  ostep vr s (mkEnv now' sender funds c) fp wv' (EMintTo rok r).
Proof. exact oe_airdrop_ignores_start_and_whitelist. Qed.

(* the start time changes only before the mint has started, never into the past, never
   beyond the end time *)
Theorem C04_oe_update_start_time_ok : forall vr s e fp wv t s' ms,
  ostep vr s e fp wv (EUpdateStartTime t) = Ok (s', ms) ->
  e_sender e = o_admin s /\ e_funds e = [] /\
  e_now e < o_start s /\ e_now e <= t /\ (forall en, o_end s = Some en -> t <= en) /\
  s' = o_with_start s t /\ ms = [].
Proof. exact oe_update_start_time_ok. Qed.

Theorem C04_oe_update_start_time_complete : forall vr s e fp wv t,
  e_sender e = o_admin s -> e_funds e = [] -> e_now e < o_start s -> e_now e <= t ->
  (forall en, o_end s = Some en -> t <= en) ->
  ostep vr s e fp wv (EUpdateStartTime t) = Ok (o_with_start s t, []).
Proof. exact oe_update_start_time_complete. Qed.

(* the end time changes only if one exists and has not passed, never into the past,
   never before the start *)
Theorem C04_oe_update_end_time_ok : forall vr s e fp wv t s' ms,
  ostep vr s e fp wv (EUpdateEndTime t) = Ok (s', ms) ->
  e_sender e = o_admin s /\ e_funds e = [] /\
  (exists en, o_end s = Some en /\ e_now e < en) /\ e_now e <= t /\ o_start s <= t /\
  s' = o_with_end s t /\ ms = [].
Proof. exact oe_update_end_time_ok. Qed.

Theorem C04_oe_update_end_time_complete : forall vr s e fp wv t en,
  e_sender e = o_admin s -> e_funds e = [] -> o_end s = Some en ->
  e_now e < en -> e_now e <= t -> o_start s <= t ->
  ostep vr s e fp wv (EUpdateEndTime t) = Ok (o_with_end s t, []).
Proof. exact oe_update_end_time_complete. Qed.

(* a whitelist is attached or replaced only by the admin, before the start, with neither
   the current nor the new one active *)
Theorem C04_oe_set_whitelist_ok : forall vr s e fp wv wok w newview s' ms,
  ostep vr s e fp wv (ESetWhitelist wok w newview) = Ok (s', ms) ->
  e_sender e = o_admin s /\ e_funds e = [] /\
  e_now e < o_start s /\
  (o_whitelist s = None \/ exists v, wv = Some v /\ wv_active v = false) /\
  wok = true /\
  (exists nv, newview = Some nv /\ wv_active nv = false /\
              wv_denom nv = o_denom s /\
              ofp_min_price fp <= wv_price nv /\ ofp_min_denom fp = wv_denom nv) /\
  s' = o_with_wl s (Some w) /\ ms = [].
Proof. exact oe_set_whitelist_ok. Qed.

(* histories *)
Theorem C04_oe_only_the_three_updates_change_the_schedule : forall vr s e fp wv o s' ms,
  ostep vr s e fp wv o = Ok (s', ms) ->
  ((forall t, o <> EUpdateStartTime t) -> o_start s' = o_start s) /\
  ((forall t, o <> EUpdateEndTime t) -> o_end s' = o_end s) /\
  ((forall a b c, o <> ESetWhitelist a b c) -> o_whitelist s' = o_whitelist s).
Proof. exact ostep_keeps_schedule. Qed.

Theorem C04_oe_schedule_frozen_once_started : forall vr s e fp wv o s' ms,
  ostep vr s e fp wv o = Ok (s', ms) -> o_start s <= e_now e ->
  o_start s' = o_start s /\ o_whitelist s' = o_whitelist s.
Proof. exact o_started_frozen. Qed.

Theorem C04_oe_trace_spelled_out : forall vr s c cs t,
  o_run vr s [] = s /\ o_run vr s (c :: cs) = o_run vr (o_apply_call vr s c) cs /\
  o_apply_call vr s c =
    match ostep vr s (oc_env c) (oc_fp c) (oc_wv c) (oc_op c) with Ok (s', _) => s' | Err => s end /\
  o_trace vr s [] = [] /\
  o_trace vr s (c :: cs) = (s, c) :: o_trace vr (o_apply_call vr s c) cs /\
  (o_clock_mono t [] <-> True) /\
  (o_clock_mono t (c :: cs) <-> t <= e_now (oc_env c) /\ o_clock_mono (e_now (oc_env c)) cs) /\
  (o_some_mint_succeeds vr s c <->
     (match oc_op c with EMint _ _ _ | EMintTo _ _ => True | _ => False end) /\
     exists r, ostep vr s (oc_env c) (oc_fp c) (oc_wv c) (oc_op c) = Ok r) /\
  (o_public_mint_succeeds vr s c <->
     exists stage proof alloc r,
       oc_op c = EMint stage proof alloc /\
       ostep vr s (oc_env c) (oc_fp c) (oc_wv c) (oc_op c) = Ok r /\
       o_is_public_mint vr s (oc_wv c) (e_sender (oc_env c)) proof alloc = Ok true).
Proof.
  intros. split; [ reflexivity | ]. split; [ reflexivity | ]. split; [ reflexivity | ].
  split; [ reflexivity | ]. split; [ reflexivity | ]. split; [ reflexivity | ].
  split; [ reflexivity | ]. split; reflexivity.
Qed.

(* in every history whose clock does not run backwards: every successful mint of any kind
   happened before the end time stored at that moment, and every mint that succeeded
   under the public rules happened at or after the start time stored at that moment,
   which (with the whitelist) is still in force at the end of the history *)
Theorem C04_oe_history_mints_inside_window : forall vr cs s t0 si c,
  o_clock_mono t0 cs -> In (si, c) (o_trace vr s cs) ->
  (o_some_mint_succeeds vr si c -> ~ (exists en, o_end si = Some en /\ en <= e_now (oc_env c))) /\
  (o_public_mint_succeeds vr si c ->
     o_start si <= e_now (oc_env c) /\
     o_start (o_run vr s cs) = o_start si /\ o_whitelist (o_run vr s cs) = o_whitelist si).
Proof. exact oe_history_mints_inside_window. Qed.

(* once the end time has passed it stays, and nothing is minted in any continuation *)
Theorem C04_oe_after_end_nothing_mints : forall vr cs s t0 en,
  o_clock_mono t0 cs -> o_end s = Some en -> en <= t0 ->
  o_end (o_run vr s cs) = Some en /\ o_minted (o_run vr s cs) = o_minted s.
Proof. exact oe_after_end_nothing_mints. Qed.

(* non-vacuity: an open edition with start 1700000000 s, end 1700005000 s, price 100 *)
Definition c04_ofp : ofparams := mkOFP 50 0 1000 40 0 5000 10 12 604800 (Some 19).
Definition c04_oend : N := 1700005000000000000.
Definition c04_os : ostate :=
  mkOS 10 None (Some 5) 3 (Some 30) c04_start (Some c04_oend) 100 0 (Some 5) 0 0 0 [] [] [] [] [] 0 0 0 [] 0 None.
Definition c04_oplain : ovariant := mkOV false false.

Example C04_oe_ex_end_boundary :
  let mint t := ostep c04_oplain c04_os (mkEnv t 11 [mkCoin 0 100] 20) c04_ofp (Some c04_wv_inactive) (EMint None false None) in
  let drop t := ostep c04_oplain c04_os (mkEnv t 10 [mkCoin 0 40] 20) c04_ofp (Some c04_wv_inactive) (EMintTo true 12) in
  mint (c04_start - 1) = Err /\ is_ok (mint c04_start) = true /\
  is_ok (mint (c04_oend - 1)) = true /\ mint c04_oend = Err /\ mint (c04_oend + 1) = Err /\
  is_ok (drop (c04_start - 1000)) = true /\ is_ok (drop (c04_oend - 1)) = true /\ drop c04_oend = Err.
Proof. vm_compute. repeat split. Qed.

Example C04_oe_ex_whitelist_and_updates :
  let at_ t who := mkEnv t who [] 20 in
  is_ok (ostep c04_oplain c04_os (mkEnv (c04_start - 1) 11 [mkCoin 0 60] 20) c04_ofp (Some c04_wv_member) (EMint None false None)) = true /\
  ostep c04_oplain c04_os (mkEnv (c04_start + 1) 12 [mkCoin 0 100] 20) c04_ofp (Some c04_wv_stranger) (EMint None false None) = Err /\
  is_ok (ostep c04_oplain c04_os (at_ (c04_oend - 1) 10) c04_ofp None (EUpdateEndTime (c04_oend - 1))) = true /\
  ostep c04_oplain c04_os (at_ (c04_oend - 1) 10) c04_ofp None (EUpdateEndTime (c04_oend - 2)) = Err /\
  ostep c04_oplain c04_os (at_ c04_oend 10) c04_ofp None (EUpdateEndTime (c04_oend + 5)) = Err /\
  ostep c04_oplain c04_os (at_ (c04_start - 5) 10) c04_ofp None (EUpdateEndTime (c04_start - 1)) = Err /\
  is_ok (ostep c04_oplain c04_os (at_ (c04_start - 5) 10) c04_ofp None (EUpdateEndTime c04_start)) = true /\
  ostep c04_oplain c04_os (at_ (c04_start - 5) 10) c04_ofp None (EUpdateStartTime (c04_oend + 1)) = Err /\
  is_ok (ostep c04_oplain c04_os (at_ (c04_start - 5) 10) c04_ofp None (EUpdateStartTime c04_oend)) = true.
Proof. vm_compute. repeat split. Qed.

Print Assumptions C04_vocabulary_spelled_out.
Print Assumptions C04_public_rules_iff_no_active_whitelist.
Print Assumptions C04_public_before_start_fails.
Print Assumptions C04_no_or_inactive_whitelist_before_start_fails.
Print Assumptions C04_active_wl_nonmember_fails.
Print Assumptions C04_attached_wl_unanswered_fails.
Print Assumptions C04_active_wl_member_pays_wl_price.
Print Assumptions C04_inactive_wl_public_rules.
Print Assumptions C04_airdrop_admin_only.
Print Assumptions C04_airdrop_ignores_clock_and_whitelist.
Print Assumptions C04_update_start_time_ok.
Print Assumptions C04_update_start_time_complete.
Print Assumptions C04_set_whitelist_ok.
Print Assumptions C04_only_the_two_updates_change_the_schedule.
Print Assumptions C04_schedule_frozen_once_started.
Print Assumptions C04_trace_spelled_out.
Print Assumptions C04_history_public_mints_after_start.
Print Assumptions C04_oe_vocabulary_spelled_out.
Print Assumptions C04_oe_public_rules_iff_no_active_whitelist.
Print Assumptions C04_oe_public_before_start_fails.
Print Assumptions C04_oe_no_or_inactive_whitelist_before_start_fails.
Print Assumptions C04_oe_any_mint_at_or_after_end_fails.
Print Assumptions C04_oe_active_wl_nonmember_fails.
Print Assumptions C04_oe_attached_wl_unanswered_fails.
Print Assumptions C04_oe_active_wl_member_pays_wl_price.
Print Assumptions C04_oe_inactive_wl_public_rules.
Print Assumptions C04_oe_airdrop_admin_only_before_end.
Print Assumptions C04_oe_airdrop_ignores_start_and_whitelist.
Print Assumptions C04_oe_update_start_time_ok.
Print Assumptions C04_oe_update_start_time_complete.
Print Assumptions C04_oe_update_end_time_ok.
Print Assumptions C04_oe_update_end_time_complete.
Print Assumptions C04_oe_set_whitelist_ok.
Print Assumptions C04_oe_only_the_three_updates_change_the_schedule.
Print Assumptions C04_oe_schedule_frozen_once_started.
Print Assumptions C04_oe_trace_spelled_out.
Print Assumptions C04_oe_history_mints_inside_window.
Print Assumptions C04_oe_after_end_nothing_mints.
Print Assumptions C04_faithful_whitelist_only_members_mint.
Print Assumptions C04_nonmember_mint_blames_whitelist_answer.
Print Assumptions C04_oe_faithful_whitelist_only_members_mint.
Print Assumptions C04_oe_nonmember_mint_blames_whitelist_answer.

(* ---- the NFT metadata mode (off-chain token_uri / on-chain extension) of an open
   edition does not influence the gates: a call is rejected under one metadata
   configuration iff it is rejected by `ostep`, i.e. under every configuration ---- *)
From LP Require Import MinterOpenMetaProofs.

Theorem C04_oe_metadata_mode_does_not_touch_gates : forall c vr s e fp wv o,
  ostep_nft c vr s e fp wv o = Err <-> ostep vr s e fp wv o = Err.
Proof. exact ostep_nft_err. Qed.

Theorem C04_oe_metadata_mode_same_outcome : forall c vr s e fp wv o s' ms,
  ostep vr s e fp wv o = Ok (s', ms) -> ostep_nft c vr s e fp wv o = Ok (s', ms, o_mints_of c ms).
Proof. exact ostep_nft_of_ok. Qed.

Print Assumptions C04_oe_metadata_mode_does_not_touch_gates.
Print Assumptions C04_oe_metadata_mode_same_outcome.

(* =====================================================================================
   Migrations inside histories.  `minter_migrate` / `o_minter_migrate` (model/MinterMigrate.v)
   are the minters' `migrate` entry points as functions on the sale-world state; they are
   not handler operations, so `step` / `ostep` and the theorems above are untouched.  The
   sale-world correspondence runs migrations inside its histories (SaleCorr.IMigrate /
   SaleOeCorr.OIMigrate), from stored versions around 3.9.0 and the current version, by the
   wasm admin and by strangers.
   ===================================================================================== *)
From LP Require Import MinterMigrate MinterMigrateProofs.

(* an accepted migration leaves the schedule and the entitlement configuration as they were *)
Theorem C04_migrate_keeps_schedule_and_whitelist : forall vr now name_ok stored admin s s',
  minter_migrate vr now name_ok stored admin s = Ok s' ->
  s_start s' = s_start s /\ s_whitelist s' = s_whitelist s /\ s_pal s' = s_pal s /\ s_admin s' = s_admin s.
Proof. exact migrate_schedule. Qed.

(* open edition: nothing at all changes (start, end time, whitelist, cap included) *)
Theorem C04_oe_migrate_changes_nothing : forall vr now name_ok stored admin s s',
  o_minter_migrate vr now name_ok stored admin s = Ok s' -> s' = s.
Proof. exact o_migrate_id. Qed.

Print Assumptions C04_migrate_keeps_schedule_and_whitelist.
Print Assumptions C04_oe_migrate_changes_nothing.
