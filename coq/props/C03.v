(* C03 — Per-address, per-whitelist and per-stage mint limits are never exceeded.
   The six vending minters (one model, three variant flags).  Every statement is for
   every variant, every factory-parameter answer, every whitelist answer (`wlview`,
   the oracle: what the attached whitelist contract says at call time), every sender,
   clock and pseudo-random choice.  Statements only.

   Vocabulary (proofs/C03Proofs.v, spelled out below by C03_*_spelled_out):
   - wl_phase s wv: a whitelist is attached and reports is_active at call time; a
     successful Mint in that phase is a whitelist mint, otherwise a public mint;
   - slot: the counter a whitelist mint uses: SPlain (WHITELIST_MINTER_ADDRS) or the map
     and total of tiered stage 1 / 2 / 3 (WHITELIST_{FS,SS,TS}_MINTER_ADDRS,
     WHITELIST_{FS,SS,TS}_MINT_COUNT); active_slot v is the one the whitelist's own
     answers select (never a caller-chosen stage);
   - entitlement vr v proof alloc: the limit a whitelist mint is checked against;
   - tally vr evf s cs acc: fold over the SUCCESSFUL calls of the history cs from s. *)
From LP Require Import Num Pay Sg1 MinterVending MinterOpen MinterVendingProofs C03Proofs C03OpenProofs.
Import ListNotations.
Local Open Scope N_scope.

(* ---------- the vocabulary, spelled out ---------- *)
Theorem C03_entitlement_spelled_out : forall vr v proof alloc,
  entitlement vr v proof alloc =
    if v_flex vr then wv_flex_count v                       (* flex: the member's own mint_count *)
    else match alloc with
         | Some al =>                                        (* Merkle: the allocation, only behind a proof *)
             if v_merkle vr && ((wv_member_limit v =? 0) && (wv_num_members v =? 0)) && proof
             then Some al else Some (wv_limit v)
         | None => Some (wv_limit v)                         (* plain / tiered: Config.per_address_limit *)
         end.
Proof. exact entitlement_cases. Qed.

Theorem C03_active_slot_spelled_out : forall v,
  active_slot v =
    if wv_tiered v then
      match wv_stage_id v with
      | Some 1 => Some SFs | Some 2 => Some SSs | Some 3 => Some STs | _ => None
      end
    else Some SPlain.
Proof.
  intros v. unfold active_slot. destruct (wv_tiered v); [ | reflexivity ].
  destruct (wv_stage_id v) as [k|]; reflexivity.
Qed.

Theorem C03_wl_phase_spelled_out : forall s wv,
  wl_phase s wv = true <-> exists w v, s_whitelist s = Some w /\ wv = Some v /\ wv_active v = true.
Proof.
  intros s wv. unfold wl_phase. split.
  - destruct (s_whitelist s) as [w|]; [ | discriminate ]. destruct wv as [v|]; [ | discriminate ].
    intros H. exists w, v. auto.
  - intros (w & v & -> & -> & H). exact H.
Qed.

(* ---------- one successful public Mint ---------- *)
(* the sale has started, the sender's public count was below the per-address limit, it
   goes up by exactly one, nobody else's public count and no whitelist counter moves *)
Theorem C03_public_mint_step : forall vr s e fp wv stage proof alloc choice s' ms,
  step vr s e fp wv (OMint stage proof alloc choice) = Ok (s', ms) ->
  wl_phase s wv = false ->
  s_start s <= e_now e /\
  get (s_public s) (e_sender e) < s_pal s /\
  get (s_public s') (e_sender e) = get (s_public s) (e_sender e) + 1 /\
  (forall b, b <> e_sender e -> get (s_public s') b = get (s_public s) b) /\
  (forall sl, slot_map s' sl = slot_map s sl) /\
  (forall sl, stage_total s' sl = stage_total s sl) /\
  cfg s' = cfg s /\ s_mintable s <> 0.
Proof. exact public_mint_step. Qed.

(* ---------- one successful whitelist Mint ---------- *)
(* the whitelist said "member" (to the proof-form question iff the call is verified),
   the sender's count IN THE ACTIVE SLOT was below the entitlement, the stage total was
   below the stage's mint_count_limit when one is set, and exactly that count (and that
   stage's total) goes up by one; nothing else moves, the public counts included *)
Theorem C03_whitelist_mint_step : forall vr s e fp wv stage proof alloc choice s' ms,
  step vr s e fp wv (OMint stage proof alloc choice) = Ok (s', ms) ->
  wl_phase s wv = true ->
  exists v sl ent,
    wv = Some v /\ wv_active v = true /\
    (if v_merkle vr && is_merkle_tree_wl v && proof then wv_has_proof v else wv_has_plain v) = Some true /\
    active_slot v = Some sl /\
    entitlement vr v proof alloc = Some ent /\
    get (slot_map s sl) (e_sender e) < ent /\
    (is_stage sl = true ->
       exists ol, wv_stage_limit v = Some ol /\ forall lim, ol = Some lim -> stage_total s sl < lim) /\
    get (slot_map s' sl) (e_sender e) = get (slot_map s sl) (e_sender e) + 1 /\
    (forall b, b <> e_sender e -> get (slot_map s' sl) b = get (slot_map s sl) b) /\
    (forall sl', sl' <> sl -> slot_map s' sl' = slot_map s sl') /\
    (is_stage sl = true -> stage_total s' sl = stage_total s sl + 1) /\
    (forall sl', sl' <> sl -> stage_total s' sl' = stage_total s sl') /\
    s_public s' = s_public s /\
    cfg s' = cfg s /\ s_mintable s <> 0.
Proof. exact whitelist_mint_step. Qed.

(* the allocation argument is the entitlement only on a Merkle minter whose whitelist
   presents itself as a Merkle tree and with a proof attached (which, by the step
   theorem, the whitelist then accepted: wv_has_proof = Some true); otherwise the
   entitlement that happens to equal it is the whitelist's own figure *)
Theorem C03_allocation_needs_proof : forall vr v proof alloc al,
  alloc = Some al ->
  entitlement vr v proof alloc = Some al ->
  (v_flex vr = false /\ v_merkle vr = true /\ is_merkle_tree_wl v = true /\ proof = true) \/
  (v_flex vr = true /\ wv_flex_count v = Some al) \/
  (v_flex vr = false /\ wv_limit v = al).
Proof. exact allocation_needs_proof. Qed.

(* ---------- unauthenticated message fields ---------- *)
(* a call that is not verified by a proof (not a Merkle minter, or the whitelist is not
   a Merkle tree, or no proof attached): the whole outcome, Ok/Err and the resulting
   state and messages, is the same for every `stage` and `allocation` argument ... *)
Theorem C03_entitlement_not_caller_chosen : forall vr s e fp wv proof choice st al st' al',
  (match wv with Some v => v_merkle vr && is_merkle_tree_wl v && proof = false | None => True end) ->
  step vr s e fp wv (OMint st proof al choice) = step vr s e fp wv (OMint st' proof al' choice).
Proof. exact entitlement_not_caller_chosen. Qed.

(* ... and does not depend on what the whitelist would answer to a proof-form question *)
Theorem C03_unverified_ignores_proof_answer : forall vr s e fp v hp proof choice st al,
  v_merkle vr && is_merkle_tree_wl v && proof = false ->
  step vr s e fp (Some (with_has_proof v hp)) (OMint st proof al choice) =
  step vr s e fp (Some v) (OMint st proof al choice).
Proof. exact unverified_ignores_proof_answer. Qed.

(* `stage` reaches the decision only through the whitelist's answer about the leaf
   (stage, sender, allocation); the counter used is always the ACTIVE stage's *)
Theorem C03_stage_only_through_proof : forall vr s e fp wv proof choice st st' al,
  step vr s e fp wv (OMint st proof al choice) = step vr s e fp wv (OMint st' proof al choice).
Proof. exact stage_only_through_proof. Qed.

(* ---------- admin mints ---------- *)
(* MintTo / MintFor: only the admin; they count as public mints the ADMIN initiated
   (the recipient's counts do not move) and no per-address limit is checked *)
Theorem C03_admin_mint_step : forall vr s e fp wv o s' ms,
  (match o with OMintTo _ _ _ | OMintFor _ _ _ => True | _ => False end) ->
  step vr s e fp wv o = Ok (s', ms) ->
  e_sender e = s_admin s /\
  get (s_public s') (s_admin s) = get (s_public s) (s_admin s) + 1 /\
  (forall b, b <> s_admin s -> get (s_public s') b = get (s_public s) b) /\
  (forall sl, slot_map s' sl = slot_map s sl) /\
  (forall sl, stage_total s' sl = stage_total s sl) /\
  cfg s' = cfg s /\ s_mintable s <> 0.
Proof. exact admin_mint_step. Qed.

(* ---------- purge ---------- *)
(* succeeds only when sold out; clears the public counts, and the plain whitelist
   counts on the flex variants; stage maps and totals stay *)
Theorem C03_purge_step : forall vr s e fp wv s' ms,
  step vr s e fp wv OPurge = Ok (s', ms) ->
  s_mintable s = 0 /\
  s_public s' = [] /\
  slot_map s' SPlain = (if v_flex vr then [] else slot_map s SPlain) /\
  (forall sl, is_stage sl = true -> slot_map s' sl = slot_map s sl) /\
  (forall sl, stage_total s' sl = stage_total s sl) /\
  cfg s' = cfg s /\ s_mintable s' = 0.
Proof. exact purge_step. Qed.

Theorem C03_purge_needs_sell_out : forall vr s e fp wv,
  s_mintable s <> 0 -> step vr s e fp wv OPurge = Err.
Proof. exact purge_needs_sell_out. Qed.

(* every other operation leaves all eight counters as they are *)
Theorem C03_other_ops_keep_counters : forall vr s e fp wv o s' ms,
  (match o with OMint _ _ _ _ | OMintTo _ _ _ | OMintFor _ _ _ | OPurge => false | _ => true end) = true ->
  step vr s e fp wv o = Ok (s', ms) ->
  s_public s' = s_public s /\ (forall sl, slot_map s' sl = slot_map s sl) /\
  (forall sl, stage_total s' sl = stage_total s sl).
Proof.
  intros vr s e fp wv o s' ms Ho H. apply ctr_fields. eapply other_ops_keep_counters; [ | exact H ].
  destruct o; try discriminate Ho; reflexivity.
Qed.

(* ---------- histories ---------- *)
(* the public count the minter reports for `a` = the public mints `a` initiated (Mint
   in the public phase, MintTo / MintFor as admin) since the last successful purge *)
Theorem C03_public_count_reported : forall vr a cs s,
  get (s_public (run vr s cs)) a = tally vr (pub_ev a) s cs (get (s_public s) a).
Proof. exact public_count_reported. Qed.

(* the whitelist count per slot = the whitelist mints `a` initiated while that slot
   was the active one, since the last purge that clears the slot *)
Theorem C03_whitelist_count_reported : forall vr a sl cs s,
  get (slot_map (run vr s cs) sl) a = tally vr (wl_ev vr a sl) s cs (get (slot_map s sl) a).
Proof. exact whitelist_count_reported. Qed.

Theorem C03_stage_total_reported : forall vr sl cs s,
  is_stage sl = true ->
  stage_total (run vr s cs) sl = tally vr (stage_ev sl) s cs (stage_total s sl).
Proof. exact stage_total_reported. Qed.

(* the MintCount query: count (+ whitelist_count on the flex variants) *)
Theorem C03_mint_count_query : forall vr a cs s,
  let pub := tally vr (pub_ev a) s cs (get (s_public s) a) in
  let wl := tally vr (wl_ev vr a SPlain) s cs (get (s_wl s) a) +
            (tally vr (wl_ev vr a SFs) s cs (get (s_fs s) a) +
             tally vr (wl_ev vr a SSs) s cs (get (s_ss s) a) +
             tally vr (wl_ev vr a STs) s cs (get (s_ts s) a)) in
  q_mint_count vr (run vr s cs) a = if v_flex vr then (pub, wl) else (pub + wl, 0).
Proof. exact mint_count_query_reported. Qed.

(* NEVER EXCEEDS, with the limit in force at each mint.  For every prefix cs1 of a
   history and every successful public Mint c of `a` after it: the number of public
   mints `a` has initiated in the whole history so far (this one included, purges NOT
   resetting anything, starting from what the initial state already records) is at most
   the per-address limit stored when c ran. *)
Theorem C03_never_exceeds_public : forall vr a s0 cs1 c s2 ms,
  let s1 := run vr s0 cs1 in
  cstep vr s1 c = Ok (s2, ms) ->
  is_pub_mint_of a s1 c = true ->
  tally vr (pub_total_ev a) s0 (cs1 ++ [c]) (get (s_public s0) a) <= s_pal s1.
Proof. exact never_exceeds_public. Qed.

(* the same for whitelist mints, per slot, against the entitlement the whitelist's
   answers and (only behind an accepted proof) the allocation gave at that call *)
Theorem C03_never_exceeds_whitelist : forall vr a sl s0 cs1 c s2 ms,
  let s1 := run vr s0 cs1 in
  cstep vr s1 c = Ok (s2, ms) ->
  is_wl_mint_of a sl s1 c = true ->
  exists stage proof alloc choice v ent,
    c_op c = OMint stage proof alloc choice /\ c_wv c = Some v /\
    entitlement vr v proof alloc = Some ent /\
    tally vr (wl_total_ev a sl) s0 (cs1 ++ [c]) (get (slot_map s0 sl) a) <= ent.
Proof. exact never_exceeds_whitelist. Qed.

(* the total minted in a tiered stage never exceeds that stage's mint_count_limit *)
Theorem C03_never_exceeds_stage : forall vr sl s0 cs1 c s2 ms,
  let s1 := run vr s0 cs1 in
  is_stage sl = true ->
  cstep vr s1 c = Ok (s2, ms) ->
  is_wl_mint_in sl s1 c = true ->
  exists v ol, c_wv c = Some v /\ wv_stage_limit v = Some ol /\
    forall lim, ol = Some lim ->
      tally vr (stage_ev sl) s0 (cs1 ++ [c]) (stage_total s0 sl) <= lim.
Proof. exact never_exceeds_stage. Qed.

(* consequence for a constant limit: in a history without UpdatePerAddressLimit calls,
   no address completes more public Mints than the per-address limit *)
Theorem C03_constant_limit_public : forall vr a cs s0,
  Forall (fun c => match c_op c with OUpdatePerAddressLimit _ => False | _ => True end) cs ->
  tally vr (pub_own_ev a) s0 cs 0 <= s_pal s0.
Proof. exact constant_limit_public. Qed.

(* the tallies, spelled out: what each one counts *)
Theorem C03_tally_spelled_out : forall vr evf s c r acc,
  tally vr evf s [] acc = acc /\
  tally vr evf s (c :: r) acc =
    match step vr s (c_env c) (c_fp c) (c_wv c) (c_op c) with
    | Ok (s', _) => tally vr evf s' r (match evf s c with EvNone => acc | EvInc => acc + 1 | EvReset => 0 end)
    | Err => tally vr evf s r acc
    end.
Proof. intros. split; reflexivity. Qed.

Theorem C03_events_spelled_out : forall vr a sl s c,
  let snd_is_a := e_sender (c_env c) =? a in
  let mint := match c_op c with OMint _ _ _ _ => true | _ => false end in
  let airdrop := match c_op c with OMintTo _ _ _ | OMintFor _ _ _ => true | _ => false end in
  let purge := match c_op c with OPurge => true | _ => false end in
  let in_slot := match c_wv c with
                 | Some v => match active_slot v with Some sl' => slot_eqb sl' sl | None => false end
                 | None => false end in
  let pubm := mint && snd_is_a && negb (wl_phase s (c_wv c)) in
  let wlm := mint && wl_phase s (c_wv c) && in_slot in
  pub_total_ev a s c = (if pubm || (airdrop && snd_is_a) then EvInc else EvNone) /\
  pub_ev a s c = (if purge then EvReset else if pubm || (airdrop && snd_is_a) then EvInc else EvNone) /\
  pub_own_ev a s c = (if pubm then EvInc else EvNone) /\
  is_pub_mint_of a s c = pubm /\
  is_wl_mint_in sl s c = wlm /\
  is_wl_mint_of a sl s c = (snd_is_a && wlm) /\
  wl_total_ev a sl s c = (if snd_is_a && wlm then EvInc else EvNone) /\
  wl_ev vr a sl s c =
    (if purge && (v_flex vr && match sl with SPlain => true | _ => false end) then EvReset
     else if snd_is_a && wlm then EvInc else EvNone) /\
  stage_ev sl s c = (if wlm then EvInc else EvNone).
Proof.
  intros vr a sl s c. cbn zeta.
  unfold pub_total_ev, pub_ev, pub_own_ev, wl_total_ev, wl_ev, stage_ev, is_wl_mint_of, is_pub_mint_of, is_admin_mint_of,
    is_wl_mint_in, is_purge, purge_clears, call_slot, sender.
  destruct (c_wv c) as [v|]; destruct (c_op c); cbn [andb orb]; rewrite ?andb_false_r; cbn [andb orb]; repeat split; reflexivity.
Qed.

(* ---------- non-vacuity: concrete evaluations in the model ---------- *)
Definition ex_fp : fparams := mkFP 50 0 1000 0 0 10000 500 50 604800.
Definition six : list (N * N) := [(1, 1); (2, 2); (3, 3); (4, 4); (5, 5); (6, 6)].
(* admin 10, 6 tokens, per-address limit 2, whitelist contract 30, public start 5000 *)
Definition ex_s0 : vstate :=
  mkVS 10 None 6 2 (Some 30) 5000 100 0 None 6 six [] 0 [] [] [] [] [] 0 0 0 0 0 None.
Definition plain_vr := mkVariant false false false.
Definition flex_vr := mkVariant false true false.
Definition merkle_vr := mkVariant false false true.
(* an active plain whitelist, per-address limit 1, sender is a member *)
Definition wv_plain : wlview :=
  mkWV true 60 0 1 1000 2 (Some true) None false None None None.
(* an active Merkle-tree whitelist (member_limit = num_members = 0), Config limit 1;
   the proof-form question is answered yes, the plain one cannot be asked *)
Definition wv_merkle (accepted : bool) : wlview :=
  mkWV true 60 0 1 0 0 None (Some accepted) false None None None.
(* tiered, stage 2 active, per-address limit 2, stage mint_count_limit 3 *)
Definition wv_tier2 : wlview :=
  mkWV true 60 0 2 1000 2 (Some true) None true (Some 2) (Some (Some 3)) None.
Definition wv_flex3 : wlview :=
  mkWV true 60 0 1 1000 2 (Some true) None false None None (Some 3).
Definition wv_closed : wlview :=
  mkWV false 60 0 1 1000 2 (Some true) None false None None None.
Definition mint_call (t who : N) (wv : wlview) (pay : N) (proof : bool) (alloc : option N) (choice : N) : call :=
  mkCall (mkEnv t who [mkCoin 0 pay] 20) ex_fp (Some wv) (OMint None proof alloc choice).

(* the repaired defect: Merkle minter + plain whitelist (limit 1), a member declares
   allocation 5 without a proof four times: exactly one mint *)
Example C03_ex_unproven_allocation_is_ignored :
  let cs := [mint_call 2000 11 wv_plain 60 false (Some 5) 1; mint_call 2001 11 wv_plain 60 false (Some 5) 2;
             mint_call 2002 11 wv_plain 60 false (Some 5) 3; mint_call 2003 11 wv_plain 60 false (Some 5) 4] in
  let s := run merkle_vr ex_s0 cs in
  (get (s_wl s) 11, s_mintable s, q_mint_count merkle_vr s 11,
   tally merkle_vr (wl_total_ev 11 SPlain) ex_s0 cs 0) = (1, 5, (1, 0), 1).
Proof. vm_compute. reflexivity. Qed.

(* a proof the whitelist rejects does not help either; an accepted one binds allocation 3 *)
Example C03_ex_proven_allocation :
  let bad := [mint_call 2000 11 (wv_merkle false) 60 true (Some 5) 1] in
  let good := [mint_call 2000 11 (wv_merkle true) 60 true (Some 3) 1; mint_call 2001 11 (wv_merkle true) 60 true (Some 3) 2;
               mint_call 2002 11 (wv_merkle true) 60 true (Some 3) 3; mint_call 2003 11 (wv_merkle true) 60 true (Some 3) 4] in
  (get (s_wl (run merkle_vr ex_s0 bad)) 11, get (s_wl (run merkle_vr ex_s0 good)) 11,
   entitlement merkle_vr (wv_merkle true) true (Some 3), entitlement merkle_vr wv_plain false (Some 5)) =
  (0, 3, Some 3, Some 1).
Proof. vm_compute. reflexivity. Qed.

(* a PROVEN allocation of 0 entitles to nothing (the Config limit, 1 here, does not step in), on the
   vending and on the open-edition Merkle minter *)
Example C03_ex_proven_zero_allocation :
  (get (s_wl (run merkle_vr ex_s0 [mint_call 2000 11 (wv_merkle true) 60 true (Some 0) 1])) 11,
   entitlement merkle_vr (wv_merkle true) true (Some 0),
   o_entitlement (mkOV false true) (wv_merkle true) (Some 0),
   is_ok (ostep (mkOV false true)
            (o_init (mkOV false true) 10 None (Some 6) 2 (Some 30) 5000 (Some 9000) 100 0 100 None)
            (mkEnv 2000 11 [mkCoin 0 60] 20) (mkOFP 50 0 1000 40 0 5000 10 100 604800 (Some 9))
            (Some (wv_merkle true)) (EMint None true (Some 0)))) = (0, Some 0, Some 0, false).
Proof. vm_compute. reflexivity. Qed.

(* tiered: stage 2 is active, per-address limit 2, stage limit 3: buyers 11 and 12 get
   2 + 1, the counts land in the stage-2 map and total *)
Example C03_ex_tiered_stage :
  let cs := [mint_call 2000 11 wv_tier2 60 false None 1; mint_call 2001 11 wv_tier2 60 false None 2;
             mint_call 2002 11 wv_tier2 60 false None 3; mint_call 2003 12 wv_tier2 60 false None 3;
             mint_call 2004 12 wv_tier2 60 false None 4] in
  let s := run plain_vr ex_s0 cs in
  (get (s_ss s) 11, get (s_ss s) 12, s_ss_count s, s_fs s, s_wl s, s_public s,
   tally plain_vr (stage_ev SSs) ex_s0 cs 0, q_mint_count plain_vr s 11) = (2, 1, 3, [], [], [], 3, (2, 0)).
Proof. vm_compute. reflexivity. Qed.

(* flex: the member's own mint_count (3) is the entitlement, Config's limit (1) is not *)
Example C03_ex_flex_member_count :
  let cs := [mint_call 2000 11 wv_flex3 60 false None 1; mint_call 2001 11 wv_flex3 60 false None 2;
             mint_call 2002 11 wv_flex3 60 false None 3; mint_call 2003 11 wv_flex3 60 false None 4] in
  q_mint_count flex_vr (run flex_vr ex_s0 cs) 11 = (0, 3).
Proof. vm_compute. reflexivity. Qed.

(* public phase: limit 2 stops the third mint; after UpdatePerAddressLimit 3 it passes;
   the admin airdrops beyond any limit and the count is the admin's; purge fails while
   tokens are left *)
Example C03_ex_public_history :
  let upd := mkCall (mkEnv 6003 10 [] 20) ex_fp (Some wv_closed) (OUpdatePerAddressLimit 3) in
  let air k t := mkCall (mkEnv t 10 [] 20) ex_fp (Some wv_closed) (OMintTo true 12 k) in
  let cs := [mint_call 6000 11 wv_closed 100 false None 1; mint_call 6001 11 wv_closed 100 false None 2;
             mint_call 6002 11 wv_closed 100 false None 3; upd; mint_call 6004 11 wv_closed 100 false None 3;
             mkCall (mkEnv 6005 13 [] 20) ex_fp (Some wv_closed) OPurge;
             air 4 6006; air 5 6007; air 6 6008] in
  let s := run plain_vr ex_s0 cs in
  (get (s_public s) 11, get (s_public s) 10, get (s_public s) 12, s_pal s, s_mintable s,
   tally plain_vr (pub_total_ev 11) ex_s0 cs 0, tally plain_vr (pub_own_ev 10) ex_s0 cs 0) = (3, 3, 0, 3, 0, 3, 0).
Proof. vm_compute. reflexivity. Qed.

(* ---------- the whitelist's answers against what its admin intended ----------
   Limit, allowance and stage cap reach the minter only through the whitelist's answers to
   the very call.  For ANY intended per-address entitlement `ient` and stage cap `icap` (the
   harness keeps them in its own ledger of the whitelist admin's accepted messages and
   judges every mint against it): answers faithful to them keep the per-address count and
   the stage total within the intended values; a count above the intended entitlement
   means the whitelist answered with a larger figure. *)
Theorem C03_faithful_whitelist_within_intended : forall vr (ient icap : N) s e fp wv stage proof alloc choice s' ms,
  step vr s e fp wv (OMint stage proof alloc choice) = Ok (s', ms) ->
  wl_phase s wv = true ->
  (forall v ent, wv = Some v -> entitlement vr v proof alloc = Some ent -> ent <= ient) ->
  (forall v sl, wv = Some v -> active_slot v = Some sl -> is_stage sl = true ->
     exists lim, wv_stage_limit v = Some (Some lim) /\ lim <= icap) ->
  exists v sl, wv = Some v /\ active_slot v = Some sl /\
    get (slot_map s' sl) (e_sender e) <= ient /\
    (is_stage sl = true -> stage_total s' sl <= icap).
Proof. exact faithful_whitelist_within_intended. Qed.

Theorem C03_excess_blames_whitelist_answer : forall vr (ient : N) s e fp wv stage proof alloc choice s' ms,
  step vr s e fp wv (OMint stage proof alloc choice) = Ok (s', ms) ->
  wl_phase s wv = true ->
  forall v sl, wv = Some v -> active_slot v = Some sl ->
    ient < get (slot_map s' sl) (e_sender e) ->
    exists ent, entitlement vr v proof alloc = Some ent /\ ient < ent.
Proof. exact excess_blames_whitelist_answer. Qed.

Theorem C03_never_exceeds_intended : forall vr a sl (ient : N) s0 cs1 c s2 ms,
  let s1 := run vr s0 cs1 in
  cstep vr s1 c = Ok (s2, ms) ->
  is_wl_mint_of a sl s1 c = true ->
  (forall stage proof alloc choice v ent,
     c_op c = OMint stage proof alloc choice -> c_wv c = Some v ->
     entitlement vr v proof alloc = Some ent -> ent <= ient) ->
  tally vr (wl_total_ev a sl) s0 (cs1 ++ [c]) (get (slot_map s0 sl) a) <= ient.
Proof. exact never_exceeds_intended. Qed.

Theorem C03_oe_faithful_whitelist_within_intended : forall vr (ient icap : N) s e fp wv stage proof alloc s' ms,
  ostep vr s e fp wv (EMint stage proof alloc) = Ok (s', ms) ->
  o_wl_phase s wv = true ->
  (forall v ent, wv = Some v -> o_entitlement vr v alloc = Some ent -> ent <= ient) ->
  (forall v sl, wv = Some v -> active_slot v = Some sl -> is_stage sl = true ->
     exists lim, wv_stage_limit v = Some (Some lim) /\ lim <= icap) ->
  exists v sl, wv = Some v /\ active_slot v = Some sl /\
    get (o_slot_map s' sl) (e_sender e) <= ient /\
    (is_stage sl = true -> o_stage_total s' sl <= icap).
Proof. exact o_faithful_whitelist_within_intended. Qed.

(* =====================================================================================
   Part 2: the three open-edition minters (MinterOpen.ostep; variant flags ov_flex,
   ov_merkle).  Same vocabulary: o_wl_phase, o_slot_map, o_stage_total, o_entitlement,
   otally over the successful calls of a history (orun).
   ===================================================================================== *)
Theorem C03_oe_entitlement_spelled_out : forall vr v alloc,
  o_entitlement vr v alloc =
    if ov_flex vr then wv_flex_count v                            (* the member's own mint_count *)
    else if ov_merkle vr then Some (match alloc with Some al => al | None => wv_limit v end)
                                                                  (* always behind a proof, see below *)
    else Some (wv_limit v).                                       (* Config.per_address_limit *)
Proof. reflexivity. Qed.

Theorem C03_oe_public_mint_step : forall vr s e fp wv stage proof alloc s' ms,
  ostep vr s e fp wv (EMint stage proof alloc) = Ok (s', ms) ->
  o_wl_phase s wv = false ->
  o_start s <= e_now e /\ o_ended s (e_now e) = false /\
  get (o_public s) (e_sender e) < o_pal s /\
  get (o_public s') (e_sender e) = get (o_public s) (e_sender e) + 1 /\
  (forall b, b <> e_sender e -> get (o_public s') b = get (o_public s) b) /\
  (forall sl, o_slot_map s' sl = o_slot_map s sl) /\
  (forall sl, o_stage_total s' sl = o_stage_total s sl) /\
  o_cfg s' = o_cfg s /\ o_mintable s <> Some 0.
Proof. exact o_public_mint_step. Qed.

(* on the Merkle variant EVERY whitelist mint carries a proof the whitelist accepted for
   the leaf (stage, sender, allocation); on the flex variant without a token count the
   minter's own per-address limit binds as well *)
Theorem C03_oe_whitelist_mint_step : forall vr s e fp wv stage proof alloc s' ms,
  ostep vr s e fp wv (EMint stage proof alloc) = Ok (s', ms) ->
  o_wl_phase s wv = true ->
  exists v sl ent,
    wv = Some v /\ wv_active v = true /\ o_ended s (e_now e) = false /\
    (if ov_merkle vr then proof = true /\ wv_has_proof v = Some true else wv_has_plain v = Some true) /\
    active_slot v = Some sl /\
    o_entitlement vr v alloc = Some ent /\
    get (o_slot_map s sl) (e_sender e) < ent /\
    (ov_flex vr = true -> o_num_tokens s = None -> get (o_slot_map s sl) (e_sender e) < o_pal s) /\
    (is_stage sl = true ->
       exists ol, wv_stage_limit v = Some ol /\ forall lim, ol = Some lim -> o_stage_total s sl < lim) /\
    get (o_slot_map s' sl) (e_sender e) = get (o_slot_map s sl) (e_sender e) + 1 /\
    (forall b, b <> e_sender e -> get (o_slot_map s' sl) b = get (o_slot_map s sl) b) /\
    (forall sl', sl' <> sl -> o_slot_map s' sl' = o_slot_map s sl') /\
    (is_stage sl = true -> o_stage_total s' sl = o_stage_total s sl + 1) /\
    (forall sl', sl' <> sl -> o_stage_total s' sl' = o_stage_total s sl') /\
    o_public s' = o_public s /\
    o_cfg s' = o_cfg s /\ o_mintable s <> Some 0.
Proof. exact o_whitelist_mint_step. Qed.

Theorem C03_oe_args_ignored_without_merkle : forall vr s e fp wv st pr al st' pr' al',
  ov_merkle vr = false ->
  ostep vr s e fp wv (EMint st pr al) = ostep vr s e fp wv (EMint st' pr' al').
Proof. exact o_args_ignored_without_merkle. Qed.

Theorem C03_oe_stage_only_through_proof : forall vr s e fp wv pr al st st',
  ostep vr s e fp wv (EMint st pr al) = ostep vr s e fp wv (EMint st' pr al).
Proof. exact o_stage_only_through_proof. Qed.

Theorem C03_oe_admin_mint_step : forall vr s e fp wv rok r s' ms,
  ostep vr s e fp wv (EMintTo rok r) = Ok (s', ms) ->
  e_sender e = o_admin s /\
  get (o_public s') (o_admin s) = get (o_public s) (o_admin s) + 1 /\
  (forall b, b <> o_admin s -> get (o_public s') b = get (o_public s) b) /\
  (forall sl, o_slot_map s' sl = o_slot_map s sl) /\
  (forall sl, o_stage_total s' sl = o_stage_total s sl) /\
  o_cfg s' = o_cfg s /\ o_mintable s <> Some 0 /\ o_ended s (e_now e) = false.
Proof. exact o_admin_mint_step. Qed.

(* purge: only when the sale is over (past the end time when there is one, else sold out),
   on the flex variant also never while a stored count is non-zero *)
Theorem C03_oe_purge_step : forall vr s e fp wv s' ms,
  ostep vr s e fp wv EPurge = Ok (s', ms) ->
  (match o_end s with
   | Some en => en < e_now e
   | None => match o_mintable s with Some m => m = 0 | None => True end
   end) /\
  (ov_flex vr = true -> o_mintable s = Some 0 \/ o_mintable s = None) /\
  o_public s' = [] /\
  o_slot_map s' SPlain = (if ov_flex vr then [] else o_slot_map s SPlain) /\
  (forall sl, is_stage sl = true -> o_slot_map s' sl = o_slot_map s sl) /\
  (forall sl, o_stage_total s' sl = o_stage_total s sl) /\
  o_cfg s' = o_cfg s /\ o_mintable s' = o_mintable s.
Proof. exact o_purge_step. Qed.

(* with a clock that never runs backwards, nothing at all is minted after a successful
   purge (o_bounded: an end time or a token count exists, as the factory enforces) *)
Theorem C03_oe_purge_is_final : forall vr s c s1 ms cs,
  (o_mintable s = None -> o_end s <> None) ->
  oc_op c = EPurge -> ocstep vr s c = Ok (s1, ms) ->
  times_from (e_now (oc_env c)) cs ->
  otally vr (fun _ c' => if match oc_op c' with EMint _ _ _ | EMintTo _ _ => true | _ => false end then EvInc else EvNone)
         s1 cs 0 = 0.
Proof. exact o_purge_is_final. Qed.

Theorem C03_oe_other_ops_keep_counters : forall vr s e fp wv o s' ms,
  (match o with EMint _ _ _ | EMintTo _ _ | EPurge => false | _ => true end) = true ->
  ostep vr s e fp wv o = Ok (s', ms) ->
  o_public s' = o_public s /\ (forall sl, o_slot_map s' sl = o_slot_map s sl) /\
  (forall sl, o_stage_total s' sl = o_stage_total s sl).
Proof.
  intros vr s e fp wv o s' ms Ho H. apply o_ctr_fields. eapply o_other_ops_keep_counters; [ | exact H ].
  destruct o; try discriminate Ho; reflexivity.
Qed.

Theorem C03_oe_public_count_reported : forall vr a cs s,
  get (o_public (orun vr s cs)) a = otally vr (o_pub_ev a) s cs (get (o_public s) a).
Proof. exact o_public_count_reported. Qed.

Theorem C03_oe_whitelist_count_reported : forall vr a sl cs s,
  get (o_slot_map (orun vr s cs) sl) a = otally vr (o_wl_ev vr a sl) s cs (get (o_slot_map s sl) a).
Proof. exact o_whitelist_count_reported. Qed.

Theorem C03_oe_stage_total_reported : forall vr sl cs s,
  is_stage sl = true ->
  o_stage_total (orun vr s cs) sl = otally vr (o_stage_ev sl) s cs (o_stage_total s sl).
Proof. exact o_stage_total_reported. Qed.

Theorem C03_oe_mint_count_query : forall vr a cs s,
  let pub := otally vr (o_pub_ev a) s cs (get (o_public s) a) in
  let wl := otally vr (o_wl_ev vr a SPlain) s cs (get (o_wl s) a) +
            (otally vr (o_wl_ev vr a SFs) s cs (get (o_fs s) a) +
             otally vr (o_wl_ev vr a SSs) s cs (get (o_ss s) a) +
             otally vr (o_wl_ev vr a STs) s cs (get (o_ts s) a)) in
  oq_mint_count vr (orun vr s cs) a = if ov_flex vr then (pub, wl) else (pub + wl, 0).
Proof. exact o_mint_count_query_reported. Qed.

(* never exceeds, limit in force at each mint; the tallies restart at a successful purge,
   after which (C03_oe_purge_is_final) nothing is minted any more *)
Theorem C03_oe_never_exceeds_public : forall vr a s0 cs1 c s2 ms,
  let s1 := orun vr s0 cs1 in
  ocstep vr s1 c = Ok (s2, ms) ->
  o_is_pub_mint_of a s1 c = true ->
  otally vr (o_pub_ev a) s0 (cs1 ++ [c]) (get (o_public s0) a) <= o_pal s1.
Proof. exact o_never_exceeds_public. Qed.

Theorem C03_oe_never_exceeds_whitelist : forall vr a sl s0 cs1 c s2 ms,
  let s1 := orun vr s0 cs1 in
  ocstep vr s1 c = Ok (s2, ms) ->
  o_is_wl_mint_of a sl s1 c = true ->
  exists stage proof alloc v ent,
    oc_op c = EMint stage proof alloc /\ oc_wv c = Some v /\
    o_entitlement vr v alloc = Some ent /\
    (ov_merkle vr = true -> proof = true /\ wv_has_proof v = Some true) /\
    otally vr (o_wl_ev vr a sl) s0 (cs1 ++ [c]) (get (o_slot_map s0 sl) a) <= ent.
Proof. exact o_never_exceeds_whitelist. Qed.

Theorem C03_oe_never_exceeds_stage : forall vr sl s0 cs1 c s2 ms,
  let s1 := orun vr s0 cs1 in
  is_stage sl = true ->
  ocstep vr s1 c = Ok (s2, ms) ->
  o_is_wl_mint_in sl s1 c = true ->
  exists v ol, oc_wv c = Some v /\ wv_stage_limit v = Some ol /\
    forall lim, ol = Some lim ->
      otally vr (o_stage_ev sl) s0 (cs1 ++ [c]) (o_stage_total s0 sl) <= lim.
Proof. exact o_never_exceeds_stage. Qed.

Theorem C03_oe_events_spelled_out : forall vr a sl s c,
  let snd_is_a := e_sender (oc_env c) =? a in
  let mint := match oc_op c with EMint _ _ _ => true | _ => false end in
  let airdrop := match oc_op c with EMintTo _ _ => true | _ => false end in
  let purge := match oc_op c with EPurge => true | _ => false end in
  let in_slot := match oc_wv c with
                 | Some v => match active_slot v with Some sl' => slot_eqb sl' sl | None => false end
                 | None => false end in
  let pubm := mint && snd_is_a && negb (o_wl_phase s (oc_wv c)) in
  let wlm := mint && o_wl_phase s (oc_wv c) && in_slot in
  o_pub_ev a s c = (if purge then EvReset else if pubm || (airdrop && snd_is_a) then EvInc else EvNone) /\
  o_is_pub_mint_of a s c = pubm /\
  o_is_wl_mint_in sl s c = wlm /\
  o_is_wl_mint_of a sl s c = (snd_is_a && wlm) /\
  o_wl_ev vr a sl s c =
    (if purge && (ov_flex vr && match sl with SPlain => true | _ => false end) then EvReset
     else if snd_is_a && wlm then EvInc else EvNone) /\
  o_stage_ev sl s c = (if wlm then EvInc else EvNone).
Proof.
  intros vr a sl s c. cbn zeta.
  unfold o_pub_ev, o_wl_ev, o_stage_ev, o_is_wl_mint_of, o_is_pub_mint_of, o_is_admin_mint_of,
    o_is_wl_mint_in, o_is_purge, o_purge_clears, o_call_slot, osender.
  destruct (oc_wv c) as [v|]; destruct (oc_op c); cbn [andb orb]; rewrite ?andb_false_r; cbn [andb orb]; repeat split; reflexivity.
Qed.

(* non-vacuity: open-edition-minter-merkle-wl, Merkle whitelist with Config limit 1; without
   a proof nothing is minted, with an accepted proof for allocation 2 exactly two *)
Definition oe_fp : ofparams := mkOFP 50 0 1000 40 0 5000 10 100 604800 (Some 9).
Definition oe_s0 : ostate := o_init (mkOV false true) 10 None (Some 6) 2 (Some 30) 5000 (Some 9000) 100 0 100 None.
Definition oe_call (t who : N) (wv : wlview) (proof : bool) (alloc : option N) : ocall :=
  mkOCall (mkEnv t who [mkCoin 0 60] 20) oe_fp (Some wv) (EMint None proof alloc).
Example C03_ex_oe_merkle :
  let noproof := [oe_call 2000 11 (wv_merkle true) false (Some 5)] in
  let good := [oe_call 2000 11 (wv_merkle true) true (Some 2); oe_call 2001 11 (wv_merkle true) true (Some 2);
               oe_call 2002 11 (wv_merkle true) true (Some 2)] in
  (get (o_wl (orun (mkOV false true) oe_s0 noproof)) 11, get (o_wl (orun (mkOV false true) oe_s0 good)) 11,
   oq_mint_count (mkOV false true) (orun (mkOV false true) oe_s0 good) 11,
   otally (mkOV false true) (o_wl_ev (mkOV false true) 11 SPlain) oe_s0 good 0) = (0, 2, (2, 0), 2).
Proof. vm_compute. reflexivity. Qed.

Print Assumptions C03_entitlement_spelled_out.
Print Assumptions C03_public_mint_step.
Print Assumptions C03_whitelist_mint_step.
Print Assumptions C03_allocation_needs_proof.
Print Assumptions C03_entitlement_not_caller_chosen.
Print Assumptions C03_unverified_ignores_proof_answer.
Print Assumptions C03_stage_only_through_proof.
Print Assumptions C03_admin_mint_step.
Print Assumptions C03_purge_step.
Print Assumptions C03_purge_needs_sell_out.
Print Assumptions C03_other_ops_keep_counters.
Print Assumptions C03_public_count_reported.
Print Assumptions C03_whitelist_count_reported.
Print Assumptions C03_stage_total_reported.
Print Assumptions C03_mint_count_query.
Print Assumptions C03_never_exceeds_public.
Print Assumptions C03_never_exceeds_whitelist.
Print Assumptions C03_never_exceeds_stage.
Print Assumptions C03_constant_limit_public.
Print Assumptions C03_oe_public_mint_step.
Print Assumptions C03_oe_whitelist_mint_step.
Print Assumptions C03_oe_args_ignored_without_merkle.
Print Assumptions C03_oe_admin_mint_step.
Print Assumptions C03_oe_purge_step.
Print Assumptions C03_oe_purge_is_final.
Print Assumptions C03_oe_other_ops_keep_counters.
Print Assumptions C03_oe_public_count_reported.
Print Assumptions C03_oe_whitelist_count_reported.
Print Assumptions C03_oe_stage_total_reported.
Print Assumptions C03_oe_mint_count_query.
Print Assumptions C03_oe_never_exceeds_public.
Print Assumptions C03_oe_never_exceeds_whitelist.
Print Assumptions C03_oe_never_exceeds_stage.

(* =====================================================================================
   Migrations inside histories.  `minter_migrate` / `o_minter_migrate` (model/MinterMigrate.v)
   are the minters' `migrate` entry points as functions on the sale-world state; they are
   not handler operations, so `step` / `ostep` and the theorems above are untouched.  The
   sale-world correspondence runs migrations inside its histories (SaleCorr.IMigrate /
   SaleOeCorr.OIMigrate), from stored versions around 3.9.0 and the current version, by the
   wasm admin and by strangers.
   ===================================================================================== *)
From LP Require Import MinterMigrate MinterMigrateProofs.

(* an accepted migration leaves every per-address and per-stage counter and the
   per-address limit as they were *)
Theorem C03_migrate_keeps_counters : forall vr now name_ok stored admin s s',
  minter_migrate vr now name_ok stored admin s = Ok s' ->
  s_public s' = s_public s /\ s_wl s' = s_wl s /\ s_fs s' = s_fs s /\ s_ss s' = s_ss s /\ s_ts s' = s_ts s /\
  s_fs_count s' = s_fs_count s /\ s_ss_count s' = s_ss_count s /\ s_ts_count s' = s_ts_count s /\
  s_pal s' = s_pal s.
Proof. exact migrate_counters. Qed.

(* the counting theorems over histories that interleave calls and migrations: tally_m is
   `tally` with migrations contributing nothing *)
Theorem C03_tally_with_migrates_spelled_out : forall vr evf s it r acc,
  tally_m vr evf s [] acc = acc /\
  tally_m vr evf s (it :: r) acc =
    match it with
    | HCall c =>
        match step vr s (c_env c) (c_fp c) (c_wv c) (c_op c) with
        | Ok (s', _) => tally_m vr evf s' r (apply_ev (evf s c) acc)
        | Err => tally_m vr evf s r acc
        end
    | HMigrate now name_ok stored admin =>
        tally_m vr evf (match minter_migrate vr now name_ok stored admin s with Ok s' => s' | Err => s end) r acc
    end.
Proof. intros. split; [ reflexivity | destruct it; reflexivity ]. Qed.

Theorem C03_public_count_reported_with_migrates : forall vr a items s,
  get (s_public (run_m vr s items)) a = tally_m vr (pub_ev a) s items (get (s_public s) a).
Proof. exact public_count_reported_m. Qed.

Theorem C03_whitelist_count_reported_with_migrates : forall vr a sl items s,
  get (slot_map (run_m vr s items) sl) a = tally_m vr (wl_ev vr a sl) s items (get (slot_map s sl) a).
Proof. exact whitelist_count_reported_m. Qed.

Theorem C03_stage_total_reported_with_migrates : forall vr sl items s,
  is_stage sl = true ->
  stage_total (run_m vr s items) sl = tally_m vr (stage_ev sl) s items (stage_total s sl).
Proof. exact stage_total_reported_m. Qed.

Theorem C03_oe_migrate_changes_nothing : forall vr now name_ok stored admin s s',
  o_minter_migrate vr now name_ok stored admin s = Ok s' -> s' = s.
Proof. exact o_migrate_id. Qed.

Print Assumptions C03_migrate_keeps_counters.
Print Assumptions C03_public_count_reported_with_migrates.
Print Assumptions C03_whitelist_count_reported_with_migrates.
Print Assumptions C03_stage_total_reported_with_migrates.
Print Assumptions C03_oe_migrate_changes_nothing.
Print Assumptions C03_faithful_whitelist_within_intended.
Print Assumptions C03_excess_blames_whitelist_answer.
Print Assumptions C03_never_exceeds_intended.
Print Assumptions C03_oe_faithful_whitelist_within_intended.
