(* C10 — Royalty shares stay bounded and can only creep up slowly.
   ONLY statements (documented numbers written out: 100 % = 10^18 atomics, 2 % =
   2*10^16, 10 % = 10^17, 24 h = 86400 * 10^9 ns), each closed by `exact <lemma>`, plus
   non-vacuity examples and the axiom audit.  `step` is one call on a collection of any
   of the four types from any sender; `run` is any sequence of calls (failed calls leave
   the state alone, as on the chain). *)
From LP Require Import Num Pay Sg1 Consts Semver Collection CollectionProofs.
Import ListNotations.
Local Open Scope N_scope.

(* ---- the share is never above 100 %: at creation, after any call, along any history *)
Theorem C10_share_le_100_at_creation : forall ct time0 by_contract funds0 minter c s,
  instantiate ct time0 by_contract funds0 minter c = Ok s ->
  match ci_royalty (info s) with Some r => r_share r <= 1000000000000000000 | None => True end.
Proof. exact share_ok_at_creation. Qed.

Theorem C10_share_le_100_after_any_call : forall ct self e o s s' ms,
  match ci_royalty (info s) with Some r => r_share r <= 1000000000000000000 | None => True end ->
  step ct self e o s = Ok (s', ms) ->
  match ci_royalty (info s') with Some r => r_share r <= 1000000000000000000 | None => True end.
Proof. exact share_ok_step. Qed.

Theorem C10_share_le_100_always : forall ct self time0 by_contract funds0 minter c s calls,
  instantiate ct time0 by_contract funds0 minter c = Ok s ->
  match ci_royalty (info (run ct self s calls)) with
  | Some r => r_share r <= 1000000000000000000
  | None => True
  end.
Proof. exact share_ok_always. Qed.

(* ---- a raise on a collection that already has royalties: at most +2 points, to at most 10 % *)
Theorem C10_raise_bounded : forall ct self e o s s' ms old new,
  step ct self e o s = Ok (s', ms) ->
  ci_royalty (info s) = Some old -> ci_royalty (info s') = Some new ->
  r_share old < r_share new ->
  r_share new - r_share old <= 20000000000000000 /\ r_share new <= 100000000000000000.
Proof. exact raise_bounded. Qed.

(* royalties, once set, are never removed (so the bound above keeps applying) *)
Theorem C10_royalties_never_removed : forall ct self e o s s' ms,
  step ct self e o s = Ok (s', ms) -> ci_royalty (info s) <> None -> ci_royalty (info s') <> None.
Proof. exact has_royalty_step. Qed.

(* "can repeated small raises pass 10 %?"  No: along any sequence of calls the share stays
   at or below max(the share it started from, 10 %).  (A collection created WITHOUT
   royalties may set its first share anywhere up to 100 %; from then on this applies.) *)
Theorem C10_climb_bounded : forall ct self calls s share0,
  share_of s = Some share0 ->
  exists share1, share_of (run ct self s calls) = Some share1 /\
                 share1 <= N.max share0 100000000000000000.
Proof. exact climb_bounded. Qed.

(* ---- cadence: the anchor royalty_updated_at is the creation time, then the time of the
   last accepted royalty change; consecutive accepted changes (a successful
   update_collection_info carrying royalty_info, even with an unchanged value) are at
   least 24 h apart, the first one at least 24 h after creation *)
Theorem C10_cadence : forall ct self calls s,
  gaps_ok 86400000000000 (royalty_updated_at s) (accepted_changes ct self s calls).
Proof. exact cadence. Qed.

Theorem C10_cadence_any_two : forall ct self calls s,
  ForallOrdPairs (fun t1 t2 => t1 + 86400000000000 <= t2) (accepted_changes ct self s calls).
Proof. exact cadence_any_two. Qed.

Theorem C10_cadence_from_creation : forall ct self time0 by_contract funds0 minter c s calls,
  instantiate ct time0 by_contract funds0 minter c = Ok s ->
  Forall (fun t => time0 + 86400000000000 <= t) (accepted_changes ct self s calls).
Proof. exact cadence_from_creation. Qed.

(* ---- lowering is always allowed within the cadence: the creator of an unfrozen
   collection, 24 h or more after the anchor, lowers (or re-submits) the share with a
   message that changes nothing else; nothing but the royalty, the anchor (and the
   explicit-content flag, which the handler overwrites with the message's value) moves *)
Theorem C10_lowering_accepted : forall ct self e s old payee share explicit,
  info_wf (info s) -> frozen s = false -> ci_creator (info s) = sender e ->
  ci_royalty (info s) = Some old -> share <= r_share old -> r_share old <= 1000000000000000000 ->
  royalty_updated_at s + 86400000000000 <= now e -> now e <= 18446744073709551615 ->
  exists s',
    step ct self e (OUpdateInfo (mkUpd None None None explicit (Some (mkRoy payee share)) None)) s = Ok (s', []) /\
    ci_royalty (info s') = Some (mkRoy payee share) /\ royalty_updated_at s' = now e /\
    tokens s' = tokens s /\ own s' = own s /\ frozen s' = false.
Proof. exact lowering_accepted. Qed.

(* its side condition info_wf (description <= 512 bytes, image and external link parse as
   URLs) holds from creation on *)
Theorem C10_info_wf_at_creation : forall ct time0 by_contract funds0 minter c s,
  instantiate ct time0 by_contract funds0 minter c = Ok s ->
  t_len (ci_description (info s)) <= 512 /\ t_url (ci_image (info s)) = true /\
  link_ok (ci_external_link (info s)) = true.
Proof. exact info_wf_at_creation. Qed.

Theorem C10_info_wf_preserved : forall ct self e o s s' ms,
  info_wf (info s) -> step ct self e o s = Ok (s', ms) -> info_wf (info s').
Proof. exact info_wf_step. Qed.

(* ==== histories that contain migrations to the sg721-updatable code ====
   (`dstep`/`drun`: calls and admin migrations on the deployed contract with its cw2 record).
   A migration never touches the royalty; it re-creates the 24 h anchor (now - 24 h) only
   when the recorded cw2 version is below 3.1.0 - deployments that predate the anchor.  A
   deployment at or above 3.1.0 (every fresh one: it records the workspace version) stays
   so, and over its whole future accepted royalty changes are at least 24 h apart. *)
Theorem C10_share_le_100_with_migrations : forall self txs d,
  match ci_royalty (info (d_st d)) with Some r => r_share r <= 1000000000000000000 | None => True end ->
  match ci_royalty (info (d_st (drun self d txs))) with
  | Some r => r_share r <= 1000000000000000000
  | None => True
  end.
Proof. exact d_share_ok_run. Qed.

Theorem C10_raise_bounded_with_migrations : forall self e a d d' ms old new,
  dstep self e a d = Ok (d', ms) ->
  ci_royalty (info (d_st d)) = Some old -> ci_royalty (info (d_st d')) = Some new ->
  r_share old < r_share new ->
  r_share new - r_share old <= 20000000000000000 /\ r_share new <= 100000000000000000.
Proof. exact d_raise_bounded. Qed.

Theorem C10_climb_bounded_with_migrations : forall self txs d share0,
  share_of (d_st d) = Some share0 ->
  exists share1, share_of (d_st (drun self d txs)) = Some share1 /\
                 share1 <= N.max share0 100000000000000000.
Proof. exact d_climb_bounded. Qed.

(* `anchored`: the recorded cw2 version is not below 3.1.0 (as a semver and as a string), or
   the contract runs the metadata-onchain / nt code under a name the updatable migrate
   refuses.  Every fresh deployment is anchored, and stays so whatever is migrated
   (metadata-onchain records 3.0.0 after its own migrate - it still never reaches a migrate
   with the 3.1.0 step). *)
Theorem C10_cadence_with_migrations : forall self txs d,
  (ver_ltb (d_ver d) (3, 1, 0) = false /\ str_ltb (ver_str (d_ver d)) (ver_str (3, 1, 0)) = false) \/
  ((d_ct d = Onchain \/ d_ct d = NT) /\ compatible_name (d_name d) = false) ->
  gaps_ok 86400000000000 (royalty_updated_at (d_st d)) (d_accepted_changes self d txs).
Proof. exact d_cadence. Qed.

Theorem C10_cadence_any_two_with_migrations : forall self txs d,
  (ver_ltb (d_ver d) (3, 1, 0) = false /\ str_ltb (ver_str (d_ver d)) (ver_str (3, 1, 0)) = false) \/
  ((d_ct d = Onchain \/ d_ct d = NT) /\ compatible_name (d_name d) = false) ->
  ForallOrdPairs (fun t1 t2 => t1 + 86400000000000 <= t2) (d_accepted_changes self d txs).
Proof. exact d_cadence_any_two. Qed.

(* per variant, what ONE migration does to the cadence anchor: it is left alone, unless
   - the result runs the sg721-updatable code (migrate to it, or its own migrate) and the
     version recorded before was (semver-)below 3.1.0, or
   - it is Sg721Contract::migrate of sg721-base and the version recorded before was
     string-below "3.1.0";
   then it becomes now - 24 h.  The metadata-onchain and sg721-nt migrates have no such step:
   they leave the whole state alone, whatever is recorded (sg721-nt refuses every migrate). *)
Theorem C10_migration_anchor_per_variant : forall self e a d d' ms,
  a = AMigrate \/ a = AMigrateSelf ->
  dstep self e a d = Ok (d', ms) ->
  royalty_updated_at (d_st d') = royalty_updated_at (d_st d) \/
  (86400000000000 <= now e /\ royalty_updated_at (d_st d') = now e - 86400000000000 /\
   ((d_ct d' = Updatable /\ ver_ltb (d_ver d) (3, 1, 0) = true) \/
    (d_ct d = Base /\ d_ct d' = Base /\ str_ltb (ver_str (d_ver d)) (ver_str (3, 1, 0)) = true))).
Proof. exact d_migration_anchor. Qed.

Theorem C10_onchain_nt_own_migrate_keeps_state : forall self e d d' ms,
  d_ct d = Onchain \/ d_ct d = NT ->
  dstep self e AMigrateSelf d = Ok (d', ms) -> d_st d' = d_st d /\ d_ct d' = d_ct d.
Proof. exact d_onchain_nt_self_migrate_keeps_state. Qed.

Theorem C10_anchored_is_invariant : forall self e a d d' ms,
  anchored d -> dstep self e a d = Ok (d', ms) -> anchored d'.
Proof. exact anchored_step. Qed.

Theorem C10_cadence_from_creation_with_migrations : forall self ct admin time0 by_contract funds0 minter c s txs,
  instantiate ct time0 by_contract funds0 minter c = Ok s ->
  Forall (fun t => time0 + 86400000000000 <= t) (d_accepted_changes self (fresh ct admin s) txs).
Proof. exact d_cadence_from_creation. Qed.

(* ---- an entry with share 0 is an entry.  instantiate stores the royalty_info it is given
   (it never turns Some{share 0} into None), so the first update of a collection created
   with a 0 % entry is a raise from 0 %: anything above 2 % is refused, at any time, from
   any sender; a migration keeps the entry. *)
Theorem C10_raise_refused : forall ct self e m new old s,
  ci_royalty (info s) = Some old -> u_royalty m = Some new ->
  r_share old + 20000000000000000 < r_share new \/
  (r_share old < r_share new /\ 100000000000000000 < r_share new) ->
  step ct self e (OUpdateInfo m) s = Err.
Proof. exact raise_refused. Qed.

Theorem C10_zero_share_entry_is_an_entry : forall ct self time0 by_contract funds0 minter c s payee e m new,
  instantiate ct time0 by_contract funds0 minter c = Ok s ->
  ci_royalty c = Some (mkRoy payee 0) ->
  u_royalty m = Some new -> 20000000000000000 < r_share new ->
  ci_royalty (info s) = Some (mkRoy payee 0) /\ step ct self e (OUpdateInfo m) s = Err.
Proof. exact zero_share_entry_is_an_entry. Qed.

Theorem C10_raise_refused_with_migrations : forall self e m new old d,
  ci_royalty (info (d_st d)) = Some old -> u_royalty m = Some new ->
  r_share old + 20000000000000000 < r_share new \/
  (r_share old < r_share new /\ 100000000000000000 < r_share new) ->
  dstep self e (ACall (OUpdateInfo m)) d = Err.
Proof. exact d_raise_refused. Qed.

Theorem C10_migration_keeps_royalty_entry : forall self e a d d' ms,
  a = AMigrate \/ a = AMigrateSelf ->
  dstep self e a d = Ok (d', ms) -> ci_royalty (info (d_st d')) = ci_royalty (info (d_st d)).
Proof. exact migrate_keeps_royalty. Qed.

(* ---- the payout helper *)
Theorem C10_payout_none : forall payment fee finders,
  royalty_payout None payment fee finders = Ok (0, []).
Proof. exact payout_none. Qed.

Theorem C10_payout_zero_share : forall payee payment fee finders,
  royalty_payout (Some (mkRoy payee 0)) payment fee finders = Ok (0, []).
Proof. exact payout_zero. Qed.

(* pays floor(payment x share) to the royalty address, and only when fees + royalty fit *)
Theorem C10_payout_floor : forall r payment fee finders amount msgs,
  royalty_payout (Some r) payment fee finders = Ok (amount, msgs) -> r_share r <> 0 ->
  amount = payment * r_share r / 1000000000000000000 /\
  msgs = [Send (r_addr r) NATIVE amount] /\
  fee + finders_amt finders + amount <= payment.
Proof. exact payout_ok_inv. Qed.

Theorem C10_payout_refuses : forall r payment fee finders,
  r_share r <> 0 ->
  payment < fee + finders_amt finders + payment * r_share r / 1000000000000000000 ->
  royalty_payout (Some r) payment fee finders = Err.
Proof. exact payout_refuses. Qed.

Theorem C10_payout_accepts : forall r payment fee finders,
  r_share r <> 0 -> payment <= 340282366920938463463374607431768211455 ->
  fee + finders_amt finders + payment * r_share r / 1000000000000000000 <= payment ->
  royalty_payout (Some r) payment fee finders =
  Ok (payment * r_share r / 1000000000000000000,
      [Send (r_addr r) NATIVE (payment * r_share r / 1000000000000000000)]).
Proof. exact payout_accepts. Qed.

Theorem C10_payout_percent : forall payee k payment fee finders amount msgs,
  k <> 0 ->
  royalty_payout (Some (mkRoy payee (k * 10000000000000000))) payment fee finders = Ok (amount, msgs) ->
  amount = payment * k / 100.
Proof. exact payout_percent. Qed.

(* ---- non-vacuity: a concrete collection (5 % royalties, created at t0) *)
Example C10_ex_creation : instantiate Base c10_ex_t0 true [] 10 c10_ex_info = Ok c10_ex_s0.
Proof. vm_compute. reflexivity. Qed.
Example C10_ex_creation_above_100 :
  instantiate Base c10_ex_t0 true [] 10
    (mkInfo 12 (mkTxt 1 12 false) (mkTxt 2 29 true) None None None (Some (mkRoy 18 1000000000000000001))) = Err.
Proof. vm_compute. reflexivity. Qed.
Example C10_ex_raise_2_points_at_24h :
  share_of (run Base 11 c10_ex_s0 [(mkEnv (c10_ex_t0 + 86400000000000) 12 [], c10_ex_upd 70000000000000000)]) = Some 70000000000000000.
Proof. vm_compute. reflexivity. Qed.
Example C10_ex_raise_2_points_plus_1_refused :
  step Base 11 (mkEnv (c10_ex_t0 + 86400000000000) 12 []) (c10_ex_upd 70000000000000001) c10_ex_s0 = Err.
Proof. vm_compute. reflexivity. Qed.
Example C10_ex_one_ns_early_refused :
  step Base 11 (mkEnv (c10_ex_t0 + 86399999999999) 12 []) (c10_ex_upd 40000000000000000) c10_ex_s0 = Err.
Proof. vm_compute. reflexivity. Qed.
Example C10_ex_climb_stops_at_10 :
  let day := 86400000000000 in
  let calls := [(mkEnv (c10_ex_t0 + 1 * day) 12 [], c10_ex_upd 70000000000000000);
                (mkEnv (c10_ex_t0 + 2 * day) 12 [], c10_ex_upd 90000000000000000);
                (mkEnv (c10_ex_t0 + 3 * day) 12 [], c10_ex_upd 100000000000000000);
                (mkEnv (c10_ex_t0 + 4 * day) 12 [], c10_ex_upd 100000000000000001);
                (mkEnv (c10_ex_t0 + 5 * day) 12 [], c10_ex_upd 120000000000000000)] in
  share_of (run Base 11 c10_ex_s0 calls) = Some 100000000000000000 /\
  accepted_changes Base 11 c10_ex_s0 calls = [c10_ex_t0 + 1 * day; c10_ex_t0 + 2 * day; c10_ex_t0 + 3 * day].
Proof. vm_compute. split; reflexivity. Qed.
Example C10_ex_payout_10pct_of_1000 :
  royalty_payout (Some (mkRoy 18 100000000000000000)) 1000 900 None = Ok (100, [Send 18 NATIVE 100]) /\
  royalty_payout (Some (mkRoy 18 100000000000000000)) 1000 900 (Some 1) = Err /\
  royalty_payout (Some (mkRoy 18 333333333333333333)) 10 0 None = Ok (3, [Send 18 NATIVE 3]).
Proof. vm_compute. repeat split; reflexivity. Qed.

(* raise, migrate sg721-base -> sg721-updatable an hour later, raise again: refused until
   24 h after the first raise; a record older than 3.1.0 gets its anchor created instead *)
Example C10_ex_cadence_survives_migration :
  let day := 86400000000000 in
  let hour := 3600000000000 in
  let up share := ACall (c10_ex_upd share) in
  let txs := [(mkEnv (c10_ex_t0 + day) 12 [], up 70000000000000000);
              (mkEnv (c10_ex_t0 + day + hour) 12 [], AMigrate);
              (mkEnv (c10_ex_t0 + day + hour + 1) 12 [], up 90000000000000000);
              (mkEnv (c10_ex_t0 + 2 * day - 1) 12 [], up 90000000000000000);
              (mkEnv (c10_ex_t0 + 2 * day) 12 [], up 90000000000000000)] in
  let d := drun 11 (fresh Base 12 c10_ex_s0) txs in
  d_ct d = Updatable /\ share_of (d_st d) = Some 90000000000000000 /\
  d_accepted_changes 11 (fresh Base 12 c10_ex_s0) txs = [c10_ex_t0 + day; c10_ex_t0 + 2 * day] /\
  (* pre-3.1.0 record: the migration creates the anchor at now - 24 h *)
  royalty_updated_at (d_st (drun 11 (mkDep Base 12 NBase (3, 0, 9) c10_ex_s0)
                              [(mkEnv (c10_ex_t0 + day + hour) 12 [], AMigrate)])) = c10_ex_t0 + hour.
Proof. vm_compute. repeat split; reflexivity. Qed.

(* created with a 0 % entry: 24 h later 0 % -> 2 % is accepted, 2 % + 1 unit / 5 % / 100 % refused;
   created without royalties the first entry may be anything up to 100 % *)
Example C10_ex_zero_entry :
  let info0 payee_share := mkInfo 12 (mkTxt 1 12 false) (mkTxt 2 29 true) None None None payee_share in
  let boot r := match instantiate NT c10_ex_t0 true [] 10 (info0 r) with Ok s => s | Err => c10_ex_s0 end in
  let e := mkEnv (c10_ex_t0 + 86400000000000) 12 [] in
  ci_royalty (info (boot (Some (mkRoy 18 0)))) = Some (mkRoy 18 0) /\
  is_ok (step NT 11 e (c10_ex_upd 20000000000000000) (boot (Some (mkRoy 18 0)))) = true /\
  step NT 11 e (c10_ex_upd 20000000000000001) (boot (Some (mkRoy 18 0))) = Err /\
  step NT 11 e (c10_ex_upd 50000000000000000) (boot (Some (mkRoy 18 0))) = Err /\
  step NT 11 e (c10_ex_upd 1000000000000000000) (boot (Some (mkRoy 18 0))) = Err /\
  is_ok (step NT 11 e (c10_ex_upd 1000000000000000000) (boot None)) = true.
Proof. vm_compute. repeat split; reflexivity. Qed.

(* metadata-onchain: update, migrate (records 3.0.0), migrate again, update within the hour:
   refused - its migrate never re-opens the window; Sg721Contract::migrate of sg721-base from a
   3.2.1 record is refused outright (string order: "3.2.1" > "3.16.0") *)
Example C10_ex_onchain_repeat_migrate :
  let day := 86400000000000 in
  let up share := ACall (c10_ex_upd share) in
  let d0 := mkDep Onchain 12 (NOther 1) (3, 0, 9) c10_ex_s0 in
  let txs := [(mkEnv (c10_ex_t0 + day) 12 [], up 70000000000000000);
              (mkEnv (c10_ex_t0 + day + 1) 12 [], AMigrateSelf);
              (mkEnv (c10_ex_t0 + day + 2) 12 [], AMigrateSelf);
              (mkEnv (c10_ex_t0 + day + 3) 12 [], up 90000000000000000)] in
  d_ver (drun 11 d0 txs) = (3, 0, 0) /\
  d_accepted_changes 11 d0 txs = [c10_ex_t0 + day] /\
  dstep 11 (mkEnv (c10_ex_t0 + day) 12 []) AMigrateSelf (mkDep Base 12 NBase (3, 2, 1) c10_ex_s0) = Err /\
  dstep 11 (mkEnv (c10_ex_t0 + day) 12 []) AMigrateSelf (mkDep NT 12 (NOther 2) (3, 0, 9) c10_ex_s0) = Err.
Proof. vm_compute. repeat split; reflexivity. Qed.

Print Assumptions C10_share_le_100_at_creation.
Print Assumptions C10_share_le_100_after_any_call.
Print Assumptions C10_share_le_100_always.
Print Assumptions C10_raise_bounded.
Print Assumptions C10_royalties_never_removed.
Print Assumptions C10_climb_bounded.
Print Assumptions C10_cadence.
Print Assumptions C10_cadence_any_two.
Print Assumptions C10_cadence_from_creation.
Print Assumptions C10_lowering_accepted.
Print Assumptions C10_info_wf_at_creation.
Print Assumptions C10_info_wf_preserved.
Print Assumptions C10_payout_none.
Print Assumptions C10_payout_zero_share.
Print Assumptions C10_payout_floor.
Print Assumptions C10_payout_refuses.
Print Assumptions C10_payout_accepts.
Print Assumptions C10_payout_percent.

Print Assumptions C10_share_le_100_with_migrations.
Print Assumptions C10_raise_bounded_with_migrations.
Print Assumptions C10_climb_bounded_with_migrations.
Print Assumptions C10_cadence_with_migrations.
Print Assumptions C10_cadence_any_two_with_migrations.
Print Assumptions C10_cadence_from_creation_with_migrations.

Print Assumptions C10_raise_refused.
Print Assumptions C10_zero_share_entry_is_an_entry.
Print Assumptions C10_raise_refused_with_migrations.
Print Assumptions C10_migration_keeps_royalty_entry.

Print Assumptions C10_migration_anchor_per_variant.
Print Assumptions C10_onchain_nt_own_migrate_keeps_state.
Print Assumptions C10_anchored_is_invariant.
