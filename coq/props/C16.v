(* C16 — ETH airdrop: only the key holder claims, bound to one wallet, within limits.
   ONLY statements (documented numbers written out), each closed by `exact <lemma>`,
   non-vacuity Examples and the axiom audit.

   Every theorem quantifies over ALL oracles `hexdec keccak recover address_of verify`
   (hex decoding, Keccak-256, secp256k1 public-key recovery, Ethereum address of a key,
   ECDSA verification): nothing is assumed about them except where a hypothesis says so.
   Byte strings are `list N`; a wallet is its address string. *)
From LP Require Import Prelude Pay Sg1 Consts Airdrop AirdropProofs.
Import ListNotations.
Local Open Scope N_scope.

(* ---------------- instantiate: the documented bounds ---------------- *)

(* 10 STARS <= airdrop amount <= 100 million STARS; the claim text contains "{wallet}"
   and is at most 1000 bytes; exactly one ustars coin of at least 100 STARS is attached;
   the address list is not empty.  The 100 STARS fee is fair-burned on behalf of the
   contract: 50 burned, 50 to the fair-burn pool. *)
Theorem C16_instantiate_validations : forall contract funds template amount addresses limit st msgs,
  instantiate contract funds template amount addresses limit = Ok (st, msgs) <->
  10000000 <= amount /\ amount <= 100000000000000 /\
  containsb [123; 119; 97; 108; 108; 101; 116; 125] template = true /\ len template <= 1000 /\
  (exists paid, funds = [mkCoin NATIVE paid] /\ 100000000 <= paid) /\
  addresses <> [] /\
  st = mkAState template amount addresses limit [] /\
  msgs = [Burn NATIVE 50000000; FundPool contract NATIVE 50000000].
Proof. exact instantiate_ok_iff. Qed.

(* ---------------- who can claim ---------------- *)

(* A claim succeeds only if: the address string is on the list; the signature text
   decodes to 65 bytes r||s||v with v one of 0, 1, 27, 28 (27/28 normalised to 0/1); the
   address is "0x" + 40 digits decoding to 20 bytes; the key recovered from (r||s, v) over
   the personal-sign hash of the claim text WITH THE SENDER'S OWN ADDRESS spliced in has
   exactly that address and verifies; and the address has claimed fewer times than the
   limit.  Then the response is exactly: one bank send of the airdrop amount to the
   sender, one AddMembers [sender] to the minter's whitelist, the address's counter + 1,
   nothing else changed. *)
Theorem C16_claim_ok_only_if :
  forall hexdec keccak recover address_of verify mwl st sender eth_addr eth_sig st' msgs,
  claim hexdec keccak recover address_of verify mwl st sender eth_addr eth_sig = Ok (st', msgs) ->
  In eth_addr (a_list st) /\
  (exists sig rs v rid digits a pk,
     hexdec eth_sig = Some sig /\ sig = rs ++ [v] /\ len rs = 64 /\
     ((v = 0 /\ rid = 0) \/ (v = 1 /\ rid = 1) \/ (v = 27 /\ rid = 0) \/ (v = 28 /\ rid = 1)) /\
     eth_addr = 48 :: 120 :: digits /\ len eth_addr = 42 /\ hexdec digits = Some a /\ len a = 20 /\
     recover (keccak (eth_preimage (plaintext (a_template st) sender))) rs rid = Some pk /\
     address_of pk = Some a /\
     verify (keccak (eth_preimage (plaintext (a_template st) sender))) rs pk = Some true) /\
  bmap_get eth_addr (a_counts st) < a_limit st /\
  exists wl, mwl = Some wl /\
    msgs = [ASend sender NATIVE (a_amount st); AAddMembers wl [sender]] /\
    st' = mkAState (a_template st) (a_amount st) (a_list st) (a_limit st)
                   (bmap_set eth_addr (bmap_get eth_addr (a_counts st) + 1) (a_counts st)).
Proof. exact claim_ok_spelled. Qed.

(* ... and exactly then (accepted_signature is the conjunction spelled out above) *)
Theorem C16_claim_ok_iff :
  forall hexdec keccak recover address_of verify mwl st sender eth_addr eth_sig st' msgs,
  claim hexdec keccak recover address_of verify mwl st sender eth_addr eth_sig = Ok (st', msgs) <->
  eligible st eth_addr = true /\
  (exists sig, hexdec eth_sig = Some sig /\
     accepted_signature hexdec keccak recover address_of verify (plaintext (a_template st) sender) sig eth_addr) /\
  bmap_get eth_addr (a_counts st) < a_limit st /\
  exists wl, mwl = Some wl /\
    st' = set_counts st (bmap_set eth_addr (bmap_get eth_addr (a_counts st) + 1) (a_counts st)) /\
    msgs = [ASend sender NATIVE (a_amount st); AAddMembers wl [sender]].
Proof. exact claim_ok_iff. Qed.

(* malformed addresses or signatures are rejected, never accepted: wrong length, no
   "0x", digits that do not decode, signature text that does not decode, a signature
   that is not 65 bytes, a last byte other than 0, 1, 27, 28 *)
Theorem C16_malformed_rejected :
  forall hexdec keccak recover address_of verify mwl st sender eth_addr eth_sig,
  ( len eth_addr <> 42
    \/ (forall digits, eth_addr <> 48 :: 120 :: digits)
    \/ (forall digits, eth_addr = 48 :: 120 :: digits -> hexdec digits = None)
    \/ hexdec eth_sig = None
    \/ (exists sig, hexdec eth_sig = Some sig /\ len sig <> 65)
    \/ (exists sig rs v, hexdec eth_sig = Some sig /\ sig = rs ++ [v] /\ v <> 0 /\ v <> 1 /\ v <> 27 /\ v <> 28) ) ->
  claim hexdec keccak recover address_of verify mwl st sender eth_addr eth_sig = Err.
Proof. exact claim_rejects_malformed. Qed.

(* ---------------- what a claim does (whole transaction: handler + bank + whitelist) ---- *)

Theorem C16_claim_effects :
  forall hexdec keccak recover address_of verify w sender eth_addr eth_sig w',
  claim_tx hexdec keccak recover address_of verify w sender eth_addr eth_sig = Ok w' ->
  let st := w_air w in let st' := w_air w' in
  eligible st eth_addr = true /\
  (exists sig, hexdec eth_sig = Some sig /\
     accepted_signature hexdec keccak recover address_of verify (plaintext (a_template st) sender) sig eth_addr) /\
  bmap_get eth_addr (a_counts st) < a_limit st /\
  (* exactly the airdrop amount leaves the contract and reaches the sender, nobody else *)
  w_bal w' + a_amount st = w_bal w /\
  bmap_get sender (w_recv w') = bmap_get sender (w_recv w) + a_amount st /\
  (forall other, other <> sender -> bmap_get other (w_recv w') = bmap_get other (w_recv w)) /\
  (* the sender is on the minter's whitelist afterwards; nobody dropped, nobody else added *)
  w_minter_wl w = Some (w_cwl_id w) /\
  mem sender (cw_members (w_cwl w')) = true /\
  (forall m, mem m (cw_members (w_cwl w')) = true <-> (m = sender \/ mem m (cw_members (w_cwl w)) = true)) /\
  (* this address's counter + 1, every other counter untouched *)
  bmap_get eth_addr (a_counts st') = bmap_get eth_addr (a_counts st) + 1 /\
  (forall other, other <> eth_addr -> bmap_find other (a_counts st') = bmap_find other (a_counts st)) /\
  (* configuration untouched *)
  a_template st' = a_template st /\ a_amount st' = a_amount st /\ a_list st' = a_list st /\
  a_limit st' = a_limit st /\ w_minter_wl w' = w_minter_wl w /\ w_cwl_id w' = w_cwl_id w /\
  cw_airdrop_admin (w_cwl w') = cw_airdrop_admin (w_cwl w) /\ cw_limit (w_cwl w') = cw_limit (w_cwl w).
Proof. exact claim_tx_effects. Qed.

(* the transaction succeeds exactly when the handler does, the contract holds the amount,
   the airdrop contract may add members and the whitelist has room; and then the world is
   exactly this one *)
Theorem C16_claim_tx_exact :
  forall hexdec keccak recover address_of verify w sender eth_addr eth_sig w',
  claim_tx hexdec keccak recover address_of verify w sender eth_addr eth_sig = Ok w' <->
  exists st',
    claim hexdec keccak recover address_of verify (w_minter_wl w) (w_air w) sender eth_addr eth_sig
      = Ok (st', [ASend sender NATIVE (a_amount (w_air w)); AAddMembers (w_cwl_id w) [sender]]) /\
    0 < a_amount (w_air w) /\ a_amount (w_air w) <= w_bal w /\
    cw_airdrop_admin (w_cwl w) = true /\ cw_num (w_cwl w) < cw_limit (w_cwl w) /\
    w' = mkWorld st' (w_bal w - a_amount (w_air w)) (w_minter_wl w) (w_cwl_id w)
                 (cwl_after (w_cwl w) sender)
                 (bmap_set sender (bmap_get sender (w_recv w) + a_amount (w_air w)) (w_recv w)).
Proof. exact claim_tx_ok_iff. Qed.

(* failed claims pay nothing and record nothing: a failed handler is `Err`, which carries
   neither state nor messages; a failed transaction leaves the whole world as it was *)
Theorem C16_failed_claim_changes_nothing :
  forall hexdec keccak recover address_of verify w sender eth_addr eth_sig,
  claim_tx hexdec keccak recover address_of verify w sender eth_addr eth_sig = Err ->
  step hexdec keccak recover address_of verify w (sender, eth_addr, eth_sig) = w.
Proof. exact step_err_unchanged. Qed.

(* ---------------- all histories ---------------- *)

(* the stored counter of an address is its counter before plus the number of successful
   claims for it, over every history of calls (any senders, addresses, signatures) *)
Theorem C16_counter_counts_successes :
  forall hexdec keccak recover address_of verify cs w a,
  bmap_get a (a_counts (w_air (run hexdec keccak recover address_of verify w cs))) =
  bmap_get a (a_counts (w_air w)) + successes hexdec keccak recover address_of verify a w cs.
Proof. exact run_counts. Qed.

(* no address ever claims more than the per-address limit *)
Theorem C16_limit_respected :
  forall hexdec keccak recover address_of verify cs w,
  (forall a, bmap_get a (a_counts (w_air w)) <= a_limit (w_air w)) ->
  forall a, bmap_get a (a_counts (w_air w)) + successes hexdec keccak recover address_of verify a w cs
            <= a_limit (w_air w).
Proof. exact limit_respected. Qed.

Theorem C16_limit_respected_from_instantiate :
  forall hexdec keccak recover address_of verify cs w a,
  a_counts (w_air w) = [] ->
  successes hexdec keccak recover address_of verify a w cs <= a_limit (w_air w).
Proof. exact limit_respected_fresh. Qed.

(* Per Ethereum address (the 20 bytes), not per spelling.  The eligibility list and the
   counters are keyed by the address STRING as given, while the signature check decodes
   the hex digits whatever their letter case.  So the per-address reading of the limit
   holds when no two list entries denote the same address ... *)
Theorem C16_limit_per_ethereum_address :
  forall hexdec keccak recover address_of verify cs w d,
  (forall x y d', In x (a_list (w_air w)) -> In y (a_list (w_air w)) ->
                  denotes hexdec x d' = true -> denotes hexdec y d' = true -> x = y) ->
  (forall a, bmap_get a (a_counts (w_air w)) <= a_limit (w_air w)) ->
  addr_successes hexdec keccak recover address_of verify d w cs <= a_limit (w_air w).
Proof. exact limit_per_ethereum_address. Qed.

(* ... and is REFUTED without that hypothesis (known finding
   C16:limit-exceeded-by-case-variants, replayed on the real contracts): the unrestricted
   statement
     forall ... cs w d, a_counts (w_air w) = [] -> addr_successes ... d w cs <= a_limit (w_air w)
   is false — with the list ["0xaaaa…"; "0xAAAA…"], limit 1 and a hex decoder that ignores
   letter case the address claims twice. *)
Theorem C16_limit_per_ethereum_address_refuted :
  exists hexdec keccak recover address_of verify w cs d,
    a_counts (w_air w) = [] /\ a_limit (w_air w) = 1 /\
    addr_successes hexdec keccak recover address_of verify d w cs = 2.
Proof. exact limit_per_ethereum_address_refuted. Qed.

(* total paid: the contract's balance drops by exactly amount x (number of successful claims) *)
Theorem C16_total_paid :
  forall hexdec keccak recover address_of verify cs w,
  w_bal (run hexdec keccak recover address_of verify w cs)
  + a_amount (w_air w) * total_successes hexdec keccak recover address_of verify w cs = w_bal w.
Proof. exact run_total_paid. Qed.

(* ---------------- bound to one wallet ---------------- *)

(* Rust's str::replace (left to right, non-overlapping) of "{wallet}" is injective in the
   replacement whenever the template contains the placeholder: full statement, any number
   of occurrences *)
Theorem C16_plaintext_injective : forall t a b,
  containsb [123; 119; 97; 108; 108; 101; 116; 125] t = true -> plaintext t a = plaintext t b -> a = b.
Proof. exact plaintext_injective. Qed.

(* a signature accepted for wallet b is a valid signature over a text different from the
   one that names wallet a *)
Theorem C16_claim_binds_wallet :
  forall hexdec keccak recover address_of verify mwl st a b eth_addr eth_sig r,
  containsb WALLET (a_template st) = true -> a <> b ->
  claim hexdec keccak recover address_of verify mwl st b eth_addr eth_sig = Ok r ->
  exists sig, hexdec eth_sig = Some sig /\
    accepted_signature hexdec keccak recover address_of verify (plaintext (a_template st) b) sig eth_addr /\
    plaintext (a_template st) b <> plaintext (a_template st) a.
Proof. exact claim_binds_wallet. Qed.

(* Replay.  NAMED ASSUMPTION (a hypothesis, not an axiom): `Signed` is the set of texts
   the holder of eth_addr's key signed; the first hypothesis says the verification accepts
   for eth_addr only signatures over texts in that set — existential unforgeability of
   ECDSA on secp256k1 plus collision resistance of Keccak-256 on the personal-sign
   encoding.  If the holder signed only the text naming wallet a, no other wallet b can
   claim, whatever it presents. *)
Theorem C16_replay_rejected :
  forall hexdec keccak recover address_of verify (Signed : bytes -> Prop) mwl st a b eth_addr eth_sig,
  (forall text sig, accepted_signature hexdec keccak recover address_of verify text sig eth_addr -> Signed text) ->
  (forall text, Signed text -> text = plaintext (a_template st) a) ->
  containsb WALLET (a_template st) = true -> a <> b ->
  claim hexdec keccak recover address_of verify mwl st b eth_addr eth_sig = Err.
Proof. exact replay_rejected. Qed.

(* ---------------- non-vacuity ---------------- *)

Example C16_ex_plaintext :
  plaintext ([104; 105; 32] ++ WALLET ++ [33]) [65; 66] = [104; 105; 32; 65; 66; 33].
Proof. vm_compute. reflexivity. Qed.
(* "{wallet{wallet}}" : only the inner placeholder matches *)
Example C16_ex_plaintext_nested :
  plaintext ([123; 119; 97; 108; 108; 101; 116] ++ WALLET ++ [125]) [65] = [123; 119; 97; 108; 108; 101; 116; 65; 125].
Proof. vm_compute. reflexivity. Qed.
Example C16_ex_preimage_length_digits :
  eth_preimage [65; 66; 67; 68; 69; 70; 71; 72; 73; 74; 75; 76] = ETH_PREFIX ++ [49; 50] ++ [65; 66; 67; 68; 69; 70; 71; 72; 73; 74; 75; 76].
Proof. vm_compute. reflexivity. Qed.

(* toy oracles: every 40-digit string decodes to twenty 7s, everything else to 64 ones
   followed by 27; every recovery yields key [4] whose address is twenty 7s *)
Definition toy_hexdec (s : bytes) : option bytes :=
  if len s =? 40 then Some (repeat 7 20) else Some (repeat 1 64 ++ [27]).
Definition toy_keccak (m : bytes) : bytes := m.
Definition toy_recover (h rs : bytes) (rid : N) : option bytes := Some [4].
Definition toy_address_of (pk : bytes) : option bytes := Some (repeat 7 20).
Definition toy_verify (h rs pk : bytes) : option bool := Some true.
Definition toy_addr : bytes := 48 :: 120 :: repeat 97 40.
Definition toy_state (limit : N) : astate := mkAState (WALLET ++ [33]) 66000000 [toy_addr] limit [].
Definition toy_world (limit : N) : world :=
  mkWorld (toy_state limit) 200000000 (Some 20) 20 (mkCwl true [] 0 1000) [].

Example C16_ex_claim_succeeds :
  claim toy_hexdec toy_keccak toy_recover toy_address_of toy_verify (Some 20) (toy_state 1) [65] toy_addr [9] =
  Ok (mkAState (WALLET ++ [33]) 66000000 [toy_addr] 1 [(toy_addr, 1)],
      [ASend [65] NATIVE 66000000; AAddMembers 20 [[65]]]).
Proof. vm_compute. reflexivity. Qed.
(* limit 2: three claims, two succeed, 132 STARS paid, the sender is whitelisted once *)
Example C16_ex_history :
  let w := run toy_hexdec toy_keccak toy_recover toy_address_of toy_verify (toy_world 2)
               [([65], toy_addr, [9]); ([66], toy_addr, [9]); ([65], toy_addr, [9])] in
  w_bal w = 68000000 /\ bmap_get toy_addr (a_counts (w_air w)) = 2 /\
  bmap_get [65] (w_recv w) = 66000000 /\ bmap_get [66] (w_recv w) = 66000000 /\
  cw_num (w_cwl w) = 2 /\
  successes toy_hexdec toy_keccak toy_recover toy_address_of toy_verify toy_addr (toy_world 2)
            [([65], toy_addr, [9]); ([66], toy_addr, [9]); ([65], toy_addr, [9])] = 2.
Proof. vm_compute. repeat split; reflexivity. Qed.
Example C16_ex_not_listed_rejected :
  claim toy_hexdec toy_keccak toy_recover toy_address_of toy_verify (Some 20) (toy_state 1) [65]
        (48 :: 120 :: repeat 98 40) [9] = Err.
Proof. vm_compute. reflexivity. Qed.
Example C16_ex_instantiate :
  instantiate 10 [mkCoin NATIVE 166000000] (WALLET ++ [33]) 66000000 [toy_addr] 1 =
  Ok (toy_state 1, [Burn NATIVE 50000000; FundPool 10 NATIVE 50000000]).
Proof. vm_compute. reflexivity. Qed.
Example C16_ex_instantiate_below_min :
  instantiate 10 [mkCoin NATIVE 166000000] (WALLET ++ [33]) 9999999 [toy_addr] 1 = Err.
Proof. vm_compute. reflexivity. Qed.

Print Assumptions C16_instantiate_validations.
Print Assumptions C16_claim_ok_only_if.
Print Assumptions C16_claim_ok_iff.
Print Assumptions C16_malformed_rejected.
Print Assumptions C16_claim_effects.
Print Assumptions C16_claim_tx_exact.
Print Assumptions C16_failed_claim_changes_nothing.
Print Assumptions C16_counter_counts_successes.
Print Assumptions C16_limit_respected.
Print Assumptions C16_limit_respected_from_instantiate.
Print Assumptions C16_limit_per_ethereum_address.
Print Assumptions C16_limit_per_ethereum_address_refuted.
Print Assumptions C16_total_paid.
Print Assumptions C16_plaintext_injective.
Print Assumptions C16_claim_binds_wallet.
Print Assumptions C16_replay_rejected.
