(* C19 — Trading cannot be scheduled past the governance offset or into the past.
   Statements only.  Timestamps are u64 nanoseconds (18446744073709551615 = u64::MAX);
   the factory's max_trading_offset_secs is in seconds, so the bound is
   start + offset * 1000000000.  `step` is the handler-level model of the six vending
   minters (MinterVending.v); `create_trading*`, `update_trading*`, `coll_update` and the
   minter+collection world are in Trading.v. *)
From LP Require Import Num Pay Sg1 MinterVending MinterVendingProofs Trading C19Proofs.
Import ListNotations.
Local Open Scope N_scope.

(* ---------------- creation ---------------- *)

(* vending / open-edition / token-merge: a requested time is stored unchanged iff it is
   no later than mint start + offset (and the bound itself fits u64) *)
Theorem C19_create_requested_stored_iff_within_bound : forall start offset t v,
  create_trading start offset (Some t) = Ok v <->
  offset * 1000000000 <= 18446744073709551615 /\
  start + offset * 1000000000 <= 18446744073709551615 /\
  t <= start + offset * 1000000000 /\ v = t.
Proof. exact create_some. Qed.

(* none requested: exactly mint start + offset *)
Theorem C19_create_default_is_start_plus_offset : forall start offset v,
  create_trading start offset None = Ok v <->
  offset * 1000000000 <= 18446744073709551615 /\
  start + offset * 1000000000 <= 18446744073709551615 /\
  v = start + offset * 1000000000.
Proof. exact create_none. Qed.

(* creation is rejected exactly when offset * 10^9 or the sum overflows u64 (whatever
   was requested), or the requested time is past the bound *)
Theorem C19_create_rejected_iff : forall start offset requested,
  create_trading start offset requested = Err <->
  18446744073709551615 < offset * 1000000000 \/
  18446744073709551615 < start + offset * 1000000000 \/
  (exists t, requested = Some t /\ start + offset * 1000000000 < t).
Proof. exact create_err. Qed.

(* base minter: any requested time is stored; none -> creation time + offset; the only
   rejection is the overflow of that default *)
Theorem C19_create_base_requested_stored : forall now offset t,
  create_trading_base now offset (Some t) = Ok t.
Proof. exact create_base_some. Qed.

Theorem C19_create_base_default_is_now_plus_offset : forall now offset v,
  create_trading_base now offset None = Ok v <->
  offset * 1000000000 <= 18446744073709551615 /\
  now + offset * 1000000000 <= 18446744073709551615 /\
  v = now + offset * 1000000000.
Proof. exact create_base_none. Qed.

Theorem C19_create_base_rejected_iff : forall now offset requested,
  create_trading_base now offset requested = Err <->
  requested = None /\
  (18446744073709551615 < offset * 1000000000 \/ 18446744073709551615 < now + offset * 1000000000).
Proof. exact create_base_err. Qed.

Theorem C19_create_by_family : forall f now start offset requested,
  create_trading_fam f now start offset requested =
  match f with
  | FBase => create_trading_base now offset requested
  | FVending | FOpenEdition | FTokenMerge => create_trading start offset requested
  end.
Proof. exact create_fam_dispatch. Qed.

(* ---------------- update on a vending minter ---------------- *)

(* UpdateStartTradingTime(t) succeeds iff no funds are attached, the sender is the
   admin, the bound computed from the STORED mint start and the factory offset answered
   in this call fits u64, and (for Some tr) now <= tr <= bound; it then sends exactly one
   message, UpdateStartTradingTime(t), to the collection and changes nothing in the
   minter (the ghost `s_trading` records what was sent).  `None` is forwarded as it is:
   the collection's value is cleared. *)
Theorem C19_update_accepted_iff : forall vr s e fp wv t s' ms,
  step vr s e fp wv (OUpdateStartTradingTime t) = Ok (s', ms) <->
  (e_funds e = [] /\ e_sender e = s_admin s /\
   fp_offset_secs fp * 1000000000 <= 18446744073709551615 /\
   s_start s + fp_offset_secs fp * 1000000000 <= 18446744073709551615 /\
   match t with
   | Some tr => e_now e <= tr /\ tr <= s_start s + fp_offset_secs fp * 1000000000
   | None => True
   end) /\
  s' = mkVS (s_admin s) (s_payment s) (s_num_tokens s) (s_pal s) (s_whitelist s) (s_start s)
            (s_price s) (s_denom s) (s_discount s) (s_mintable s) (s_positions s) (s_minted s) (s_burned s)
            (s_public s) (s_wl s) (s_fs s) (s_ss s) (s_ts s) (s_fs_count s) (s_ss_count s) (s_ts_count s)
            (s_airdrops s) (s_last_discount s) t /\
  ms = [OTrading t].
Proof. exact update_step. Qed.

Theorem C19_update_by_non_admin_fails : forall vr s e fp wv t,
  e_sender e <> s_admin s -> step vr s e fp wv (OUpdateStartTradingTime t) = Err.
Proof. exact update_step_non_admin. Qed.

(* no other call of any kind sends a trading time to the collection *)
Theorem C19_other_calls_send_no_trading_time : forall vr s e fp wv o s' ms,
  (match o with OUpdateStartTradingTime _ => false | _ => true end) = true ->
  step vr s e fp wv o = Ok (s', ms) ->
  s_trading s' = s_trading s /\ forall t, ~ In (OTrading t) ms.
Proof. exact other_ops_keep_trading_spelled. Qed.

(* ---------------- update on the other families ---------------- *)

(* open-edition (3 variants) and token-merge minters: the same rule as a function of
   what the handler reads *)
Theorem C19_update_rule_open_edition_token_merge : forall now start offset adm nofunds t v,
  update_trading now start offset adm nofunds t = Ok v <->
  nofunds = true /\ adm = true /\
  offset * 1000000000 <= 18446744073709551615 /\
  start + offset * 1000000000 <= 18446744073709551615 /\
  match t with Some tr => now <= tr /\ tr <= start + offset * 1000000000 | None => True end /\
  v = t.
Proof. exact update_pure. Qed.

(* the vending handler accepts exactly the calls this rule accepts *)
Theorem C19_vending_handler_is_this_rule : forall vr s e fp wv t,
  is_ok (step vr s e fp wv (OUpdateStartTradingTime t)) =
  is_ok (update_trading (e_now e) (s_start s) (fp_offset_secs fp) (e_sender e =? s_admin s)
                        (match e_funds e with [] => true | _ => false end) t).
Proof. exact step_refines_pure. Qed.

(* base minter: creator only, not in the past, no upper bound *)
Theorem C19_update_rule_base : forall now adm nofunds t v,
  update_trading_base now adm nofunds t = Ok v <->
  nofunds = true /\ adm = true /\ match t with Some tr => now <= tr | None => True end /\ v = t.
Proof. exact update_base_pure. Qed.

(* ---------------- the collection ---------------- *)
Theorem C19_collection_accepts_only_its_minter : forall c sender t c',
  coll_update c sender t = Ok c' <-> sender = cl_minter c /\ c' = mkColl (cl_minter c) t.
Proof. exact coll_update_spec. Qed.

Theorem C19_collection_refuses_everyone_else : forall c sender t,
  sender <> cl_minter c -> coll_update c sender t = Err.
Proof. exact coll_update_stranger. Qed.

(* ---------------- histories ---------------- *)

(* A vending minter and its collection, any interleaving of minter calls (every kind, any
   sender, clock, factory answers) and direct UpdateStartTradingTime calls on the
   collection by anybody but the minter contract.  If the collection was created with the
   value the minter recorded, then after the history
   - the collection still shows what the minter recorded, and
   - that value is either the creation value (no update was ever accepted), or the
     argument t of the LAST accepted minter update; that update came from the admin,
     without funds, and (for Some tr) satisfied now <= tr <= start + offset * 10^9 with the
     mint start stored AT THAT STEP and the offset the factory answered AT THAT STEP. *)
Theorem C19_visible_value_was_validated : forall vr minter cs w0,
  cl_minter (w_coll w0) = minter /\ cl_trading (w_coll w0) = s_trading (w_minter w0) ->
  Forall (wf_call minter) cs ->
  let w := wrun vr w0 cs in
  (cl_minter (w_coll w) = minter /\ cl_trading (w_coll w) = s_trading (w_minter w)) /\
  ((cl_trading (w_coll w) = cl_trading (w_coll w0) /\
    forall p1 x p2, cs = p1 ++ x :: p2 -> trading_update vr (wrun vr w0 p1) x = None)
   \/
   exists pre e fp wv t post,
     cs = pre ++ WMinter e fp wv (OUpdateStartTradingTime t) :: post /\
     is_ok (step vr (w_minter (wrun vr w0 pre)) e fp wv (OUpdateStartTradingTime t)) = true /\
     (e_sender e = s_admin (w_minter (wrun vr w0 pre)) /\ e_funds e = [] /\
      s_start (w_minter (wrun vr w0 pre)) + fp_offset_secs fp * 1000000000 <= 18446744073709551615 /\
      match t with
      | Some tr => e_now e <= tr /\
                   tr <= s_start (w_minter (wrun vr w0 pre)) + fp_offset_secs fp * 1000000000
      | None => True
      end) /\
     cl_trading (w_coll w) = t /\
     forall p1 x p2, post = p1 ++ x :: p2 ->
       trading_update vr (wrun vr w0 (pre ++ WMinter e fp wv (OUpdateStartTradingTime t) :: p1)) x = None).
Proof. exact visible_value_was_validated. Qed.

(* what `wf_call` and `trading_update` say *)
Theorem C19_wf_call_spelled_out : forall minter x,
  wf_call minter x <->
  match x with WMinter e _ _ _ => e_contract e = minter | WDirect sender _ => sender <> minter end.
Proof. exact wf_call_spelled. Qed.

Theorem C19_trading_update_spelled_out : forall vr w x v,
  trading_update vr w x = Some v <->
  exists e fp wv, x = WMinter e fp wv (OUpdateStartTradingTime v) /\
                  is_ok (step vr (w_minter w) e fp wv (OUpdateStartTradingTime v)) = true.
Proof. exact trading_update_spelled. Qed.

(* the same for the ghost alone over plain minter histories (`run`, failed calls change
   nothing) *)
Theorem C19_ghost_value_was_validated : forall vr cs s0,
  let s := run vr s0 cs in
  (s_trading s = s_trading s0 /\
   forall p1 x p2, cs = p1 ++ x :: p2 -> call_update vr (run vr s0 p1) x = None)
  \/
  exists pre c post t,
    cs = pre ++ c :: post /\ c_op c = OUpdateStartTradingTime t /\
    is_ok (step vr (run vr s0 pre) (c_env c) (c_fp c) (c_wv c) (OUpdateStartTradingTime t)) = true /\
    (e_sender (c_env c) = s_admin (run vr s0 pre) /\ e_funds (c_env c) = [] /\
     s_start (run vr s0 pre) + fp_offset_secs (c_fp c) * 1000000000 <= 18446744073709551615 /\
     match t with
     | Some tr => e_now (c_env c) <= tr /\ tr <= s_start (run vr s0 pre) + fp_offset_secs (c_fp c) * 1000000000
     | None => True
     end) /\
    s_trading s = t /\
    forall p1 x p2, post = p1 ++ x :: p2 -> call_update vr (run vr s0 (pre ++ c :: p1)) x = None.
Proof. exact ghost_value_was_validated. Qed.

(* every family (vending, open-edition, token-merge, base), histories of update calls in
   which the clock, the mint start, the offset and the admin may differ from call to
   call: the value is the creation value or the argument of the last accepted call, which
   came from the admin without funds, was not in the past and — except on the base
   minter — not past that call's start + offset * 10^9 *)
Theorem C19_family_value_was_validated : forall f cs v0,
  (grun f v0 cs = v0 /\ forall x, In x cs -> gupdate f x = None)
  \/
  exists pre c post,
    cs = pre ++ c :: post /\
    (g_admin c = true /\ g_nofunds c = true /\ grun f v0 cs = g_t c /\
     match g_t c with
     | Some tr => g_now c <= tr /\
                  (f <> FBase -> tr <= g_start c + g_offset c * 1000000000 /\
                                 g_start c + g_offset c * 1000000000 <= 18446744073709551615)
     | None => True
     end) /\
    gupdate f c = Some (grun f v0 cs) /\
    forall x, In x post -> gupdate f x = None.
Proof. exact family_value_was_validated. Qed.

(* ---------------- non-vacuity ---------------- *)
(* mint start 1647032500 s, offset 7 days: bound 1647637300 s; clock 1647032401 s *)
Definition ex_fp : fparams := mkFP 50 0 1000 0 0 10000 500 50 604800.
Definition ex_s : vstate :=
  mkVS 10 None 3 2 None 1647032500000000000 100 0 None 3 [(1, 2); (2, 3); (3, 1)] [] 0 [] [] [] [] [] 0 0 0 0 0
       (Some 1647637300000000000).
Definition ex_vr : variant := mkVariant false false false.
Definition ex_now : N := 1647032401000000000.
Definition ex_env (sender : addr) (funds : list coin) : env := mkEnv ex_now sender funds 20.

Example C19_ex_update_at_the_bound_accepted :
  step ex_vr ex_s (ex_env 10 []) ex_fp None (OUpdateStartTradingTime (Some 1647637300000000000))
  = Ok (with_trading ex_s (Some 1647637300000000000), [OTrading (Some 1647637300000000000)]).
Proof. vm_compute. reflexivity. Qed.

Example C19_ex_update_one_nanosecond_past_the_bound_rejected :
  step ex_vr ex_s (ex_env 10 []) ex_fp None (OUpdateStartTradingTime (Some 1647637300000000001)) = Err.
Proof. vm_compute. reflexivity. Qed.

Example C19_ex_update_now_accepted_one_nanosecond_earlier_rejected :
  is_ok (step ex_vr ex_s (ex_env 10 []) ex_fp None (OUpdateStartTradingTime (Some 1647032401000000000))) = true /\
  step ex_vr ex_s (ex_env 10 []) ex_fp None (OUpdateStartTradingTime (Some 1647032400999999999)) = Err.
Proof. vm_compute. split; reflexivity. Qed.

Example C19_ex_update_stranger_funds_rejected_none_clears :
  step ex_vr ex_s (ex_env 11 []) ex_fp None (OUpdateStartTradingTime (Some 1647637300000000000)) = Err /\
  step ex_vr ex_s (ex_env 10 [mkCoin 0 1]) ex_fp None (OUpdateStartTradingTime (Some 1647637300000000000)) = Err /\
  step ex_vr ex_s (ex_env 10 []) ex_fp None (OUpdateStartTradingTime None)
  = Ok (with_trading ex_s None, [OTrading None]).
Proof. vm_compute. repeat split; reflexivity. Qed.

(* governance lowers the offset to one hour: the old bound is no longer accepted, the new
   one is; an offset whose product (18446744074 s) or sum (16799711574 s) overflows u64
   makes every update fail, None included *)
Example C19_ex_offset_in_force_at_that_moment :
  let fp1 := mkFP 50 0 1000 0 0 10000 500 50 3600 in
  step ex_vr ex_s (ex_env 10 []) fp1 None (OUpdateStartTradingTime (Some 1647637300000000000)) = Err /\
  is_ok (step ex_vr ex_s (ex_env 10 []) fp1 None (OUpdateStartTradingTime (Some 1647036100000000000))) = true /\
  step ex_vr ex_s (ex_env 10 []) fp1 None (OUpdateStartTradingTime (Some 1647036100000000001)) = Err /\
  step ex_vr ex_s (ex_env 10 []) (mkFP 50 0 1000 0 0 10000 500 50 18446744074) None (OUpdateStartTradingTime None) = Err /\
  step ex_vr ex_s (ex_env 10 []) (mkFP 50 0 1000 0 0 10000 500 50 16799711574) None (OUpdateStartTradingTime None) = Err /\
  is_ok (step ex_vr ex_s (ex_env 10 []) (mkFP 50 0 1000 0 0 10000 500 50 16799711573) None
              (OUpdateStartTradingTime (Some 18446744073000000000))) = true.
Proof. vm_compute. repeat split; reflexivity. Qed.

Example C19_ex_creation :
  create_trading 1647032500000000000 604800 None = Ok 1647637300000000000 /\
  create_trading 1647032500000000000 604800 (Some 1647637300000000000) = Ok 1647637300000000000 /\
  create_trading 1647032500000000000 604800 (Some 1647637300000000001) = Err /\
  create_trading 1647032500000000000 604800 (Some 5) = Ok 5 /\
  create_trading 1647032500000000000 18446744074 (Some 5) = Err /\
  create_trading 1647032500000000000 16799711574 None = Err /\
  create_trading_base ex_now 604800 None = Ok 1647637201000000000 /\
  create_trading_base ex_now 604800 (Some 18446744073709551615) = Ok 18446744073709551615 /\
  create_trading_base ex_now 18446744074 None = Err.
Proof. vm_compute. repeat split; reflexivity. Qed.

(* the base minter's default has no genesis term: created 1000 s BEFORE the genesis mint time
   (1647032400 s) without a trading time, the collection gets creation time + offset, which is
   earlier than genesis + offset; the bounded families default to mint start + offset whatever
   the clock is *)
Example C19_ex_base_default_before_genesis :
  create_trading_base 1647031400000000000 604800 None = Ok 1647636200000000000 /\
  1647636200000000000 < 1647032400000000000 + 604800 * 1000000000 /\
  create_trading_fam FBase 1647031400000000000 1647034400000000000 604800 None = Ok 1647636200000000000 /\
  create_trading_fam FVending 1647031400000000000 1647034400000000000 604800 None = Ok 1647639200000000000.
Proof. vm_compute. repeat split; reflexivity. Qed.

(* a history on the two-contract world: the creator and a stranger call the collection
   directly (ignored), the admin schedules trading, moves the mint start 90 s earlier,
   then the old bound is refused; the collection shows the one accepted value *)
Definition ex_w0 : world := mkWorld ex_s (mkColl 20 (Some 1647637300000000000)).
Definition ex_calls : list wcall :=
  [ WDirect 10 (Some 5);
    WMinter (ex_env 10 []) ex_fp None (OUpdateStartTradingTime (Some 1647637299000000000));
    WMinter (ex_env 10 []) ex_fp None (OUpdateStartTime 1647032410000000000);
    WMinter (ex_env 10 []) ex_fp None (OUpdateStartTradingTime (Some 1647637300000000000));
    WMinter (ex_env 11 []) ex_fp None (OUpdateStartTradingTime None);
    WDirect 99 None ].

Example C19_ex_history_is_well_formed :
  (cl_minter (w_coll ex_w0) = 20 /\ cl_trading (w_coll ex_w0) = s_trading (w_minter ex_w0)) /\
  Forall (wf_call 20) ex_calls.
Proof.
  split; [ split; reflexivity | ].
  repeat constructor; cbn; discriminate.
Qed.

Example C19_ex_history_evaluates :
  let w := wrun ex_vr ex_w0 ex_calls in
  (cl_trading (w_coll w), s_trading (w_minter w), s_start (w_minter w)) =
  (Some 1647637299000000000, Some 1647637299000000000, 1647032410000000000).
Proof. vm_compute. reflexivity. Qed.

Print Assumptions C19_create_requested_stored_iff_within_bound.
Print Assumptions C19_create_default_is_start_plus_offset.
Print Assumptions C19_create_rejected_iff.
Print Assumptions C19_create_base_requested_stored.
Print Assumptions C19_create_base_default_is_now_plus_offset.
Print Assumptions C19_create_base_rejected_iff.
Print Assumptions C19_create_by_family.
Print Assumptions C19_update_accepted_iff.
Print Assumptions C19_update_by_non_admin_fails.
Print Assumptions C19_other_calls_send_no_trading_time.
Print Assumptions C19_update_rule_open_edition_token_merge.
Print Assumptions C19_vending_handler_is_this_rule.
Print Assumptions C19_update_rule_base.
Print Assumptions C19_collection_accepts_only_its_minter.
Print Assumptions C19_collection_refuses_everyone_else.
Print Assumptions C19_visible_value_was_validated.
Print Assumptions C19_wf_call_spelled_out.
Print Assumptions C19_trading_update_spelled_out.
Print Assumptions C19_ghost_value_was_validated.
Print Assumptions C19_family_value_was_validated.

(* =====================================================================================
   Migrations inside histories.  `minter_migrate` / `o_minter_migrate` (model/MinterMigrate.v)
   are the minters' `migrate` entry points as functions on the sale-world state; they are
   not handler operations, so `step` / `ostep` and the theorems above are untouched.  The
   sale-world correspondence runs migrations inside its histories (SaleCorr.IMigrate /
   SaleOeCorr.OIMigrate), from stored versions around 3.9.0 and the current version, by the
   wasm admin and by strangers.
   ===================================================================================== *)
From LP Require Import MinterMigrate MinterMigrateProofs.

(* an accepted migration leaves the trading start time (and the mint start time its bound
   is computed from) as they were *)
Theorem C19_migrate_keeps_trading_time : forall vr now name_ok stored admin s s',
  minter_migrate vr now name_ok stored admin s = Ok s' ->
  s_trading s' = s_trading s /\ s_start s' = s_start s.
Proof. exact migrate_trading. Qed.

Print Assumptions C19_migrate_keeps_trading_time.
Print Assumptions C19_ex_base_default_before_genesis.
