(* C06 — Fee splits are exact: parts always sum to the fee, in the documented ratios.
   This file contains ONLY statements (with the documented numbers written out), each
   closed by `exact <lemma>`, and the axiom audit.  F ranges over all of N, hence over
   every u128. *)
From Coq Require Import String.
From LP Require Import Num Pay Sg1 Bank FeeSites Consts Sg1Proofs C02Proofs FeeSitesProofs.
Import ListNotations.
Local Open Scope N_scope.

(* the protocol address constants are the published ones *)
Theorem C06_addresses :
  sg1__FOUNDATION = "stars1xqz6xujjyz0r9uzn7srasle5uynmpa0zkjr5l8"%string /\
  sg1__LAUNCHPAD_DAO_ADDRESS = "stars1huqk6ha02jgrm69lxh8xfgl6wch9wlg7s65ujxydwdr725cxvuus423tj0"%string /\
  sg1__LIQUIDITY_DAO_ADDRESS = "stars12he2ldxl950wfypvelqwkac4mdul7clzgd8wdlnmjvll8z2cc47qsatvl2"%string /\
  sg_utils__NATIVE_DENOM = "ustars"%string.
Proof. repeat split. Qed.

(* fair burn of F: burn floor(F/2); the remaining F - floor(F/2) goes to the developer
   when one is given, otherwise to the fair-burn pool on behalf of the calling contract *)
Theorem C06_fair_burn_exact : forall (sender : addr) (F : N) (dev : option addr),
  fair_burn sender F dev =
  Ok (Burn NATIVE (F / 2) ::
      match dev with
      | Some d => [Send d NATIVE (F - F / 2)]
      | None => [FundPool sender NATIVE (F - F / 2)]
      end).
Proof. exact fair_burn_exact. Qed.

Theorem C06_fair_burn_conserves : forall sender F dev ms,
  fair_burn sender F dev = Ok ms ->
  sum_out ms = F /\ Forall (fun m => bmsg_amount m <= F) ms /\ length ms = 2%nat.
Proof. exact fair_burn_conserves. Qed.

(* mint-fee distribution of F: ceil(F/2) to the developer when given, then ceil of one
   fifth (one eighth when featured) of what is left to the liquidity DAO, remainder to
   the launchpad DAO *)
Theorem C06_mint_fees_exact : forall (d : denom) (F : N) (featured : bool) (dev : option addr),
  distribute_mint_fees d F featured dev =
  Ok match dev with
     | Some dv =>
         let devf := (F + 1) / 2 in
         let R := F - devf in
         let liq := if featured then (R + 7) / 8 else (R + 4) / 5 in
         [Send dv d devf; Send A_LIQUIDITY_DAO d liq; Send A_LAUNCHPAD_DAO d (R - liq)]
     | None =>
         let liq := if featured then (F + 7) / 8 else (F + 4) / 5 in
         [Send A_LIQUIDITY_DAO d liq; Send A_LAUNCHPAD_DAO d (F - liq)]
     end.
Proof. exact distribute_mint_fees_exact. Qed.

Theorem C06_mint_fees_conserves : forall d F featured dev ms,
  distribute_mint_fees d F featured dev = Ok ms ->
  sum_out ms = F /\ Forall (fun m => bmsg_amount m <= F) ms.
Proof. exact mint_fees_conserves. Qed.

(* a payment below the required fee (or malformed funds) is rejected; zero payment of a
   zero fee emits nothing; otherwise exactly the fair burn of the *fee* *)
Theorem C06_checked_fair_burn : forall contract funds fee dev,
  checked_fair_burn contract funds fee dev =
  match may_pay funds NATIVE with
  | Err => Err
  | Ok p => if p <? fee then Err else if p =? 0 then Ok []
            else Ok (Burn NATIVE (fee / 2) ::
                     match dev with
                     | Some d => [Send d NATIVE (fee - fee / 2)]
                     | None => [FundPool contract NATIVE (fee - fee / 2)]
                     end)
  end.
Proof. exact checked_fair_burn_cases. Qed.

Theorem C06_checked_rejects_underpayment : forall contract funds fee dev p,
  may_pay funds NATIVE = Ok p -> p < fee -> checked_fair_burn contract funds fee dev = Err.
Proof. exact checked_rejects_underpayment. Qed.

Theorem C06_may_pay_shape : forall funds d p,
  may_pay funds d = Ok p -> (funds = [] /\ p = 0) \/ funds = [mkCoin d p].
Proof. exact may_pay_ok_shape. Qed.

(* IBC-denominated fair burn: ceil(F/2) to the developer, rest to the foundation;
   everything to the foundation without a developer *)
Theorem C06_ibc_exact : forall d F dev,
  ibc_denom_fair_burn d F dev =
  Ok match dev with
     | Some dv => [Send dv d ((F + 1) / 2); Send A_FOUNDATION d (F - (F + 1) / 2)]
     | None => [Send A_FOUNDATION d F]
     end.
Proof. exact ibc_denom_fair_burn_exact. Qed.

Theorem C06_ibc_conserves : forall d F dev ms,
  ibc_denom_fair_burn d F dev = Ok ms -> sum_out ms = F /\ Forall (fun m => bmsg_amount m <= F) ms.
Proof. exact ibc_conserves. Qed.

(* fees in a non-native denom go in full (the whole payment, never less than the fee) to
   the launchpad DAO *)
Theorem C06_non_native_all_to_dao : forall funds fee d,
  transfer_funds_to_launchpad_dao funds fee d =
  match must_pay funds d with
  | Err => Err
  | Ok p => if p <? fee then Err else Ok [Send A_LAUNCHPAD_DAO d p]
  end.
Proof. exact transfer_to_dao_cases. Qed.

Theorem C06_must_pay_shape : forall funds d p,
  must_pay funds d = Ok p -> funds = [mkCoin d p] /\ p <> 0.
Proof. exact must_pay_ok_shape. Qed.

(* ------------------------------------------------------------------------------------
   CALL SITES.  FeeSites.v says, for every place in the contracts that disposes of a
   protocol fee, which sg1 function is called with which arguments.  Each site follows
   the schedule of the property text for every fee F and payment p. *)

(* the four factories, native creation fee F paid with p >= F ustars (open-edition:
   p = F): floor(F/2) is burned and F - floor(F/2) funds the fair-burn pool on behalf of
   the factory, whatever the denom of min_mint_price *)
Theorem C06_site_creation_native : forall (k : fsite) (factory : addr) (mint_denom : denom) (F p : N),
  p <> 0 -> F <= p -> (k = FsOpen -> p = F) ->
  site_creation_fee k factory NATIVE mint_denom F [mkCoin NATIVE p] =
  Ok [Burn NATIVE (F / 2); FundPool factory NATIVE (F - F / 2)].
Proof. exact creation_native_exact. Qed.

(* non-native creation fee: the whole payment (never less than F) to the launchpad DAO,
   nothing burned, nothing to the pool, whatever the denom of min_mint_price *)
Theorem C06_site_creation_non_native : forall (k : fsite) (factory : addr) (d mint_denom : denom) (F p : N),
  d <> NATIVE -> p <> 0 -> F <= p -> (k = FsOpen -> p = F) ->
  site_creation_fee k factory d mint_denom F [mkCoin d p] = Ok [Send A_LAUNCHPAD_DAO d p].
Proof. exact creation_non_native_exact. Qed.

(* anything but exactly one non-zero coin of the fee denom, or less than the fee: rejected *)
Theorem C06_site_creation_rejects : forall k factory fee_denom mint_denom F funds,
  (must_pay funds fee_denom = Err \/ exists p, must_pay funds fee_denom = Ok p /\ p < F) ->
  site_creation_fee k factory fee_denom mint_denom F funds = Err.
Proof. exact creation_rejects. Qed.

(* and there is nothing else a factory can do with a creation fee *)
Theorem C06_site_creation_complete : forall k factory fee_denom mint_denom F funds ms,
  site_creation_fee k factory fee_denom mint_denom F funds = Ok ms ->
  exists p, funds = [mkCoin fee_denom p] /\ p <> 0 /\ F <= p /\ (k = FsOpen -> p = F) /\
            ms = if fee_denom =? NATIVE
                 then [Burn NATIVE (F / 2); FundPool factory NATIVE (F - F / 2)]
                 else [Send A_LAUNCHPAD_DAO fee_denom p].
Proof. exact creation_ok_shape. Qed.

(* shuffle, whitelist creation, IncreaseMemberLimit, Merkle whitelist creation,
   EnableUpdatable, base-minter mint: paying the fee F > 0 exactly burns floor(F/2) and
   funds the pool with the rest on behalf of the contract *)
Theorem C06_site_fair_burn_exact : forall (r : pay_rule) (contract : addr) (F : N),
  F <> 0 ->
  site_fair_burn_fee r contract F [mkCoin NATIVE F] =
  Ok [Burn NATIVE (F / 2); FundPool contract NATIVE (F - F / 2)].
Proof. exact fair_burn_site_exact. Qed.

Theorem C06_site_fair_burn_complete : forall r contract F funds ms,
  site_fair_burn_fee r contract F funds = Ok ms ->
  exists p, may_pay funds NATIVE = Ok p /\ F <= p /\ (r <> PayAtLeast -> p = F) /\
            ms = if p =? 0 then [] else [Burn NATIVE (F / 2); FundPool contract NATIVE (F - F / 2)].
Proof. exact fair_burn_site_ok_shape. Qed.

Theorem C06_site_fair_burn_rejects : forall r contract F funds,
  (may_pay funds NATIVE = Err \/ exists p, may_pay funds NATIVE = Ok p /\ p < F) ->
  site_fair_burn_fee r contract F funds = Err.
Proof. exact fair_burn_site_rejects. Qed.

(* sg-eth-airdrop instantiate: 100 STARS, half burned, half to the pool on behalf of the
   airdrop contract itself; less than the fee (or no single ustars coin) is rejected *)
Theorem C06_site_airdrop_init : forall (airdrop : addr) (funds : list coin),
  site_airdrop_init airdrop funds =
  match must_pay funds NATIVE with
  | Err => Err
  | Ok p => if p <? 100000000 then Err
            else Ok [Burn NATIVE 50000000; FundPool airdrop NATIVE 50000000]
  end.
Proof. exact airdrop_init_cases. Qed.

(* mint-fee sites: F = floor(price * bps / 10^4) of an exactly paid price; vending family:
   no developer, one eighth when featured else one fifth; open-edition family: the
   factory's developer gets ceil(F/2), one fifth of the rest; token-merge: one fifth *)
Theorem C06_site_mint_fee : forall (k : msite) (d : denom) (price bps : N) (funds : list coin),
  site_mint_fee k d price bps funds =
  match may_pay funds d with
  | Err => Err
  | Ok p =>
      if negb (p =? price) then Err
      else
        let F := price * bps / 10000 in
        if F =? 0 then Ok []
        else match k with
             | MsVending true => Ok [Send A_LIQUIDITY_DAO d ((F + 7) / 8); Send A_LAUNCHPAD_DAO d (F - (F + 7) / 8)]
             | MsVending false | MsTokenMerge =>
                 Ok [Send A_LIQUIDITY_DAO d ((F + 4) / 5); Send A_LAUNCHPAD_DAO d (F - (F + 4) / 5)]
             | MsOpen dev true =>
                 let devf := (F + 1) / 2 in
                 let R := F - devf in
                 Ok [Send dev d devf; Send A_LIQUIDITY_DAO d ((R + 4) / 5); Send A_LAUNCHPAD_DAO d (R - (R + 4) / 5)]
             | MsOpen dev false => Err   (* the configured developer string is refused by the chain *)
             end
  end.
Proof. exact mint_site_schedule. Qed.

(* open-edition minters, the developer AS CONFIGURED in the factory (dev), whatever the
   chain's address rules say about the string (valid): a mint that charges a fee F > 0 and
   is accepted sends the developer exactly ceil(F/2) -- first -- and shares the rest 1/5 :
   4/5; it is never accepted with the developer left out *)
Theorem C06_site_oe_developer_share : forall (dev : addr) (valid : bool) d price bps funds ms,
  site_mint_fee (MsOpen dev valid) d price bps funds = Ok ms ->
  price * bps / 10000 <> 0 ->
  valid = true /\
  ms = [Send dev d ((price * bps / 10000 + 1) / 2);
        Send A_LIQUIDITY_DAO d ((price * bps / 10000 - (price * bps / 10000 + 1) / 2 + 4) / 5);
        Send A_LAUNCHPAD_DAO d (price * bps / 10000 - (price * bps / 10000 + 1) / 2
                                - (price * bps / 10000 - (price * bps / 10000 + 1) / 2 + 4) / 5)].
Proof. exact oe_developer_share. Qed.

Theorem C06_site_oe_invalid_developer_rejected : forall (dev : addr) d price bps funds,
  price * bps / 10000 <> 0 -> site_mint_fee (MsOpen dev false) d price bps funds = Err.
Proof. exact oe_invalid_developer_rejected. Qed.

(* every site: the pool message, if any, names the contract that runs the site *)
Theorem C06_site_pool_on_behalf_of_contract : forall (s : site) (contract : addr) funds ms,
  site_msgs s contract funds = Ok ms ->
  forall snd d x, In (FundPool snd d x) ms -> snd = contract.
Proof. exact site_pool_sender. Qed.

(* every site (mint fee rate at most 100 %): what is paid out is covered, denom by
   denom, by what was paid in with the call -- no part larger than the payment *)
Theorem C06_site_funded_by_payment : forall (s : site) (contract : addr) funds ms,
  match s with SMint _ _ _ bps => bps <= 10000 | _ => True end ->
  site_msgs s contract funds = Ok ms -> forall d, debits ms d <= paid funds d.
Proof. exact site_funded_by_payment. Qed.

(* every site, world level: each balance after the call is the balance before, minus
   the payment for the payer, plus the payment minus the fee messages for the contract,
   plus what the messages credit; the sum over all accounts (burned included) is kept *)
Theorem C06_site_world_balances : forall s contract payer funds b b',
  site_world s contract payer funds b = Ok b' ->
  exists ms, site_msgs s contract funds = Ok ms /\
    (forall a d,
        bal_get b' a d + (if a =? payer then paid funds d else 0) + (if a =? contract then debits ms d else 0)
        = bal_get b a d + (if a =? contract then paid funds d else 0) + credits ms a d) /\
    (forall d, total b' d = total b d).
Proof. exact site_world_balances. Qed.

(* the native fair burn seen from the chain *)
Theorem C06_site_fair_burn_world : forall contract payer p F b b1 b',
  contract <> payer -> contract <> A_BURNED -> contract <> A_FAIRBURN_POOL ->
  payer <> A_BURNED -> payer <> A_FAIRBURN_POOL ->
  attach b payer contract [mkCoin NATIVE p] = Ok b1 ->
  apply_bmsgs contract b1 [Burn NATIVE (F / 2); FundPool contract NATIVE (F - F / 2)] = Ok b' ->
  bal_get b' A_BURNED NATIVE = bal_get b A_BURNED NATIVE + F / 2 /\
  bal_get b' A_FAIRBURN_POOL NATIVE = bal_get b A_FAIRBURN_POOL NATIVE + (F - F / 2) /\
  bal_get b' payer NATIVE + p = bal_get b payer NATIVE /\
  bal_get b' contract NATIVE + F = bal_get b contract NATIVE + p.
Proof. exact fair_burn_world. Qed.

(* ------------------------------------------------------------------------------------
   THE CONTRACT'S OWN BALANCE.  A site disposes of the fee out of the payment that comes
   with the call, never out of what the contract already holds (coins left behind by an
   earlier over-payment, or sent to its address).  b is an ARBITRARY balance sheet. *)

(* every site, every prior balance: what the contract held in any denom before an accepted
   call it still holds afterwards *)
Theorem C06_site_prior_balance_untouched : forall (s : site) (contract payer : addr) funds (b b' : bal),
  match s with SMint _ _ _ bps => bps <= 10000 | _ => True end ->
  contract <> payer ->
  site_world s contract payer funds b = Ok b' ->
  forall d, bal_get b contract d <= bal_get b' contract d.
Proof. exact site_prior_balance_untouched. Qed.

(* every fair-burn site (F with the documented numbers): a payment below F, or funds that
   are not a single ustars coin, are rejected WHATEVER the contract or anybody else holds *)
Theorem C06_site_underpayment_rejected_whatever_held : forall (s : site) (contract payer : addr) funds (b : bal) (F : N),
  match s with
  | SCreate _ fee_denom _ fee => fee_denom = NATIVE /\ F = fee
  | SShuffle fee => F = fee
  | SWlCreate _ member_limit => F = (member_limit + 999) / 1000 * 100000000
  | SWlIncrease _ old new => F = ((new + 999) / 1000 - (old + 999) / 1000) * 100000000
  | SWlMerkleCreate _ => F = 1000000000
  | SEnableUpdatable => F = 1500000000
  | SAirdropInit => F = 100000000
  | SBaseMint price bps => F = price * bps / 10000
  | SMint _ _ _ _ => False
  end ->
  (may_pay funds NATIVE = Err \/ exists p, may_pay funds NATIVE = Ok p /\ p < F) ->
  site_world s contract payer funds b = Err.
Proof. exact underpayment_rejected_whatever_held. Qed.

(* the creation fee in any denom, at world level *)
Theorem C06_site_creation_rejects_whatever_held : forall k factory payer fee_denom mint_denom F funds (b : bal),
  (must_pay funds fee_denom = Err \/ exists p, must_pay funds fee_denom = Ok p /\ p < F) ->
  site_world (SCreate k fee_denom mint_denom F) factory payer funds b = Err.
Proof. exact creation_rejects_whatever_held. Qed.

(* a mint is paid exactly, whatever the minter holds *)
Theorem C06_site_mint_inexact_rejected_whatever_held : forall k d price bps minter payer funds (b : bal),
  (may_pay funds d = Err \/ exists p, may_pay funds d = Ok p /\ p <> price) ->
  site_world (SMint k d price bps) minter payer funds b = Err.
Proof. exact mint_inexact_rejected_whatever_held. Qed.

(* non-vacuity: concrete values, including the ends of the u128 range *)
Example C06_ex_fair_burn_9 : fair_burn 7 9 None = Ok [Burn NATIVE 4; FundPool 7 NATIVE 5].
Proof. vm_compute. reflexivity. Qed.
Example C06_ex_fair_burn_max :
  fair_burn 7 U128_MAX (Some 9) =
  Ok [Burn NATIVE 170141183460469231731687303715884105727; Send 9 NATIVE 170141183460469231731687303715884105728].
Proof. vm_compute. reflexivity. Qed.
Example C06_ex_mint_fees_featured_3 :
  distribute_mint_fees 5 3 true (Some 9) = Ok [Send 9 5 2; Send A_LIQUIDITY_DAO 5 1; Send A_LAUNCHPAD_DAO 5 0].
Proof. vm_compute. reflexivity. Qed.
Example C06_ex_mint_fees_1420 :
  distribute_mint_fees 0 1420 false None = Ok [Send A_LIQUIDITY_DAO 0 284; Send A_LAUNCHPAD_DAO 0 1136].
Proof. vm_compute. reflexivity. Qed.
Example C06_ex_checked_short : checked_fair_burn 7 [mkCoin NATIVE 9] 10 None = Err.
Proof. vm_compute. reflexivity. Qed.

Example C06_ex_site_vending_ibc_mint_denom :
  site_creation_fee FsVending 20 NATIVE 1 5000000000 [mkCoin NATIVE 5000000000] =
  Ok [Burn NATIVE 2500000000; FundPool 20 NATIVE 2500000000].
Proof. vm_compute. reflexivity. Qed.
Example C06_ex_site_vending_ibc_fee :
  site_creation_fee FsVending 20 1 NATIVE 3 [mkCoin 1 3] = Ok [Send A_LAUNCHPAD_DAO 1 3].
Proof. vm_compute. reflexivity. Qed.
Example C06_ex_site_world_airdrop :
  site_world SAirdropInit 20 21 [mkCoin NATIVE 100000000] [(21, NATIVE, 100000000)] =
  Ok [(21, NATIVE, 0); (20, NATIVE, 0); (A_BURNED, NATIVE, 50000000); (A_FAIRBURN_POOL, NATIVE, 50000000)].
Proof. vm_compute. reflexivity. Qed.
Example C06_ex_site_oe_mint_fee_3 :
  site_mint_fee (MsOpen 9 true) 0 30 1000 [mkCoin 0 30] = Ok [Send 9 0 2; Send A_LIQUIDITY_DAO 0 1; Send A_LAUNCHPAD_DAO 0 0].
Proof. vm_compute. reflexivity. Qed.

(* a base factory holding 400 000 000 ustars left behind by an over-payment: a payment of
   600 000 000 for a fee of 1 000 000 000 is rejected; the exact fee leaves the 400 000 000 alone *)
Example C06_ex_site_stranded_coins_underpayment :
  site_world (SCreate FsBase NATIVE NATIVE 1000000000) 20 21 [mkCoin NATIVE 600000000]
             [(20, NATIVE, 400000000); (21, NATIVE, 5000000000)] = Err.
Proof. vm_compute. reflexivity. Qed.
Example C06_ex_site_stranded_coins_untouched :
  site_world (SCreate FsBase NATIVE NATIVE 1000000000) 20 21 [mkCoin NATIVE 1000000000]
             [(20, NATIVE, 400000000); (21, NATIVE, 5000000000)] =
  Ok [(20, NATIVE, 400000000); (21, NATIVE, 4000000000); (A_BURNED, NATIVE, 500000000); (A_FAIRBURN_POOL, NATIVE, 500000000)].
Proof. vm_compute. reflexivity. Qed.

Print Assumptions C06_addresses.
Print Assumptions C06_fair_burn_exact.
Print Assumptions C06_fair_burn_conserves.
Print Assumptions C06_mint_fees_exact.
Print Assumptions C06_mint_fees_conserves.
Print Assumptions C06_checked_fair_burn.
Print Assumptions C06_checked_rejects_underpayment.
Print Assumptions C06_may_pay_shape.
Print Assumptions C06_ibc_exact.
Print Assumptions C06_ibc_conserves.
Print Assumptions C06_non_native_all_to_dao.
Print Assumptions C06_must_pay_shape.
Print Assumptions C06_site_creation_native.
Print Assumptions C06_site_creation_non_native.
Print Assumptions C06_site_creation_rejects.
Print Assumptions C06_site_creation_complete.
Print Assumptions C06_site_fair_burn_exact.
Print Assumptions C06_site_fair_burn_complete.
Print Assumptions C06_site_fair_burn_rejects.
Print Assumptions C06_site_airdrop_init.
Print Assumptions C06_site_mint_fee.
Print Assumptions C06_site_pool_on_behalf_of_contract.
Print Assumptions C06_site_funded_by_payment.
Print Assumptions C06_site_world_balances.
Print Assumptions C06_site_fair_burn_world.
Print Assumptions C06_ex_site_vending_ibc_mint_denom.
Print Assumptions C06_ex_site_world_airdrop.
Print Assumptions C06_site_prior_balance_untouched.
Print Assumptions C06_site_underpayment_rejected_whatever_held.
Print Assumptions C06_site_creation_rejects_whatever_held.
Print Assumptions C06_site_mint_inexact_rejected_whatever_held.
Print Assumptions C06_ex_site_stranded_coins_underpayment.
Print Assumptions C06_ex_site_stranded_coins_untouched.
Print Assumptions C06_site_oe_developer_share.
Print Assumptions C06_site_oe_invalid_developer_rejected.
