(* C06 — Fee splits are exact: parts always sum to the fee, in the documented ratios.
   This file contains ONLY statements (with the documented numbers written out), each
   closed by `exact <lemma>`, and the axiom audit.  F ranges over all of N, hence over
   every u128. *)
From Coq Require Import String.
From LP Require Import Num Pay Sg1 Consts Sg1Proofs.
Import ListNotations.
Local Open Scope N_scope.

(* the protocol address constants are the published ones *)
Theorem C06_addresses :
  sg1__FOUNDATION = "stars1xqz6xujjyz0r9uzn7srasle5uynmpa0zkjr5l8"%string /\
  sg1__LAUNCHPAD_DAO_ADDRESS = "stars1huqk6ha02jgrm69lxh8xfgl6wch9wlg7s65ujxydwdr725cxvuus423tj0"%string /\
  sg1__LIQUIDITY_DAO_ADDRESS = "stars12he2ldxl950wfypvelqwkac4mdul7clzgd8wdlnmjvll8z2cc47qsatvl2"%string /\
  sg_utils__NATIVE_DENOM = "ustars"%string.
Proof. repeat split. Qed.

(* fair burn of F: burn floor(F/2); the remaining F - floor(F/2) goes to the developer
   when one is given, otherwise to the fair-burn pool on behalf of the calling contract *)
Theorem C06_fair_burn_exact : forall (sender : addr) (F : N) (dev : option addr),
  fair_burn sender F dev =
  Ok (Burn NATIVE (F / 2) ::
      match dev with
      | Some d => [Send d NATIVE (F - F / 2)]
      | None => [FundPool sender NATIVE (F - F / 2)]
      end).
Proof. exact fair_burn_exact. Qed.

Theorem C06_fair_burn_conserves : forall sender F dev ms,
  fair_burn sender F dev = Ok ms ->
  sum_out ms = F /\ Forall (fun m => bmsg_amount m <= F) ms /\ length ms = 2%nat.
Proof. exact fair_burn_conserves. Qed.

(* mint-fee distribution of F: ceil(F/2) to the developer when given, then ceil of one
   fifth (one eighth when featured) of what is left to the liquidity DAO, remainder to
   the launchpad DAO *)
Theorem C06_mint_fees_exact : forall (d : denom) (F : N) (featured : bool) (dev : option addr),
  distribute_mint_fees d F featured dev =
  Ok match dev with
     | Some dv =>
         let devf := (F + 1) / 2 in
         let R := F - devf in
         let liq := if featured then (R + 7) / 8 else (R + 4) / 5 in
         [Send dv d devf; Send A_LIQUIDITY_DAO d liq; Send A_LAUNCHPAD_DAO d (R - liq)]
     | None =>
         let liq := if featured then (F + 7) / 8 else (F + 4) / 5 in
         [Send A_LIQUIDITY_DAO d liq; Send A_LAUNCHPAD_DAO d (F - liq)]
     end.
Proof. exact distribute_mint_fees_exact. Qed.

Theorem C06_mint_fees_conserves : forall d F featured dev ms,
  distribute_mint_fees d F featured dev = Ok ms ->
  sum_out ms = F /\ Forall (fun m => bmsg_amount m <= F) ms.
Proof. exact mint_fees_conserves. Qed.

(* a payment below the required fee (or malformed funds) is rejected; zero payment of a
   zero fee emits nothing; otherwise exactly the fair burn of the *fee* *)
Theorem C06_checked_fair_burn : forall contract funds fee dev,
  checked_fair_burn contract funds fee dev =
  match may_pay funds NATIVE with
  | Err => Err
  | Ok p => if p <? fee then Err else if p =? 0 then Ok []
            else Ok (Burn NATIVE (fee / 2) ::
                     match dev with
                     | Some d => [Send d NATIVE (fee - fee / 2)]
                     | None => [FundPool contract NATIVE (fee - fee / 2)]
                     end)
  end.
Proof. exact checked_fair_burn_cases. Qed.

Theorem C06_checked_rejects_underpayment : forall contract funds fee dev p,
  may_pay funds NATIVE = Ok p -> p < fee -> checked_fair_burn contract funds fee dev = Err.
Proof. exact checked_rejects_underpayment. Qed.

Theorem C06_may_pay_shape : forall funds d p,
  may_pay funds d = Ok p -> (funds = [] /\ p = 0) \/ funds = [mkCoin d p].
Proof. exact may_pay_ok_shape. Qed.

(* IBC-denominated fair burn: ceil(F/2) to the developer, rest to the foundation;
   everything to the foundation without a developer *)
Theorem C06_ibc_exact : forall d F dev,
  ibc_denom_fair_burn d F dev =
  Ok match dev with
     | Some dv => [Send dv d ((F + 1) / 2); Send A_FOUNDATION d (F - (F + 1) / 2)]
     | None => [Send A_FOUNDATION d F]
     end.
Proof. exact ibc_denom_fair_burn_exact. Qed.

Theorem C06_ibc_conserves : forall d F dev ms,
  ibc_denom_fair_burn d F dev = Ok ms -> sum_out ms = F /\ Forall (fun m => bmsg_amount m <= F) ms.
Proof. exact ibc_conserves. Qed.

(* fees in a non-native denom go in full (the whole payment, never less than the fee) to
   the launchpad DAO *)
Theorem C06_non_native_all_to_dao : forall funds fee d,
  transfer_funds_to_launchpad_dao funds fee d =
  match must_pay funds d with
  | Err => Err
  | Ok p => if p <? fee then Err else Ok [Send A_LAUNCHPAD_DAO d p]
  end.
Proof. exact transfer_to_dao_cases. Qed.

Theorem C06_must_pay_shape : forall funds d p,
  must_pay funds d = Ok p -> funds = [mkCoin d p] /\ p <> 0.
Proof. exact must_pay_ok_shape. Qed.

(* non-vacuity: concrete values, including the ends of the u128 range *)
Example C06_ex_fair_burn_9 : fair_burn 7 9 None = Ok [Burn NATIVE 4; FundPool 7 NATIVE 5].
Proof. vm_compute. reflexivity. Qed.
Example C06_ex_fair_burn_max :
  fair_burn 7 U128_MAX (Some 9) =
  Ok [Burn NATIVE 170141183460469231731687303715884105727; Send 9 NATIVE 170141183460469231731687303715884105728].
Proof. vm_compute. reflexivity. Qed.
Example C06_ex_mint_fees_featured_3 :
  distribute_mint_fees 5 3 true (Some 9) = Ok [Send 9 5 2; Send A_LIQUIDITY_DAO 5 1; Send A_LAUNCHPAD_DAO 5 0].
Proof. vm_compute. reflexivity. Qed.
Example C06_ex_mint_fees_1420 :
  distribute_mint_fees 0 1420 false None = Ok [Send A_LIQUIDITY_DAO 0 284; Send A_LAUNCHPAD_DAO 0 1136].
Proof. vm_compute. reflexivity. Qed.
Example C06_ex_checked_short : checked_fair_burn 7 [mkCoin NATIVE 9] 10 None = Err.
Proof. vm_compute. reflexivity. Qed.

Print Assumptions C06_addresses.
Print Assumptions C06_fair_burn_exact.
Print Assumptions C06_fair_burn_conserves.
Print Assumptions C06_mint_fees_exact.
Print Assumptions C06_mint_fees_conserves.
Print Assumptions C06_checked_fair_burn.
Print Assumptions C06_checked_rejects_underpayment.
Print Assumptions C06_may_pay_shape.
Print Assumptions C06_ibc_exact.
Print Assumptions C06_ibc_conserves.
Print Assumptions C06_non_native_all_to_dao.
Print Assumptions C06_must_pay_shape.
