(* C08 — Factories create minters only within governance limits and for the fee.
   Statements only.  `factory_create` is the factory's CreateMinter handler,
   `minter_init` the new minter's own instantiate-time validation, `create_minter` /
   `create_world` the whole transaction (atomic: Err means nothing was created and no
   funds moved).  All statements are for every parameter setting, request, sender, clock
   and funds list. *)
From LP Require Import Num Pay Sg1 Bank MinterVending Factory FactoryProofs.
Import ListNotations.
Local Open Scope N_scope.

(* every factory: exactly one coin in the fee denom, at least the fee (exactly the fee
   for the open-edition factory); collection code id on the allow-list; not frozen *)
Theorem C08_common_guards : forall k self p now funds r ms,
  factory_create k self p now funds r = Ok ms ->
  exists paid,
    funds = [mkCoin (g_fee_denom p) paid] /\ paid <> 0 /\ g_fee p <= paid /\
    (k = FOpen -> paid = g_fee p) /\
    In (r_coll_code r) (g_allowed p) /\ g_frozen p = false /\
    fee_disposal self p funds = Ok ms.
Proof. exact factory_create_common. Qed.

(* the fee is burned/forwarded in full: never less than the fee, never more than was paid;
   native: burn floor(fee/2), rest to the fair-burn pool on behalf of the factory;
   non-native: the whole payment to the launchpad DAO *)
Theorem C08_fee_disposal : forall self p paid ms,
  paid <> 0 -> g_fee p <= paid ->
  fee_disposal self p [mkCoin (g_fee_denom p) paid] = Ok ms ->
  (g_fee_denom p = NATIVE /\
   ms = [Burn NATIVE (g_fee p / 2); FundPool self NATIVE (g_fee p - g_fee p / 2)] /\ sum_out ms = g_fee p)
  \/ (g_fee_denom p <> NATIVE /\ ms = [Send A_LAUNCHPAD_DAO (g_fee_denom p) paid] /\ sum_out ms = paid).
Proof. exact fee_disposal_amounts. Qed.

Theorem C08_fee_between_fee_and_paid : forall k self p now funds r ms,
  factory_create k self p now funds r = Ok ms ->
  exists paid, funds = [mkCoin (g_fee_denom p) paid] /\ g_fee p <= sum_out ms <= paid.
Proof. exact fee_out_bounds. Qed.

(* vending factory: token count in 1..=max, per-address limit in 1..=max, price >= min in
   the minimum's denom *)
Theorem C08_vending_bounds : forall self p now funds r ms,
  factory_create FVending self p now funds r = Ok ms ->
  exists n, r_num_tokens r = Some n /\ 1 <= n <= g_max_tokens p /\ 1 <= r_pal r <= g_max_pal p /\
            r_price_denom r = g_min_denom p /\ g_min_price p <= r_price r.
Proof. exact vending_bounds. Qed.

Theorem C08_token_merge_bounds : forall self p now funds r ms,
  factory_create FTokenMerge self p now funds r = Ok ms ->
  exists n, r_num_tokens r = Some n /\ 1 <= n <= g_max_tokens p /\ 1 <= r_pal r <= g_max_pal p.
Proof. exact token_merge_bounds. Qed.

(* open-edition factory: future start, end after start, at least one of end / cap, no zero
   price without a cap, no zero airdrop price without a cap *)
Theorem C08_open_edition_bounds : forall self p now funds r ms,
  factory_create FOpen self p now funds r = Ok ms ->
  r_nft_ok r = true /\
  (forall n, r_num_tokens r = Some n -> 1 <= n <= g_max_tokens p) /\
  1 <= r_pal r <= g_max_pal p /\
  now < r_start r /\
  (forall e, r_end r = Some e -> r_start r < e) /\
  (r_end r <> None \/ r_num_tokens r <> None) /\
  g_min_price p <= r_price r /\ r_price_denom r = g_min_denom p /\
  (r_price r = 0 -> r_num_tokens r <> None) /\
  (g_airdrop_price p = 0 -> r_num_tokens r <> None).
Proof. exact open_bounds. Qed.

(* the 3%-of-supply rule the vending minters (not the wl-flex variants) enforce at
   creation: below 100 tokens at most 3, otherwise at most ceil(3n/100) *)
Theorem C08_three_percent_rule : forall pal n maxpal,
  check_dynamic_pal pal n maxpal = true <->
  pal <= maxpal /\ (n < 100 -> pal <= 3) /\ (100 <= n -> pal <= (n * 3 + 99) / 100).
Proof. exact check_dynamic_pal_spec. Qed.

Theorem C08_vending_minter_init : forall p now r tr,
  minter_init FVending p now r = Ok tr ->
  (r_flex r = false -> check_dynamic_pal (r_pal r) (opt_default (r_num_tokens r) 0) (g_max_pal p) = true) /\
  r_uri_ok r = true /\ 1647032400000000000 <= r_start r /\ now <= r_start r /\
  r_wl r <> Some true /\
  trading_at_creation (r_start r) (g_offset p) (r_trading r) = Ok tr.
Proof. exact minter_init_vending. Qed.

(* trading start handed to the collection at creation: the requested value if it is no
   later than mint start + offset (else the creation fails), mint start + offset when
   none is requested; u64 overflow of the bound fails the creation *)
Theorem C08_trading_at_creation : forall start offset req tr,
  trading_at_creation start offset req = Ok tr ->
  start + offset * 1000000000 <= 18446744073709551615 /\
  match req with
  | Some t => tr = t /\ t <= start + offset * 1000000000
  | None => tr = start + offset * 1000000000
  end.
Proof. exact trading_at_creation_spec. Qed.

(* a later per-address-limit update on the minter is held to the same bounds, with the
   parameters in force at that moment *)
Theorem C08_update_per_address_limit_bounds : forall vr s e fp wv l s' ms,
  step vr s e fp wv (OUpdatePerAddressLimit l) = Ok (s', ms) ->
  e_sender e = s_admin s /\ e_funds e = [] /\ 1 <= l <= fp_max_per_address fp /\
  (v_flex vr = false -> check_dynamic_pal l (s_num_tokens s) (fp_max_per_address fp) = true) /\
  s_pal s' = l /\ ms = [].
Proof. exact update_pal_bounds. Qed.

(* ... for every minter family: admin only, no funds, 1..=max with the parameters in force,
   and the 3%-of-supply rule on the (non-flex) vending and the token-merge minters *)
Theorem C08_update_per_address_limit_all_families : forall k flex adm nof l n maxpal r,
  update_pal k flex adm nof l n maxpal = Ok r ->
  r = l /\ adm = true /\ nof = true /\ 1 <= l <= maxpal /\ k <> FBase /\
  ((k = FTokenMerge \/ (k = FVending /\ flex = false)) -> check_dynamic_pal l n maxpal = true).
Proof. exact update_pal_ok_bounds. Qed.

Theorem C08_update_per_address_limit_rule_is_vending_handler : forall vr s e fp wv l,
  is_ok (step vr s e fp wv (OUpdatePerAddressLimit l)) =
  is_ok (update_pal FVending (v_flex vr) (is_admin_sender s e)
                    (match e_funds e with [] => true | _ => false end) l (s_num_tokens s) (fp_max_per_address fp)).
Proof. exact update_pal_is_vending_step. Qed.

(* success: exactly one new minter and one new collection, wired to each other and to
   this factory, administered by the creator named in the request *)
Theorem C08_wiring : forall k self p now sender funds r nm c,
  create_minter k self p now sender funds r nm = Ok c ->
  cr_minter_factory c = self /\ cr_minter_admin c = r_creator r /\ cr_minter_contract_admin c = sender /\
  cr_coll_minter c = nm /\ cr_coll_creator c = r_creator r /\ cr_coll_contract_admin c = r_creator r /\
  factory_create k self p now funds r = Ok (cr_msgs c) /\ minter_init k p now r = Ok (cr_trading c) /\
  r_coll_ok r = true.
Proof. exact create_minter_wiring. Qed.

Theorem C08_world_fee_bounds : forall k self p now sender funds r nm b c b',
  create_world k self p now sender funds r nm b = Ok (c, b') ->
  exists paid, funds = [mkCoin (g_fee_denom p) paid] /\ g_fee p <= sum_out (cr_msgs c) <= paid.
Proof. exact create_world_conserves. Qed.

(* non-vacuity *)
Definition ex_gp : gparams := mkGP 1 [3; 5] false 5000 0 50 0 604800 10000 50 0.
Definition ex_req : create_req :=
  mkReq 3 10 (Some 100) 3 100 0 1647032500000000000 None None true true None false true.
Example C08_ex_vending_ok :
  create_minter FVending 20 ex_gp 1647032401000000000 10 [mkCoin 0 5000] ex_req 21 =
  Ok (mkCreated 20 10 10 21 10 10 1647637300000000000 [Burn 0 2500; FundPool 20 0 2500]).
Proof. vm_compute. reflexivity. Qed.
Example C08_ex_vending_pal_4_of_100_rejected :
  create_minter FVending 20 ex_gp 1647032401000000000 10 [mkCoin 0 5000]
    (mkReq 3 10 (Some 100) 4 100 0 1647032500000000000 None None true true None false true) 21 = Err.
Proof. vm_compute. reflexivity. Qed.
Example C08_ex_short_fee_rejected :
  create_minter FVending 20 ex_gp 1647032401000000000 10 [mkCoin 0 4999] ex_req 21 = Err.
Proof. vm_compute. reflexivity. Qed.

Print Assumptions C08_common_guards.
Print Assumptions C08_fee_disposal.
Print Assumptions C08_fee_between_fee_and_paid.
Print Assumptions C08_vending_bounds.
Print Assumptions C08_token_merge_bounds.
Print Assumptions C08_open_edition_bounds.
Print Assumptions C08_three_percent_rule.
Print Assumptions C08_vending_minter_init.
Print Assumptions C08_trading_at_creation.
Print Assumptions C08_update_per_address_limit_bounds.
Print Assumptions C08_update_per_address_limit_all_families.
Print Assumptions C08_update_per_address_limit_rule_is_vending_handler.
Print Assumptions C08_wiring.
Print Assumptions C08_world_fee_bounds.

(* ---- open editions: the URL the minter validates at creation is the token_uri in the
   off-chain metadata mode and the image of the extension in the on-chain metadata mode
   (`r_uri_ok`); nft data that do not fit the mode fail NftData::validate (`r_nft_ok`).
   Either way nothing is created, whatever else the request says ---- *)
From LP Require Import MinterOpenMetaProofs.

Theorem C08_open_bad_url_rejected : forall self p now sender funds r nm,
  r_uri_ok r = false -> create_minter FOpen self p now sender funds r nm = Err.
Proof. exact create_open_bad_url. Qed.

Theorem C08_open_bad_nft_data_rejected : forall self p now sender funds r nm,
  r_nft_ok r = false -> create_minter FOpen self p now sender funds r nm = Err.
Proof. exact create_open_bad_nft_data. Qed.

Print Assumptions C08_open_bad_url_rejected.
Print Assumptions C08_open_bad_nft_data_rejected.
