(* C01 — No minter over-mints, re-mints a token id, or miscounts remaining supply.
   Part 1: the six vending minters (one model, three variant flags; all statements are
   for every variant, every factory-parameter and whitelist answer, every sender, clock
   and pseudo-random choice).  Statements only. *)
From Coq Require Import Permutation.
From LP Require Import Num Pay Sg1 MinterVending MinterVendingProofs.
Import ListNotations.
Local Open Scope N_scope.

(* The supply invariant: for a collection of n tokens,
   - the remaining table has unique positions and unique ids, all ids in 1..=n,
   - the ids already handed to the collection are unique, in 1..=n and disjoint from the
     remaining ones,
   - the reported mintable count is the size of the table, and
   - mintable + minted + burned = n. *)
Theorem C01_invariant_spelled_out : forall n s,
  InvV n s <->
  (s_num_tokens s = n /\
   NoDup (map fst (s_positions s)) /\ NoDup (map snd (s_positions s)) /\
   (forall x, In x (map snd (s_positions s)) -> 1 <= x <= n) /\
   NoDup (s_minted s) /\ (forall x, In x (s_minted s) -> 1 <= x <= n) /\
   (forall x, In x (s_minted s) -> ~ In x (map snd (s_positions s))) /\
   N.of_nat (length (s_positions s)) = s_mintable s /\
   s_mintable s + N.of_nat (length (s_minted s)) + s_burned s = n).
Proof.
  intros n s. split.
  - intros [H1 H2 H3 H4 H5 H6 H7 H8 H9].
    exact (conj H1 (conj H2 (conj H3 (conj H4 (conj H5 (conj H6 (conj H7 (conj H8 H9)))))))).
  - intros (H1 & H2 & H3 & H4 & H5 & H6 & H7 & H8 & H9). exact (mkInv n s H1 H2 H3 H4 H5 H6 H7 H8 H9).
Qed.

(* it holds right after creation (table over positions with ids a permutation of 1..n) *)
Theorem C01_holds_at_creation : forall n s tbl,
  fresh_state s n tbl -> NoDup (map fst tbl) -> Permutation (map snd tbl) (seqN n) -> InvV n s.
Proof. exact init_inv. Qed.

Theorem C01_seqN_is_1_to_n : forall n x, In x (seqN n) <-> 1 <= x <= n.
Proof. exact seqN_spec. Qed.

(* every successful call of any kind preserves it *)
Theorem C01_step_preserves : forall n vr s e fp wv o s' ms,
  InvV n s -> step vr s e fp wv o = Ok (s', ms) -> InvV n s'.
Proof. exact step_inv. Qed.

(* hence it holds after every history of calls (failed calls change nothing) *)
Theorem C01_every_reachable_state : forall n vr cs s, InvV n s -> InvV n (run vr s cs).
Proof. exact run_inv. Qed.

(* a minted id lies in 1..=n, was still mintable, and was never minted before *)
Theorem C01_minted_id_fresh_and_in_range : forall n vr s e fp wv o s' ms t owner,
  InvV n s -> step vr s e fp wv o = Ok (s', ms) -> In (t, owner) (nft_msgs ms) ->
  1 <= t <= n /\ In t (map snd (s_positions s)) /\ ~ In t (s_minted s) /\ s_minted s' = t :: s_minted s.
Proof. exact minted_token_fresh. Qed.

(* mint-for delivers exactly the requested id, to the requested recipient, or fails *)
Theorem C01_mint_for_exact : forall vr s e fp wv t rok r s' ms,
  step vr s e fp wv (OMintFor t rok r) = Ok (s', ms) -> nft_msgs ms = [(t, r)].
Proof. exact mint_for_exact. Qed.

(* shuffle changes neither the set of remaining ids nor their number (nor anything minted) *)
Theorem C01_shuffle_preserves : forall n vr s e fp wv newids s' ms,
  InvV n s -> step vr s e fp wv (OShuffle newids) = Ok (s', ms) ->
  Permutation (map snd (s_positions s)) (map snd (s_positions s')) /\
  map fst (s_positions s') = map fst (s_positions s) /\
  s_mintable s' = s_mintable s /\ s_minted s' = s_minted s /\ s_burned s' = s_burned s /\ nft_msgs ms = [].
Proof. exact shuffle_preserves. Qed.

(* no mint of any kind succeeds at zero *)
Theorem C01_mint_at_zero_fails : forall vr s e fp wv o,
  s_mintable s = 0 ->
  (match o with OMint _ _ _ _ | OMintTo _ _ _ | OMintFor _ _ _ => True | _ => False end) ->
  step vr s e fp wv o = Err.
Proof. exact mint_at_zero_fails. Qed.

(* burn-remaining empties the table and zeroes the counter; the counter never goes up;
   so nothing can be minted in any future after a successful burn-remaining (or sell-out) *)
Theorem C01_burn_remaining_zeroes : forall n vr s e fp wv s' ms,
  InvV n s -> step vr s e fp wv OBurnRemaining = Ok (s', ms) ->
  s_mintable s' = 0 /\ s_positions s' = [] /\ s_minted s' = s_minted s /\ nft_msgs ms = [].
Proof. exact burn_remaining_zero. Qed.

Theorem C01_counter_never_increases : forall vr s e fp wv o s' ms,
  step vr s e fp wv o = Ok (s', ms) -> s_mintable s' <= s_mintable s.
Proof. exact mintable_never_increases. Qed.

Theorem C01_zero_is_forever : forall vr cs s, s_mintable s = 0 -> s_mintable (run vr s cs) = 0.
Proof. exact zero_is_forever. Qed.

(* the pseudo-random pick is one of the first / last min(50, remaining) positions *)
Theorem C01_random_pick_in_window : forall vr s e fp wv stage proof alloc choice s' ms,
  step vr s e fp wv (OMint stage proof alloc choice) = Ok (s', ms) ->
  legal_choice (s_positions s) choice = true /\ exists o, nft_msgs ms = [(choice, o)].
Proof. exact random_pick_in_window. Qed.

(* ---- non-vacuity: a concrete collection of 3 tokens, sold through the three kinds of
   mint, a shuffle and a burn, evaluated in the model ---- *)
Definition ex_fp : fparams := mkFP 50 0 1000 0 0 10000 500 50 604800.
Definition ex_s0 : vstate :=
  mkVS 10 None 3 2 None 1000 100 0 None 3 [(1, 2); (2, 3); (3, 1)] [] 0 [] [] [] [] [] 0 0 0 0 0 None.
Definition ex_calls : list call :=
  [ mkCall (mkEnv 2000 11 [mkCoin 0 100] 20) ex_fp None (OMint None false None 3);
    mkCall (mkEnv 2001 99 [mkCoin 0 500] 20) ex_fp None (OShuffle [1; 2]);
    mkCall (mkEnv 2002 10 [] 20) ex_fp None (OMintFor 2 true 12);
    mkCall (mkEnv 2003 10 [] 20) ex_fp None (OMintFor 2 true 12);      (* fails: sold *)
    mkCall (mkEnv 2004 10 [] 20) ex_fp None OBurnRemaining;
    mkCall (mkEnv 2005 10 [] 20) ex_fp None (OMintTo true 12 1) ].     (* fails: nothing left *)

Example C01_ex_initial_state_meets_invariant : InvV 3 ex_s0.
Proof.
  apply (init_inv 3 ex_s0 [(1, 2); (2, 3); (3, 1)]).
  - repeat split.
  - cbn. repeat constructor; cbn; intuition discriminate.
  - cbn. change (Permutation [2; 3; 1] [1; 2; 3]).
    apply Permutation_sym. apply (perm_trans (l' := [2; 1; 3])); [ apply perm_swap | apply perm_skip; apply perm_swap ].
Qed.

Example C01_ex_history_evaluates :
  let s := run (mkVariant false false false) ex_s0 ex_calls in
  (s_mintable s, s_positions s, s_minted s, s_burned s) = (0, [], [2; 3], 1).
Proof. vm_compute. reflexivity. Qed.

Print Assumptions C01_invariant_spelled_out.
Print Assumptions C01_holds_at_creation.
Print Assumptions C01_step_preserves.
Print Assumptions C01_every_reachable_state.
Print Assumptions C01_minted_id_fresh_and_in_range.
Print Assumptions C01_mint_for_exact.
Print Assumptions C01_shuffle_preserves.
Print Assumptions C01_mint_at_zero_fails.
Print Assumptions C01_burn_remaining_zeroes.
Print Assumptions C01_counter_never_increases.
Print Assumptions C01_zero_is_forever.
Print Assumptions C01_random_pick_in_window.
