(* C01 — No minter over-mints, re-mints a token id, or miscounts remaining supply.
   Part 1: the six vending minters (one model, three variant flags; all statements are
   for every variant, every factory-parameter and whitelist answer, every sender, clock
   and pseudo-random choice).  Statements only. *)
From Coq Require Import Permutation.
From LP Require Import Num Pay Sg1 MinterVending MinterVendingProofs.
Import ListNotations.
Local Open Scope N_scope.

(* The supply invariant: for a collection of n tokens,
   - the remaining table has unique positions and unique ids, all ids in 1..=n,
   - the ids already handed to the collection are unique, in 1..=n and disjoint from the
     remaining ones,
   - the reported mintable count is the size of the table, and
   - mintable + minted + burned = n. *)
Theorem C01_invariant_spelled_out : forall n s,
  InvV n s <->
  (s_num_tokens s = n /\
   NoDup (map fst (s_positions s)) /\ NoDup (map snd (s_positions s)) /\
   (forall x, In x (map snd (s_positions s)) -> 1 <= x <= n) /\
   NoDup (s_minted s) /\ (forall x, In x (s_minted s) -> 1 <= x <= n) /\
   (forall x, In x (s_minted s) -> ~ In x (map snd (s_positions s))) /\
   N.of_nat (length (s_positions s)) = s_mintable s /\
   s_mintable s + N.of_nat (length (s_minted s)) + s_burned s = n).
Proof.
  intros n s. split.
  - intros [H1 H2 H3 H4 H5 H6 H7 H8 H9].
    exact (conj H1 (conj H2 (conj H3 (conj H4 (conj H5 (conj H6 (conj H7 (conj H8 H9)))))))).
  - intros (H1 & H2 & H3 & H4 & H5 & H6 & H7 & H8 & H9). exact (mkInv n s H1 H2 H3 H4 H5 H6 H7 H8 H9).
Qed.

(* it holds right after creation (table over positions with ids a permutation of 1..n) *)
Theorem C01_holds_at_creation : forall n s tbl,
  fresh_state s n tbl -> NoDup (map fst tbl) -> Permutation (map snd tbl) (seqN n) -> InvV n s.
Proof. exact init_inv. Qed.

Theorem C01_seqN_is_1_to_n : forall n x, In x (seqN n) <-> 1 <= x <= n.
Proof. exact seqN_spec. Qed.

(* every successful call of any kind preserves it *)
Theorem C01_step_preserves : forall n vr s e fp wv o s' ms,
  InvV n s -> step vr s e fp wv o = Ok (s', ms) -> InvV n s'.
Proof. exact step_inv. Qed.

(* hence it holds after every history of calls (failed calls change nothing) *)
Theorem C01_every_reachable_state : forall n vr cs s, InvV n s -> InvV n (run vr s cs).
Proof. exact run_inv. Qed.

(* a minted id lies in 1..=n, was still mintable, and was never minted before *)
Theorem C01_minted_id_fresh_and_in_range : forall n vr s e fp wv o s' ms t owner,
  InvV n s -> step vr s e fp wv o = Ok (s', ms) -> In (t, owner) (nft_msgs ms) ->
  1 <= t <= n /\ In t (map snd (s_positions s)) /\ ~ In t (s_minted s) /\ s_minted s' = t :: s_minted s.
Proof. exact minted_token_fresh. Qed.

(* mint-for delivers exactly the requested id, to the requested recipient, or fails *)
Theorem C01_mint_for_exact : forall vr s e fp wv t rok r s' ms,
  step vr s e fp wv (OMintFor t rok r) = Ok (s', ms) -> nft_msgs ms = [(t, r)].
Proof. exact mint_for_exact. Qed.

(* shuffle changes neither the set of remaining ids nor their number (nor anything minted) *)
Theorem C01_shuffle_preserves : forall n vr s e fp wv newids s' ms,
  InvV n s -> step vr s e fp wv (OShuffle newids) = Ok (s', ms) ->
  Permutation (map snd (s_positions s)) (map snd (s_positions s')) /\
  map fst (s_positions s') = map fst (s_positions s) /\
  s_mintable s' = s_mintable s /\ s_minted s' = s_minted s /\ s_burned s' = s_burned s /\ nft_msgs ms = [].
Proof. exact shuffle_preserves. Qed.

(* no mint of any kind succeeds at zero *)
Theorem C01_mint_at_zero_fails : forall vr s e fp wv o,
  s_mintable s = 0 ->
  (match o with OMint _ _ _ _ | OMintTo _ _ _ | OMintFor _ _ _ => True | _ => False end) ->
  step vr s e fp wv o = Err.
Proof. exact mint_at_zero_fails. Qed.

(* burn-remaining empties the table and zeroes the counter; the counter never goes up;
   so nothing can be minted in any future after a successful burn-remaining (or sell-out) *)
Theorem C01_burn_remaining_zeroes : forall n vr s e fp wv s' ms,
  InvV n s -> step vr s e fp wv OBurnRemaining = Ok (s', ms) ->
  s_mintable s' = 0 /\ s_positions s' = [] /\ s_minted s' = s_minted s /\ nft_msgs ms = [].
Proof. exact burn_remaining_zero. Qed.

Theorem C01_counter_never_increases : forall vr s e fp wv o s' ms,
  step vr s e fp wv o = Ok (s', ms) -> s_mintable s' <= s_mintable s.
Proof. exact mintable_never_increases. Qed.

Theorem C01_zero_is_forever : forall vr cs s, s_mintable s = 0 -> s_mintable (run vr s cs) = 0.
Proof. exact zero_is_forever. Qed.

(* the pseudo-random pick is one of the first / last min(50, remaining) positions *)
Theorem C01_random_pick_in_window : forall vr s e fp wv stage proof alloc choice s' ms,
  step vr s e fp wv (OMint stage proof alloc choice) = Ok (s', ms) ->
  legal_choice (s_positions s) choice = true /\ exists o, nft_msgs ms = [(choice, o)].
Proof. exact random_pick_in_window. Qed.

(* ---- non-vacuity: a concrete collection of 3 tokens, sold through the three kinds of
   mint, a shuffle and a burn, evaluated in the model ---- *)
Definition ex_fp : fparams := mkFP 50 0 1000 0 0 10000 500 50 604800.
Definition ex_s0 : vstate :=
  mkVS 10 None 3 2 None 1000 100 0 None 3 [(1, 2); (2, 3); (3, 1)] [] 0 [] [] [] [] [] 0 0 0 0 0 None.
Definition ex_calls : list call :=
  [ mkCall (mkEnv 2000 11 [mkCoin 0 100] 20) ex_fp None (OMint None false None 3);
    mkCall (mkEnv 2001 99 [mkCoin 0 500] 20) ex_fp None (OShuffle [1; 2]);
    mkCall (mkEnv 2002 10 [] 20) ex_fp None (OMintFor 2 true 12);
    mkCall (mkEnv 2003 10 [] 20) ex_fp None (OMintFor 2 true 12);      (* fails: sold *)
    mkCall (mkEnv 2004 10 [] 20) ex_fp None OBurnRemaining;
    mkCall (mkEnv 2005 10 [] 20) ex_fp None (OMintTo true 12 1) ].     (* fails: nothing left *)

Example C01_ex_initial_state_meets_invariant : InvV 3 ex_s0.
Proof.
  apply (init_inv 3 ex_s0 [(1, 2); (2, 3); (3, 1)]).
  - repeat split.
  - cbn. repeat constructor; cbn; intuition discriminate.
  - cbn. change (Permutation [2; 3; 1] [1; 2; 3]).
    apply Permutation_sym. apply (perm_trans (l' := [2; 1; 3])); [ apply perm_swap | apply perm_skip; apply perm_swap ].
Qed.

Example C01_ex_history_evaluates :
  let s := run (mkVariant false false false) ex_s0 ex_calls in
  (s_mintable s, s_positions s, s_minted s, s_burned s) = (0, [], [2; 3], 1).
Proof. vm_compute. reflexivity. Qed.

Print Assumptions C01_invariant_spelled_out.
Print Assumptions C01_holds_at_creation.
Print Assumptions C01_step_preserves.
Print Assumptions C01_every_reachable_state.
Print Assumptions C01_minted_id_fresh_and_in_range.
Print Assumptions C01_mint_for_exact.
Print Assumptions C01_shuffle_preserves.
Print Assumptions C01_mint_at_zero_fails.
Print Assumptions C01_burn_remaining_zeroes.
Print Assumptions C01_counter_never_increases.
Print Assumptions C01_zero_is_forever.
Print Assumptions C01_random_pick_in_window.


(* =====================================================================================
   Part 2: the three open-edition minters (one model, two variant flags:
   open-edition-minter = mkOV false false, -wl-flex = mkOV true false, -merkle-wl =
   mkOV false true) and the base minter.  "Token ids are issued as 1,2,3,... with no gap
   or repeat, the total-mint count equals the number of mints that succeeded, the supply
   never exceeds the configured token cap (or the factory-wide cap captured at creation
   where the variant applies one), and nothing can be minted after a successful
   burn-remaining."  All statements are for every variant, every factory-parameter and
   whitelist answer, every sender, clock and attached funds.  Statements only.
   ===================================================================================== *)
From LP Require Import MinterOpen MinterOpenProofs.

(* The supply invariant of an open-edition minter whose cap is `cap` (None = no cap stored):
   - the total-mint count equals the token index,
   - the ids handed to the collection are exactly index, ..., 2, 1 (newest first),
   - when a cap is stored: remaining + minted + given up by burn-remaining = cap. *)
Theorem C01_oe_invariant_spelled_out : forall cap s,
  InvO cap s <->
  (o_total s = o_token_index s /\
   o_minted s = rev (map N.of_nat (seq 1 (N.to_nat (o_token_index s)))) /\
   match cap with
   | Some c => exists m, o_mintable s = Some m /\ m + o_token_index s + o_burned s = c
   | None => o_mintable s = None
   end).
Proof. exact InvO_spelled. Qed.

(* it holds for the state `instantiate` stores; the cap is num_tokens when given, else the
   factory's max_token_limit as it is at creation on the plain and merkle variants, else
   none at all on the wl-flex variant (which stores no count) *)
Theorem C01_oe_holds_at_creation :
  forall vr admin payment num_tokens pal wl start end_ price dn factory_max trading,
  InvO (match num_tokens with
        | Some n => Some n
        | None => if ov_flex vr then None else Some factory_max
        end)
       (o_init vr admin payment num_tokens pal wl start end_ price dn factory_max trading).
Proof. exact o_init_inv. Qed.

(* every successful call of any kind preserves it (the cap never moves, whatever the
   factory parameters become later) *)
Theorem C01_oe_step_preserves : forall cap vr s e fp wv o s' ms,
  InvO cap s -> ostep vr s e fp wv o = Ok (s', ms) -> InvO cap s'.
Proof. exact ostep_inv. Qed.

(* hence it holds after every history of calls (failed calls change nothing) *)
Theorem C01_oe_every_reachable_state : forall cap vr cs s, InvO cap s -> InvO cap (orun vr s cs).
Proof. exact orun_inv. Qed.

Theorem C01_oe_mint_calls : forall o,
  is_mint_op o = true <-> match o with EMint _ _ _ | EMintTo _ _ => True | _ => False end.
Proof. exact is_mint_op_spec. Qed.

(* a successful Mint / MintTo hands out exactly one token, its id is the next integer, the
   total count and the index go up by one, the stored remaining count goes down by one *)
Theorem C01_oe_successful_mint : forall vr s e fp wv o s' ms,
  is_mint_op o = true -> ostep vr s e fp wv o = Ok (s', ms) ->
  o_mintable s <> Some 0 /\
  (exists owner, nft_msgs ms = [(o_token_index s + 1, owner)]) /\
  o_token_index s' = o_token_index s + 1 /\
  o_total s' = o_total s + 1 /\
  o_minted s' = (o_token_index s + 1) :: o_minted s /\
  o_burned s' = o_burned s /\
  o_mintable s' = match o_mintable s with Some k => Some (k - 1) | None => None end.
Proof. exact ostep_mint. Qed.

(* every other successful call hands out nothing and leaves index, total count and minted
   ids alone; only burn-remaining touches the remaining count (it zeroes it) *)
Theorem C01_oe_other_calls_mint_nothing : forall vr s e fp wv o s' ms,
  is_mint_op o = false -> ostep vr s e fp wv o = Ok (s', ms) ->
  nft_msgs ms = [] /\
  o_token_index s' = o_token_index s /\ o_total s' = o_total s /\ o_minted s' = o_minted s /\
  ((o_mintable s' = o_mintable s /\ o_burned s' = o_burned s) \/
   (o = EBurnRemaining /\ exists m, o_mintable s = Some m /\ m <> 0 /\
                                    o_mintable s' = Some 0 /\ o_burned s' = o_burned s + m)).
Proof. exact ostep_other. Qed.

(* whatever token a call hands to the collection carries the next id *)
Theorem C01_oe_mint_emits_next_id : forall vr s e fp wv o s' ms t owner,
  ostep vr s e fp wv o = Ok (s', ms) -> In (t, owner) (nft_msgs ms) ->
  is_mint_op o = true /\ t = o_token_index s + 1 /\ nft_msgs ms = [(t, owner)] /\
  o_token_index s' = t /\ o_total s' = o_total s + 1.
Proof. exact o_mint_emits_next_id. Qed.

(* histories: the ids handed out by any history from a fresh minter are 1, 2, 3, ..., k in
   this order, where k is the number of Mint / MintTo calls that succeeded *)
Theorem C01_oe_ids_are_1_2_3 : forall vr cs s,
  o_token_index s = 0 ->
  map fst (otrace vr s cs) = map N.of_nat (seq 1 (osuccesses vr s cs)).
Proof. exact o_ids_are_1_2_3. Qed.

Theorem C01_oe_one_token_per_successful_mint : forall vr cs s,
  length (otrace vr s cs) = osuccesses vr s cs.
Proof. exact otrace_length. Qed.

(* the total-mint count equals the number of mints that succeeded *)
Theorem C01_oe_total_count_is_successes : forall cap vr cs s,
  InvO cap s -> o_token_index s = 0 ->
  o_total (orun vr s cs) = N.of_nat (osuccesses vr s cs).
Proof. exact o_total_is_successes. Qed.

(* the supply never exceeds the cap, and the reported remaining count is exact *)
Theorem C01_oe_supply_within_cap : forall c vr cs s,
  InvO (Some c) s -> o_token_index s = 0 ->
  N.of_nat (osuccesses vr s cs) <= c /\
  exists m, o_mintable (orun vr s cs) = Some m /\
            m + N.of_nat (osuccesses vr s cs) + o_burned (orun vr s cs) = c.
Proof. exact o_supply_within_cap. Qed.

(* burn-remaining succeeds only on a stored, non-zero count and zeroes it *)
Theorem C01_oe_burn_remaining : forall vr s e fp wv s' ms,
  ostep vr s e fp wv EBurnRemaining = Ok (s', ms) ->
  (exists m, o_mintable s = Some m /\ m <> 0 /\ o_burned s' = o_burned s + m) /\
  o_mintable s' = Some 0 /\ nft_msgs ms = [] /\
  o_token_index s' = o_token_index s /\ o_total s' = o_total s /\ o_minted s' = o_minted s.
Proof. exact o_burn_remaining_spec. Qed.

(* no mint of any kind succeeds at zero; zero is final; so after a successful
   burn-remaining no history mints anything *)
Theorem C01_oe_mint_at_zero_fails : forall vr s e fp wv o,
  o_mintable s = Some 0 -> is_mint_op o = true -> ostep vr s e fp wv o = Err.
Proof. exact o_mint_at_zero_fails. Qed.

Theorem C01_oe_zero_is_forever : forall vr cs s,
  o_mintable s = Some 0 ->
  o_mintable (orun vr s cs) = Some 0 /\ otrace vr s cs = [] /\ osuccesses vr s cs = 0%nat.
Proof. exact o_zero_is_forever. Qed.

Theorem C01_oe_nothing_after_burn : forall vr s e fp wv s' ms cs,
  ostep vr s e fp wv EBurnRemaining = Ok (s', ms) ->
  otrace vr s' cs = [] /\ osuccesses vr s' cs = 0%nat /\ o_mintable (orun vr s' cs) = Some 0.
Proof. exact o_nothing_after_burn. Qed.

(* where no count is stored (wl-flex created without num_tokens) burn-remaining always fails *)
Theorem C01_oe_burn_without_count_fails : forall vr s e fp wv,
  o_mintable s = None -> ostep vr s e fp wv EBurnRemaining = Err.
Proof. exact o_burn_without_count_fails. Qed.

(* ---- base minter: no cap, no total count, no burn; ids are 1, 2, 3, ... ---- *)
Theorem C01_base_step : forall s e creator bps o s' ms,
  bstep s e creator bps o = Ok (s', ms) ->
  if is_bmint o
  then nft_msgs ms = [(b_token_index s + 1, e_sender e)] /\ b_token_index s' = b_token_index s + 1 /\
       b_minted s' = (b_token_index s + 1) :: b_minted s
  else nft_msgs ms = [] /\ b_token_index s' = b_token_index s /\ b_minted s' = b_minted s.
Proof. exact bstep_spec. Qed.

Theorem C01_base_mint_emits_next_id : forall s e creator bps o s' ms t owner,
  bstep s e creator bps o = Ok (s', ms) -> In (t, owner) (nft_msgs ms) ->
  is_bmint o = true /\ t = b_token_index s + 1 /\ owner = e_sender e /\ nft_msgs ms = [(t, owner)] /\
  b_token_index s' = t.
Proof. exact b_mint_emits_next_id. Qed.

Theorem C01_base_ids_are_1_2_3 : forall cs s,
  b_token_index s = 0 -> map fst (btrace s cs) = map N.of_nat (seq 1 (bsuccesses s cs)).
Proof. exact b_ids_are_1_2_3. Qed.

Theorem C01_base_one_token_per_successful_mint : forall cs s,
  length (btrace s cs) = bsuccesses s cs.
Proof. exact btrace_length. Qed.

Theorem C01_base_minted_ids : forall cs s,
  b_minted s = rev (map N.of_nat (seq 1 (N.to_nat (b_token_index s)))) ->
  b_minted (brun s cs) = rev (map N.of_nat (seq 1 (N.to_nat (b_token_index (brun s cs))))).
Proof. exact brun_inv. Qed.

(* ---- non-vacuity: the same history on the three variants, created without num_tokens
   while the factory-wide limit is 2; evaluated in the model ---- *)
Definition oe_fp : ofparams := mkOFP 50 0 1000 40 0 5000 10 2 604800 (Some 16).
Definition oe_fp_raised : ofparams := mkOFP 50 0 1000 40 0 5000 10 100 604800 (Some 16).
Definition oe_s0 (vr : ovariant) : ostate := o_init vr 10 None None 3 None 1000 (Some 5000) 100 0 2 None.
Definition oe_calls : list ocall :=
  [ mkOCall (mkEnv 999 11 [mkCoin 0 100] 20) oe_fp None (EMint None false None);        (* fails: before start *)
    mkOCall (mkEnv 2000 11 [mkCoin 0 100] 20) oe_fp None (EMint None false None);
    mkOCall (mkEnv 2001 10 [mkCoin 0 40] 20) oe_fp_raised None (EMintTo true 12);
    mkOCall (mkEnv 2002 11 [mkCoin 0 100] 20) oe_fp_raised None (EMint None false None); (* over the captured cap *)
    mkOCall (mkEnv 5000 10 [] 20) oe_fp None EBurnRemaining;                              (* fails: not after the end *)
    mkOCall (mkEnv 5000 10 [mkCoin 0 40] 20) oe_fp None (EMintTo true 12);                (* fails: at the end time *)
    mkOCall (mkEnv 5001 10 [] 20) oe_fp None EBurnRemaining;
    mkOCall (mkEnv 5002 10 [mkCoin 0 40] 20) oe_fp None (EMintTo true 12) ].

Example C01_oe_ex_initial_state_meets_invariant :
  InvO (Some 2) (oe_s0 (mkOV false false)) /\ InvO None (oe_s0 (mkOV true false)) /\
  InvO (Some 2) (oe_s0 (mkOV false true)).
Proof.
  split; [ exact (o_init_inv (mkOV false false) 10 None None 3 None 1000 (Some 5000) 100 0 2 None) | ].
  split; [ exact (o_init_inv (mkOV true false) 10 None None 3 None 1000 (Some 5000) 100 0 2 None) | ].
  exact (o_init_inv (mkOV false true) 10 None None 3 None 1000 (Some 5000) 100 0 2 None).
Qed.

Example C01_oe_ex_plain_history_evaluates :
  let s := orun (mkOV false false) (oe_s0 (mkOV false false)) oe_calls in
  (otrace (mkOV false false) (oe_s0 (mkOV false false)) oe_calls,
   osuccesses (mkOV false false) (oe_s0 (mkOV false false)) oe_calls,
   o_total s, o_mintable s, o_minted s, o_burned s)
  = ([(1, 11); (2, 12)], 2%nat, 2, Some 0, [2; 1], 0).
Proof. vm_compute. reflexivity. Qed.

Example C01_oe_ex_flex_history_evaluates :
  let s := orun (mkOV true false) (oe_s0 (mkOV true false)) oe_calls in
  (otrace (mkOV true false) (oe_s0 (mkOV true false)) oe_calls, o_total s, o_mintable s, o_minted s)
  = ([(1, 11); (2, 12); (3, 11)], 3, None, [3; 2; 1]).
Proof. vm_compute. reflexivity. Qed.

Definition oe_s1 : ostate := o_init (mkOV false true) 10 None (Some 3) 3 None 1000 None 100 0 2 None.
Example C01_oe_ex_burn_with_tokens_left :
  let cs := [ mkOCall (mkEnv 2000 11 [mkCoin 0 100] 20) oe_fp None (EMint None false None);
              mkOCall (mkEnv 2001 10 [] 20) oe_fp None EBurnRemaining;
              mkOCall (mkEnv 2002 11 [mkCoin 0 100] 20) oe_fp None (EMint None false None);
              mkOCall (mkEnv 2003 10 [mkCoin 0 40] 20) oe_fp None (EMintTo true 12) ] in
  let s := orun (mkOV false true) oe_s1 cs in
  (otrace (mkOV false true) oe_s1 cs, o_total s, o_mintable s, o_burned s) = ([(1, 11)], 1, Some 0, 2).
Proof. vm_compute. reflexivity. Qed.

Example C01_base_ex_history_evaluates :
  let s0 := mkBS 1000 0 [] None in
  let cs := [ mkBCall (mkEnv 100 10 [mkCoin 0 500] 20) (Some 10) 5000 (BMint true);
              mkBCall (mkEnv 101 11 [mkCoin 0 500] 20) (Some 10) 5000 (BMint true);    (* fails: not the creator *)
              mkBCall (mkEnv 102 10 [mkCoin 0 499] 20) (Some 10) 5000 (BMint true);    (* fails: wrong amount *)
              mkBCall (mkEnv 103 10 [] 20) (Some 10) 5000 (BUpdateStartTradingTime (Some 200));
              mkBCall (mkEnv 104 10 [mkCoin 0 500] 20) (Some 10) 5000 (BMint true) ] in
  (btrace s0 cs, bsuccesses s0 cs, b_token_index (brun s0 cs), b_minted (brun s0 cs))
  = ([(1, 10); (2, 10)], 2%nat, 2, [2; 1]).
Proof. vm_compute. reflexivity. Qed.

Print Assumptions C01_oe_invariant_spelled_out.
Print Assumptions C01_oe_holds_at_creation.
Print Assumptions C01_oe_step_preserves.
Print Assumptions C01_oe_every_reachable_state.
Print Assumptions C01_oe_mint_calls.
Print Assumptions C01_oe_successful_mint.
Print Assumptions C01_oe_other_calls_mint_nothing.
Print Assumptions C01_oe_mint_emits_next_id.
Print Assumptions C01_oe_ids_are_1_2_3.
Print Assumptions C01_oe_one_token_per_successful_mint.
Print Assumptions C01_oe_total_count_is_successes.
Print Assumptions C01_oe_supply_within_cap.
Print Assumptions C01_oe_burn_remaining.
Print Assumptions C01_oe_mint_at_zero_fails.
Print Assumptions C01_oe_zero_is_forever.
Print Assumptions C01_oe_nothing_after_burn.
Print Assumptions C01_oe_burn_without_count_fails.
Print Assumptions C01_base_step.
Print Assumptions C01_base_mint_emits_next_id.
Print Assumptions C01_base_ids_are_1_2_3.
Print Assumptions C01_base_one_token_per_successful_mint.
Print Assumptions C01_base_minted_ids.


(* =====================================================================================
   Part 3 — token-merge minter (contracts/minters/token-merge-minter; model
   model/TokenMerge.v, the one C17 is stated over).  "Every minted token id lies in
   1..=num_tokens and is minted at most once, mint-for delivers exactly the requested id or
   fails, shuffle changes neither the set of remaining ids nor their number, the reported
   mintable count always equals num_tokens minus minted minus burned, with no mint
   succeeding at zero."  Mints are the deposit-triggered ones (ReceiveNft completing a
   recipient's requirement), MintTo and MintFor; all statements are for every sender,
   clock, funds, deposit ledger and every pseudo-random pick (oracle input `pick`).
   The model keeps the remaining ids as a list (`tm_avail`), not the position table:
   Shuffle, which permutes ids over the same positions, therefore leaves the model state
   untouched (C01_tm_shuffle_preserves is immediate); that the real Shuffle keeps positions
   and id set is checked on raw storage by the tie.  The 50-position pick window is not
   modelled for this minter (a pick is legal when the id is still mintable).
   Minted ids / burned counts are ghosts computed from what the history emits: the ids of
   the Mint messages (`mint_ids`), and the ids leaving the table in a successful
   BurnRemaining (`sstep`).  Statements only.
   ===================================================================================== *)
From LP Require Import TokenMerge TokenMergeProofs TokenMergeSupplyProofs.

(* The supply invariant, for a collection of n tokens:
   - the remaining ids are unique and all in 1..=n,
   - the ids already handed to the collection are unique, in 1..=n, disjoint from the remaining ones,
   - the reported mintable count is the number of remaining ids, and
   - mintable + minted + burned = n. *)
Theorem C01_tm_invariant_spelled_out : forall n (s : tm_state * sghost),
  InvT n s <->
  (tm_num_tokens (fst s) = n /\
   NoDup (tm_avail (fst s)) /\ (forall x, In x (tm_avail (fst s)) -> 1 <= x <= n) /\
   NoDup (sg_minted (snd s)) /\ (forall x, In x (sg_minted (snd s)) -> 1 <= x <= n) /\
   (forall x, In x (sg_minted (snd s)) -> ~ In x (tm_avail (fst s))) /\
   N.of_nat (length (tm_avail (fst s))) = tm_mintable (fst s) /\
   tm_mintable (fst s) + N.of_nat (length (sg_minted (snd s))) + sg_burned (snd s) = n).
Proof. exact InvT_spelled. Qed.

(* it holds right after creation (remaining ids a permutation of 1..n, nothing minted or burned) *)
Theorem C01_tm_holds_at_creation : forall n st,
  tm_num_tokens st = n /\ tm_mintable st = n /\ Permutation (tm_avail st) (seqN n) ->
  InvT n (st, sghost0).
Proof. exact init_inv_tm. Qed.

(* every successful call of any entry point preserves it (sstep = the call plus the ghost update;
   a failed call changes nothing) *)
Theorem C01_tm_step_preserves : forall n minter st g now op st' ms,
  InvT n (st, g) -> TokenMerge.step minter now op st = Ok (st', ms) -> InvT n (sstep minter (st, g) (now, op)).
Proof. exact step_inv_tm. Qed.

(* hence it holds after every history of calls *)
Theorem C01_tm_every_reachable_state : forall n minter h s, InvT n s -> InvT n (srun minter h s).
Proof. exact srun_inv_tm. Qed.

(* a minted id (by a deposit, MintTo or MintFor) lies in 1..=n, was still mintable, was never
   minted before and is no longer mintable; a call mints at most one token *)
Theorem C01_tm_minted_id_fresh_and_in_range : forall n minter st g now op st' ms t owner,
  InvT n (st, g) -> TokenMerge.step minter now op st = Ok (st', ms) -> In (t, owner) (mint_ids ms) ->
  1 <= t <= n /\ In t (tm_avail st) /\ ~ In t (sg_minted g) /\ ~ In t (tm_avail st') /\
  mint_ids ms = [(t, owner)] /\
  sg_minted (snd (sstep minter (st, g) (now, op))) = t :: sg_minted g.
Proof. exact minted_id_fresh_tm. Qed.

(* mint-for delivers exactly the requested id, to the requested recipient, or fails *)
Theorem C01_tm_mint_for_exact : forall minter now caller tid r funds st st' ms,
  TokenMerge.step minter now (TokenMerge.OMintFor caller tid r funds) st = Ok (st', ms) ->
  ms = [TMint r tid] /\ 1 <= tid <= tm_num_tokens st /\ In tid (tm_avail st) /\ ~ In tid (tm_avail st').
Proof. exact mint_for_exact_tm. Qed.

(* shuffle changes neither the set of remaining ids nor their number, nor anything else
   (immediate in this model, see the header) and fails when nothing is left *)
Theorem C01_tm_shuffle_preserves : forall minter now caller funds st st' ms,
  TokenMerge.step minter now (TokenMerge.OShuffle caller funds) st = Ok (st', ms) ->
  st' = st /\ ms = [] /\ tm_mintable st <> 0.
Proof. exact shuffle_preserves_tm. Qed.

(* no mint of any kind succeeds at zero: MintTo / MintFor fail, and no call (in particular
   no deposit) emits a Mint *)
Theorem C01_tm_mint_at_zero_fails : forall minter now op st,
  tm_mintable st = 0 ->
  (match op with TokenMerge.OMintTo _ _ _ _ | TokenMerge.OMintFor _ _ _ _ => True | _ => False end) ->
  TokenMerge.step minter now op st = Err.
Proof. exact admin_mint_at_zero_tm. Qed.

Theorem C01_tm_nothing_minted_at_zero : forall minter now op st st' ms,
  tm_mintable st = 0 -> TokenMerge.step minter now op st = Ok (st', ms) -> mint_ids ms = [].
Proof. exact mint_at_zero_tm. Qed.

(* burn-remaining empties the table and zeroes the counter; the counter never goes up; so
   nothing can be minted in any future after a successful burn-remaining (or sell-out) *)
Theorem C01_tm_burn_remaining_zeroes : forall n minter now caller funds st g st' ms,
  InvT n (st, g) -> TokenMerge.step minter now (TokenMerge.OBurnRemaining caller funds) st = Ok (st', ms) ->
  tm_mintable st' = 0 /\ tm_avail st' = [] /\ ms = [] /\
  sg_minted (snd (sstep minter (st, g) (now, TokenMerge.OBurnRemaining caller funds))) = sg_minted g /\
  sg_burned (snd (sstep minter (st, g) (now, TokenMerge.OBurnRemaining caller funds))) = sg_burned g + tm_mintable st.
Proof. exact burn_remaining_zero_tm. Qed.

Theorem C01_tm_counter_never_increases : forall minter now op st st' ms,
  TokenMerge.step minter now op st = Ok (st', ms) -> tm_mintable st' <= tm_mintable st.
Proof. exact mintable_never_increases_tm. Qed.

Theorem C01_tm_zero_is_forever : forall minter h st g,
  tm_mintable st = 0 ->
  tm_mintable (fst (srun minter h (st, g))) = 0 /\ sg_minted (snd (srun minter h (st, g))) = sg_minted g.
Proof. exact zero_is_forever_tm. Qed.

(* ---- non-vacuity: 3 tokens, requirement "one token of collection 21"; a deposit-triggered
   mint, a shuffle, mint-for (twice), burn-remaining, mint-to; evaluated in the model ---- *)
Definition tm_ex_s0 : tm_state := mkTm 5 1000 3 3 [(21, 1)] 50 0 500 3 [2; 3; 1] [] [].
Definition tm_ex_calls : list (N * tm_op) :=
  [ (2000, OReceive 21 11 None 101 3);                            (* deposit completes: mints the picked id 3 *)
    (2001, TokenMerge.OShuffle 15 [mkCoin 0 500]);
    (2002, TokenMerge.OMintFor 5 2 12 []);
    (2003, TokenMerge.OMintFor 5 2 12 []);                        (* fails: sold *)
    (2004, TokenMerge.OBurnRemaining 5 []);
    (2005, TokenMerge.OMintTo 5 12 [] 1);                         (* fails: nothing left *)
    (2006, OReceive 21 12 None 201 1) ].                          (* fails: completing deposit at zero *)

Example C01_tm_ex_initial_state_meets_invariant : InvT 3 (tm_ex_s0, sghost0).
Proof.
  apply init_inv_tm. repeat split. cbn. change (Permutation [2; 3; 1] [1; 2; 3]).
  apply Permutation_sym. apply (perm_trans (l' := [2; 1; 3])); [ apply perm_swap | apply perm_skip; apply perm_swap ].
Qed.

Example C01_tm_ex_history_evaluates :
  let s := srun 7 tm_ex_calls (tm_ex_s0, sghost0) in
  (tm_mintable (fst s), tm_avail (fst s), sg_minted (snd s), sg_burned (snd s)) = (0, [], [2; 3], 1).
Proof. vm_compute. reflexivity. Qed.

Print Assumptions C01_tm_invariant_spelled_out.
Print Assumptions C01_tm_holds_at_creation.
Print Assumptions C01_tm_step_preserves.
Print Assumptions C01_tm_every_reachable_state.
Print Assumptions C01_tm_minted_id_fresh_and_in_range.
Print Assumptions C01_tm_mint_for_exact.
Print Assumptions C01_tm_shuffle_preserves.
Print Assumptions C01_tm_mint_at_zero_fails.
Print Assumptions C01_tm_nothing_minted_at_zero.
Print Assumptions C01_tm_burn_remaining_zeroes.
Print Assumptions C01_tm_counter_never_increases.
Print Assumptions C01_tm_zero_is_forever.

(* =====================================================================================
   Part 2b: the NFT metadata mode of an open edition (OffChainMetadata with a token_uri and
   an sg721-base collection, or OnChainMetadata with an extension and an
   sg721-metadata-onchain collection).  `ostep_nft c` = `ostep` plus what the collection is
   asked to store; the mode influences nothing else, so every statement of Part 2 holds in
   both modes.  Statements only.
   ===================================================================================== *)
From LP Require Import MinterOpenMetaProofs.

(* whatever the configuration, the call succeeds or fails alike, reaches the same state,
   emits the same messages and mints the same ids to the same owners *)
Theorem C01_oe_metadata_mode_does_not_touch_supply : forall c c' vr s e fp wv o,
  match ostep_nft c vr s e fp wv o, ostep_nft c' vr s e fp wv o with
  | Ok (s1, ms1, mm1), Ok (s2, ms2, mm2) =>
      s1 = s2 /\ ms1 = ms2 /\ ostep vr s e fp wv o = Ok (s1, ms1) /\
      map om_id mm1 = map om_id mm2 /\ map om_owner mm1 = map om_owner mm2
  | Err, Err => ostep vr s e fp wv o = Err
  | _, _ => False
  end.
Proof. exact ostep_nft_mode_independent. Qed.

(* a successful Mint / MintTo stores exactly one token: the next id, for the recipient, with
   the configured token_uri (off-chain) or the configured extension (on-chain) *)
Theorem C01_oe_minted_token_carries_configured_metadata : forall c vr s e fp wv o s' ms mm,
  is_mint_op o = true -> ostep_nft c vr s e fp wv o = Ok (s', ms, mm) ->
  exists owner,
    nft_msgs ms = [(o_token_index s + 1, owner)] /\
    mm = [mkOMint (o_token_index s + 1) owner
                  (if nft_onchain c then None else nft_uri c)
                  (if nft_onchain c then nft_ext c else None)].
Proof. exact ostep_nft_mint. Qed.

Theorem C01_oe_other_calls_store_nothing : forall c vr s e fp wv o s' ms mm,
  is_mint_op o = false -> ostep_nft c vr s e fp wv o = Ok (s', ms, mm) -> mm = [].
Proof. exact ostep_nft_other. Qed.

Example C01_oe_ex_onchain_mint_evaluates :
  match ostep_nft (mkNft true None (Some 7)) (mkOV false false) (oe_s0 (mkOV false false))
                  (mkEnv 2000 11 [mkCoin 0 100] 20) oe_fp None (EMint None false None),
        ostep_nft (mkNft false (Some 6) None) (mkOV false false) (oe_s0 (mkOV false false))
                  (mkEnv 2000 11 [mkCoin 0 100] 20) oe_fp None (EMint None false None) with
  | Ok (s1, _, mm1), Ok (s2, _, mm2) =>
      s1 = s2 /\ mm1 = [mkOMint 1 11 None (Some 7)] /\ mm2 = [mkOMint 1 11 (Some 6) None]
  | _, _ => False
  end.
Proof. vm_compute. repeat split; reflexivity. Qed.

Print Assumptions C01_oe_metadata_mode_does_not_touch_supply.
Print Assumptions C01_oe_minted_token_carries_configured_metadata.
Print Assumptions C01_oe_other_calls_store_nothing.

(* =====================================================================================
   Migrations inside histories.  `minter_migrate` / `o_minter_migrate` (model/MinterMigrate.v)
   are the minters' `migrate` entry points as functions on the sale-world state; they are
   not handler operations, so `step` / `ostep` and the theorems above are untouched.  The
   sale-world correspondence runs migrations inside its histories (SaleCorr.IMigrate /
   SaleOeCorr.OIMigrate), from stored versions around 3.9.0 and the current version, by the
   wasm admin and by strangers.
   ===================================================================================== *)
From LP Require Import MinterMigrate MinterMigrateProofs.

(* an accepted migration of a vending minter changes no supply slot and keeps the invariant *)
Theorem C01_migrate_keeps_supply : forall vr now name_ok stored admin s s',
  minter_migrate vr now name_ok stored admin s = Ok s' ->
  s_num_tokens s' = s_num_tokens s /\ s_mintable s' = s_mintable s /\ s_positions s' = s_positions s /\
  s_minted s' = s_minted s /\ s_burned s' = s_burned s /\ s_airdrops s' = s_airdrops s.
Proof. exact migrate_supply. Qed.

Theorem C01_migrate_preserves_invariant : forall n vr now name_ok stored admin s s',
  InvV n s -> minter_migrate vr now name_ok stored admin s = Ok s' -> InvV n s'.
Proof. exact migrate_inv. Qed.

(* histories interleaving calls and migrations (a refused migration, like a failed call,
   leaves the state as it was) *)
Theorem C01_history_with_migrates_spelled_out : forall vr s it items,
  run_m vr s [] = s /\
  run_m vr s (it :: items) =
    run_m vr (match it with
              | HCall c => apply_call vr s c
              | HMigrate now name_ok stored admin =>
                  match minter_migrate vr now name_ok stored admin s with Ok s' => s' | Err => s end
              end) items.
Proof. intros. split; [ reflexivity | destruct it; reflexivity ]. Qed.

Theorem C01_every_reachable_state_with_migrates : forall n vr items s, InvV n s -> InvV n (run_m vr s items).
Proof. exact run_m_inv. Qed.

Theorem C01_zero_is_forever_with_migrates : forall vr items s, s_mintable s = 0 -> s_mintable (run_m vr s items) = 0.
Proof. exact zero_is_forever_m. Qed.

Theorem C01_history_without_migrates_is_a_special_case : forall vr cs s, run_m vr s (map HCall cs) = run vr s cs.
Proof. exact run_m_calls. Qed.

(* open edition: an accepted migration writes nothing of the sale state; a history with
   migrations reaches the state of the same history without them *)
Theorem C01_oe_migrate_changes_nothing : forall vr now name_ok stored admin s s',
  o_minter_migrate vr now name_ok stored admin s = Ok s' -> s' = s.
Proof. exact o_migrate_id. Qed.

Theorem C01_oe_history_with_migrates : forall vr items s, orun_m vr s items = orun vr s (o_calls_of items).
Proof. exact orun_m_erase. Qed.

Theorem C01_oe_every_reachable_state_with_migrates : forall cap vr items s, InvO cap s -> InvO cap (orun_m vr s items).
Proof. exact orun_m_inv. Qed.

Print Assumptions C01_migrate_keeps_supply.
Print Assumptions C01_migrate_preserves_invariant.
Print Assumptions C01_every_reachable_state_with_migrates.
Print Assumptions C01_zero_is_forever_with_migrates.
Print Assumptions C01_history_without_migrates_is_a_special_case.
Print Assumptions C01_oe_migrate_changes_nothing.
Print Assumptions C01_oe_history_with_migrates.
Print Assumptions C01_oe_every_reachable_state_with_migrates.

(* ---- Part 3, continued: migrations and governance.  The minter's `migrate` (accepted or
   refused, by anyone, from any stored cw2 info) and a sudo UpdateParams on the factory leave
   the supply invariant alone; it therefore holds after every history interleaving entry
   points, migrations and governance (`hstep`, `sxrun`). ---- *)
From Coq Require Import String.
From LP Require Import TokenMergeMigrate TokenMergeMigrateProofs.

Theorem C01_tm_migrate_preserves : forall n is_admin stored s,
  InvT n s -> InvT n (after_migrate is_admin stored (fst s), snd s).
Proof. exact migrate_inv_tm. Qed.

Theorem C01_tm_migrate_changes_nothing : forall is_admin stored st, after_migrate is_admin stored st = st.
Proof. exact after_migrate_same. Qed.

Theorem C01_tm_governance_preserves : forall n mx ap sf s,
  InvT n s -> InvT n (tm_sudo_params mx ap sf (fst s), snd s).
Proof. exact sudo_inv_tm. Qed.

Theorem C01_tm_every_reachable_state_with_migrations : forall n minter (h : list hstep) s,
  InvT n s -> InvT n (sxrun minter h s).
Proof. exact sxrun_inv_tm. Qed.

Example C01_tm_ex_history_with_migrations :
  let h := [HOp 2000 (OReceive 21 11 None 101 3);
            HMigrate true ("crates.io:sg-minter"%string, "0.0.1"%string);
            HOp 2002 (TokenMerge.OMintFor 5 2 12 []);
            HSudo (Some 1) (Some 7) None;
            HMigrate false ("crates.io:sg-minter"%string, "0.0.1"%string);
            HOp 2004 (TokenMerge.OBurnRemaining 5 []);
            HMigrate true ("crates.io:sg-minter"%string, "99.0.0"%string);
            HOp 2005 (TokenMerge.OMintTo 5 12 [mkCoin 0 7] 1)] in
  let s := sxrun 7 h (tm_ex_s0, sghost0) in
  (tm_mintable (fst s), tm_avail (fst s), sg_minted (snd s), sg_burned (snd s)) = (0, [], [2; 3], 1).
Proof. vm_compute. reflexivity. Qed.

Print Assumptions C01_tm_migrate_preserves.
Print Assumptions C01_tm_migrate_changes_nothing.
Print Assumptions C01_tm_governance_preserves.
Print Assumptions C01_tm_every_reachable_state_with_migrations.

(* =====================================================================================
   Part 4: holders burn and transfer tokens on the COLLECTION between minter calls (cw721
   Burn / TransferNft; no minter handler runs).  The world is (minter state, tokens the
   collection holds now); `wissued` is every (id, owner) the minter EVER issued during the
   history — a token its holder burned stays issued.  For every family: the minter's books
   after such a history are those of its own calls alone, and the ids it issues do not
   depend on what the collection holds (in particular not on its live token count).
   Statements only.
   ===================================================================================== *)
From LP Require Import Holder HolderProofs C01HolderProofs C01HolderTmProofs.

(* holder operations leave every minter state alone, and no world step's minter side looks
   at the collection (generic in the minter model) *)
Theorem C01_holder_ops_do_not_touch_the_minter :
  forall (St Call : Type) (apply : St -> Call -> St) (emit : St -> Call -> list (N * addr)) w h,
  fst (wapply St Call apply emit w (WHolder h)) = fst w.
Proof. exact holder_frame. Qed.

Theorem C01_minter_side_ignores_the_collection :
  forall (St Call : Type) (apply : St -> Call -> St) (emit : St -> Call -> list (N * addr)) s c c' x,
  fst (wapply St Call apply emit (s, c) x) = fst (wapply St Call apply emit (s, c') x).
Proof. exact wapply_ignores_collection. Qed.

(* whatever the collection holds at the end was issued by the minter (or was there before) *)
Theorem C01_collection_holds_only_issued_tokens :
  forall (St Call : Type) (apply : St -> Call -> St) (emit : St -> Call -> list (N * addr)) xs s c x,
  In x (map fst (snd (wrun St Call apply emit (s, c) xs))) ->
  In x (map fst c) \/ In x (map fst (wissued St Call apply emit s xs)).
Proof. exact live_tokens_were_issued. Qed.

(* ---- vending minters ---- *)
Theorem C01_v_books_ignore_holder_ops : forall vr xs s c,
  fst (wrun vstate call (apply_call vr) (v_emit vr) (s, c) xs) = run vr s (minter_calls call xs).
Proof. exact v_world_minter_state. Qed.

(* every id issued in such a history is in 1..=n, was never issued before in it, and was not
   issued before it either: no repeat even after the token was burned on the collection *)
Theorem C01_v_issued_ids_fresh_despite_holder_burns : forall n vr xs s,
  InvV n s ->
  NoDup (map fst (wissued vstate call (apply_call vr) (v_emit vr) s xs)) /\
  (forall t, In t (map fst (wissued vstate call (apply_call vr) (v_emit vr) s xs)) -> 1 <= t <= n /\ ~ In t (s_minted s)).
Proof. exact v_world_issued_ids_fresh. Qed.

(* an id ever issued is sold for good: MintFor it fails (burned on the collection or not) *)
Theorem C01_v_mint_for_issued_id_fails : forall n vr s e fp wv t rok r,
  InvV n s -> In t (s_minted s) -> MinterVending.step vr s e fp wv (MinterVending.OMintFor t rok r) = Err.
Proof. exact mint_for_issued_fails. Qed.

(* ---- open-edition minters ---- *)
Theorem C01_oe_books_ignore_holder_ops : forall vr xs s c,
  fst (wrun ostate ocall (o_apply vr) (o_emit vr) (s, c) xs) = orun vr s (minter_calls ocall xs).
Proof. exact o_world_minter_state. Qed.

Theorem C01_oe_ids_are_1_2_3_despite_holder_burns : forall vr xs s,
  o_token_index s = 0 ->
  map fst (wissued ostate ocall (o_apply vr) (o_emit vr) s xs)
  = map N.of_nat (seq 1 (osuccesses vr s (minter_calls ocall xs))).
Proof. exact o_world_ids_are_1_2_3. Qed.

(* the next id is index + 1 whatever the collection holds *)
Theorem C01_oe_next_id_ignores_collection : forall vr s c k t ow,
  In (t, ow) (o_emit vr s k) ->
  t = o_token_index s + 1 /\
  wapply ostate ocall (o_apply vr) (o_emit vr) (s, c) (WMinter k) = (o_apply vr s k, c ++ [(t, ow)]).
Proof. exact o_next_id_ignores_collection. Qed.

(* ---- base minter ---- *)
Theorem C01_base_books_ignore_holder_ops : forall xs s c,
  fst (wrun bstate bcall b_apply b_emit (s, c) xs) = brun s (minter_calls bcall xs).
Proof. exact b_world_minter_state. Qed.

Theorem C01_base_ids_are_1_2_3_despite_holder_burns : forall xs s,
  b_token_index s = 0 ->
  map fst (wissued bstate bcall b_apply b_emit s xs) = map N.of_nat (seq 1 (bsuccesses s (minter_calls bcall xs))).
Proof. exact b_world_ids_are_1_2_3. Qed.

Theorem C01_base_next_id_ignores_collection : forall s c k t ow,
  In (t, ow) (b_emit s k) ->
  t = b_token_index s + 1 /\
  wapply bstate bcall b_apply b_emit (s, c) (WMinter k) = (b_apply s k, c ++ [(t, ow)]).
Proof. exact b_next_id_ignores_collection. Qed.

(* ---- token-merge minter: its state and supply ghost after a history with holder operations
   in between are those of its own calls, so the supply invariant of Part 3 still holds ---- *)
Theorem C01_tm_books_ignore_holder_ops : forall minter xs s c,
  fst (wrun (tm_state * sghost) (N * tm_op) (sstep minter) (tm_emit minter) (s, c) xs)
  = srun minter (minter_calls (N * tm_op) xs) s.
Proof. exact tm_world_minter_state. Qed.

Theorem C01_tm_invariant_despite_holder_ops : forall n minter xs s c,
  InvT n s -> InvT n (fst (wrun (tm_state * sghost) (N * tm_op) (sstep minter) (tm_emit minter) (s, c) xs)).
Proof. exact tm_world_invariant. Qed.

(* ---- non-vacuity: mint 1,2,3 on the base minter, the holder burns 3, the next mint is 4
   and the collection holds 1,2,4; the holder burns 1, the next is 5 ---- *)
Example C01_base_ex_burn_then_mint :
  let s0 := mkBS 1000 0 [] None in
  let m t := WMinter (mkBCall (mkEnv t 10 [mkCoin 0 500] 20) (Some 10) 5000 (BMint true)) in
  let xs := [ m 100; m 101; m 102; WHolder (HBurn 11 3); WHolder (HBurn 10 3); m 103;
              WHolder (HBurn 10 1); m 104 ] in
  (map fst (wissued bstate bcall b_apply b_emit s0 xs),
   map fst (snd (wrun bstate bcall b_apply b_emit (s0, []) xs)),
   b_token_index (fst (wrun bstate bcall b_apply b_emit (s0, []) xs)))
  = ([1; 2; 3; 4; 5], [2; 4; 5], 5).
Proof. vm_compute. reflexivity. Qed.

Print Assumptions C01_holder_ops_do_not_touch_the_minter.
Print Assumptions C01_minter_side_ignores_the_collection.
Print Assumptions C01_collection_holds_only_issued_tokens.
Print Assumptions C01_v_books_ignore_holder_ops.
Print Assumptions C01_v_issued_ids_fresh_despite_holder_burns.
Print Assumptions C01_v_mint_for_issued_id_fails.
Print Assumptions C01_oe_books_ignore_holder_ops.
Print Assumptions C01_oe_ids_are_1_2_3_despite_holder_burns.
Print Assumptions C01_oe_next_id_ignores_collection.
Print Assumptions C01_base_books_ignore_holder_ops.
Print Assumptions C01_base_ids_are_1_2_3_despite_holder_burns.
Print Assumptions C01_base_next_id_ignores_collection.
Print Assumptions C01_tm_books_ignore_holder_ops.
Print Assumptions C01_tm_invariant_despite_holder_ops.
