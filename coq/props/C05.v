(* C05 — Privileged operations succeed only for the principal that owns them.
   Statements only; each closed by `exact <lemma>`.

   PART 1 speaks about the six vending minters over the FULL handler model
   (MinterVending.step): every variant, every factory-parameter and whitelist answer,
   every clock, every payment.
   PART 2 speaks about the authorization models of model/Auth.v (collections, cw-ownable,
   whitelists, splits, open-edition / token-merge / base minters, factories, airdrop):
   `Err` = refused on the authorization dimension; `Ok st'` = authorized, st' being the
   principals afterwards provided every other guard passes (the correspondence check
   observes those guards, see corr/C05Corr.v).
   In every model a refused call returns `Err`, which carries no state: "changes
   nothing" is structural (C05_refused_changes_nothing). *)
From LP Require Import Num Pay Sg1 MinterVending MinterVendingProofs Auth AuthProofs.
(* Part 3 names the other properties' handler models by their qualified names (they reuse
   step, env, is_admin, ...): required, not imported *)
From LP Require MinterOpen MinterOpenProofs TokenMerge Collection Wl WlTiered Stages Splits Params AuthFullProofs.
Import ListNotations.
Local Open Scope N_scope.

(* ====================================================================== *)
(* PART 1 — vending minters (full handler model)                           *)
(* ====================================================================== *)

(* minter configuration, airdrops and burn-remaining only for the minter admin: each of
   the ten reserved handlers, listed, fails for every other sender — whatever the funds,
   the time, the factory parameters, the whitelist answers and the arguments *)
Theorem C05_vending_reserved_handlers_reject_non_admin : forall vr s e fp wv,
  e_sender e <> s_admin s ->
  (forall recipient_ok recipient choice, step vr s e fp wv (OMintTo recipient_ok recipient choice) = Err) /\
  (forall token_id recipient_ok recipient, step vr s e fp wv (OMintFor token_id recipient_ok recipient) = Err) /\
  step vr s e fp wv OBurnRemaining = Err /\
  (forall price, step vr s e fp wv (OUpdateMintPrice price) = Err) /\
  (forall t, step vr s e fp wv (OUpdateStartTime t) = Err) /\
  (forall t, step vr s e fp wv (OUpdateStartTradingTime t) = Err) /\
  (forall limit, step vr s e fp wv (OUpdatePerAddressLimit limit) = Err) /\
  (forall addr_ok whitelist its_config, step vr s e fp wv (OSetWhitelist addr_ok whitelist its_config) = Err) /\
  (forall price, step vr s e fp wv (OUpdateDiscountPrice price) = Err) /\
  step vr s e fp wv ORemoveDiscountPrice = Err.
Proof. exact vending_nonadmin_rejected. Qed.

(* the message kinds of the vending ExecuteMsg: the ten above are exactly the reserved
   ones; Mint, Purge and Shuffle are open to anyone (DESIGN §7 C05) *)
Theorem C05_vending_reserved_kinds : forall o,
  admin_op o = true <->
  match o with
  | OMint _ _ _ _ | OPurge | OShuffle _ => False
  | _ => True
  end.
Proof. exact admin_op_kinds. Qed.

(* the admin is fixed at creation: no successful call of any kind changes it *)
Theorem C05_vending_admin_never_changes : forall vr s e fp wv o s' msgs,
  step vr s e fp wv o = Ok (s', msgs) -> s_admin s' = s_admin s.
Proof. exact vending_admin_constant. Qed.

Theorem C05_vending_admin_never_changes_history : forall vr calls s,
  s_admin (run vr s calls) = s_admin s.
Proof. exact vending_admin_constant_run. Qed.

(* in every reachable state (any history of calls by anyone, before or after the start,
   sold out or not) a reserved call by anyone but the admin the minter was created with is
   refused and leaves the state exactly as it was *)
Theorem C05_vending_non_admin_rejected_in_every_reachable_state : forall vr s history c,
  admin_op (c_op c) = true -> e_sender (c_env c) <> s_admin s ->
  step vr (run vr s history) (c_env c) (c_fp c) (c_wv c) (c_op c) = Err /\
  apply_call vr (run vr s history) c = run vr s history.
Proof. exact vending_nonadmin_rejected_after_history. Qed.
(* Factory parameters and the minter's Status are not part of the vending state at all:
   `fparams` is an INPUT of every step (answered by the factory at call time) and the only
   messages a step emits are bank messages, a collection mint and a collection trading
   time update (type `omsg`).  That no execute message moves the Params / Status query
   answers is checked on the real contracts (monitor params-or-status-changed-by-execute)
   and stated for the authorization model below. *)

(* ====================================================================== *)
(* PART 2 — authorization models (model/Auth.v)                            *)
(* ====================================================================== *)

(* ---- the table in one statement ---- *)
(* `reserved_to st m` (model/Auth.v, total over every message of every contract kind) is
   the role the property sentence reserves message m to; `holds_role st sender r` says
   whether `sender` holds role r in state st.  For every contract, state, message and
   sender: a sender who does not hold the role is refused — and, the state being
   arbitrary, this holds after every history (before/after start, frozen or not, after
   any hand-over), where the refused call changes nothing. *)
Theorem C05_table : forall st env sender m,
  holds_role st sender (reserved_to st m) = false -> auth_step st env sender m = Err.
Proof. exact table_sound. Qed.

Theorem C05_table_in_every_reachable_state : forall st history env sender m,
  holds_role (run_auth st history) sender (reserved_to (run_auth st history) m) = false ->
  auth_step (run_auth st history) env sender m = Err /\
  apply_auth (run_auth st history) (env, sender, m) = run_auth st history.
Proof. exact table_sound_after_history. Qed.

(* the rows of the table, spelled out (what `reserved_to` answers) *)
Example C05_table_rows :
  (* minters *)
  (forall f, f <> FBase -> forall s, map (fun k => reserved_to (AMinter f s) (MM k)) [KMint; KPurge; KShuffle] =
     map (fun k => if has_msg f k then RAnyone else RNobody) [KMint; KPurge; KShuffle]) /\
  (forall s, map (fun k => reserved_to (AMinter FOpenEdition s) (MM k))
       [KSetWhitelist; KUpdateMintPrice; KUpdateStartTime; KUpdateEndTime; KUpdateStartTradingTime;
        KUpdatePerAddressLimit; KMintTo; KBurnRemaining]
     = repeat RMinterAdmin 8) /\
  (forall s, map (fun k => reserved_to (AMinter FTokenMerge s) (MM k))
       [KUpdateStartTime; KUpdateStartTradingTime; KUpdatePerAddressLimit; KMintTo; KMintFor; KBurnRemaining]
     = repeat RMinterAdmin 6) /\
  (forall s, map (fun k => reserved_to (AMinter FBase s) (MM k)) [KMint; KUpdateStartTradingTime]
     = repeat RCollectionCreatorNow 2) /\
  (* collections (sg721-base) *)
  (forall s id a e, map (fun c => reserved_to (AColl Sg721Base s) (CM c))
       [CMint id a; CUpdateStartTradingTime; CUpdateOwnership (TransferOwnership a e); CUpdateOwnership RenounceOwnership;
        CUpdateOwnership AcceptOwnership; CUpdateCollectionInfo (Some a); CFreezeCollectionInfo;
        CTransferNft id a; CSendNft id a; CBurn id; CApprove id a; CRevoke id a; CApproveAll a; CRevokeAll a]
     = [RCollectionMinter; RCollectionMinter; RCollectionMinter; RCollectionMinter; RProposedMinter; RCreator; RCreator;
        RTokenSender id; RTokenSender id; RTokenSender id; RTokenApprover id; RTokenApprover id; RAnyone; RAnyone]) /\
  (forall s id, map (fun c => reserved_to (AColl Sg721Updatable s) (CM c))
       [CFreezeTokenMetadata; CUpdateTokenMetadata id; CEnableUpdatable; CUpdateOwnership AcceptOwnership]
     = [RCreator; RCreator; RCreator; RNobody]) /\
  (* whitelists *)
  (forall s l, map (fun x => reserved_to (AWl WPlain s) (WM x))
       [WOp WUpdateStartTime; WOp WUpdateEndTime; WOp WAddMembers; WOp WRemoveMembers; WOp WUpdatePerAddressLimit;
        WOp WIncreaseMemberLimit; WUpdateAdmins l; WFreeze]
     = [RWhitelistAdmin; RWhitelistAdmin; RWhitelistAdmin; RWhitelistAdmin; RWhitelistAdmin; RAnyone;
        RWhitelistAdminWhileMutable; RWhitelistAdminWhileMutable]) /\
  (forall s l, map (fun x => reserved_to (AWl WTieredMerkle s) (WM x)) [WOp WUpdateStageConfig; WOp WAddMembers; WUpdateAdmins l; WFreeze]
     = [RWhitelistAdmin; RNobody; RWhitelistAdminWhileMutable; RWhitelistAdminWhileMutable]) /\
  (forall s l, reserved_to (AWl WImmutable s) (WM (WUpdateAdmins l)) = RNobody) /\
  (* splits, factories, airdrop, anything undecodable *)
  (forall s n, reserved_to (ASplits s) (SM SDistribute) = RSplitsDistributor /\ reserved_to (ASplits s) (SM (SUpdateAdmin n)) = RSplitsAdmin) /\
  (forall p, reserved_to (AFactory p) FCreateMinter = RAnyone) /\
  (forall w, reserved_to AAirdrop (AClaim w) = RSignedWallet w) /\
  (forall st, reserved_to st XUndecodable = RNobody).
Proof.
  repeat split; try reflexivity.
  - intros f Hf s. destruct f; try reflexivity. contradiction Hf. reflexivity.
  - destruct st; reflexivity.
Qed.

(* ---- open-edition, token-merge and base minters ---- *)
(* the handlers that compare the sender with Config.extension.admin, family by family
   (vending repeated for comparison with Part 1), and the two base-minter handlers that
   compare it with the collection's current creator *)
Theorem C05_minter_reserved_handlers_table :
  (forall k, (has_msg FVending k && admin_only FVending k = true) <->
     in_kinds k [KSetWhitelist; KUpdateMintPrice; KUpdateStartTime; KUpdateStartTradingTime; KUpdatePerAddressLimit;
                 KMintTo; KMintFor; KBurnRemaining; KUpdateDiscountPrice; KRemoveDiscountPrice]) /\
  (forall k, (has_msg FOpenEdition k && admin_only FOpenEdition k = true) <->
     in_kinds k [KSetWhitelist; KUpdateMintPrice; KUpdateStartTime; KUpdateEndTime; KUpdateStartTradingTime;
                 KUpdatePerAddressLimit; KMintTo; KBurnRemaining]) /\
  (forall k, (has_msg FTokenMerge k && admin_only FTokenMerge k = true) <->
     in_kinds k [KUpdateStartTime; KUpdateStartTradingTime; KUpdatePerAddressLimit; KMintTo; KMintFor; KBurnRemaining]) /\
  (forall k, (has_msg FBase k && creator_only FBase k = true) <-> in_kinds k [KMint; KUpdateStartTradingTime]).
Proof. exact admin_only_table. Qed.

Theorem C05_minter_reserved_only_admin : forall f s sender k,
  admin_only f k = true -> sender <> m_admin s -> minter_step f s sender k = Err.
Proof. exact minter_admin_only. Qed.

(* base-minter mints (and its trading-time update) only for the collection creator — the
   creator the collection answers NOW, so after a creator hand-over the new one *)
Theorem C05_base_minter_only_collection_creator : forall s sender k,
  sender <> m_coll_creator s -> minter_step FBase s sender k = Err.
Proof. exact base_minter_creator_only. Qed.

(* no execute message of a minter moves its admin, its Status or the factory's Params;
   no execute message of a factory moves its Params: one call, and every history *)
Theorem C05_minter_execute_keeps_admin_status_params : forall f s env sender m st',
  auth_step (AMinter f s) env sender m = Ok st' -> st' = AMinter f s.
Proof. exact minter_execute_keeps_admin_status_params. Qed.

Theorem C05_factory_execute_keeps_params : forall p env sender m st',
  auth_step (AFactory p) env sender m = Ok st' -> st' = AFactory p.
Proof. exact factory_execute_keeps_params. Qed.

Theorem C05_no_history_of_user_messages_changes_params_or_status :
  (forall f s calls, run_auth (AMinter f s) calls = AMinter f s) /\
  (forall p calls, run_auth (AFactory p) calls = AFactory p).
Proof. exact (conj minter_run_constant factory_run_constant). Qed.

(* governance messages (UpdateParams, UpdateStatus) are not ExecuteMsg variants: sent
   through execute they do not decode, for any contract and sender *)
Theorem C05_sudo_message_through_execute_rejected : forall st env sender,
  auth_step st env sender XUndecodable = Err.
Proof. exact undecodable_rejected. Qed.

(* ---- collections: the minter role (cw-ownable) ---- *)
(* token minting and trading-time updates only for the collection's minter (the current
   cw-ownable owner; nobody once renounced); so is offering or renouncing the role *)
Theorem C05_collection_mint_and_trading_time_only_minter : forall k s env sender,
  coll_minter s <> Some sender ->
  (forall token_id owner, coll_step k s env sender (CMint token_id owner) = Err) /\
  coll_step k s env sender CUpdateStartTradingTime = Err /\
  (forall new_owner expiry, coll_step k s env sender (CUpdateOwnership (TransferOwnership new_owner expiry)) = Err) /\
  coll_step k s env sender (CUpdateOwnership RenounceOwnership) = Err.
Proof. exact coll_minter_only. Qed.

Theorem C05_collection_accept_only_proposed_minter : forall k s env sender,
  ow_pending (c_own s) <> Some sender -> coll_step k s env sender (CUpdateOwnership AcceptOwnership) = Err.
Proof. exact coll_accept_only_pending. Qed.

(* what each ownership action requires and produces *)
Theorem C05_ownership_actions : forall o env sender a o',
  update_ownership o env sender a = Ok o' ->
  match a with
  | TransferOwnership n e => ow_owner o = Some sender /\ o' = mkOwn (Some sender) (Some n) e
  | AcceptOwnership =>
      ow_pending o = Some sender /\ o' = mkOwn (Some sender) None None /\
      (forall e, ow_expiry o = Some e -> expired e env = false)
  | RenounceOwnership => ow_owner o = Some sender /\ o' = mkOwn None None None
  end.
Proof. exact ownership_action_auth. Qed.

(* after hand-over (offer by the old minter a, acceptance by b before the deadline) b is
   the minter and a is refused *)
Theorem C05_ownership_after_handover : forall o env env' a b e,
  ow_owner o = Some a ->
  (forall x, e = Some x -> expired x env' = false) ->
  exists o1 o2,
    update_ownership o env a (TransferOwnership b e) = Ok o1 /\
    ow_owner o1 = Some a /\
    update_ownership o1 env' b AcceptOwnership = Ok o2 /\
    ow_owner o2 = Some b /\
    (a <> b -> assert_owner o2 a = Err) /\
    assert_owner o2 b = Ok tt.
Proof. exact ownership_handover. Qed.

Theorem C05_lapsed_offer_cannot_be_accepted : forall o env sender e,
  ow_expiry o = Some e -> expired e env = true -> update_ownership o env sender AcceptOwnership = Err.
Proof. exact ownership_expired_offer. Qed.

(* a renounced minter role never comes back, whatever anyone sends afterwards *)
Theorem C05_renounced_minter_role_is_gone_forever : forall calls k s,
  ow_owner (c_own s) = None -> ow_pending (c_own s) = None ->
  match run_auth (AColl k s) calls with
  | AColl _ s' => ow_owner (c_own s') = None /\ ow_pending (c_own s') = None
  | _ => False
  end.
Proof. exact coll_renounced_forever. Qed.

(* ---- collections: the creator ---- *)
(* collection-info, freeze and token-metadata updates only for the collection creator *)
Theorem C05_collection_info_freeze_metadata_only_creator : forall k s env sender,
  sender <> c_creator s ->
  (forall new_creator, coll_step k s env sender (CUpdateCollectionInfo new_creator) = Err) /\
  coll_step k s env sender CFreezeCollectionInfo = Err /\
  coll_step k s env sender CFreezeTokenMetadata = Err /\
  (forall token_id, coll_step k s env sender (CUpdateTokenMetadata token_id) = Err) /\
  coll_step k s env sender CEnableUpdatable = Err.
Proof. exact coll_creator_only. Qed.

(* what any successful message may change: the minter role only through UpdateOwnership,
   the creator only through the creator's own UpdateCollectionInfo{creator} while not
   frozen, and the three flags only upwards *)
Theorem C05_collection_principals_move_only_by_their_owner : forall k s env sender m s',
  coll_step k s env sender m = Ok s' ->
  (c_own s' <> c_own s -> exists a, m = CUpdateOwnership a) /\
  (c_creator s' <> c_creator s ->
     sender = c_creator s /\ c_frozen s = false /\ m = CUpdateCollectionInfo (Some (c_creator s'))) /\
  (c_frozen s = true -> c_frozen s' = true) /\
  (c_meta_frozen s = true -> c_meta_frozen s' = true) /\
  (c_enabled s = true -> c_enabled s' = true).
Proof. exact coll_step_frame. Qed.

(* creator hand-over: afterwards the new creator is the creator and the old one is refused *)
Theorem C05_creator_after_handover : forall k s env c,
  c_frozen s = false -> coll_has k (CUpdateCollectionInfo (Some c)) = true ->
  exists s', coll_step k s env (c_creator s) (CUpdateCollectionInfo (Some c)) = Ok s' /\ c_creator s' = c /\
             (c <> c_creator s -> forall env' nc,
                coll_step k s' env' (c_creator s) (CUpdateCollectionInfo nc) = Err /\
                coll_step k s' env' (c_creator s) CFreezeCollectionInfo = Err).
Proof. exact coll_creator_handover. Qed.

(* frozen means frozen: no collection-info update for anyone (the creator included), no
   token-metadata update for anyone, through every later history *)
Theorem C05_frozen_collection_info_rejects_everyone : forall k s env sender nc,
  c_frozen s = true -> coll_step k s env sender (CUpdateCollectionInfo nc) = Err.
Proof. exact coll_frozen_rejects. Qed.

Theorem C05_frozen_token_metadata_rejects_everyone : forall k s env sender id,
  c_meta_frozen s = true -> coll_step k s env sender (CUpdateTokenMetadata id) = Err.
Proof. exact coll_meta_frozen_rejects. Qed.

Theorem C05_collection_freezes_are_forever : forall calls k s,
  (c_frozen s = true ->
     match run_auth (AColl k s) calls with AColl _ s' => c_frozen s' = true | _ => False end) /\
  (c_meta_frozen s = true ->
     match run_auth (AColl k s) calls with AColl _ s' => c_meta_frozen s' = true | _ => False end).
Proof. exact coll_freezes_forever. Qed.

(* ---- collections: tokens ---- *)
(* a token moves or burns only for its owner, a spender the owner approved, or an
   operator of the owner; approvals are granted and revoked only by owner or operator *)
Theorem C05_token_moves_only_for_holder_or_approved : forall k s env sender id,
  (forall t, find_token (c_tokens s) id = Some t ->
             (t_owner t =? sender) || mem sender (t_approvals t) || mem_pair (t_owner t, sender) (c_operators s) = false) ->
  (forall to, coll_step k s env sender (CTransferNft id to) = Err) /\
  (forall to, coll_step k s env sender (CSendNft id to) = Err) /\
  coll_step k s env sender (CBurn id) = Err.
Proof. exact coll_token_ops. Qed.

Theorem C05_token_approvals_only_for_holder_or_operator : forall k s env sender id spender,
  (forall t, find_token (c_tokens s) id = Some t ->
             (t_owner t =? sender) || mem_pair (t_owner t, sender) (c_operators s) = false) ->
  coll_step k s env sender (CApprove id spender) = Err /\ coll_step k s env sender (CRevoke id spender) = Err.
Proof. exact coll_approval_ops. Qed.

(* sg721-nt: nothing but Mint, Burn, UpdateCollectionInfo, FreezeCollectionInfo exists *)
Theorem C05_sg721_nt_message_set : forall s env sender m,
  coll_step Sg721Nt s env sender m = Err \/
  (exists id o, m = CMint id o) \/ (exists id, m = CBurn id) \/
  (exists nc, m = CUpdateCollectionInfo nc) \/ m = CFreezeCollectionInfo.
Proof. exact nt_reduced_message_set. Qed.

(* ---- whitelists ---- *)
(* membership, schedule and admin-list changes only for whitelist admins: every handler
   but IncreaseMemberLimit (capacity; open by design, DESIGN §7 C05) *)
Theorem C05_whitelist_changes_only_for_admins : forall w s sender,
  mem sender (w_admins s) = false ->
  (forall k, k <> WIncreaseMemberLimit -> wl_step w s sender (WOp k) = Err) /\
  (forall l, wl_step w s sender (WUpdateAdmins l) = Err) /\
  wl_step w s sender WFreeze = Err.
Proof. exact wl_changes_only_for_admins. Qed.

(* admin-list changes never once frozen — for anyone, admins included *)
Theorem C05_whitelist_admin_list_frozen : forall w s sender,
  w_mutable s = false ->
  (forall l, wl_step w s sender (WUpdateAdmins l) = Err) /\ wl_step w s sender WFreeze = Err.
Proof. exact wl_frozen_rejects. Qed.

(* frozen_forever: after any history of messages by anyone the admin list and the flag
   are exactly what they were when it was frozen *)
Theorem C05_whitelist_frozen_forever : forall k s calls,
  w_mutable s = false -> run_auth (AWl k s) calls = AWl k s.
Proof. exact wl_frozen_forever. Qed.

(* the admin list changes only by an admin's UpdateAdmins while mutable; `mutable` only
   falls, by an admin's Freeze *)
Theorem C05_whitelist_principals_move_only_by_admins : forall w s sender m s',
  wl_step w s sender m = Ok s' ->
  match m with
  | WOp _ => s' = s
  | WUpdateAdmins l => (w_mutable s && mem sender (w_admins s) = true) /\ s' = mkWS l (w_mutable s)
  | WFreeze => (w_mutable s && mem sender (w_admins s) = true) /\ s' = mkWS (w_admins s) false
  end.
Proof. exact wl_step_frame. Qed.

(* ---- splits ---- *)
(* distribution only for the admin, or any group member when no admin is set *)
Theorem C05_splits_distribute_exactly_for : forall s sender,
  splits_step s sender SDistribute = Ok s <->
  match sp_admin s with Some a => sender = a | None => mem sender (sp_members s) = true end.
Proof. exact splits_distribute_auth. Qed.

Theorem C05_splits_distribute_rejected_otherwise : forall s sender,
  (forall a, sp_admin s = Some a -> sender <> a -> splits_step s sender SDistribute = Err) /\
  (sp_admin s = None -> mem sender (sp_members s) = false -> splits_step s sender SDistribute = Err).
Proof. exact splits_distribute_rejected. Qed.

Theorem C05_splits_admin_changes_only_by_admin : forall s sender m s',
  (forall n, sp_admin s <> Some sender -> splits_step s sender (SUpdateAdmin n) = Err) /\
  (splits_step s sender m = Ok s' ->
   sp_members s' = sp_members s /\
   (sp_admin s' <> sp_admin s -> sp_admin s = Some sender /\ exists n, m = SUpdateAdmin n /\ sp_admin s' = n)).
Proof. exact splits_admin_changes_only_by_admin. Qed.

(* ---- migration: the other message a user account can send ---- *)
(* Factory parameters and minter status change only through governance (sudo), never
   through a user message — execute OR migrate, in every reachable state: over any
   history of executes and migrates by anyone (wasm admin or not) a minter's admin, Status
   and the Params it reads stay what they were; so do a factory's Params as long as no
   migrate carries an explicit parameter message (C20's documented exception: the wasm
   admin's migrate WITH an UpdateParams message applies it) *)
Theorem C05_no_user_message_changes_status_or_params :
  (forall f s history, run_user (AMinter f s) history = AMinter f s) /\
  (forall p history, forallb no_explicit_params history = true -> run_user (AFactory p) history = AFactory p).
Proof. exact (conj no_user_message_changes_minter_status no_user_message_changes_factory_params). Qed.

(* a migrate gets through only for the wasm admin; without explicit parameters it is a
   frame on everything the queries show, for every contract kind; the only way it changes
   anything is wasm admin + explicit parameters + a factory *)
Theorem C05_migrate_only_wasm_admin_and_frame :
  (forall st explicit, migrate_step st false explicit = Err) /\
  (forall st adm st', migrate_step st adm None = Ok st' -> st' = st) /\
  (forall st adm explicit st', migrate_step st adm explicit = Ok st' -> st' <> st ->
     adm = true /\ exists p q, st = AFactory p /\ explicit = Some q /\ st' = AFactory q).
Proof. exact (conj migrate_only_wasm_admin (conj migrate_frame migrate_changes_state_only_by_admin_explicit_params)). Qed.

(* ---- airdrop, instantiation, refusals ---- *)
Theorem C05_airdrop_claim_only_signed_wallet : forall env sender w,
  sender <> w -> auth_step AAirdrop env sender (AClaim w) = Err.
Proof. exact airdrop_claim_only_signed_wallet. Qed.

(* a minter or a collection can only be instantiated by a contract (and a minter only by
   one that answers the Params query, i.e. a factory), never by a user account *)
Theorem C05_instantiate_requires_contract_sender :
  (forall t p, ip_sender_is_contract p = false -> inst_allowed t p = false) /\
  (forall p, ip_sender_answers_params p = false -> inst_allowed IMinter p = false).
Proof. exact (conj instantiate_requires_contract_sender minter_instantiate_requires_factory). Qed.

(* the decisive party is the SENDER, not the address the message names as minter: the
   named party's being a contract changes nothing, and a user account naming an existing
   contract is refused *)
Theorem C05_instantiate_decided_by_sender_not_by_named_minter :
  (forall t sender_is_contract sender_answers_params named1 named2,
     inst_allowed t (mkIP sender_is_contract sender_answers_params named1)
     = inst_allowed t (mkIP sender_is_contract sender_answers_params named2)) /\
  (forall t sender_answers_params, inst_allowed t (mkIP false sender_answers_params true) = false).
Proof. exact (conj instantiate_ignores_named_party user_naming_a_contract_refused). Qed.

Theorem C05_refused_changes_nothing : forall st env sender m,
  auth_step st env sender m = Err -> apply_auth st (env, sender, m) = st.
Proof. exact refused_changes_nothing. Qed.

(* ====================================================================== *)
(* PART 3 — the same clauses over the FULL handler models                  *)
(* ====================================================================== *)
(* The handler models built for the other properties (MinterOpen, TokenMerge, Collection,
   Wl, WlTiered, Stages, Splits, Params) carry the sender checks together with every
   other guard (payment, time, supply, argument validity): here nothing is an oracle
   except the cross-contract answers those models already take as inputs.  One theorem
   per family lists the reserved messages explicitly.  Left to Part 2 because the full
   model does not contain the check: token-merge UpdateStartTradingTime (not in
   TokenMerge.v), the admin-list messages of tiered-whitelist-merkletree (Stages.v keeps
   the admin list constant), whitelist-immutable (no execute entry point), the minters'
   Status (Status.v has only the sudo path) and sg-eth-airdrop (Airdrop.v binds the
   claiming wallet through signature oracles, C16). *)

(* ---- open-edition minters (three variants), full handler `ostep` ---- *)
Theorem C05_full_oe_reserved_handlers_reject_non_admin : forall vr s e fp wv,
  e_sender e <> MinterOpen.o_admin s ->
  (forall recipient_ok recipient, MinterOpen.ostep vr s e fp wv (MinterOpen.EMintTo recipient_ok recipient) = Err) /\
  MinterOpen.ostep vr s e fp wv MinterOpen.EBurnRemaining = Err /\
  (forall price, MinterOpen.ostep vr s e fp wv (MinterOpen.EUpdateMintPrice price) = Err) /\
  (forall t, MinterOpen.ostep vr s e fp wv (MinterOpen.EUpdateStartTime t) = Err) /\
  (forall t, MinterOpen.ostep vr s e fp wv (MinterOpen.EUpdateEndTime t) = Err) /\
  (forall t, MinterOpen.ostep vr s e fp wv (MinterOpen.EUpdateStartTradingTime t) = Err) /\
  (forall limit, MinterOpen.ostep vr s e fp wv (MinterOpen.EUpdatePerAddressLimit limit) = Err) /\
  (forall addr_ok whitelist its_config,
     MinterOpen.ostep vr s e fp wv (MinterOpen.ESetWhitelist addr_ok whitelist its_config) = Err).
Proof. exact AuthFullProofs.FullOE.oe_nonadmin_rejected. Qed.

Theorem C05_full_oe_admin_never_changes : forall vr s e fp wv o s' msgs,
  MinterOpen.ostep vr s e fp wv o = Ok (s', msgs) -> MinterOpen.o_admin s' = MinterOpen.o_admin s.
Proof. exact AuthFullProofs.FullOE.oe_admin_constant. Qed.

(* in every reachable state: after any history of calls by anyone, every call that is not
   Mint or Purge is refused for anyone but the admin the minter was created with, and
   leaves the state as it was *)
Theorem C05_full_oe_non_admin_rejected_in_every_reachable_state : forall vr s history c,
  (match MinterOpenProofs.oc_op c with MinterOpen.EMint _ _ _ | MinterOpen.EPurge => False | _ => True end) ->
  e_sender (MinterOpenProofs.oc_env c) <> MinterOpen.o_admin s ->
  MinterOpen.ostep vr (MinterOpenProofs.orun vr s history) (MinterOpenProofs.oc_env c) (MinterOpenProofs.oc_fp c)
                   (MinterOpenProofs.oc_wv c) (MinterOpenProofs.oc_op c) = Err /\
  MinterOpenProofs.o_apply vr (MinterOpenProofs.orun vr s history) c = MinterOpenProofs.orun vr s history.
Proof. exact AuthFullProofs.FullOE.oe_nonadmin_rejected_after_history'. Qed.

(* ---- base minter, full handler `bstep`: Mint (and the trading-time update) only for the
   creator the collection reports at call time (oracle input `creator`) ---- *)
Theorem C05_full_base_minter_only_collection_creator : forall s e creator fee_bps o,
  creator <> Some (e_sender e) -> MinterOpen.bstep s e creator fee_bps o = Err.
Proof. exact AuthFullProofs.FullOE.base_only_creator. Qed.

(* ---- token-merge minter, full handler `TokenMerge.step` ---- *)
Theorem C05_full_token_merge_reserved_handlers_reject_non_admin : forall minter now st caller,
  caller <> TokenMerge.tm_admin st ->
  (forall recipient funds pick, TokenMerge.step minter now (TokenMerge.OMintTo caller recipient funds pick) st = Err) /\
  (forall token_id recipient funds, TokenMerge.step minter now (TokenMerge.OMintFor caller token_id recipient funds) st = Err) /\
  (forall funds, TokenMerge.step minter now (TokenMerge.OBurnRemaining caller funds) st = Err) /\
  (forall t funds, TokenMerge.step minter now (TokenMerge.OUpdStart caller t funds) st = Err) /\
  (forall limit funds, TokenMerge.step minter now (TokenMerge.OUpdLimit caller limit funds) st = Err).
Proof. exact AuthFullProofs.FullTM.tm_nonadmin_rejected. Qed.

Theorem C05_full_token_merge_admin_never_changes :
  (forall minter now op st st' msgs,
     TokenMerge.step minter now op st = Ok (st', msgs) -> TokenMerge.tm_admin st' = TokenMerge.tm_admin st) /\
  (forall minter history sg,
     TokenMerge.tm_admin (fst (TokenMerge.grun minter history sg)) = TokenMerge.tm_admin (fst sg)).
Proof. exact (conj AuthFullProofs.FullTM.tm_admin_constant AuthFullProofs.FullTM.tm_admin_constant_run). Qed.

(* ---- collections, full handler `Collection.step` (all four collection types) ---- *)
(* mint, trading time, offering and renouncing the minter role: only the current
   cw-ownable owner; accepting: only the proposed owner *)
Theorem C05_full_collection_mint_and_trading_time_only_minter : forall ct self e s,
  Collection.o_owner (Collection.own s) <> Some (Collection.sender e) ->
  (forall id owner uri, Collection.step ct self e (Collection.OMint id owner uri) s = Err) /\
  (forall t, Collection.step ct self e (Collection.OStartTrading t) s = Err) /\
  (forall new_owner expiry, Collection.step ct self e (Collection.OOwnTransfer new_owner expiry) s = Err) /\
  Collection.step ct self e Collection.OOwnRenounce s = Err.
Proof. exact AuthFullProofs.FullColl.coll_minter_only. Qed.

Theorem C05_full_collection_accept_only_proposed_minter : forall ct self e s,
  Collection.o_pending (Collection.own s) <> Some (Collection.sender e) ->
  Collection.step ct self e Collection.OOwnAccept s = Err.
Proof. exact AuthFullProofs.FullColl.coll_accept_only_pending. Qed.

(* after transfer + accept the new owner is the minter and the old one can neither mint
   nor set the trading time *)
Theorem C05_full_collection_minter_after_handover : forall ct self e1 e2 s b expiry,
  Collection.supports ct Collection.OOwnAccept = true ->
  Collection.o_owner (Collection.own s) = Some (Collection.sender e1) -> Collection.sender e2 = b ->
  (forall x, expiry = Some x -> Collection.is_expired (Collection.now e2) x = false) ->
  exists s1 s2,
    Collection.step ct self e1 (Collection.OOwnTransfer b expiry) s = Ok (s1, []) /\
    Collection.step ct self e2 Collection.OOwnAccept s1 = Ok (s2, []) /\
    Collection.o_owner (Collection.own s2) = Some b /\
    (Collection.sender e1 <> b -> forall e3 id owner uri t,
       Collection.sender e3 = Collection.sender e1 ->
       Collection.step ct self e3 (Collection.OMint id owner uri) s2 = Err /\
       Collection.step ct self e3 (Collection.OStartTrading t) s2 = Err).
Proof. exact AuthFullProofs.FullColl.coll_ownership_handover. Qed.

(* collection-info, freeze and token-metadata updates only for the creator *)
Theorem C05_full_collection_info_freeze_metadata_only_creator : forall ct self e s,
  Collection.ci_creator (Collection.info s) <> Collection.sender e ->
  (forall m, Collection.step ct self e (Collection.OUpdateInfo m) s = Err) /\
  Collection.step ct self e Collection.OFreezeInfo s = Err /\
  (forall id uri, Collection.step ct self e (Collection.OUpdateTokenMd id uri) s = Err) /\
  Collection.step ct self e Collection.OFreezeTokenMd s = Err /\
  Collection.step ct self e Collection.OEnableUpdatable s = Err.
Proof. exact AuthFullProofs.FullColl.coll_creator_only. Qed.

(* creator hand-over: the accepted update came from the creator, the named account is the
   creator afterwards and the old one is refused *)
Theorem C05_full_collection_creator_after_handover : forall ct self e m s s' msgs c,
  Collection.step ct self e (Collection.OUpdateInfo m) s = Ok (s', msgs) -> Collection.u_creator m = Some c ->
  Collection.ci_creator (Collection.info s) = Collection.sender e /\
  Collection.ci_creator (Collection.info s') = c /\
  (c <> Collection.sender e -> forall e', Collection.sender e' = Collection.sender e ->
     (forall m', Collection.step ct self e' (Collection.OUpdateInfo m') s' = Err) /\
     Collection.step ct self e' Collection.OFreezeInfo s' = Err).
Proof. exact AuthFullProofs.FullColl.coll_creator_handover. Qed.

(* frozen => rejected for everyone, through every later history *)
Theorem C05_full_collection_frozen_rejects_everyone :
  (forall ct self e m s, Collection.frozen s = true -> Collection.step ct self e (Collection.OUpdateInfo m) s = Err) /\
  (forall ct self e id uri s, Collection.md_frozen s = true ->
     Collection.step ct self e (Collection.OUpdateTokenMd id uri) s = Err) /\
  (forall ct self calls s, Collection.frozen s = true -> Collection.frozen (Collection.run ct self s calls) = true) /\
  (forall ct self calls s, Collection.md_frozen s = true -> Collection.md_frozen (Collection.run ct self s calls) = true).
Proof.
  exact (conj AuthFullProofs.FullColl.coll_frozen_rejects (conj AuthFullProofs.FullColl.coll_md_frozen_rejects
        (conj AuthFullProofs.FullColl.coll_frozen_forever AuthFullProofs.FullColl.coll_md_frozen_forever))).
Qed.

(* tokens, with expiring approvals and operators (which Auth.v does not model) *)
Theorem C05_full_collection_token_moves_only_for_holder_or_approved : forall ct self e id s,
  (forall t, Collection.tfind id (Collection.tokens s) = Some t ->
             Collection.check_can_send (Collection.now e) (Collection.sender e) s t = false) ->
  (forall to, Collection.step ct self e (Collection.OTransfer to id) s = Err) /\
  (forall to receiver_accepts, Collection.step ct self e (Collection.OSend to id receiver_accepts) s = Err) /\
  Collection.step ct self e (Collection.OBurn id) s = Err.
Proof. exact AuthFullProofs.FullColl.coll_token_ops. Qed.

Theorem C05_full_collection_approvals_only_for_holder_or_operator : forall ct self e id spender s,
  (forall t, Collection.tfind id (Collection.tokens s) = Some t ->
             Collection.check_can_approve (Collection.now e) (Collection.sender e) s t = false) ->
  (forall expiry, Collection.step ct self e (Collection.OApprove spender id expiry) s = Err) /\
  Collection.step ct self e (Collection.ORevoke spender id) s = Err.
Proof. exact AuthFullProofs.FullColl.coll_approval_ops. Qed.

(* ---- whitelists: plain, flex, Merkle — full handler `Wl.exec` ---- *)
Theorem C05_full_whitelist_changes_only_for_admins : forall (valid : addr -> bool) self e w,
  Wl.is_admin (Wl.e_sender e) w = false ->
  (forall t, Wl.exec valid self e (Wl.OUpdStart t) w = Err) /\
  (forall t, Wl.exec valid self e (Wl.OUpdEnd t) w = Err) /\
  (forall members, Wl.exec valid self e (Wl.OAdd members) w = Err) /\
  (forall members, Wl.exec valid self e (Wl.ORemove members) w = Err) /\
  (forall limit, Wl.exec valid self e (Wl.OUpdPal limit) w = Err) /\
  (forall admins, Wl.exec valid self e (Wl.OUpdAdmins admins) w = Err) /\
  Wl.exec valid self e Wl.OFreeze w = Err.
Proof. exact AuthFullProofs.FullWl.wl_admin_only. Qed.

Theorem C05_full_whitelist_admin_list_needs_can_modify : forall (valid : addr -> bool) self e o w w' msgs,
  Wl.exec valid self e o w = Ok (w', msgs) ->
  match o with
  | Wl.OUpdAdmins l =>
      (Wl.w_mutable w && Wl.is_admin (Wl.e_sender e) w = true) /\ Wl.w_admins w' = l /\ Wl.w_mutable w' = Wl.w_mutable w
  | Wl.OFreeze =>
      (Wl.w_mutable w && Wl.is_admin (Wl.e_sender e) w = true) /\ Wl.w_admins w' = Wl.w_admins w /\ Wl.w_mutable w' = false
  | _ => Wl.w_admins w' = Wl.w_admins w /\ Wl.w_mutable w' = Wl.w_mutable w
  end /\ Wl.w_kind w' = Wl.w_kind w.
Proof. exact AuthFullProofs.FullWl.wl_exec_admins. Qed.

Theorem C05_full_whitelist_frozen_forever : forall (valid : addr -> bool) self history w,
  Wl.w_mutable w = false ->
  (forall e l, Wl.exec valid self e (Wl.OUpdAdmins l) w = Err) /\
  (forall e, Wl.exec valid self e Wl.OFreeze w = Err) /\
  Wl.w_admins (Wl.run valid self history w) = Wl.w_admins w /\
  Wl.w_mutable (Wl.run valid self history w) = false.
Proof. exact AuthFullProofs.FullWl.wl_frozen_statement. Qed.

(* ---- tiered and tiered-flex whitelists, full handler `WlTiered.t_exec` ---- *)
Theorem C05_full_tiered_whitelist_changes_only_for_admins : forall (valid : addr -> bool) self e w,
  WlTiered.t_is_admin (Wl.e_sender e) w = false ->
  (forall stage members, WlTiered.t_exec valid self e (WlTiered.TAdd stage members) w = Err) /\
  (forall stage members, WlTiered.t_exec valid self e (WlTiered.TRemove stage members) w = Err) /\
  (forall stage members, WlTiered.t_exec valid self e (WlTiered.TAddStage stage members) w = Err) /\
  (forall stage, WlTiered.t_exec valid self e (WlTiered.TRemoveStage stage) w = Err) /\
  (forall stage start end_ limit, WlTiered.t_exec valid self e (WlTiered.TUpdStage stage start end_ limit) w = Err) /\
  (forall admins, WlTiered.t_exec valid self e (WlTiered.TUpdAdmins admins) w = Err) /\
  WlTiered.t_exec valid self e WlTiered.TFreeze w = Err.
Proof. exact AuthFullProofs.FullTiered.tiered_admin_only. Qed.

Theorem C05_full_tiered_whitelist_frozen_forever : forall (valid : addr -> bool) self history w,
  WlTiered.t_mutable w = false ->
  (forall e l, WlTiered.t_exec valid self e (WlTiered.TUpdAdmins l) w = Err) /\
  (forall e, WlTiered.t_exec valid self e WlTiered.TFreeze w = Err) /\
  WlTiered.t_admins (WlTiered.t_run valid self history w) = WlTiered.t_admins w /\
  WlTiered.t_mutable (WlTiered.t_run valid self history w) = false.
Proof. exact AuthFullProofs.FullTiered.tiered_frozen_statement. Qed.

(* ---- the stage and member handlers of the three tiered kinds incl. Merkle, `Stages.step`
   (C13_only_admins_change_anything in this property's wording) ---- *)
Theorem C05_full_stage_messages_only_for_admins : forall w now o,
  Stages.is_admin w
    (match o with
     | Stages.AddStage s _ _ | Stages.RemoveStage s _ | Stages.UpdateStage s _ _ _ _ _ _ _
     | Stages.AddMembers s _ _ | Stages.RemoveMembers s _ _ => s
     end) = false ->
  Stages.step w now o = Err.
Proof. exact AuthFullProofs.FullStages.stages_admin_only. Qed.

(* ---- splits, full world `Splits.step` (cw4-group and bank included) ---- *)
Theorem C05_full_splits_distribute_only_admin_or_member_without_admin : forall w s denoms,
  (Splits.can_distribute w s = true <->
     match Splits.w_admin w with
     | Some a => a = s
     | None => exists m, In m (Splits.w_members w) /\ Splits.m_addr m = s
     end) /\
  (Splits.can_distribute w s = false ->
     Splits.distribute w s denoms = Err /\ Splits.step w (Splits.Distribute s denoms) = Err) /\
  (forall a, Splits.w_admin w = Some a -> s <> a -> Splits.step w (Splits.Distribute s denoms) = Err) /\
  (Splits.w_admin w = None -> (forall m, In m (Splits.w_members w) -> Splits.m_addr m <> s) ->
     Splits.step w (Splits.Distribute s denoms) = Err).
Proof. exact AuthFullProofs.FullSplits.splits_distribute_statement. Qed.

Theorem C05_full_splits_admin_changes_only_by_admin :
  (forall w s new_admin, Splits.w_admin w <> Some s -> Splits.step w (Splits.UpdateAdmin s new_admin) = Err) /\
  (forall w o w', Splits.step w o = Ok w' -> Splits.w_admin w' <> Splits.w_admin w ->
     exists s na, o = Splits.UpdateAdmin s na /\ Splits.w_admin w = Some s /\ Splits.w_admin w' = na).
Proof. exact (conj AuthFullProofs.FullSplits.splits_update_admin_only_admin AuthFullProofs.FullSplits.splits_admin_frame). Qed.

(* ---- factories (Params.v): CreateMinter is `params -> request -> result unit`, it has no
   successor parameters; over any interleaving of governance updates and user creations
   the parameters are those after the governance updates alone — instantiated for the
   four factories ---- *)
Theorem C05_full_factory_params_move_only_by_sudo :
  (forall calls p, AuthFullProofs.FullFactory.frun Params.base_sudo Params.base_create p calls
                   = Params.apply_seq Params.base_sudo p (AuthFullProofs.FullFactory.gov_only calls)) /\
  (forall calls p, AuthFullProofs.FullFactory.frun Params.vending_sudo Params.vending_create p calls
                   = Params.apply_seq Params.vending_sudo p (AuthFullProofs.FullFactory.gov_only calls)) /\
  (forall calls p, AuthFullProofs.FullFactory.frun Params.oe_sudo Params.oe_create p calls
                   = Params.apply_seq Params.oe_sudo p (AuthFullProofs.FullFactory.gov_only calls)) /\
  (forall calls p, AuthFullProofs.FullFactory.frun Params.tm_sudo Params.tm_create p calls
                   = Params.apply_seq Params.tm_sudo p (AuthFullProofs.FullFactory.gov_only calls)).
Proof. exact AuthFullProofs.FullFactory.four_factories. Qed.

(* ---- model/Auth.v agrees with the full models ---- *)
(* Whatever a full handler accepts, Auth.v authorizes from the abstracted state (and its
   principals afterwards are the abstraction of the full model's next state); hence a call
   Auth.v refuses is refused by the full handler — the Part 2 table is sound for them. *)
Theorem C05_auth_model_agrees_vending : forall vr s e fp wv o s' msgs creator status params,
  step vr s e fp wv o = Ok (s', msgs) ->
  minter_step FVending (mkMS (s_admin s) creator status params) (e_sender e) (AuthFullProofs.FullVending.kind_of o)
  = Ok (mkMS (s_admin s') creator status params).
Proof. exact AuthFullProofs.FullVending.vending_agrees. Qed.

Theorem C05_auth_model_agrees_open_edition : forall vr s e fp wv o s' msgs creator status params,
  MinterOpen.ostep vr s e fp wv o = Ok (s', msgs) ->
  minter_step FOpenEdition (mkMS (MinterOpen.o_admin s) creator status params) (e_sender e) (AuthFullProofs.FullOE.kind_of o)
  = Ok (mkMS (MinterOpen.o_admin s') creator status params).
Proof. exact AuthFullProofs.FullOE.oe_agrees. Qed.

Theorem C05_auth_model_agrees_base_minter : forall s e creator fee_bps o s' msgs c status params,
  MinterOpen.bstep s e creator fee_bps o = Ok (s', msgs) -> creator = Some c ->
  minter_step FBase (mkMS 0 c status params) (e_sender e)
    (match o with MinterOpen.BMint _ => KMint | MinterOpen.BUpdateStartTradingTime _ => KUpdateStartTradingTime end)
  = Ok (mkMS 0 c status params).
Proof. exact AuthFullProofs.FullOE.base_agrees. Qed.

Theorem C05_auth_model_agrees_token_merge : forall minter now op st st' msgs creator status params,
  TokenMerge.step minter now op st = Ok (st', msgs) ->
  minter_step FTokenMerge (mkMS (TokenMerge.tm_admin st) creator status params)
              (AuthFullProofs.FullTM.op_caller op) (AuthFullProofs.FullTM.kind_of op)
  = Ok (mkMS (TokenMerge.tm_admin st') creator status params).
Proof. exact AuthFullProofs.FullTM.tm_agrees. Qed.

(* collections: the role-reserved messages that do not touch the token table (trading
   time, collection info, freezes, the three ownership actions, enable); `abs` keeps
   ownership, creator and the three flags *)
Theorem C05_auth_model_agrees_collection : forall ct self e o s s' msgs c height,
  Collection.step ct self e o s = Ok (s', msgs) -> AuthFullProofs.FullColl.msg_abs o = Some c ->
  coll_step (AuthFullProofs.FullColl.kind_abs ct) (AuthFullProofs.FullColl.abs s)
            (mkAE (Collection.now e) height) (Collection.sender e) c
  = Ok (AuthFullProofs.FullColl.abs s').
Proof. exact AuthFullProofs.FullColl.coll_agrees. Qed.

Theorem C05_auth_model_agrees_whitelist : forall (valid : addr -> bool) self e o w w' msgs,
  Wl.exec valid self e o w = Ok (w', msgs) ->
  wl_step (AuthFullProofs.FullWl.kind_abs (Wl.w_kind w)) (mkWS (Wl.w_admins w) (Wl.w_mutable w)) (Wl.e_sender e)
          (AuthFullProofs.FullWl.msg_abs o)
  = Ok (mkWS (Wl.w_admins w') (Wl.w_mutable w')).
Proof. exact AuthFullProofs.FullWl.wl_agrees. Qed.

Theorem C05_auth_model_agrees_splits :
  (forall w s, splits_step (AuthFullProofs.FullSplits.abs w) s SDistribute = Err <-> Splits.can_distribute w s = false) /\
  (forall w s denoms w', Splits.step w (Splits.Distribute s denoms) = Ok w' ->
     splits_step (AuthFullProofs.FullSplits.abs w) s SDistribute = Ok (AuthFullProofs.FullSplits.abs w')) /\
  (forall w s na,
     match Splits.step w (Splits.UpdateAdmin s na), splits_step (AuthFullProofs.FullSplits.abs w) s (SUpdateAdmin na) with
     | Ok w', Ok a' => a' = AuthFullProofs.FullSplits.abs w'
     | Err, Err => True
     | _, _ => False
     end).
Proof.
  exact (conj AuthFullProofs.FullSplits.splits_agrees_distribute
        (conj AuthFullProofs.FullSplits.splits_agrees_distribute_ok AuthFullProofs.FullSplits.splits_agrees_update_admin)).
Qed.

(* ====================================================================== *)
(* non-vacuity                                                             *)
(* ====================================================================== *)
Definition ex_fp : fparams := mkFP 50 0 1000 0 0 10000 500 50 604800.
Definition ex_s0 : vstate :=
  mkVS 10 None 3 2 None 1000 100 0 None 3 [(1, 2); (2, 3); (3, 1)] [] 0 [] [] [] [] [] 0 0 0 0 0 None.
Definition vplain := mkVariant false false false.

(* the admin (10) lowers the price, airdrops and burns; the same calls by 11 are refused *)
Example C05_ex_vending_admin_succeeds_stranger_fails :
  (is_ok (step vplain ex_s0 (mkEnv 500 10 [] 20) ex_fp None (OUpdateMintPrice 90)),
   is_ok (step vplain ex_s0 (mkEnv 500 11 [] 20) ex_fp None (OUpdateMintPrice 90)),
   is_ok (step vplain ex_s0 (mkEnv 500 10 [] 20) ex_fp None (OMintTo true 12 1)),
   is_ok (step vplain ex_s0 (mkEnv 500 11 [] 20) ex_fp None (OMintTo true 12 1)),
   is_ok (step vplain ex_s0 (mkEnv 500 10 [] 20) ex_fp None OBurnRemaining),
   is_ok (step vplain ex_s0 (mkEnv 500 11 [] 20) ex_fp None OBurnRemaining))
  = (true, false, true, false, true, false).
Proof. vm_compute. reflexivity. Qed.

(* a collection: minter 21, creator 10, token 1 held by 12 (spender 15 approved, 16 an
   operator of 12).  Offer to 20, acceptance, creator hand-over to 11, freeze. *)
Definition ex_c0 : cstate :=
  mkCS (mkOwn (Some 21) None None) 10 false false true [mkTok 1 12 [15]; mkTok 2 10 []] [(12, 16)].
Definition ex_env := mkAE 1000 5.
Definition ex_hist : list (aenv * addr * amsg) :=
  [ (ex_env, 21, CM (CUpdateOwnership (TransferOwnership 20 None)));
    (ex_env, 13, CM (CUpdateOwnership AcceptOwnership));          (* a stranger: refused *)
    (ex_env, 20, CM (CUpdateOwnership AcceptOwnership));
    (ex_env, 21, CM (CMint 9 13));                                (* the old minter: refused *)
    (ex_env, 20, CM (CMint 9 13));
    (ex_env, 10, CM (CUpdateCollectionInfo (Some 11)));
    (ex_env, 10, CM CFreezeCollectionInfo);                       (* the old creator: refused *)
    (ex_env, 11, CM CFreezeCollectionInfo);
    (ex_env, 11, CM (CUpdateCollectionInfo (Some 10)));           (* frozen: refused *)
    (ex_env, 16, CM (CTransferNft 1 13));                         (* the operator may move token 1 *)
    (ex_env, 12, CM (CBurn 1)) ].                                 (* no longer the holder: refused *)
Example C05_ex_collection_history :
  run_auth (AColl Sg721Base ex_c0) ex_hist =
  AColl Sg721Base (mkCS (mkOwn (Some 20) None None) 11 true false true
                        [mkTok 1 13 []; mkTok 2 10 []; mkTok 9 13 []] [(12, 16)]).
Proof. vm_compute. reflexivity. Qed.

(* a whitelist with admins 17, 18: 18 replaces the list, 17 is now refused, 19 freezes,
   nobody can change the list any more; a stranger may still pay for capacity *)
Example C05_ex_whitelist_history :
  (run_auth (AWl WPlain (mkWS [17; 18] true))
     [ (ex_env, 13, WM (WOp WAddMembers)); (ex_env, 18, WM (WUpdateAdmins [18; 19]));
       (ex_env, 17, WM WFreeze); (ex_env, 19, WM WFreeze); (ex_env, 18, WM (WUpdateAdmins [17])) ],
   is_ok (auth_step (AWl WPlain (mkWS [18; 19] false)) ex_env 18 (WM (WOp WAddMembers))),
   is_ok (auth_step (AWl WPlain (mkWS [18; 19] false)) ex_env 13 (WM (WOp WAddMembers))),
   is_ok (auth_step (AWl WPlain (mkWS [18; 19] false)) ex_env 13 (WM (WOp WIncreaseMemberLimit))))
  = (AWl WPlain (mkWS [18; 19] false), true, false, true).
Proof. vm_compute. reflexivity. Qed.

(* splits: with admin 21 a member (23) is refused; without admin the member may, a
   non-member (25) may not *)
Example C05_ex_splits :
  (is_ok (splits_step (mkSS (Some 21) [23; 24]) 21 SDistribute),
   is_ok (splits_step (mkSS (Some 21) [23; 24]) 23 SDistribute),
   is_ok (splits_step (mkSS None [23; 24]) 23 SDistribute),
   is_ok (splits_step (mkSS None [23; 24]) 25 SDistribute),
   is_ok (splits_step (mkSS None [23; 24]) 23 (SUpdateAdmin (Some 23))))
  = (true, false, true, false, false).
Proof. vm_compute. reflexivity. Qed.

Print Assumptions C05_vending_reserved_handlers_reject_non_admin.
Print Assumptions C05_vending_reserved_kinds.
Print Assumptions C05_vending_admin_never_changes.
Print Assumptions C05_vending_admin_never_changes_history.
Print Assumptions C05_vending_non_admin_rejected_in_every_reachable_state.
Print Assumptions C05_table.
Print Assumptions C05_table_in_every_reachable_state.
Print Assumptions C05_table_rows.
Print Assumptions C05_minter_reserved_handlers_table.
Print Assumptions C05_minter_reserved_only_admin.
Print Assumptions C05_base_minter_only_collection_creator.
Print Assumptions C05_minter_execute_keeps_admin_status_params.
Print Assumptions C05_factory_execute_keeps_params.
Print Assumptions C05_no_history_of_user_messages_changes_params_or_status.
Print Assumptions C05_sudo_message_through_execute_rejected.
Print Assumptions C05_collection_mint_and_trading_time_only_minter.
Print Assumptions C05_collection_accept_only_proposed_minter.
Print Assumptions C05_ownership_actions.
Print Assumptions C05_ownership_after_handover.
Print Assumptions C05_lapsed_offer_cannot_be_accepted.
Print Assumptions C05_renounced_minter_role_is_gone_forever.
Print Assumptions C05_collection_info_freeze_metadata_only_creator.
Print Assumptions C05_collection_principals_move_only_by_their_owner.
Print Assumptions C05_creator_after_handover.
Print Assumptions C05_frozen_collection_info_rejects_everyone.
Print Assumptions C05_frozen_token_metadata_rejects_everyone.
Print Assumptions C05_collection_freezes_are_forever.
Print Assumptions C05_token_moves_only_for_holder_or_approved.
Print Assumptions C05_token_approvals_only_for_holder_or_operator.
Print Assumptions C05_sg721_nt_message_set.
Print Assumptions C05_whitelist_changes_only_for_admins.
Print Assumptions C05_whitelist_admin_list_frozen.
Print Assumptions C05_whitelist_frozen_forever.
Print Assumptions C05_whitelist_principals_move_only_by_admins.
Print Assumptions C05_splits_distribute_exactly_for.
Print Assumptions C05_splits_distribute_rejected_otherwise.
Print Assumptions C05_splits_admin_changes_only_by_admin.
Print Assumptions C05_no_user_message_changes_status_or_params.
Print Assumptions C05_migrate_only_wasm_admin_and_frame.
Print Assumptions C05_airdrop_claim_only_signed_wallet.
Print Assumptions C05_instantiate_requires_contract_sender.
Print Assumptions C05_instantiate_decided_by_sender_not_by_named_minter.
Print Assumptions C05_refused_changes_nothing.
Print Assumptions C05_full_oe_reserved_handlers_reject_non_admin.
Print Assumptions C05_full_oe_admin_never_changes.
Print Assumptions C05_full_oe_non_admin_rejected_in_every_reachable_state.
Print Assumptions C05_full_base_minter_only_collection_creator.
Print Assumptions C05_full_token_merge_reserved_handlers_reject_non_admin.
Print Assumptions C05_full_token_merge_admin_never_changes.
Print Assumptions C05_full_collection_mint_and_trading_time_only_minter.
Print Assumptions C05_full_collection_accept_only_proposed_minter.
Print Assumptions C05_full_collection_minter_after_handover.
Print Assumptions C05_full_collection_info_freeze_metadata_only_creator.
Print Assumptions C05_full_collection_creator_after_handover.
Print Assumptions C05_full_collection_frozen_rejects_everyone.
Print Assumptions C05_full_collection_token_moves_only_for_holder_or_approved.
Print Assumptions C05_full_collection_approvals_only_for_holder_or_operator.
Print Assumptions C05_full_whitelist_changes_only_for_admins.
Print Assumptions C05_full_whitelist_admin_list_needs_can_modify.
Print Assumptions C05_full_whitelist_frozen_forever.
Print Assumptions C05_full_tiered_whitelist_changes_only_for_admins.
Print Assumptions C05_full_tiered_whitelist_frozen_forever.
Print Assumptions C05_full_stage_messages_only_for_admins.
Print Assumptions C05_full_splits_distribute_only_admin_or_member_without_admin.
Print Assumptions C05_full_splits_admin_changes_only_by_admin.
Print Assumptions C05_full_factory_params_move_only_by_sudo.
Print Assumptions C05_auth_model_agrees_vending.
Print Assumptions C05_auth_model_agrees_open_edition.
Print Assumptions C05_auth_model_agrees_base_minter.
Print Assumptions C05_auth_model_agrees_token_merge.
Print Assumptions C05_auth_model_agrees_collection.
Print Assumptions C05_auth_model_agrees_whitelist.
Print Assumptions C05_auth_model_agrees_splits.
Print Assumptions C05_ex_vending_admin_succeeds_stranger_fails.
Print Assumptions C05_ex_collection_history.
Print Assumptions C05_ex_whitelist_history.
Print Assumptions C05_ex_splits.
