(* C05 placeholder; statements follow. *)
From LP Require Import Auth.
