(* C12 — Whitelist schedules stay well-formed and cannot be bent once started.
   Plain, flex and Merkle whitelists (model: coq/model/Wl.v, one state tagged with the
   kind).  ONLY statements, with the documented numbers written out; every theorem holds
   for every `addr_validate` oracle, every contract address, every clock value and every
   history of calls (accepted or rejected).  The genesis mint time is
   1647032400000000000 ns (2022-03-11 21:00:00 UTC). *)
From LP Require Import Wl Consts WlSchedProofs.
Import ListNotations.
Local Open Scope N_scope.
Local Transparent GENESIS.

Theorem C12_genesis_constant : sg_utils__GENESIS_MINT_START_TIME = 1647032400000000000.
Proof. reflexivity. Qed.

(* creation: exactly the requested window; start <= end; start not before genesis;
   start strictly in the future *)
Theorem C12_created_in_future_and_well_formed :
  forall (valid : addr -> bool) (self : addr) k e m w ms,
  inst valid k self e m = Ok (w, ms) ->
  w_kind w = k /\ w_start w = i_start m /\ w_end w = i_end m /\
  e_now e < w_start w /\ 1647032400000000000 <= w_start w /\ w_start w <= w_end w.
Proof. exact inst_sched. Qed.

(* genesis <= start <= end after every accepted call, at every clock value *)
Theorem C12_schedule_invariant_step :
  forall (valid : addr -> bool) self e o w w' ms,
  exec valid self e o w = Ok (w', ms) ->
  1647032400000000000 <= w_start w /\ w_start w <= w_end w ->
  1647032400000000000 <= w_start w' /\ w_start w' <= w_end w'.
Proof. exact exec_sched_inv. Qed.

(* ... hence after every history of calls following a successful creation *)
Theorem C12_schedule_invariant_history :
  forall (valid : addr -> bool) self k e m w ms (h : list (env * op)),
  inst valid k self e m = Ok (w, ms) ->
  (1647032400000000000 <= w_start (run valid self h w) /\
   w_start (run valid self h w) <= w_end (run valid self h w)) /\
  w_kind (run valid self h w) = k.
Proof. exact inst_run_sched. Qed.

(* what an accepted call does to the window and what it must leave alone:
   update_start_time needs "not started" and new start <= end, and stores the new start
   clamped up to genesis; update_end_time needs start <= new end, and new end <= old end
   once started; no other call touches the window; no call changes the kind *)
Theorem C12_call_effect_on_window :
  forall (valid : addr -> bool) self e o w w' ms,
  exec valid self e o w = Ok (w', ms) ->
  w_kind w' = w_kind w /\
  match o with
  | OUpdStart t =>
      w_start w' = N.max t 1647032400000000000 /\ w_end w' = w_end w /\
      e_now e < w_start w /\ t <= w_end w
  | OUpdEnd t =>
      w_end w' = t /\ w_start w' = w_start w /\ w_start w <= t /\
      (w_start w <= e_now e -> t <= w_end w)
  | _ => w_start w' = w_start w /\ w_end w' = w_end w
  end.
Proof. exact exec_sched_effect. Qed.

(* once started (now >= start): any accepted call leaves the start where it is, does not
   move the end later, and keeps start <= end *)
Theorem C12_started_window_only_shrinks :
  forall (valid : addr -> bool) self e o w w' ms,
  exec valid self e o w = Ok (w', ms) ->
  1647032400000000000 <= w_start w /\ w_start w <= w_end w ->
  w_start w <= e_now e ->
  w_start w' = w_start w /\ w_end w' <= w_end w /\ w_start w' <= w_end w'.
Proof. exact started_window_fixed. Qed.

Theorem C12_started_start_change_rejected :
  forall (valid : addr -> bool) self e t w,
  w_start w <= e_now e -> exec valid self e (OUpdStart t) w = Err.
Proof. exact started_start_rejected. Qed.

Theorem C12_started_extension_rejected :
  forall (valid : addr -> bool) self e t w,
  w_start w <= e_now e -> w_end w < t -> exec valid self e (OUpdEnd t) w = Err.
Proof. exact started_extend_rejected. Qed.

Theorem C12_end_before_start_rejected :
  forall (valid : addr -> bool) self e t w,
  t < w_start w -> exec valid self e (OUpdEnd t) w = Err.
Proof. exact end_before_start_rejected. Qed.

(* once started, remove_members is rejected whatever the list and the sender ... *)
Theorem C12_started_no_removal :
  forall (valid : addr -> bool) self e l w,
  w_start w <= e_now e -> exec valid self e (ORemove l) w = Err.
Proof. exact started_no_removal. Qed.

(* ... and no accepted call of any kind makes a stored member disappear *)
Theorem C12_started_members_kept :
  forall (valid : addr -> bool) self e o w w' ms a,
  exec valid self e o w = Ok (w', ms) -> w_start w <= e_now e ->
  m_has a (w_mem w) = true -> m_has a (w_mem w') = true.
Proof. exact started_members_kept. Qed.

(* the same over the whole remaining history of a started whitelist (every later call
   happens at a clock value >= start; rejected calls change nothing) *)
Theorem C12_started_history :
  forall (valid : addr -> bool) self (h : list (env * op)) w,
  1647032400000000000 <= w_start w /\ w_start w <= w_end w ->
  (forall eo, In eo h -> w_start w <= e_now (fst eo)) ->
  w_start (run valid self h w) = w_start w /\
  w_end (run valid self h w) <= w_end w /\
  w_start w <= w_end (run valid self h w) /\
  (forall a, m_has a (w_mem w) = true -> m_has a (w_mem (run valid self h w)) = true).
Proof. exact run_started. Qed.

(* schedule changes, removals and per-address-limit updates need an admin *)
Theorem C12_schedule_calls_need_admin :
  forall (valid : addr -> bool) self e o w,
  is_admin (e_sender e) w = false ->
  match o with
  | OUpdStart _ | OUpdEnd _ | ORemove _ | OUpdPal _ => exec valid self e o w = Err
  | _ => True
  end.
Proof. exact sched_needs_admin. Qed.

(* activity flags at every instant *)
Theorem C12_is_active_iff : forall now w, q_active now w = true <-> w_start w <= now /\ now < w_end w.
Proof. exact active_iff. Qed.
Theorem C12_has_started_iff : forall now w, q_started now w = true <-> w_start w <= now.
Proof. exact started_iff. Qed.
Theorem C12_has_ended_iff : forall now w, q_ended now w = true <-> w_end w <= now.
Proof. exact ended_iff. Qed.
Theorem C12_config_reports_same_activity :
  forall now w, q_config now w = (w_num w, w_pal w, w_limit w, w_start w, w_end w, q_active now w).
Proof. exact config_window. Qed.

(* activity follows the schedule alone: whatever the stored members and the member count
   are replaced by (the empty list and 0 included), IsActive, HasStarted, HasEnded and
   Config.is_active answer the same *)
Theorem C12_activity_ignores_members :
  forall now w num mem,
  q_active now (set_members w num mem) = q_active now w /\
  q_started now (set_members w num mem) = q_started now w /\
  q_ended now (set_members w num mem) = q_ended now w /\
  snd (q_config now (set_members w num mem)) = snd (q_config now w).
Proof. exact activity_ignores_members. Qed.

(* ---- non-vacuity: concrete whitelists of each kind, a bent-then-moved schedule, the
   genesis clamp, and the boundary instants ---- *)
Definition ex_valid (a : addr) : bool := 60 <=? a.
Definition G : N := 1647032400000000000.
Definition ex_msg : imsg := mkImsg [(100, 1); (101, 2)] (G + 100) (G + 200) 2 10 None [60; 61] true true.
Definition ex_env (now : N) (fee : N) : env := mkEnv now 60 [mkCoin NATIVE fee].
Definition ex_call (now : N) (o : op) : env * op := (mkEnv now 60 [], o).

Example C12_ex_created_each_kind :
  is_ok (inst ex_valid KPlain 5 (ex_env (G + 1) 100000000) ex_msg) = true /\
  is_ok (inst ex_valid KFlex 5 (ex_env (G + 1) 100000000) ex_msg) = true /\
  is_ok (inst ex_valid KMerkle 5 (ex_env (G + 1) 1000000000) ex_msg) = true /\
  (* start = now, start > end, start < genesis are refused *)
  is_ok (inst ex_valid KPlain 5 (ex_env (G + 100) 100000000) ex_msg) = false /\
  is_ok (inst ex_valid KFlex 5 (ex_env (G + 1) 100000000)
           (mkImsg [] (G + 201) (G + 200) 2 10 None [60] true true)) = false /\
  is_ok (inst ex_valid KMerkle 5 (ex_env (G - 9) 1000000000)
           (mkImsg [] (G - 1) (G + 200) 2 10 None [60] true true)) = false.
Proof. vm_compute. repeat split. Qed.

Definition ex_w (k : kind) : wl :=
  match inst ex_valid k 5 (ex_env (G + 1) (if kind_eqb k KMerkle then 1000000000 else 100000000)) ex_msg with
  | Ok (w, _) => w
  | Err => mkWl k 0 0 0 0 0 None [] false []
  end.

(* shorten the end, move the start up to it; after the start: start frozen, end only
   earlier, removal refused *)
Example C12_ex_history :
  let w := run ex_valid 5
             [ex_call (G + 2) (OUpdEnd (G + 150)); ex_call (G + 3) (OUpdStart (G + 151));
              ex_call (G + 4) (OUpdStart (G + 150)); ex_call (G + 150) (OUpdStart (G + 160));
              ex_call (G + 150) (OUpdEnd (G + 151)); ex_call (G + 150) (ORemove [100]);
              ex_call (G + 150) (OUpdEnd (G + 150))] (ex_w KPlain) in
  (w_start w, w_end w, w_num w) = (G + 150, G + 150, 2).
Proof. vm_compute. reflexivity. Qed.

Example C12_ex_clamp :
  w_start (run ex_valid 5 [ex_call (G + 2) (OUpdStart 5)] (ex_w KMerkle)) = G.
Proof. vm_compute. reflexivity. Qed.

Example C12_ex_flags_at_boundaries :
  let w := ex_w KFlex in
  (q_active (G + 99) w, q_active (G + 100) w, q_active (G + 199) w, q_active (G + 200) w) = (false, true, true, false) /\
  (q_started (G + 99) w, q_started (G + 100) w, q_ended (G + 199) w, q_ended (G + 200) w) = (false, true, false, true).
Proof. vm_compute. split; reflexivity. Qed.

Print Assumptions C12_genesis_constant.
Print Assumptions C12_created_in_future_and_well_formed.
Print Assumptions C12_schedule_invariant_step.
Print Assumptions C12_schedule_invariant_history.
Print Assumptions C12_call_effect_on_window.
Print Assumptions C12_started_window_only_shrinks.
Print Assumptions C12_started_start_change_rejected.
Print Assumptions C12_started_extension_rejected.
Print Assumptions C12_end_before_start_rejected.
Print Assumptions C12_started_no_removal.
Print Assumptions C12_started_members_kept.
Print Assumptions C12_started_history.
Print Assumptions C12_schedule_calls_need_admin.
Print Assumptions C12_is_active_iff.
Print Assumptions C12_has_started_iff.
Print Assumptions C12_has_ended_iff.
Print Assumptions C12_config_reports_same_activity.
Print Assumptions C12_activity_ignores_members.
