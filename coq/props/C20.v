(* C20 — Migrations never downgrade, never cross contract types, and preserve state.
   Statements only, with the documented values written out: code version 3.16.0, the
   contract names, the four identities sg721-updatable accepts, earliest compatible
   version 0.16.0, thresholds 3.9.0 / 3.0.0 / 3.1.0, 12 h = 43 200 000 000 000 ns and
   24 h = 86 400 000 000 000 ns.
   Bound: versions are MAJOR.MINOR.PATCH; pre-release / build suffixes are outside the
   model (parse_version answers None for them). *)
From Coq Require Import String Ascii.
From LP Require Import Semver Migrate Params MigrateParams Consts SemverProofs SemverInj MigrateProofs MigrateHistory MigrateParamsProofs.
Import ListNotations.
Local Open Scope N_scope.

(* ---- the constants the theorems below are about ---- *)
Theorem C20_code_version : forall c, parse_version (code_version_string c) = Some (3, 16, 0).
Proof. exact code_version_all. Qed.

Theorem C20_workspace_version : workspace_version_triple = (3, 16, 0) /\ workspace_version = "3.16.0"%string.
Proof. split; reflexivity. Qed.

Theorem C20_names :
  own_name VendingMinter = "crates.io:sg-minter"%string /\
  own_name VendingMinterFeatured = "crates.io:sg-minter"%string /\
  own_name VendingMinterWlFlex = "crates.io:sg-vending-minter-flex"%string /\
  own_name VendingMinterWlFlexFeatured = "crates.io:sg-vending-minter-flex"%string /\
  own_name VendingMinterMerkleWl = "crates.io:sg-minter"%string /\
  own_name VendingMinterMerkleWlFeatured = "crates.io:sg-minter"%string /\
  own_name OpenEditionMinter = "crates.io:sg-open-edition-minter"%string /\
  own_name OpenEditionMinterWlFlex = "crates.io:sg-open-edition-minter-flex"%string /\
  own_name OpenEditionMinterMerkleWl = "crates.io:sg-open-edition-minter"%string /\
  own_name TokenMergeMinter = "crates.io:sg-minter"%string /\
  own_name BaseFactory = "crates.io:sg-base-factory"%string /\
  own_name VendingFactory = "crates.io:vending-factory"%string /\
  own_name OpenEditionFactory = "crates.io:open-edition-factory"%string /\
  own_name TokenMergeFactory = "crates.io:token-merge-factory"%string /\
  own_name Splits = "crates.io:sg-splits"%string /\
  own_name WhitelistMerkletree = "crates.io:whitelist-merkletree"%string /\
  own_name TieredWhitelistMerkletree = "crates.io:tiered-whitelist-merkletree"%string /\
  own_name Sg721Updatable = "crates.io:sg721-updatable"%string.
Proof. exact own_names. Qed.

Theorem C20_accepted_identities : forall c,
  accepted_names c =
  match c with
  | Sg721Updatable => ["sg721-base"; "crates.io:sg721-base"; "sg721-updatable"; "crates.io:sg721-updatable"]%string
  | _ => [own_name c]
  end.
Proof. destruct c; reflexivity. Qed.

(* ---- semantic-version order ---- *)
Theorem C20_ver_lt_is_numeric : forall a1 a2 a3 b1 b2 b3,
  ver_ltb (a1, a2, a3) (b1, b2, b3) = true <->
  a1 < b1 \/ (a1 = b1 /\ (a2 < b2 \/ (a2 = b2 /\ a3 < b3))).
Proof. intros. exact (ver_ltb_spec (a1, a2, a3) (b1, b2, b3)). Qed.

Theorem C20_ver_order_strict_total : forall a b,
  (ver_ltb a b = true /\ ver_eqb a b = false /\ ver_ltb b a = false) \/
  (ver_ltb a b = false /\ ver_eqb a b = true /\ ver_ltb b a = false) \/
  (ver_ltb a b = false /\ ver_eqb a b = false /\ ver_ltb b a = true).
Proof. exact ver_trichotomy. Qed.

Theorem C20_ver_lt_trans : forall a b c, ver_ltb a b = true -> ver_ltb b c = true -> ver_ltb a c = true.
Proof. exact ver_ltb_trans. Qed.

Theorem C20_ver_eqb_eq : forall a b, ver_eqb a b = true <-> a = b.
Proof. exact ver_eqb_eq. Qed.

Theorem C20_ver_leb_total_order : forall a b c,
  ver_leb a a = true /\
  (ver_leb a b = true -> ver_leb b c = true -> ver_leb a c = true) /\
  (ver_leb a b = true -> ver_leb b a = true -> a = b) /\
  (ver_leb a b = true \/ ver_leb b a = true).
Proof. exact ver_leb_total_order. Qed.

(* 3.9.0 is older than 3.16.0 although the string "3.16.0" sorts before "3.9.0" *)
Theorem C20_semver_not_string_order :
  parse_version "3.9.0" = Some (3, 9, 0) /\ parse_version "3.16.0" = Some (3, 16, 0) /\
  ver_ltb (3, 9, 0) (3, 16, 0) = true /\ str_ltb "3.16.0" "3.9.0" = true /\ str_ltb "3.9.0" "3.16.0" = false.
Proof. exact semver_not_string_order. Qed.

(* what `parse_version` accepts: exactly three dot-separated parts, digits and dots only,
   each number within u64.  The model's stated bound (pre-release "-rc.1" and build
   "+abc" suffixes answer None) is therefore a theorem about the model: no string
   containing any other character parses. *)
Theorem C20_parse_version_shape : forall s x y z,
  parse_version s = Some (x, y, z) ->
  length (split_dot s) = 3%nat /\
  all_chars (fun c => is_dot c || is_digit c) s = true /\
  x <= U64_MAX /\ y <= U64_MAX /\ z <= U64_MAX.
Proof. exact parse_version_shape. Qed.

Theorem C20_parse_version_rejects_other_chars : forall s c,
  is_dot c = false -> is_digit c = false ->
  (exists pre post, s = (pre ++ String c post)%string) -> parse_version s = None.
Proof. exact parse_version_rejects_other_chars. Qed.

Theorem C20_parse_num_leading_zero : forall c r,
  parse_num (String "0"%char (String c r)) = None.
Proof. exact parse_num_leading_zero. Qed.

Example C20_parse_version_boundaries :
  parse_version "3.9.0-rc.1" = None /\ parse_version "3.9.0+build" = None /\
  parse_version "03.9.0" = None /\ parse_version "3.9" = None /\ parse_version "3.9.0.1" = None /\
  parse_version "18446744073709551615.0.0" = Some (U64_MAX, 0, 0) /\
  parse_version "18446744073709551616.0.0" = None.
Proof. exact parse_version_prerelease_rejected. Qed.

(* the spelling of a version is canonical: two strings that parse to the same version are
   the same string, so equality of stored cw2 version strings is equality of versions
   (ordering is not: C20_semver_not_string_order) *)
Theorem C20_parse_version_canonical : forall s t v,
  parse_version s = Some v -> parse_version t = Some v -> s = t.
Proof. exact parse_version_inj. Qed.

(* ---- accepted exactly when ... (one theorem per class of migrate function) ---- *)
(* open-edition minters, token-merge minter, splits, the two Merkle whitelists *)
Theorem C20_simple_ok_iff : forall c now msg st, kind_of c = KSimple ->
  (is_ok (migrate c now msg st) = true <->
   c_name st = own_name c /\
   exists v, parse_version (c_version st) = Some v /\ ver_ltb (3, 16, 0) v = false).
Proof. exact simple_ok_iff. Qed.

(* the six vending minters: additionally the block time must allow `now - 12 h` when
   the discount cooldown anchor is initialised (stored version below 3.9.0) *)
Theorem C20_vending_ok_iff : forall c now msg st, kind_of c = KVending ->
  (is_ok (migrate c now msg st) = true <->
   c_name st = own_name c /\
   exists v, parse_version (c_version st) = Some v /\ ver_ltb (3, 16, 0) v = false /\
             (v <> (3, 16, 0) -> ver_ltb v (3, 9, 0) = true -> 43200000000000 <= now)).
Proof. exact vending_ok_iff. Qed.

(* the four factories: additionally a supplied parameter message must be acceptable *)
Theorem C20_factory_ok_iff : forall c now msg st, kind_of c = KFactory ->
  (is_ok (migrate c now msg st) = true <->
   c_name st = own_name c /\
   exists v, parse_version (c_version st) = Some v /\ ver_ltb (3, 16, 0) v = false /\
             match msg with None => True | Some m => fmsg_ok c m = true end).
Proof. exact factory_ok_iff. Qed.

(* sg721-updatable: four accepted identities, not older than 0.16.0, not "same name and
   same version", the cw721 0.16 minter item must exist below 3.0.0, `now - 24 h` below 3.1.0 *)
Theorem C20_updatable_ok_iff : forall now msg st,
  (is_ok (migrate Sg721Updatable now msg st) = true <->
   In (c_name st) ["sg721-base"; "crates.io:sg721-base"; "sg721-updatable"; "crates.io:sg721-updatable"]%string /\
   exists v, parse_version (c_version st) = Some v /\ ver_ltb (3, 16, 0) v = false /\
             ver_ltb v (0, 16, 0) = false /\
             ~ (v = (3, 16, 0) /\ c_name st = "crates.io:sg721-updatable"%string) /\
             (ver_ltb v (3, 0, 0) = true -> s_legacy_minter (c_slots st) <> None) /\
             (ver_ltb v (3, 1, 0) = true -> 86400000000000 <= now)).
Proof. exact updatable_ok_iff. Qed.

(* ---- never a downgrade, never a foreign identity, never an unparsable version ---- *)
Theorem C20_never_newer : forall c now msg st,
  is_ok (migrate c now msg st) = true ->
  exists v, parse_version (c_version st) = Some v /\ ver_ltb (3, 16, 0) v = false.
Proof. exact migrate_never_newer. Qed.

Theorem C20_never_foreign : forall c now msg st,
  is_ok (migrate c now msg st) = true -> In (c_name st) (accepted_names c).
Proof. exact migrate_never_foreign. Qed.

Theorem C20_unparsable_refused : forall c now msg st,
  parse_version (c_version st) = None -> migrate c now msg st = Err.
Proof. exact migrate_unparsable. Qed.

(* every older or equal version of the contract's own identity is accepted (block time
   at least 12 h, no factory message) *)
Theorem C20_accepts_older : forall c now st v,
  kind_of c <> KUpdatable ->
  c_name st = own_name c -> parse_version (c_version st) = Some v -> ver_ltb (3, 16, 0) v = false ->
  43200000000000 <= now ->
  is_ok (migrate c now None st) = true.
Proof. exact accepts_older. Qed.

(* ---- over histories: any sequence of migrate attempts (block time, optional factory
   message) on one contract, refused attempts leaving the state as it is ---- *)
Theorem C20_history_never_downgrades : forall c l st v,
  parse_version (c_version st) = Some v ->
  exists v', parse_version (c_version (fold_left (mig_step c) l st)) = Some v' /\ ver_ltb v' v = false.
Proof. exact migrate_history_never_downgrades. Qed.

Theorem C20_history_unparsable_stuck : forall c l st,
  parse_version (c_version st) = None -> fold_left (mig_step c) l st = st.
Proof. exact migrate_history_unparsable_stuck. Qed.

Theorem C20_history_name : forall c l st,
  c_name (fold_left (mig_step c) l st) = c_name st \/
  c_name (fold_left (mig_step c) l st) = own_name c.
Proof. exact migrate_history_name. Qed.

(* a migration is applied once *)
Theorem C20_migrate_once_then_fixed : forall c now msg st st' p l,
  kind_of c <> KFactory -> migrate c now msg st = Ok (st', p) ->
  fold_left (mig_step c) l st' = st'.
Proof. exact migrate_once_then_fixed. Qed.

Theorem C20_at_code_version_nothing_changes : forall c l st,
  c_name st = own_name c -> parse_version (c_version st) = Some (3, 16, 0) ->
  fold_left (mig_step c) l st = st.
Proof. exact mig_fold_at_code. Qed.

Example C20_ex_history_vending :
  let st := mkState "crates.io:sg-minter" "3.8.9" (mkSlots None None None None None None None (Some 5)) in
  let st' := fold_left (mig_step VendingMinter) [(100000000000000, None); (7, None); (200000000000000, None)] st in
  c_version st' = "3.16.0"%string /\ s_last_discount (c_slots st') = Some (100000000000000 - 43200000000000) /\
  s_mintable (c_slots st') = Some 5.
Proof. vm_compute. repeat split; reflexivity. Qed.

(* ---- recorded version afterwards ---- *)
Theorem C20_post_version : forall c now msg st st' p,
  kind_of c <> KFactory ->
  migrate c now msg st = Ok (st', p) ->
  c_name st' = own_name c /\ parse_version (c_version st') = Some (3, 16, 0) /\ p = false.
Proof. exact post_version_nonfactory. Qed.

(* factories leave the recorded identity, version and every slot as they were; their
   parameters can change only when a message was supplied *)
Theorem C20_post_factory : forall c now msg st st' p,
  kind_of c = KFactory ->
  migrate c now msg st = Ok (st', p) ->
  st' = st /\ (p = true -> msg <> None).
Proof. exact post_factory. Qed.

(* ---- state preserved, with the exact exception list ---- *)
Theorem C20_state_preserved : forall c now msg st st' p,
  migrate c now msg st = Ok (st', p) ->
  exists v, parse_version (c_version st) = Some v /\
  let sl := c_slots st in
  let sl' := c_slots st' in
  (* discount cooldown anchor: vending minters coming from below 3.9.0 *)
  s_last_discount sl' =
    (if match kind_of c with KVending => negb (ver_eqb v (3, 16, 0)) && ver_ltb v (3, 9, 0) | _ => false end
     then Some (now - 43200000000000) else s_last_discount sl) /\
  (* updatable flags: sg721-updatable coming from an sg721-base identity *)
  s_frozen_meta sl' =
    (if match kind_of c with KUpdatable => name_in (c_name st) ["sg721-base"; "crates.io:sg721-base"]%string | _ => false end
     then Some false else s_frozen_meta sl) /\
  s_enable_updatable sl' =
    (if match kind_of c with KUpdatable => name_in (c_name st) ["sg721-base"; "crates.io:sg721-base"]%string | _ => false end
     then Some false else s_enable_updatable sl) /\
  (* royalty timestamp: sg721-updatable coming from below 3.1.0 *)
  s_royalty_at sl' =
    (if match kind_of c with KUpdatable => ver_ltb v (3, 1, 0) | _ => false end
     then Some (now - 86400000000000) else s_royalty_at sl) /\
  (* cw721 0.17 upgrade below 3.0.0: the legacy minter item becomes the owner *)
  s_legacy_minter sl' =
    (if match kind_of c with KUpdatable => ver_ltb v (3, 0, 0) | _ => false end
     then None else s_legacy_minter sl) /\
  s_owner sl' =
    (if match kind_of c with KUpdatable => ver_ltb v (3, 0, 0) | _ => false end
     then s_legacy_minter sl else s_owner sl) /\
  (* the governance-set minter status is never touched *)
  s_status sl' = s_status sl /\
  (* the supply counter MINTABLE_NUM_TOKENS is never touched *)
  s_mintable sl' = s_mintable sl /\
  (* factory parameters: only with a supplied message *)
  (p = true -> kind_of c = KFactory /\ msg <> None).
Proof. exact state_preserved. Qed.

Definition ex_slots_f : slots := mkSlots None None None None None None None None.

(* what governance set with sudo UpdateStatus (verified / blocked / explicit) is the same
   after every accepted migration, whatever the contract, stored identity and version *)
Theorem C20_status_preserved : forall c now msg st st' p,
  migrate c now msg st = Ok (st', p) -> s_status (c_slots st') = s_status (c_slots st).
Proof. exact status_preserved. Qed.

(* what is left to mint is the same after every accepted migration: a capped edition whose
   remaining supply was burned (counter 0 although cap - minted > 0) stays closed *)
Theorem C20_mintable_preserved : forall c now msg st st' p,
  migrate c now msg st = Ok (st', p) -> s_mintable (c_slots st') = s_mintable (c_slots st).
Proof. exact mintable_preserved. Qed.

(* the scenario of a capped open edition after BurnRemaining (cap 12, 4 minted, counter 0),
   migrated from an older stored version: the counter stays 0 *)
Example C20_ex_burned_edition_stays_closed :
  migrate OpenEditionMinterMerkleWl 1700000100000000000 None
          (mkState "crates.io:sg-open-edition-minter" "3.15.0" (mkSlots None None None None None None (Some (false, false, false)) (Some 0))) =
  Ok (mkState "crates.io:sg-open-edition-minter" "3.16.0" (mkSlots None None None None None None (Some (false, false, false)) (Some 0)), false).
Proof. vm_compute. reflexivity. Qed.

(* ---- parameters supplied with a factory migration: field by field ----
   `unwrap_or o d` = the supplied value when the field was supplied, else the previous
   one.  Code ids: additions before removals (set level); with neither supplied the set
   of allowed ids is the previous one. *)
Theorem C20_base_migrate_params_frame : forall p m p', base_migrate_params p m = Ok p' ->
  cp_code_id p' = unwrap_or (cm_code_id m) (cp_code_id p) /\
  cp_frozen p' = unwrap_or (cm_frozen m) (cp_frozen p) /\
  cp_creation_fee p' = unwrap_or (cm_creation_fee m) (cp_creation_fee p) /\
  cp_min_mint_price p' = unwrap_or (cm_min_mint_price m) (cp_min_mint_price p) /\
  cp_mint_fee_bps p' = unwrap_or (cm_mint_fee_bps m) (cp_mint_fee_bps p) /\
  cp_offset p' = unwrap_or (cm_offset m) (cp_offset p) /\
  (forall x, In x (cp_allowed p') <->
             (In x (cp_allowed p) \/ In x (unwrap_or (cm_add m) [])) /\ ~ In x (unwrap_or (cm_rm m) [])) /\
  (cm_add m = None -> cm_rm m = None -> forall x, In x (cp_allowed p') <-> In x (cp_allowed p)).
Proof. exact base_migrate_frame. Qed.

Theorem C20_vending_migrate_params_frame : forall p m p', vending_migrate_params p m = Ok p' ->
  (let c := vp_common p in let c' := vp_common p' in let cm := vm_common m in
   cp_code_id c' = unwrap_or (cm_code_id cm) (cp_code_id c) /\
   cp_frozen c' = unwrap_or (cm_frozen cm) (cp_frozen c) /\
   cp_creation_fee c' = unwrap_or (cm_creation_fee cm) (cp_creation_fee c) /\
   cp_min_mint_price c' = unwrap_or (cm_min_mint_price cm) (cp_min_mint_price c) /\
   cp_mint_fee_bps c' = unwrap_or (cm_mint_fee_bps cm) (cp_mint_fee_bps c) /\
   cp_offset c' = unwrap_or (cm_offset cm) (cp_offset c) /\
   (forall x, In x (cp_allowed c') <->
              (In x (cp_allowed c) \/ In x (unwrap_or (cm_add cm) [])) /\ ~ In x (unwrap_or (cm_rm cm) [])) /\
   (cm_add cm = None -> cm_rm cm = None -> forall x, In x (cp_allowed c') <-> In x (cp_allowed c))) /\
  let x := vp_ext p in let x' := vp_ext p' in let xm := vm_ext m in
  vx_max_token_limit x' = unwrap_or (vxm_max_token_limit xm) (vx_max_token_limit x) /\
  vx_max_per_address_limit x' = unwrap_or (vxm_max_per_address_limit xm) (vx_max_per_address_limit x) /\
  vx_airdrop_mint_price x' = unwrap_or (vxm_airdrop_mint_price xm) (vx_airdrop_mint_price x) /\
  vx_airdrop_mint_fee_bps x' = unwrap_or (vxm_airdrop_mint_fee_bps xm) (vx_airdrop_mint_fee_bps x) /\
  vx_shuffle_fee x' = unwrap_or (vxm_shuffle_fee xm) (vx_shuffle_fee x).
Proof. exact vending_migrate_frame. Qed.

Theorem C20_oe_migrate_params_frame : forall p m p', oe_migrate_params p m = Ok p' ->
  (let c := op_common p in let c' := op_common p' in let cm := om_common m in
   cp_code_id c' = unwrap_or (cm_code_id cm) (cp_code_id c) /\
   cp_frozen c' = unwrap_or (cm_frozen cm) (cp_frozen c) /\
   cp_creation_fee c' = unwrap_or (cm_creation_fee cm) (cp_creation_fee c) /\
   cp_min_mint_price c' = unwrap_or (cm_min_mint_price cm) (cp_min_mint_price c) /\
   cp_mint_fee_bps c' = unwrap_or (cm_mint_fee_bps cm) (cp_mint_fee_bps c) /\
   cp_offset c' = unwrap_or (cm_offset cm) (cp_offset c) /\
   (forall x, In x (cp_allowed c') <->
              (In x (cp_allowed c) \/ In x (unwrap_or (cm_add cm) [])) /\ ~ In x (unwrap_or (cm_rm cm) [])) /\
   (cm_add cm = None -> cm_rm cm = None -> forall x, In x (cp_allowed c') <-> In x (cp_allowed c))) /\
  let x := op_ext p in let x' := op_ext p' in let xm := om_ext m in
  ox_max_token_limit x' = unwrap_or (oxm_max_token_limit xm) (ox_max_token_limit x) /\
  ox_max_per_address_limit x' = unwrap_or (oxm_max_per_address_limit xm) (ox_max_per_address_limit x) /\
  ox_airdrop_mint_fee_bps x' = unwrap_or (oxm_airdrop_mint_fee_bps xm) (ox_airdrop_mint_fee_bps x) /\
  ox_airdrop_mint_price x' = unwrap_or (oxm_airdrop_mint_price xm) (ox_airdrop_mint_price x) /\
  ox_dev_fee_address x' = unwrap_or (oxm_dev_fee_address xm) (ox_dev_fee_address x).
Proof. exact oe_migrate_frame. Qed.

(* token-merge-factory: a migration never touches code_id, the code-id list, frozen,
   creation_fee, max_trading_offset_secs (supplied or not); the five extension fields
   follow the message *)
Theorem C20_tm_migrate_params_frame : forall p m p', tm_migrate_params p m = Ok p' ->
  tp_code_id p' = tp_code_id p /\ tp_allowed p' = tp_allowed p /\ tp_frozen p' = tp_frozen p /\
  tp_creation_fee p' = tp_creation_fee p /\ tp_offset p' = tp_offset p /\
  let xm := tm_ext m in
  tp_max_token_limit p' = unwrap_or (vxm_max_token_limit xm) (tp_max_token_limit p) /\
  tp_max_per_address_limit p' = unwrap_or (vxm_max_per_address_limit xm) (tp_max_per_address_limit p) /\
  tp_airdrop_mint_price p' = unwrap_or (vxm_airdrop_mint_price xm) (tp_airdrop_mint_price p) /\
  tp_airdrop_mint_fee_bps p' = unwrap_or (vxm_airdrop_mint_fee_bps xm) (tp_airdrop_mint_fee_bps p) /\
  tp_shuffle_fee p' = unwrap_or (vxm_shuffle_fee xm) (tp_shuffle_fee p).
Proof. exact tm_migrate_frame. Qed.

(* base / vending / open-edition treat a supplied message exactly like sudo UpdateParams *)
Theorem C20_vending_migrate_params_is_sudo : forall p m, vending_migrate_params p m = vending_sudo p m.
Proof. exact vending_migrate_is_sudo. Qed.
Theorem C20_oe_migrate_params_is_sudo : forall p m, oe_migrate_params p m = oe_sudo p m.
Proof. exact oe_migrate_is_sudo. Qed.

(* the whole migration of a factory: cw2 info and slots stay, parameters stay without a
   message and are the parameter half's result with one; accepted iff the gate passes
   (own name, parsable stored version not newer than 3.16.0) and the message is acceptable *)
Theorem C20_factory_migrate_whole : forall (P M : Type) c (upd : P -> M -> result P),
  kind_of c = KFactory ->
  forall now st p msg st' p',
  factory_migrate c upd now st p msg = Ok (st', p') ->
  st' = st /\ is_ok (migrate c now None st) = true /\
  match msg with None => p' = p | Some m => upd p m = Ok p' end.
Proof. exact factory_migrate_inv. Qed.

Theorem C20_factory_migrate_ok_iff : forall (P M : Type) c (upd : P -> M -> result P) now st p msg,
  is_ok (factory_migrate c upd now st p msg) = true <->
  is_ok (migrate c now None st) = true /\
  match msg with None => True | Some m => is_ok (upd p m) = true end.
Proof. exact factory_migrate_ok_iff. Qed.

Theorem C20_factory_gate : forall c now st, kind_of c = KFactory ->
  (is_ok (migrate c now None st) = true <->
   c_name st = own_name c /\
   exists v, parse_version (c_version st) = Some v /\ ver_ltb (3, 16, 0) v = false).
Proof. exact factory_gate. Qed.

Example C20_ex_oe_migrate_keeps_unsupplied_airdrop_bps :
  oe_factory_migrate 5 (mkState "crates.io:open-edition-factory" "3.15.0" ex_slots_f)
    (mkOP (mkCP 7 [1; 3; 5] false (mkCoin 0 5000000001) (mkCoin 0 50000002) 1003 604804)
          (mkOX 10005 56 9008 (mkCoin 0 100000007) 200))
    (Some (mkOM (mkCM None None None None None None (Some 2013) None) (mkOXM None None None None None None))) =
  Ok (mkState "crates.io:open-edition-factory" "3.15.0" ex_slots_f,
      mkOP (mkCP 7 [1; 3; 5] false (mkCoin 0 5000000001) (mkCoin 0 50000002) 2013 604804)
           (mkOX 10005 56 9008 (mkCoin 0 100000007) 200)).
Proof. vm_compute. reflexivity. Qed.

(* ---- non-vacuity ---- *)
Definition ex_slots : slots := mkSlots (Some 1700000000000000000) None None None None None (Some (false, true, true)) (Some 16).
Example C20_ex_vending_from_3_8_9 :
  migrate VendingMinter 1700000100000000000 None (mkState "crates.io:sg-minter" "3.8.9" ex_slots) =
  Ok (mkState "crates.io:sg-minter" "3.16.0" (mkSlots (Some 1699956900000000000) None None None None None (Some (false, true, true)) (Some 16)), false).
Proof. vm_compute. reflexivity. Qed.
Example C20_ex_vending_from_3_9_0_keeps_anchor :
  migrate VendingMinter 1700000100000000000 None (mkState "crates.io:sg-minter" "3.9.0" ex_slots) =
  Ok (mkState "crates.io:sg-minter" "3.16.0" ex_slots, false).
Proof. vm_compute. reflexivity. Qed.
Example C20_ex_newer_refused :
  migrate VendingMinter 1700000100000000000 None (mkState "crates.io:sg-minter" "3.17.0" ex_slots) = Err.
Proof. vm_compute. reflexivity. Qed.
Example C20_ex_foreign_refused :
  migrate Splits 1700000100000000000 None (mkState "crates.io:sg-minter" "3.15.0" ex_slots) = Err.
Proof. vm_compute. reflexivity. Qed.
Example C20_ex_updatable_from_base :
  migrate Sg721Updatable 1700000100000000000 None
          (mkState "crates.io:sg721-base" "3.0.5" (mkSlots None None None (Some 5) None (Some 11) None None)) =
  Ok (mkState "crates.io:sg721-updatable" "3.16.0"
              (mkSlots None (Some false) (Some false) (Some 1699913700000000000) None (Some 11) None None), false).
Proof. vm_compute. reflexivity. Qed.
Example C20_ex_factory_keeps_version :
  migrate VendingFactory 5 (Some (mkFmsg false false false)) (mkState "crates.io:vending-factory" "2.1.0" ex_slots) =
  Ok (mkState "crates.io:vending-factory" "2.1.0" ex_slots, true).
Proof. vm_compute. reflexivity. Qed.

Print Assumptions C20_code_version.
Print Assumptions C20_simple_ok_iff.
Print Assumptions C20_vending_ok_iff.
Print Assumptions C20_factory_ok_iff.
Print Assumptions C20_updatable_ok_iff.
Print Assumptions C20_never_newer.
Print Assumptions C20_never_foreign.
Print Assumptions C20_post_version.
Print Assumptions C20_post_factory.
Print Assumptions C20_state_preserved.
Print Assumptions C20_status_preserved.
Print Assumptions C20_mintable_preserved.
Print Assumptions C20_semver_not_string_order.
Print Assumptions C20_base_migrate_params_frame.
Print Assumptions C20_vending_migrate_params_frame.
Print Assumptions C20_oe_migrate_params_frame.
Print Assumptions C20_tm_migrate_params_frame.
Print Assumptions C20_factory_migrate_whole.
Print Assumptions C20_factory_migrate_ok_iff.
Print Assumptions C20_parse_version_shape.
Print Assumptions C20_parse_version_rejects_other_chars.
Print Assumptions C20_parse_num_leading_zero.
Print Assumptions C20_parse_version_boundaries.
Print Assumptions C20_parse_version_canonical.
Print Assumptions C20_history_never_downgrades.
Print Assumptions C20_history_unparsable_stuck.
Print Assumptions C20_history_name.
Print Assumptions C20_ex_history_vending.
Print Assumptions C20_migrate_once_then_fixed.
Print Assumptions C20_at_code_version_nothing_changes.
Print Assumptions C20_ver_leb_total_order.
