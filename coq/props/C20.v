(* C20 — Migrations never downgrade, never cross contract types, and preserve state.
   Statements only, with the documented values written out: code version 3.16.0, the
   contract names, the four identities sg721-updatable accepts, earliest compatible
   version 0.16.0, thresholds 3.9.0 / 3.0.0 / 3.1.0, 12 h = 43 200 000 000 000 ns and
   24 h = 86 400 000 000 000 ns.
   Bound: versions are MAJOR.MINOR.PATCH; pre-release / build suffixes are outside the
   model (parse_version answers None for them). *)
From Coq Require Import String.
From LP Require Import Semver Migrate Consts SemverProofs MigrateProofs.
Import ListNotations.
Local Open Scope N_scope.

(* ---- the constants the theorems below are about ---- *)
Theorem C20_code_version : forall c, parse_version (code_version_string c) = Some (3, 16, 0).
Proof. exact code_version_all. Qed.

Theorem C20_workspace_version : workspace_version_triple = (3, 16, 0) /\ workspace_version = "3.16.0"%string.
Proof. split; reflexivity. Qed.

Theorem C20_names :
  own_name VendingMinter = "crates.io:sg-minter"%string /\
  own_name VendingMinterFeatured = "crates.io:sg-minter"%string /\
  own_name VendingMinterWlFlex = "crates.io:sg-vending-minter-flex"%string /\
  own_name VendingMinterWlFlexFeatured = "crates.io:sg-vending-minter-flex"%string /\
  own_name VendingMinterMerkleWl = "crates.io:sg-minter"%string /\
  own_name VendingMinterMerkleWlFeatured = "crates.io:sg-minter"%string /\
  own_name OpenEditionMinter = "crates.io:sg-open-edition-minter"%string /\
  own_name OpenEditionMinterWlFlex = "crates.io:sg-open-edition-minter-flex"%string /\
  own_name OpenEditionMinterMerkleWl = "crates.io:sg-open-edition-minter"%string /\
  own_name TokenMergeMinter = "crates.io:sg-minter"%string /\
  own_name BaseFactory = "crates.io:sg-base-factory"%string /\
  own_name VendingFactory = "crates.io:vending-factory"%string /\
  own_name OpenEditionFactory = "crates.io:open-edition-factory"%string /\
  own_name TokenMergeFactory = "crates.io:token-merge-factory"%string /\
  own_name Splits = "crates.io:sg-splits"%string /\
  own_name WhitelistMerkletree = "crates.io:whitelist-merkletree"%string /\
  own_name TieredWhitelistMerkletree = "crates.io:tiered-whitelist-merkletree"%string /\
  own_name Sg721Updatable = "crates.io:sg721-updatable"%string.
Proof. exact own_names. Qed.

Theorem C20_accepted_identities : forall c,
  accepted_names c =
  match c with
  | Sg721Updatable => ["sg721-base"; "crates.io:sg721-base"; "sg721-updatable"; "crates.io:sg721-updatable"]%string
  | _ => [own_name c]
  end.
Proof. destruct c; reflexivity. Qed.

(* ---- semantic-version order ---- *)
Theorem C20_ver_lt_is_numeric : forall a1 a2 a3 b1 b2 b3,
  ver_ltb (a1, a2, a3) (b1, b2, b3) = true <->
  a1 < b1 \/ (a1 = b1 /\ (a2 < b2 \/ (a2 = b2 /\ a3 < b3))).
Proof. intros. exact (ver_ltb_spec (a1, a2, a3) (b1, b2, b3)). Qed.

Theorem C20_ver_order_strict_total : forall a b,
  (ver_ltb a b = true /\ ver_eqb a b = false /\ ver_ltb b a = false) \/
  (ver_ltb a b = false /\ ver_eqb a b = true /\ ver_ltb b a = false) \/
  (ver_ltb a b = false /\ ver_eqb a b = false /\ ver_ltb b a = true).
Proof. exact ver_trichotomy. Qed.

Theorem C20_ver_lt_trans : forall a b c, ver_ltb a b = true -> ver_ltb b c = true -> ver_ltb a c = true.
Proof. exact ver_ltb_trans. Qed.

Theorem C20_ver_eqb_eq : forall a b, ver_eqb a b = true <-> a = b.
Proof. exact ver_eqb_eq. Qed.

(* 3.9.0 is older than 3.16.0 although the string "3.16.0" sorts before "3.9.0" *)
Theorem C20_semver_not_string_order :
  parse_version "3.9.0" = Some (3, 9, 0) /\ parse_version "3.16.0" = Some (3, 16, 0) /\
  ver_ltb (3, 9, 0) (3, 16, 0) = true /\ str_ltb "3.16.0" "3.9.0" = true /\ str_ltb "3.9.0" "3.16.0" = false.
Proof. exact semver_not_string_order. Qed.

(* ---- accepted exactly when ... (one theorem per class of migrate function) ---- *)
(* open-edition minters, token-merge minter, splits, the two Merkle whitelists *)
Theorem C20_simple_ok_iff : forall c now msg st, kind_of c = KSimple ->
  (is_ok (migrate c now msg st) = true <->
   c_name st = own_name c /\
   exists v, parse_version (c_version st) = Some v /\ ver_ltb (3, 16, 0) v = false).
Proof. exact simple_ok_iff. Qed.

(* the six vending minters: additionally the block time must allow `now - 12 h` when
   the discount cooldown anchor is initialised (stored version below 3.9.0) *)
Theorem C20_vending_ok_iff : forall c now msg st, kind_of c = KVending ->
  (is_ok (migrate c now msg st) = true <->
   c_name st = own_name c /\
   exists v, parse_version (c_version st) = Some v /\ ver_ltb (3, 16, 0) v = false /\
             (v <> (3, 16, 0) -> ver_ltb v (3, 9, 0) = true -> 43200000000000 <= now)).
Proof. exact vending_ok_iff. Qed.

(* the four factories: additionally a supplied parameter message must be acceptable *)
Theorem C20_factory_ok_iff : forall c now msg st, kind_of c = KFactory ->
  (is_ok (migrate c now msg st) = true <->
   c_name st = own_name c /\
   exists v, parse_version (c_version st) = Some v /\ ver_ltb (3, 16, 0) v = false /\
             match msg with None => True | Some m => fmsg_ok c m = true end).
Proof. exact factory_ok_iff. Qed.

(* sg721-updatable: four accepted identities, not older than 0.16.0, not "same name and
   same version", the cw721 0.16 minter item must exist below 3.0.0, `now - 24 h` below 3.1.0 *)
Theorem C20_updatable_ok_iff : forall now msg st,
  (is_ok (migrate Sg721Updatable now msg st) = true <->
   In (c_name st) ["sg721-base"; "crates.io:sg721-base"; "sg721-updatable"; "crates.io:sg721-updatable"]%string /\
   exists v, parse_version (c_version st) = Some v /\ ver_ltb (3, 16, 0) v = false /\
             ver_ltb v (0, 16, 0) = false /\
             ~ (v = (3, 16, 0) /\ c_name st = "crates.io:sg721-updatable"%string) /\
             (ver_ltb v (3, 0, 0) = true -> s_legacy_minter (c_slots st) <> None) /\
             (ver_ltb v (3, 1, 0) = true -> 86400000000000 <= now)).
Proof. exact updatable_ok_iff. Qed.

(* ---- never a downgrade, never a foreign identity, never an unparsable version ---- *)
Theorem C20_never_newer : forall c now msg st,
  is_ok (migrate c now msg st) = true ->
  exists v, parse_version (c_version st) = Some v /\ ver_ltb (3, 16, 0) v = false.
Proof. exact migrate_never_newer. Qed.

Theorem C20_never_foreign : forall c now msg st,
  is_ok (migrate c now msg st) = true -> In (c_name st) (accepted_names c).
Proof. exact migrate_never_foreign. Qed.

Theorem C20_unparsable_refused : forall c now msg st,
  parse_version (c_version st) = None -> migrate c now msg st = Err.
Proof. exact migrate_unparsable. Qed.

(* every older or equal version of the contract's own identity is accepted (block time
   at least 12 h, no factory message) *)
Theorem C20_accepts_older : forall c now st v,
  kind_of c <> KUpdatable ->
  c_name st = own_name c -> parse_version (c_version st) = Some v -> ver_ltb (3, 16, 0) v = false ->
  43200000000000 <= now ->
  is_ok (migrate c now None st) = true.
Proof. exact accepts_older. Qed.

(* ---- recorded version afterwards ---- *)
Theorem C20_post_version : forall c now msg st st' p,
  kind_of c <> KFactory ->
  migrate c now msg st = Ok (st', p) ->
  c_name st' = own_name c /\ parse_version (c_version st') = Some (3, 16, 0) /\ p = false.
Proof. exact post_version_nonfactory. Qed.

(* factories leave the recorded identity, version and every slot as they were; their
   parameters can change only when a message was supplied *)
Theorem C20_post_factory : forall c now msg st st' p,
  kind_of c = KFactory ->
  migrate c now msg st = Ok (st', p) ->
  st' = st /\ (p = true -> msg <> None).
Proof. exact post_factory. Qed.

(* ---- state preserved, with the exact exception list ---- *)
Theorem C20_state_preserved : forall c now msg st st' p,
  migrate c now msg st = Ok (st', p) ->
  exists v, parse_version (c_version st) = Some v /\
  let sl := c_slots st in
  let sl' := c_slots st' in
  (* discount cooldown anchor: vending minters coming from below 3.9.0 *)
  s_last_discount sl' =
    (if match kind_of c with KVending => negb (ver_eqb v (3, 16, 0)) && ver_ltb v (3, 9, 0) | _ => false end
     then Some (now - 43200000000000) else s_last_discount sl) /\
  (* updatable flags: sg721-updatable coming from an sg721-base identity *)
  s_frozen_meta sl' =
    (if match kind_of c with KUpdatable => name_in (c_name st) ["sg721-base"; "crates.io:sg721-base"]%string | _ => false end
     then Some false else s_frozen_meta sl) /\
  s_enable_updatable sl' =
    (if match kind_of c with KUpdatable => name_in (c_name st) ["sg721-base"; "crates.io:sg721-base"]%string | _ => false end
     then Some false else s_enable_updatable sl) /\
  (* royalty timestamp: sg721-updatable coming from below 3.1.0 *)
  s_royalty_at sl' =
    (if match kind_of c with KUpdatable => ver_ltb v (3, 1, 0) | _ => false end
     then Some (now - 86400000000000) else s_royalty_at sl) /\
  (* cw721 0.17 upgrade below 3.0.0: the legacy minter item becomes the owner *)
  s_legacy_minter sl' =
    (if match kind_of c with KUpdatable => ver_ltb v (3, 0, 0) | _ => false end
     then None else s_legacy_minter sl) /\
  s_owner sl' =
    (if match kind_of c with KUpdatable => ver_ltb v (3, 0, 0) | _ => false end
     then s_legacy_minter sl else s_owner sl) /\
  (* factory parameters: only with a supplied message *)
  (p = true -> kind_of c = KFactory /\ msg <> None).
Proof. exact state_preserved. Qed.

(* ---- non-vacuity ---- *)
Definition ex_slots : slots := mkSlots (Some 1700000000000000000) None None None None None.
Example C20_ex_vending_from_3_8_9 :
  migrate VendingMinter 1700000100000000000 None (mkState "crates.io:sg-minter" "3.8.9" ex_slots) =
  Ok (mkState "crates.io:sg-minter" "3.16.0" (mkSlots (Some 1699956900000000000) None None None None None), false).
Proof. vm_compute. reflexivity. Qed.
Example C20_ex_vending_from_3_9_0_keeps_anchor :
  migrate VendingMinter 1700000100000000000 None (mkState "crates.io:sg-minter" "3.9.0" ex_slots) =
  Ok (mkState "crates.io:sg-minter" "3.16.0" ex_slots, false).
Proof. vm_compute. reflexivity. Qed.
Example C20_ex_newer_refused :
  migrate VendingMinter 1700000100000000000 None (mkState "crates.io:sg-minter" "3.17.0" ex_slots) = Err.
Proof. vm_compute. reflexivity. Qed.
Example C20_ex_foreign_refused :
  migrate Splits 1700000100000000000 None (mkState "crates.io:sg-minter" "3.15.0" ex_slots) = Err.
Proof. vm_compute. reflexivity. Qed.
Example C20_ex_updatable_from_base :
  migrate Sg721Updatable 1700000100000000000 None
          (mkState "crates.io:sg721-base" "3.0.5" (mkSlots None None None (Some 5) None (Some 11))) =
  Ok (mkState "crates.io:sg721-updatable" "3.16.0"
              (mkSlots None (Some false) (Some false) (Some 1699913700000000000) None (Some 11)), false).
Proof. vm_compute. reflexivity. Qed.
Example C20_ex_factory_keeps_version :
  migrate VendingFactory 5 (Some (mkFmsg false false false)) (mkState "crates.io:vending-factory" "2.1.0" ex_slots) =
  Ok (mkState "crates.io:vending-factory" "2.1.0" ex_slots, true).
Proof. vm_compute. reflexivity. Qed.

Print Assumptions C20_code_version.
Print Assumptions C20_simple_ok_iff.
Print Assumptions C20_vending_ok_iff.
Print Assumptions C20_factory_ok_iff.
Print Assumptions C20_updatable_ok_iff.
Print Assumptions C20_never_newer.
Print Assumptions C20_never_foreign.
Print Assumptions C20_post_version.
Print Assumptions C20_post_factory.
Print Assumptions C20_state_preserved.
Print Assumptions C20_semver_not_string_order.
