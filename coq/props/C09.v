(* C09 — Collection tokens: minted only by the minter, ids unique, freezes are final.
   ONLY statements, each closed by `exact <lemma>`, non-vacuity examples and the axiom
   audit.  `ct` ranges over the four collection types (Base = sg721-base, Updatable =
   sg721-updatable, Onchain = sg721-metadata-onchain, NT = sg721-nt); `step` is one call
   of any of the 17 messages from any sender at any time with any funds; `run` is any
   sequence of calls (a failed call leaves the state alone, as on the chain).
   Stated bound: expirations are Never / AtTime (AtHeight is not modelled). *)
From LP Require Import Num Pay Sg1 Consts Semver Collection CollectionProofs.
Import ListNotations.
Local Open Scope N_scope.

(* ---- a token is created only by the minter (the cw-ownable owner), never with an id that
   exists; nothing else about the token table moves *)
Theorem C09_mint_ok : forall ct self e id owner uri s s' ms,
  step ct self e (OMint id owner uri) s = Ok (s', ms) ->
  o_owner (own s) = Some (sender e) /\ tfind id (tokens s) = None /\
  tfind id (tokens s') = Some (mkTok owner [] uri) /\
  (forall id', id' <> id -> tfind id' (tokens s') = tfind id' (tokens s)) /\
  token_count s' = token_count s + 1.
Proof. exact mint_ok. Qed.

Theorem C09_created_only_by_mint : forall ct self e o s s' ms id,
  step ct self e o s = Ok (s', ms) -> tfind id (tokens s) = None -> tfind id (tokens s') <> None ->
  exists owner uri, o = OMint id owner uri /\ o_owner (own s) = Some (sender e).
Proof. exact created_only_by_mint. Qed.

(* the minter itself changes only by the pending owner's accept or the owner's renounce *)
Theorem C09_minter_changes_only_by_handover : forall ct self e o s s' ms,
  step ct self e o s = Ok (s', ms) -> o_owner (own s') <> o_owner (own s) ->
  (o = OOwnAccept /\ o_pending (own s) = Some (sender e) /\ o_owner (own s') = Some (sender e)) \/
  (o = OOwnRenounce /\ o_owner (own s) = Some (sender e) /\ o_owner (own s') = None).
Proof. exact minter_change. Qed.

(* ---- the token count equals the number of existing tokens and ids are unique, in every
   state reachable from a successful instantiation by any sequence of calls *)
Theorem C09_count_inv : forall ct self time0 by_contract funds0 minter c s calls,
  instantiate ct time0 by_contract funds0 minter c = Ok s ->
  token_count (run ct self s calls) = N.of_nat (length (tokens (run ct self s calls))) /\
  NoDup (map fst (tokens (run ct self s calls))).
Proof. exact count_inv_always. Qed.

Theorem C09_count_inv_step : forall ct self e o s s' ms,
  token_count s = N.of_nat (length (tokens s)) -> step ct self e o s = Ok (s', ms) ->
  token_count s' = N.of_nat (length (tokens s')).
Proof. exact count_inv_step. Qed.

(* ---- freezing collection info: only the creator can; afterwards no call, over all
   futures, changes a creator-editable field (creator, description, image, external_link,
   explicit_content, royalty_info) and the flag stays set.  start_trading_time is NOT
   covered: it is edited by the minter (update_start_trading_time ignores the freeze). *)
Theorem C09_freeze_ok : forall ct self e s s' ms,
  step ct self e OFreezeInfo s = Ok (s', ms) ->
  ci_creator (info s) = sender e /\ frozen s' = true /\ info s' = info s /\
  tokens s' = tokens s /\ own s' = own s.
Proof. exact freeze_ok. Qed.

Theorem C09_frozen_is_final_except_start_trading_time : forall ct self calls s,
  frozen s = true ->
  (ci_creator (info (run ct self s calls)), ci_description (info (run ct self s calls)),
   ci_image (info (run ct self s calls)), ci_external_link (info (run ct self s calls)),
   ci_explicit (info (run ct self s calls)), ci_royalty (info (run ct self s calls)))
  = (ci_creator (info s), ci_description (info s), ci_image (info s), ci_external_link (info s),
     ci_explicit (info s), ci_royalty (info s))
  /\ frozen (run ct self s calls) = true.
Proof. exact frozen_is_final. Qed.

(* before a freeze, those fields change only through the creator's own update *)
Theorem C09_creator_fields_change_only_by_creator : forall ct self e o s s' ms,
  step ct self e o s = Ok (s', ms) -> creator_fields s' <> creator_fields s ->
  (exists m, o = OUpdateInfo m) /\ ci_creator (info s) = sender e /\ frozen s = false.
Proof. exact creator_fields_change. Qed.

(* ---- token metadata: an accepted update comes from the creator, on an updatable
   collection with updates enabled and not frozen, for an existing token, without funds;
   it changes that token's URI and nothing else about tokens, info or ownership *)
Theorem C09_update_metadata_ok : forall ct self e id uri s s' ms,
  step ct self e (OUpdateTokenMd id uri) s = Ok (s', ms) ->
  ct = Updatable /\ ci_creator (info s) = sender e /\ md_enabled s = true /\ md_frozen s = false /\
  funds e = [] /\
  exists t, tfind id (tokens s) = Some t /\
            tfind id (tokens s') = Some (mkTok (k_owner t) (k_approvals t) uri) /\
            (forall id', id' <> id -> tfind id' (tokens s') = tfind id' (tokens s)) /\
            token_count s' = token_count s /\ info s' = info s /\ own s' = own s.
Proof. exact update_metadata_ok. Qed.

Theorem C09_freeze_metadata_ok : forall ct self e s s' ms,
  step ct self e OFreezeTokenMd s = Ok (s', ms) ->
  ct = Updatable /\ ci_creator (info s) = sender e /\ md_frozen s' = true /\ tokens s' = tokens s.
Proof. exact freeze_metadata_ok. Qed.

(* once metadata is frozen (and always on the three types without metadata updates) the
   URI of a token is the same in every later state for as long as the token exists
   (alive_through: it is present after every call of the history), and the flag is final *)
Theorem C09_metadata_frozen_final : forall ct self id calls s t,
  (ct <> Updatable \/ md_frozen s = true) ->
  NoDup (map fst (tokens s)) -> tfind id (tokens s) = Some t -> alive_through ct self id s calls ->
  (exists t', tfind id (tokens (run ct self s calls)) = Some t' /\ k_uri t' = k_uri t) /\
  (md_frozen s = true -> md_frozen (run ct self s calls) = true).
Proof. exact metadata_frozen_final. Qed.

(* ---- sg721-nt: a token's owner is the same in every state between its mint and its burn *)
Theorem C09_nt_owner_constant : forall self id calls s t,
  NoDup (map fst (tokens s)) -> tfind id (tokens s) = Some t -> alive_through NT self id s calls ->
  exists t', tfind id (tokens (run NT self s calls)) = Some t' /\ k_owner t' = k_owner t.
Proof. exact nt_owner_constant. Qed.

(* what a single call can do to an existing token, on every type *)
Theorem C09_token_step : forall ct self e o s s' ms id t,
  NoDup (map fst (tokens s)) -> step ct self e o s = Ok (s', ms) -> tfind id (tokens s) = Some t ->
  (o = OBurn id /\ tfind id (tokens s') = None) \/
  exists t', tfind id (tokens s') = Some t' /\
    (k_uri t' = k_uri t \/
     (exists u, o = OUpdateTokenMd id u) /\ ct = Updatable /\ md_frozen s = false /\ md_enabled s = true /\
     ci_creator (info s) = sender e) /\
    (k_owner t' = k_owner t \/
     ((exists to, o = OTransfer to id) \/ (exists to acc, o = OSend to id acc)) /\ ct <> NT).
Proof. exact step_token. Qed.

(* ==== histories that contain migrations ====
   `dstep`/`drun` act on the deployed contract (code it runs, wasm admin, cw2 record,
   state): a transaction is a call (as above) or a migration (to the sg721-updatable code, or with the
   contract's own code), which the chain lets only the admin perform. *)

(* a migration - to the sg721-updatable code (AMigrate) or through the variant's own migrate
   entry point with the code it already runs (AMigrateSelf: Sg721Contract::migrate for
   sg721-base, the sg721-updatable / metadata-onchain / nt migrates) - is the admin's, and
   keeps tokens, count, operators, the minter, collection info and its freeze *)
Theorem C09_migration_keeps_tokens_and_info : forall self e a d d' ms,
  a = AMigrate \/ a = AMigrateSelf ->
  dstep self e a d = Ok (d', ms) ->
  d_admin d = sender e /\
  tokens (d_st d') = tokens (d_st d) /\ token_count (d_st d') = token_count (d_st d) /\
  operators (d_st d') = operators (d_st d) /\ own (d_st d') = own (d_st d) /\
  info (d_st d') = info (d_st d) /\ frozen (d_st d') = frozen (d_st d).
Proof. exact migrate_keeps. Qed.

(* count = number of tokens and ids unique along any history of calls and migrations *)
Theorem C09_count_inv_with_migrations : forall self ct admin time0 by_contract funds0 minter c s txs,
  instantiate ct time0 by_contract funds0 minter c = Ok s ->
  token_count (d_st (drun self (fresh ct admin s) txs))
    = N.of_nat (length (tokens (d_st (drun self (fresh ct admin s) txs)))) /\
  NoDup (map fst (tokens (d_st (drun self (fresh ct admin s) txs)))).
Proof. exact d_count_inv_from_creation. Qed.

Theorem C09_count_inv_with_migrations_any_record : forall self txs d,
  token_count (d_st d) = N.of_nat (length (tokens (d_st d))) -> NoDup (map fst (tokens (d_st d))) ->
  token_count (d_st (drun self d txs)) = N.of_nat (length (tokens (d_st (drun self d txs)))) /\
  NoDup (map fst (tokens (d_st (drun self d txs)))).
Proof. exact d_tokens_ok_run. Qed.

(* the collection-info freeze is final over calls and migrations (start_trading_time excluded) *)
Theorem C09_frozen_is_final_with_migrations : forall self txs d,
  frozen (d_st d) = true ->
  creator_fields (d_st (drun self d txs)) = creator_fields (d_st d) /\
  frozen (d_st (drun self d txs)) = true.
Proof. exact d_frozen_is_final. Qed.

(* once token metadata is frozen on an updatable collection whose cw2 name is one of the
   two sg721-updatable names (never an sg721-base name: migrating from sg721-base rewrites
   the record), no call and no migration - whatever cw2 version is recorded - changes the
   URI of a token while it lives; the collection stays updatable, non-base-named, frozen *)
Theorem C09_metadata_frozen_final_with_migrations : forall self id txs d t,
  d_ct d = Updatable /\ is_base_name (d_name d) = false /\ md_frozen (d_st d) = true ->
  NoDup (map fst (tokens (d_st d))) -> tfind id (tokens (d_st d)) = Some t ->
  d_alive_through self id d txs ->
  (exists t', tfind id (tokens (d_st (drun self d txs))) = Some t' /\ k_uri t' = k_uri t) /\
  (d_ct (drun self d txs) = Updatable /\ is_base_name (d_name (drun self d txs)) = false /\
   md_frozen (d_st (drun self d txs)) = true).
Proof. exact d_metadata_frozen_final. Qed.

(* sg721-nt (cw2 name not accepted by the updatable migration) stays sg721-nt and a
   token's owner stays the same between mint and burn, migrate attempts included *)
Theorem C09_nt_owner_constant_with_migrations : forall self id txs d t,
  d_ct d = NT /\ compatible_name (d_name d) = false ->
  NoDup (map fst (tokens (d_st d))) -> tfind id (tokens (d_st d)) = Some t ->
  d_alive_through self id d txs ->
  exists t', tfind id (tokens (d_st (drun self d txs))) = Some t' /\ k_owner t' = k_owner t.
Proof. exact d_nt_owner_constant. Qed.

(* ---- non-vacuity: concrete collections (ids: 10 puppet/minter, 11 collection, 12 creator,
   15 alice, 16 bob, 14 minter2) *)
Example C09_ex_duplicate_and_foreign_mint :
  let s1 := run Base 11 (c09_ex_boot Base) [(c09_at 1001 10, OMint 1 15 (Some 1))] in
  tfind 1 (tokens s1) = Some (mkTok 15 [] (Some 1)) /\ token_count s1 = 1 /\
  step Base 11 (c09_at 1002 10) (OMint 1 16 None) s1 = Err /\
  step Base 11 (c09_at 1002 12) (OMint 2 12 None) s1 = Err.
Proof. vm_compute. repeat split; reflexivity. Qed.

Example C09_ex_handover_then_mint :
  let s := run Onchain 11 (c09_ex_boot Onchain)
             [(c09_at 1001 10, OOwnTransfer 14 (Some (ExAt 1010))); (c09_at 1009 14, OOwnAccept)] in
  o_owner (own s) = Some 14 /\
  step Onchain 11 (c09_at 1011 10) (OMint 1 15 None) s = Err /\
  is_ok (step Onchain 11 (c09_at 1011 14) (OMint 1 15 None) s) = true /\
  (* accepting at the expiry instant is too late *)
  o_owner (own (run Onchain 11 (c09_ex_boot Onchain)
             [(c09_at 1001 10, OOwnTransfer 14 (Some (ExAt 1010))); (c09_at 1010 14, OOwnAccept)])) = Some 10.
Proof. vm_compute. repeat split; reflexivity. Qed.

Example C09_ex_frozen :
  let s := run NT 11 (c09_ex_boot NT) [(c09_at 1001 12, OFreezeInfo)] in
  frozen s = true /\
  step NT 11 (c09_at 1002 12) (OUpdateInfo (mkUpd (Some (mkTxt 5 3 false)) None None None None None)) s = Err /\
  (* before the freeze the same update is accepted *)
  is_ok (step NT 11 (c09_at 1002 12) (OUpdateInfo (mkUpd (Some (mkTxt 5 3 false)) None None None None None)) (c09_ex_boot NT)) = true /\
  (* the minter can still move start_trading_time on a frozen sg721-base collection *)
  ci_start_trading (info (run Base 11 (c09_ex_boot Base) [(c09_at 1001 12, OFreezeInfo); (c09_at 1002 10, OStartTrading (Some 7))])) = Some 7.
Proof. vm_compute. repeat split; reflexivity. Qed.

Example C09_ex_metadata :
  let s1 := run Updatable 11 (c09_ex_boot Updatable)
              [(c09_at 1001 10, OMint 1 15 (Some 1)); (c09_at 1002 12, OUpdateTokenMd 1 (Some 2))] in
  tfind 1 (tokens s1) = Some (mkTok 15 [] (Some 2)) /\
  step Updatable 11 (c09_at 1003 15) (OUpdateTokenMd 1 (Some 3)) s1 = Err /\
  step Updatable 11 (c09_at 1003 12) (OUpdateTokenMd 9 (Some 3)) s1 = Err /\
  (let s2 := run Updatable 11 s1 [(c09_at 1003 12, OFreezeTokenMd)] in
   md_frozen s2 = true /\ step Updatable 11 (c09_at 1004 12) (OUpdateTokenMd 1 (Some 3)) s2 = Err /\
   alive_through Updatable 11 1 s2 [(c09_at 1004 12, OUpdateTokenMd 1 (Some 3)); (c09_at 1005 15, OTransfer 16 1)]).
Proof. vm_compute. repeat split; try reflexivity; discriminate. Qed.

Example C09_ex_nt :
  let s1 := run NT 11 (c09_ex_boot NT) [(c09_at 1001 10, OMint 1 15 None)] in
  step NT 11 (c09_at 1002 15) (OTransfer 16 1) s1 = Err /\
  step NT 11 (c09_at 1002 15) (OSend 10 1 true) s1 = Err /\
  step NT 11 (c09_at 1002 15) (OApprove 16 1 None) s1 = Err /\
  is_ok (step Base 11 (c09_at 1002 15) (OTransfer 16 1) (run Base 11 (c09_ex_boot Base) [(c09_at 1001 10, OMint 1 15 None)])) = true /\
  token_count (run NT 11 s1 [(c09_at 1003 15, OBurn 1)]) = 0.
Proof. vm_compute. repeat split; reflexivity. Qed.

(* freeze -> migrate (legacy cw2 name, any accepted version) -> enable -> update: refused *)
Example C09_ex_frozen_survives_legacy_migration :
  let d0 := mkDep Updatable 12 NUpdLegacy (3, 1, 0) (c09_ex_boot Updatable) in
  let d := drun 11 d0 [(c09_at 1001 10, ACall (OMint 1 15 (Some 1)));
                       (c09_at 1002 12, ACall OFreezeTokenMd);
                       (c09_at 1003 15, AMigrate);
                       (c09_at 1004 12, AMigrateSelf);
                       (c09_at 1004 12, AMigrateSelf);
                       (c09_at 1004 12, AMigrate)] in
  d_ver d = CUR_VERSION /\ d_name d = NUpd /\ md_frozen (d_st d) = true /\
  dstep 11 (mkEnv 1005 12 [mkCoin NATIVE 1500000000]) (ACall OEnableUpdatable) d = Err /\
  dstep 11 (c09_at 1005 12) (ACall (OUpdateTokenMd 1 (Some 2))) d = Err /\
  (* the same migration of an sg721-base collection starts with updates disabled, unfrozen *)
  (let b := drun 11 (fresh Base 12 (c09_ex_boot Base)) [(c09_at 1001 10, ACall (OMint 1 15 (Some 1))); (c09_at 1004 12, AMigrate)] in
   d_ct b = Updatable /\ md_frozen (d_st b) = false /\ md_enabled (d_st b) = false /\ token_count (d_st b) = 1).
Proof. vm_compute. repeat split; reflexivity. Qed.

Print Assumptions C09_mint_ok.
Print Assumptions C09_created_only_by_mint.
Print Assumptions C09_minter_changes_only_by_handover.
Print Assumptions C09_count_inv.
Print Assumptions C09_count_inv_step.
Print Assumptions C09_freeze_ok.
Print Assumptions C09_frozen_is_final_except_start_trading_time.
Print Assumptions C09_creator_fields_change_only_by_creator.
Print Assumptions C09_update_metadata_ok.
Print Assumptions C09_freeze_metadata_ok.
Print Assumptions C09_metadata_frozen_final.
Print Assumptions C09_nt_owner_constant.
Print Assumptions C09_token_step.

Print Assumptions C09_migration_keeps_tokens_and_info.
Print Assumptions C09_count_inv_with_migrations.
Print Assumptions C09_count_inv_with_migrations_any_record.
Print Assumptions C09_frozen_is_final_with_migrations.
Print Assumptions C09_metadata_frozen_final_with_migrations.
Print Assumptions C09_nt_owner_constant_with_migrations.
