(* C15 — Splits pay members in exact proportion and never more than is held.
   Statements only (documented numbers written out: at most 25 members, the 30-entry
   page), each closed by `exact <lemma>`, non-vacuity examples and the axiom audit.
   Balances, weights and amounts range over all of N; the only bound used is that what
   the contract holds of a denom fits u128 (C15_refused_iff). *)
From LP Require Import Splits SplitsMigrate Consts SplitsProofs SplitsMigrateProofs.
Import ListNotations.
From Coq Require Import String.
(* String.length would shadow the list length the statements speak about *)
Local Notation length := List.length.
Local Open Scope N_scope.

(* who may distribute: the admin when one is set, otherwise any group member
   (zero-weight members included) *)
Theorem C15_entitled : forall w s,
  can_distribute w s = true <->
  match w_admin w with
  | Some a => a = s
  | None => exists m, In m (w_members w) /\ m_addr m = s
  end.
Proof. exact can_distribute_spec. Qed.

(* the messages of an accepted distribution are exactly: for every member of positive
   weight and every requested denom whose balance reaches the total weight W, one send
   of weight x floor(balance / W); nothing for zero-weight members *)
Theorem C15_messages_exact : forall w s dl msgs,
  distribute w s dl = Ok msgs ->
  forall msg, In msg msgs <->
    exists m d, In m (w_members w) /\ 0 < m_weight m /\ In d (requested w dl) /\
                held w d / total_weight (w_members w) <> 0 /\
                msg = Send (m_addr m) d (m_weight m * (held w d / total_weight (w_members w))).
Proof. exact messages_exact. Qed.

(* per denom the sends add up to W x floor(b/W) per time the denom is named, and per
   address to (its weight) x floor(b/W) *)
Theorem C15_paid_sums : forall w s dl msgs,
  distribute w s dl = Ok msgs ->
  let W := total_weight (w_members w) in
  forall d,
    paid msgs d = W * (count d (requested w dl) * (held w d / W)) /\
    forall a, paid_to msgs a d = weight_of (w_members w) a * (count d (requested w dl) * (held w d / W)).
Proof. exact paid_sums. Qed.

(* w_i x floor(b/W) <= b: no single send exceeds the balance (so the Uint128 product
   cannot overflow), and no send is empty *)
Theorem C15_amounts_bounded : forall w s dl msgs,
  distribute w s dl = Ok msgs ->
  forall msg, In msg msgs -> exists a d x, msg = Send a d x /\ x <= held w d /\ x <> 0.
Proof. exact amounts_bounded. Qed.

Theorem C15_share_le_balance : forall w W b, W <> 0 -> w <= W -> w * (b / W) <= b.
Proof. exact share_le. Qed.

Theorem C15_remainder : forall W b, W <> 0 -> b - W * (b / W) = b mod W /\ b mod W < W.
Proof. exact remainder_exact. Qed.

(* refused exactly when: caller not entitled, no weight, no members, more than 25
   members (what the 30-entry page shows of them), or no requested denom holds at least
   the total weight (which includes "no funds") *)
Theorem C15_refused_iff : forall w s dl,
  (forall d, held w d <= 340282366920938463463374607431768211455) ->
  (distribute w s dl = Err <->
   can_distribute w s = false \/
   total_weight (w_members w) = 0 \/
   (length (w_members w) = 0)%nat \/
   (25 < Nat.min (length (w_members w)) 30)%nat \/
   (forall c, In c (funds_of w dl) -> c_amount c / total_weight (w_members w) = 0)).
Proof. exact distribute_refused_iff. Qed.

Theorem C15_funds_are_requested_balances : forall w dl c,
  In c (funds_of w dl) <-> exists d, In d (requested w dl) /\ held w d <> 0 /\ c = mkCoin d (held w d).
Proof. exact funds_in_iff. Qed.

(* the world step: balances after an accepted distribution, whatever the request and
   whoever the members *)
Theorem C15_world_balances : forall w s dl w',
  step w (Distribute s dl) = Ok w' ->
  let W := total_weight (w_members w) in
  forall a d,
    bal (w_bank w') a d + (if a =? w_self w then W * (count d (requested w dl) * (held w d / W)) else 0)
    = bal (w_bank w) a d + weight_of (w_members w) a * (count d (requested w dl) * (held w d / W)).
Proof. exact world_distribute_balances. Qed.

(* exactness in a well-formed world (ascending unique member and denom keys) when no
   denom is named twice: members get weight x floor(b/W), zero-weight members and
   outsiders nothing, the total paid W x floor(b/W) is at most b, the remainder is
   b mod W < W; group and admin are untouched *)
Theorem C15_world_exact : forall w s dl w',
  wf_world w ->
  step w (Distribute s dl) = Ok w' ->
  (forall d, count d (requested w dl) <= 1) ->
  let W := total_weight (w_members w) in
  W <> 0 /\ (1 <= length (w_members w) <= 25)%nat /\ can_distribute w s = true /\
  forall d,
    let k := if existsb (N.eqb d) (requested w dl) then held w d / W else 0 in
    (forall m, In m (w_members w) -> m_addr m <> w_self w ->
       bal (w_bank w') (m_addr m) d = bal (w_bank w) (m_addr m) d + m_weight m * k) /\
    (forall a, is_member a (w_members w) = false -> a <> w_self w ->
       bal (w_bank w') a d = bal (w_bank w) a d) /\
    bal (w_bank w') (w_self w) d + W * k = held w d + weight_of (w_members w) (w_self w) * k /\
    W * k <= held w d /\
    (k <> 0 -> held w d - W * k = held w d mod W /\ held w d mod W < W).
Proof. exact world_exact. Qed.

Theorem C15_implicit_request_never_repeats : forall w d, wf_world w -> count d (requested w None) <= 1.
Proof. exact implicit_once. Qed.

Theorem C15_step_keeps_group_and_admin : forall w s dl w',
  step w (Distribute s dl) = Ok w' ->
  exists msgs, distribute w s dl = Ok msgs /\
    w_self w' = w_self w /\ w_admin w' = w_admin w /\ w_gadmin w' = w_gadmin w /\
    w_members w' = w_members w /\ w_denoms w' = w_denoms w /\
    exec_sends (w_bank w) (w_self w) msgs = Some (w_bank w').
Proof. exact step_distribute_inv. Qed.

(* never more than is held; a denom named twice that would pay makes the bank reject
   and the whole step fail (the contract not being a member of its own group) *)
Theorem C15_world_no_overpay : forall w s dl w',
  step w (Distribute s dl) = Ok w' ->
  is_member (w_self w) (w_members w) = false ->
  forall d,
    let W := total_weight (w_members w) in
    let total_paid := W * (count d (requested w dl) * (held w d / W)) in
    total_paid <= held w d /\ bal (w_bank w') (w_self w) d = held w d - total_paid.
Proof. exact world_no_overpay. Qed.

Theorem C15_world_duplicate_refused : forall w s dl d,
  is_member (w_self w) (w_members w) = false ->
  2 <= count d (requested w dl) ->
  1 <= held w d / total_weight (w_members w) ->
  step w (Distribute s dl) = Err.
Proof. exact world_duplicate_refused. Qed.

(* a refused step changes nothing; the other steps move coins only by the deposit *)
Theorem C15_rejected_unchanged : forall w o, step w o = Err -> step' w o = w.
Proof. exact step_err_unchanged. Qed.

Theorem C15_other_steps_bank : forall w o w',
  step w o = Ok w' ->
  match o with
  | Deposit d amt =>
      forall a d', bal (w_bank w') a d' =
                   bal (w_bank w) a d' + (if (a =? w_self w) && (d' =? d) then amt else 0)
  | UpdateMembers _ _ _ | UpdateAdmin _ _ => w_bank w' = w_bank w
  | Distribute _ _ => True
  end.
Proof. exact step_other_bank. Qed.

(* the same exactness after any sequence of deposits, group changes, admin changes and
   distributions (accepted or refused) from any initial group *)
Theorem C15_repeat_exact : forall self admin gadmin ms g ops s dl w',
  group_instantiate ms = Ok g ->
  let w := run (init_world self admin gadmin g) ops in
  step w (Distribute s dl) = Ok w' ->
  (forall d, count d (requested w dl) <= 1) ->
  let W := total_weight (w_members w) in
  W <> 0 /\ (1 <= length (w_members w) <= 25)%nat /\ can_distribute w s = true /\
  forall d,
    let k := if existsb (N.eqb d) (requested w dl) then held w d / W else 0 in
    (forall m, In m (w_members w) -> m_addr m <> w_self w ->
       bal (w_bank w') (m_addr m) d = bal (w_bank w) (m_addr m) d + m_weight m * k) /\
    (forall a, is_member a (w_members w) = false -> a <> w_self w ->
       bal (w_bank w') a d = bal (w_bank w) a d) /\
    bal (w_bank w') (w_self w) d + W * k = held w d + weight_of (w_members w) (w_self w) * k /\
    W * k <= held w d /\
    (k <> 0 -> held w d - W * k = held w d mod W /\ held w d mod W < W).
Proof. exact repeat_exact. Qed.

Theorem C15_wellformed_forever : forall ops w, wf_world w -> wf_world (run w ops).
Proof. exact run_wf. Qed.

(* The one corner where "pays weight x floor(b/W)" fails in the faithful model (and on
   the real contracts, replayed): the splits contract is a member of its own group AND a
   denom is named twice.  The contract's own share comes back to it, so the duplicated
   sends do not exhaust the balance: the other member receives twice the formula. *)
Theorem C15_self_member_duplicate_denom_refuted :
  exists w s dl w' m d,
    wf_world w /\ step w (Distribute s dl) = Ok w' /\ In m (w_members w) /\ m_addr m <> w_self w /\
    bal (w_bank w') (m_addr m) d <> bal (w_bank w) (m_addr m) d + m_weight m * (held w d / total_weight (w_members w)).
Proof.
  exists (mkWorld 5 (Some 1) (Some 2) [mkMember 5 1; mkMember 101 1] [3] [(5, 3, 10)]),
         1, (Some [3; 3]),
         (mkWorld 5 (Some 1) (Some 2) [mkMember 5 1; mkMember 101 1] [3] [(5, 3, 0); (101, 3, 10)]),
         (mkMember 101 1), 3.
  repeat split; try (vm_compute; reflexivity); try (right; left; reflexivity); vm_compute; discriminate.
Qed.

(* non-vacuity *)
Definition ex_world : world :=
  mkWorld 5 (Some 1) (Some 2) [mkMember 101 50; mkMember 102 30; mkMember 103 0; mkMember 104 20] [3] [(5, 3, 1099)].
Example C15_ex_wf : wf_world ex_world.
Proof. split; vm_compute; reflexivity. Qed.
Example C15_ex_distribute :
  distribute ex_world 1 None = Ok [Send 101 3 500; Send 102 3 300; Send 104 3 200].
Proof. vm_compute. reflexivity. Qed.
Example C15_ex_step :
  exists w', step ex_world (Distribute 1 (Some [3])) = Ok w' /\
             bal (w_bank w') 5 3 = 99 /\ bal (w_bank w') 101 3 = 500 /\ bal (w_bank w') 103 3 = 0.
Proof. eexists. split; [vm_compute; reflexivity|]. repeat split; vm_compute; reflexivity. Qed.
Example C15_ex_duplicate_refused : step ex_world (Distribute 1 (Some [3; 3])) = Err.
Proof. vm_compute. reflexivity. Qed.
Example C15_ex_stranger_refused : distribute ex_world 3 None = Err.
Proof. vm_compute. reflexivity. Qed.
Example C15_ex_26_members_refused :
  distribute (mkWorld 5 (Some 1) None (map (fun i => mkMember (100 + N.of_nat i) 1) (seq 0 26)) [3] [(5, 3, 1000)]) 1 None = Err.
Proof. vm_compute. reflexivity. Qed.
Example C15_ex_25_members_accepted :
  is_ok (distribute (mkWorld 5 (Some 1) None (map (fun i => mkMember (100 + N.of_nat i) 1) (seq 0 25)) [3] [(5, 3, 1000)]) 1 None) = true.
Proof. vm_compute. reflexivity. Qed.

(* ---- migrations of the splits contract interleaved with everything else ----
   A migration (only the wasm-level admin can send one; the stored cw2 identity must be
   "crates.io:sg-splits" and the stored version a semantic version not newer than 3.16.0)
   moves no funds and leaves the group, the splits admin and every balance as they were. *)
Theorem C15_migrate_changes_nothing : forall wa who name ver w w',
  splits_migrate wa who name ver w = Ok w' ->
  w' = w /\ w_bank w' = w_bank w /\ w_members w' = w_members w /\ w_admin w' = w_admin w /\
  w_gadmin w' = w_gadmin w /\ w_self w' = w_self w /\ w_denoms w' = w_denoms w.
Proof. exact splits_migrate_frame_fields. Qed.

Theorem C15_migrate_ok_iff : forall wa who name ver w,
  is_ok (splits_migrate wa who name ver w) = true <->
  who = wa /\ name = "crates.io:sg-splits"%string /\
  exists v, Semver.parse_version ver = Some v /\ Semver.ver_ltb (3, 16, 0) v = false.
Proof. exact splits_migrate_ok_iff. Qed.

Theorem C15_migrations_only_identity : forall wa ms w,
  xrun wa w (map (fun m => XMigrate (fst (fst m)) (snd (fst m)) (snd m)) ms) = w.
Proof. exact migrations_only_identity. Qed.

Theorem C15_wellformed_forever_with_migrations : forall wa xs w, wf_world w -> wf_world (xrun wa w xs).
Proof. exact xrun_wf. Qed.

(* the same exactness after any sequence of deposits, group changes, admin changes,
   distributions /\ migrations (accepted or refused, by anyone, from any stored identity) *)
Theorem C15_repeat_exact_with_migrations : forall wa self admin gadmin ms g xs s dl w',
  group_instantiate ms = Ok g ->
  let w := xrun wa (init_world self admin gadmin g) xs in
  step w (Distribute s dl) = Ok w' ->
  (forall d, count d (requested w dl) <= 1) ->
  let W := total_weight (w_members w) in
  W <> 0 /\ (1 <= length (w_members w) <= 25)%nat /\ can_distribute w s = true /\
  forall d,
    let k := if existsb (N.eqb d) (requested w dl) then held w d / W else 0 in
    (forall m, In m (w_members w) -> m_addr m <> w_self w ->
       bal (w_bank w') (m_addr m) d = bal (w_bank w) (m_addr m) d + m_weight m * k) /\
    (forall a, is_member a (w_members w) = false -> a <> w_self w ->
       bal (w_bank w') a d = bal (w_bank w) a d) /\
    bal (w_bank w') (w_self w) d + W * k = held w d + weight_of (w_members w) (w_self w) * k /\
    W * k <= held w d /\
    (k <> 0 -> held w d - W * k = held w d mod W /\ held w d mod W < W).
Proof. exact repeat_exact_x. Qed.

(* ---- instantiation with attached coins ----
   Coins attached to the instantiate message are the contract's balance afterwards (on
   both paths: nothing is forwarded to the group), nobody else holds anything, and from
   then on -- through deposits, group changes, admin changes, distributions, migrations,
   accepted or refused -- the total over all accounts is what was attached plus what was
   deposited: the contract never creates or loses coins. *)
Theorem C15_funded_instantiation : forall self admin gadmin g cs d,
  let w := init_world_funded self admin gadmin g cs in
  bal (w_bank w) self d = coins_of cs d /\ supply (w_bank w) d = coins_of cs d /\
  w_members w = g /\ w_admin w = admin.
Proof. exact funded_init. Qed.

Theorem C15_conservation_from_instantiate : forall wa self admin gadmin g cs xs d,
  supply (w_bank (xrun wa (init_world_funded self admin gadmin g cs) xs)) d = coins_of cs d + xdeposited xs d.
Proof. exact conservation_from_instantiate. Qed.

Theorem C15_repeat_exact_from_funded_instantiation : forall wa self admin gadmin ms g cs xs s dl w',
  group_instantiate ms = Ok g ->
  let w := xrun wa (init_world_funded self admin gadmin g cs) xs in
  step w (Distribute s dl) = Ok w' ->
  (forall d, count d (requested w dl) <= 1) ->
  let W := total_weight (w_members w) in
  W <> 0 /\ (1 <= length (w_members w) <= 25)%nat /\ can_distribute w s = true /\
  forall d,
    let k := if existsb (N.eqb d) (requested w dl) then held w d / W else 0 in
    (forall m, In m (w_members w) -> m_addr m <> w_self w ->
       bal (w_bank w') (m_addr m) d = bal (w_bank w) (m_addr m) d + m_weight m * k) /\
    (forall a, is_member a (w_members w) = false -> a <> w_self w ->
       bal (w_bank w') a d = bal (w_bank w) a d) /\
    bal (w_bank w') (w_self w) d + W * k = held w d + weight_of (w_members w) (w_self w) * k /\
    W * k <= held w d /\
    (k <> 0 -> held w d - W * k = held w d mod W /\ held w d mod W < W).
Proof. exact repeat_exact_funded. Qed.

Example C15_ex_funded_then_distribute :
  exists w', step (init_world_funded 5 (Some 1) (Some 2) [mkMember 101 3; mkMember 102 1] [mkCoin 3 479; mkCoin 1 777])
                  (Distribute 1 None) = Ok w' /\
             bal (w_bank w') 101 3 = 357 /\ bal (w_bank w') 102 1 = 194 /\ bal (w_bank w') 5 3 = 3 /\ bal (w_bank w') 5 1 = 1.
Proof. eexists. split; [vm_compute; reflexivity|]. repeat split; vm_compute; reflexivity. Qed.

Example C15_ex_migrate_then_distribute :
  exists w', step (xrun 1 ex_world [XMigrate 1 "crates.io:sg-splits" "3.9.0"; XMigrate 3 "crates.io:sg-splits" "3.9.0";
                                    XMigrate 1 "crates.io:sg-minter" "3.9.0"; XMigrate 1 "crates.io:sg-splits" "3.17.0"]%string)
                  (Distribute 1 (Some [3])) = Ok w' /\ bal (w_bank w') 5 3 = 99 /\ bal (w_bank w') 101 3 = 500.
Proof. eexists. split; [vm_compute; reflexivity|]. split; vm_compute; reflexivity. Qed.
Example C15_ex_migrate_refusals :
  is_ok (splits_migrate 1 1 "crates.io:sg-splits" "3.16.0" ex_world) = true /\
  is_ok (splits_migrate 1 3 "crates.io:sg-splits" "3.16.0" ex_world) = false /\
  is_ok (splits_migrate 1 1 "crates.io:sg-splits" "3.16.1" ex_world) = false /\
  is_ok (splits_migrate 1 1 "crates.io:sg-minter" "3.0.0" ex_world) = false.
Proof. repeat split; vm_compute; reflexivity. Qed.

Print Assumptions C15_entitled.
Print Assumptions C15_migrate_changes_nothing.
Print Assumptions C15_migrate_ok_iff.
Print Assumptions C15_funded_instantiation.
Print Assumptions C15_conservation_from_instantiate.
Print Assumptions C15_repeat_exact_from_funded_instantiation.
Print Assumptions C15_repeat_exact_with_migrations.
Print Assumptions C15_messages_exact.
Print Assumptions C15_paid_sums.
Print Assumptions C15_amounts_bounded.
Print Assumptions C15_refused_iff.
Print Assumptions C15_world_balances.
Print Assumptions C15_world_exact.
Print Assumptions C15_world_no_overpay.
Print Assumptions C15_world_duplicate_refused.
Print Assumptions C15_repeat_exact.
Print Assumptions C15_self_member_duplicate_denom_refuted.
