(* C02 — A mint charges exactly the current price and disburses all of it.
   Part 1: the six vending minters (vending-minter, -featured, -wl-flex,
   -wl-flex-featured, -merkle-wl, -merkle-wl-featured): one model, three variant flags.
   Every statement is for every variant, every factory-parameter answer `fp` (so every
   price, every fee bps — governance can store any u64), every whitelist answer `wv`,
   every sender, every attached coin list, every state `s` (so after any prior history of
   price / discount / whitelist changes), every pseudo-random choice.
   `step` is the handler (MinterVending.v), `world_step` attaches the funds, runs the
   handler and applies its bank messages atomically (SaleCorr.v, Bank.v).
   MintTo / MintFor are the airdrop ("admin") mints; Mint is the public / whitelist mint.

   Part 2 (end of the file): the three open-edition minters and the base minter.
   NOT covered: the token-merge minter (its deposit logic belongs to C17; by reading, its
   airdrop path shares the airdrop-remainder behaviour recorded below).

   KNOWN DEFECT (DESIGN §8 D6, replayed on the real contracts): an airdrop mint with a
   non-zero airdrop price and an airdrop fee below 100 % leaves `price - fee` in the minter
   contract: nobody is paid the remainder.  The full conservation statement

     forall successful mint, minter balance unchanged /\ seller receives price - fee

   is therefore REFUTED for airdrops (C02_airdrop_remainder_refuted, and for every input
   of the class C02_airdrop_remainder_general); it is proved for all public / whitelist
   mints (C02_world_public_or_whitelist_mint) and for airdrops outside the class
   (C02_outside_known_airdrop).  Statements only. *)
From LP Require Import Num Pay Sg1 Bank MinterVending SaleCorr Sg1Proofs MinterVendingProofs C02Proofs.
Import ListNotations.
Local Open Scope N_scope.

(* ---- the price in force, spelled out: airdrops pay the factory's airdrop price; other
   mints pay the whitelist's price while an attached whitelist is active, otherwise the
   discount price if one is set, otherwise the public price ---- *)
Theorem C02_price_in_force : forall s fp wv adm price dn,
  mint_price s fp wv adm = Ok (price, dn) ->
  (adm = true /\ price = fp_airdrop_price fp /\ dn = fp_airdrop_denom fp) \/
  (adm = false /\
   ((exists v, s_whitelist s <> None /\ wv = Some v /\ wv_active v = true /\ price = wv_price v /\ dn = wv_denom v) \/
    ((s_whitelist s = None \/ exists v, wv = Some v /\ wv_active v = false) /\
     price = match s_discount s with Some d => d | None => s_price s end /\ dn = s_denom s))).
Proof. exact mint_price_cases. Qed.

(* ---- a mint succeeds only with exactly the price in force attached: one coin of that
   denom and amount, or nothing when the price is zero ---- *)
Theorem C02_mint_ok_exact_funds : forall vr s e fp wv o s' ms,
  (match o with OMint _ _ _ _ | OMintTo _ _ _ | OMintFor _ _ _ => true | _ => false end) = true ->
  step vr s e fp wv o = Ok (s', ms) ->
  exists price dn,
    mint_price s fp wv (match o with OMintTo _ _ _ | OMintFor _ _ _ => true | _ => false end) = Ok (price, dn) /\
    ((e_funds e = [] /\ price = 0) \/ e_funds e = [mkCoin dn price]).
Proof. exact mint_ok_exact_funds. Qed.

(* any other amount, denom, or extra coin is rejected *)
Theorem C02_mint_rejects_inexact_payment : forall vr s e fp wv o price dn,
  (match o with OMint _ _ _ _ | OMintTo _ _ _ | OMintFor _ _ _ => true | _ => false end) = true ->
  mint_price s fp wv (match o with OMintTo _ _ _ | OMintFor _ _ _ => true | _ => false end) = Ok (price, dn) ->
  ~ ((e_funds e = [] /\ price = 0) \/ e_funds e = [mkCoin dn price]) ->
  step vr s e fp wv o = Err.
Proof. exact mint_rejects_inexact. Qed.

(* ---- the network fee is floor(price * bps / 10000) with the airdrop fee bps for airdrops
   and the mint fee bps otherwise; the fee messages are exactly the Sg1 split (liquidity
   DAO ceil(fee/5), featured variants ceil(fee/8); launchpad DAO the rest; none when the
   fee is 0); a non-airdrop mint then sends price - fee to the payment address, or to
   the admin when none is configured (nothing when it is 0); an airdrop sends nothing
   else ---- *)
Theorem C02_fee_and_seller_messages : forall vr s e fp wv o s' ms,
  (match o with OMint _ _ _ _ | OMintTo _ _ _ | OMintFor _ _ _ => true | _ => false end) = true ->
  step vr s e fp wv o = Ok (s', ms) ->
  let air := match o with OMintTo _ _ _ | OMintFor _ _ _ => true | _ => false end in
  exists price dn,
    mint_price s fp wv air = Ok (price, dn) /\
    may_pay (e_funds e) dn = Ok price /\
    let fee := price * (if air then fp_airdrop_fee_bps fp else fp_mint_fee_bps fp) / 10000 in
    let liq := if v_featured vr then (fee + 7) / 8 else (fee + 4) / 5 in
    bank_of ms =
      (if fee =? 0 then [] else [Send A_LIQUIDITY_DAO dn liq; Send A_LAUNCHPAD_DAO dn (fee - liq)])
      ++ (if air then []
          else if price - fee =? 0 then []
               else [Send (match s_payment s with Some p => p | None => s_admin s end) dn (price - fee)]) /\
    (air = false -> fee <= price) /\
    (air = true -> e_sender e = s_admin s).
Proof. exact step_mint_payment. Qed.

(* the protocol addresses are the documented ones (ids fixed by the harness table) *)
Theorem C02_liq_part_is_the_C06_split : forall featured fee,
  liq_part featured fee = (if featured then (fee + 7) / 8 else (fee + 4) / 5) /\ liq_part featured fee <= fee.
Proof. exact liq_part_spelled. Qed.

(* ---- handler-level conservation: the bank messages of a public / whitelist mint add up
   to exactly the price; those of an airdrop add up to the fee only (the known defect) ---- *)
Theorem C02_messages_sum : forall vr s e fp wv o s' ms,
  (match o with OMint _ _ _ _ | OMintTo _ _ _ | OMintFor _ _ _ => true | _ => false end) = true ->
  step vr s e fp wv o = Ok (s', ms) ->
  exists price dn,
    mint_price s fp wv (match o with OMintTo _ _ _ | OMintFor _ _ _ => true | _ => false end) = Ok (price, dn) /\
    sum_out (bank_of ms) =
      if (match o with OMintTo _ _ _ | OMintFor _ _ _ => true | _ => false end)
      then price * fp_airdrop_fee_bps fp / 10000 else price.
Proof. exact mint_conservation. Qed.

(* ---- world level, every kind of call: the balance of every account in every denom
   after a successful step is the balance before, minus what the account attached, plus
   what the contract received, minus what the contract's messages send, plus what the
   messages credit to the account; and the total per denom over all accounts (burned
   coins sit in the pseudo-account A_BURNED) is constant: nothing is created or lost ---- *)
Theorem C02_world_step_balances : forall vr s b st s' b' ms,
  world_step vr s b st = Ok (s', b', ms) ->
  step vr s (st_env st) (st_fp st) (st_wv st) (st_op st) = Ok (s', ms) /\
  (forall c, In c (e_funds (st_env st)) -> c_amount c <> 0) /\
  (forall a d,
      bal_get b' a d
      + (if a =? e_sender (st_env st) then paid (e_funds (st_env st)) d else 0)
      + (if a =? e_contract (st_env st) then debits (bank_of ms) d else 0)
      = bal_get b a d
        + (if a =? e_contract (st_env st) then paid (e_funds (st_env st)) d else 0)
        + credits (bank_of ms) a d) /\
  (forall d, total b' d = total b d).
Proof. exact world_step_balances. Qed.

(* ---- world level, any successful mint, any coincidence of roles (the payer may be the
   seller, ...): one closed equation for every account a and denom d.  At the world
   level a zero price means an empty coin list (a zero coin cannot be attached). ---- *)
Theorem C02_world_mint_exact_funds : forall vr s b st s' b' ms,
  (match st_op st with OMint _ _ _ _ | OMintTo _ _ _ | OMintFor _ _ _ => true | _ => false end) = true ->
  world_step vr s b st = Ok (s', b', ms) ->
  exists price dn,
    mint_price s (st_fp st) (st_wv st)
               (match st_op st with OMintTo _ _ _ | OMintFor _ _ _ => true | _ => false end) = Ok (price, dn) /\
    e_funds (st_env st) = (if price =? 0 then [] else [mkCoin dn price]).
Proof. exact world_mint_exact_funds. Qed.

Theorem C02_world_mint_equation : forall vr s b st s' b' ms,
  (match st_op st with OMint _ _ _ _ | OMintTo _ _ _ | OMintFor _ _ _ => true | _ => false end) = true ->
  world_step vr s b st = Ok (s', b', ms) ->
  let payer := e_sender (st_env st) in
  let minter := e_contract (st_env st) in
  let seller := match s_payment s with Some p => p | None => s_admin s end in
  let air := match st_op st with OMintTo _ _ _ | OMintFor _ _ _ => true | _ => false end in
  exists price dn,
    mint_price s (st_fp st) (st_wv st) air = Ok (price, dn) /\
    let fee := price * (if air then fp_airdrop_fee_bps (st_fp st) else fp_mint_fee_bps (st_fp st)) / 10000 in
    let liq := if v_featured vr then (fee + 7) / 8 else (fee + 4) / 5 in
    (air = false -> fee <= price) /\ liq <= fee /\
    forall a d,
      bal_get b' a d
      + (if (a =? payer) && (d =? dn) then price else 0)
      + (if (a =? minter) && (d =? dn) then (if air then fee else price) else 0)
      = bal_get b a d
        + (if (a =? minter) && (d =? dn) then price else 0)
        + (if (a =? A_LIQUIDITY_DAO) && (d =? dn) then liq else 0)
        + (if (a =? A_LAUNCHPAD_DAO) && (d =? dn) then fee - liq else 0)
        + (if air then 0 else if (a =? seller) && (d =? dn) then price - fee else 0).
Proof. exact world_mint_equation. Qed.

(* ---- the property, public / whitelist mints (payer, minter, seller and the two DAOs
   being five different accounts): the payer's balance drops by exactly the price, the
   minter's balance is unchanged, the seller gets price - fee, the DAOs get the split of
   fee = floor(price * mint_fee_bps / 10000), and no other balance in any denom moves ---- *)
Theorem C02_world_public_or_whitelist_mint : forall vr s b st s' b' ms,
  (match st_op st with OMint _ _ _ _ | OMintTo _ _ _ | OMintFor _ _ _ => true | _ => false end) = true ->
  (match st_op st with OMintTo _ _ _ | OMintFor _ _ _ => true | _ => false end) = false ->
  world_step vr s b st = Ok (s', b', ms) ->
  let payer := e_sender (st_env st) in
  let minter := e_contract (st_env st) in
  let seller := match s_payment s with Some p => p | None => s_admin s end in
  NoDup [payer; minter; seller; A_LIQUIDITY_DAO; A_LAUNCHPAD_DAO] ->
  exists price dn,
    mint_price s (st_fp st) (st_wv st) false = Ok (price, dn) /\
    let fee := price * fp_mint_fee_bps (st_fp st) / 10000 in
    let liq := if v_featured vr then (fee + 7) / 8 else (fee + 4) / 5 in
    fee <= price /\ liq <= fee /\
    bal_get b' payer dn + price = bal_get b payer dn /\
    bal_get b' minter dn = bal_get b minter dn /\
    bal_get b' seller dn = bal_get b seller dn + (price - fee) /\
    bal_get b' A_LIQUIDITY_DAO dn = bal_get b A_LIQUIDITY_DAO dn + liq /\
    bal_get b' A_LAUNCHPAD_DAO dn = bal_get b A_LAUNCHPAD_DAO dn + (fee - liq) /\
    (forall a d, d <> dn \/ ~ In a [payer; minter; seller; A_LIQUIDITY_DAO; A_LAUNCHPAD_DAO] ->
                 bal_get b' a d = bal_get b a d).
Proof. exact world_nonadmin_mint_distinct. Qed.

(* ---- airdrops: payer (= admin) pays exactly the airdrop price, the DAOs get the split of
   fee = floor(airdrop price * airdrop_fee_bps / 10000), no other account moves, and the
   minter's balance changes by price - fee (written without subtraction) ---- *)
Theorem C02_world_airdrop : forall vr s b st s' b' ms,
  (match st_op st with OMintTo _ _ _ | OMintFor _ _ _ => true | _ => false end) = true ->
  world_step vr s b st = Ok (s', b', ms) ->
  let payer := e_sender (st_env st) in
  let minter := e_contract (st_env st) in
  let price := fp_airdrop_price (st_fp st) in
  let dn := fp_airdrop_denom (st_fp st) in
  let fee := price * fp_airdrop_fee_bps (st_fp st) / 10000 in
  let liq := if v_featured vr then (fee + 7) / 8 else (fee + 4) / 5 in
  NoDup [payer; minter; A_LIQUIDITY_DAO; A_LAUNCHPAD_DAO] ->
  payer = s_admin s /\
  mint_price s (st_fp st) (st_wv st) true = Ok (price, dn) /\
  liq <= fee /\
  bal_get b' payer dn + price = bal_get b payer dn /\
  bal_get b' minter dn + fee = bal_get b minter dn + price /\
  bal_get b' A_LIQUIDITY_DAO dn = bal_get b A_LIQUIDITY_DAO dn + liq /\
  bal_get b' A_LAUNCHPAD_DAO dn = bal_get b A_LAUNCHPAD_DAO dn + (fee - liq) /\
  (forall a d, d <> dn \/ ~ In a [payer; minter; A_LIQUIDITY_DAO; A_LAUNCHPAD_DAO] -> bal_get b' a d = bal_get b a d).
Proof. exact world_airdrop_distinct. Qed.

(* outside the known class (airdrop price 0, or airdrop fee = the whole price, e.g. the
   default 10000 bps): the minter keeps nothing *)
Theorem C02_outside_known_airdrop : forall vr s b st s' b' ms,
  (match st_op st with OMintTo _ _ _ | OMintFor _ _ _ => true | _ => false end) = true ->
  world_step vr s b st = Ok (s', b', ms) ->
  NoDup [e_sender (st_env st); e_contract (st_env st); A_LIQUIDITY_DAO; A_LAUNCHPAD_DAO] ->
  fp_airdrop_price (st_fp st) * fp_airdrop_fee_bps (st_fp st) / 10000 = fp_airdrop_price (st_fp st) ->
  bal_get b' (e_contract (st_env st)) (fp_airdrop_denom (st_fp st))
  = bal_get b (e_contract (st_env st)) (fp_airdrop_denom (st_fp st)).
Proof. exact world_airdrop_outside_known. Qed.

(* inside it (fee < price): the remainder stays in the minter, for EVERY such airdrop *)
Theorem C02_airdrop_remainder_general : forall vr s b st s' b' ms,
  (match st_op st with OMintTo _ _ _ | OMintFor _ _ _ => true | _ => false end) = true ->
  world_step vr s b st = Ok (s', b', ms) ->
  NoDup [e_sender (st_env st); e_contract (st_env st); A_LIQUIDITY_DAO; A_LAUNCHPAD_DAO] ->
  fp_airdrop_price (st_fp st) * fp_airdrop_fee_bps (st_fp st) / 10000 < fp_airdrop_price (st_fp st) ->
  bal_get b' (e_contract (st_env st)) (fp_airdrop_denom (st_fp st))
  = bal_get b (e_contract (st_env st)) (fp_airdrop_denom (st_fp st))
    + (fp_airdrop_price (st_fp st) - fp_airdrop_price (st_fp st) * fp_airdrop_fee_bps (st_fp st) / 10000) /\
  bal_get b (e_contract (st_env st)) (fp_airdrop_denom (st_fp st))
  < bal_get b' (e_contract (st_env st)) (fp_airdrop_denom (st_fp st)).
Proof. exact world_airdrop_remainder_stranded. Qed.

(* ---- failed calls move no funds: world_step returns no state on Err, and a history
   (SaleCorr.run_steps, C02Proofs.world_apply) continues from the unchanged (s, b) ---- *)
Theorem C02_failed_call_moves_nothing : forall vr s b st,
  world_step vr s b st = Err -> world_apply vr s b st = (s, b).
Proof. exact world_err_unchanged. Qed.

Theorem C02_history_continues_from_unchanged_world : forall vr accts s b st rest i,
  world_step vr s b st = Err ->
  run_steps vr accts s b (IStep st :: rest) i = (s, b, Some i) \/
  run_steps vr accts s b (IStep st :: rest) i = run_steps vr accts s b rest (i + 1).
Proof. exact run_steps_err_keeps. Qed.

(* ---- hence over any history of calls of any kind (failed ones included), by anybody, the
   total per denom over all accounts, burned coins included, never changes ---- *)
Theorem C02_total_constant_over_histories : forall steps vr s b d,
  total (snd (world_run vr s b steps)) d = total b d.
Proof. exact world_run_total. Qed.

(* ---- a visible consequence of the bank rejecting zero-amount sends: when the fee in
   force is exactly 1 (e.g. price 100, 100 bps) the launchpad-DAO share is 0 and the whole
   mint FAILS.  A failure, which the property allows ("succeeds only if"). ---- *)
Theorem C02_mint_with_fee_one_fails : forall vr s b st price dn,
  (match st_op st with OMint _ _ _ _ | OMintTo _ _ _ | OMintFor _ _ _ => true | _ => false end) = true ->
  mint_price s (st_fp st) (st_wv st)
             (match st_op st with OMintTo _ _ _ | OMintFor _ _ _ => true | _ => false end) = Ok (price, dn) ->
  price * (if (match st_op st with OMintTo _ _ _ | OMintFor _ _ _ => true | _ => false end)
           then fp_airdrop_fee_bps (st_fp st) else fp_mint_fee_bps (st_fp st)) / 10000 = 1 ->
  world_step vr s b st = Err.
Proof. exact mint_with_fee_one_fails. Qed.

(* ---- concrete evaluations (non-vacuity) and the refutation witness ----
   accounts: admin 10, buyer 11, payment address 12, minter contract 20; denom 0 = ustars *)
Definition ex_fp : fparams := mkFP 50 0 1000 100 0 5000 500 50 604800.
Definition ex_s0 : vstate :=
  mkVS 10 (Some 12) 3 2 None 1000 101 0 None 3 [(1, 2); (2, 3); (3, 1)] [] 0 [] [] [] [] [] 0 0 0 0 0 None.
Definition ex_bal : bal := [(10, 0, 1000); (11, 0, 1000); (12, 0, 0); (20, 0, 0); (2, 0, 0); (3, 0, 0); (5, 0, 0)].
Definition ex_step (sender : addr) (funds : list coin) (o : vop) : sstep :=
  mkStep (mkEnv 2000 sender funds 20) ex_fp None o true None None [] [].

(* public mint at 101 with 1000 bps: fee 10 = 2 (ceil 10/5) + 8; seller 91; minter keeps 0 *)
Example C02_ex_public_mint :
  match world_step (mkVariant false false false) ex_s0 ex_bal (ex_step 11 [mkCoin 0 101] (OMint None false None 3)) with
  | Ok (_, b', ms) =>
      bank_of ms = [Send A_LIQUIDITY_DAO 0 2; Send A_LAUNCHPAD_DAO 0 8; Send 12 0 91] /\
      (bal_get b' 11 0, bal_get b' 20 0, bal_get b' 12 0, bal_get b' 3 0, bal_get b' 2 0, total b' 0)
      = (899, 0, 91, 2, 8, 2000)
  | Err => False
  end.
Proof. vm_compute. split; reflexivity. Qed.

(* featured: 10 = 2 (ceil 10/8) + 8 as well; at fee 100 the splits differ: 13 + 87 vs 20 + 80 *)
Example C02_ex_featured_split :
  (liq_part true 100, liq_part false 100, liq_part true 10, liq_part false 10) = (13, 20, 2, 2).
Proof. vm_compute. reflexivity. Qed.

(* 100, 101 in the wrong denom, 102, two coins, nothing: all rejected *)
Example C02_ex_wrong_payments_rejected :
  map (fun f => is_ok (world_step (mkVariant false false false) ex_s0
                                  ((11, 1, 1000) :: ex_bal) (ex_step 11 f (OMint None false None 3))))
      [[mkCoin 0 100]; [mkCoin 1 101]; [mkCoin 0 102]; [mkCoin 0 101; mkCoin 1 1]; []; [mkCoin 0 101]]
  = [false; false; false; false; false; true].
Proof. vm_compute. reflexivity. Qed.

(* THE KNOWN DEFECT, witness: airdrop price 100, airdrop fee 5000 bps; admin 10 pays 100,
   the DAOs get 10 + 40, and the minter's balance goes 0 -> 50: the remainder is stranded *)
Theorem C02_airdrop_remainder_refuted :
  exists vr s b st s' b' ms,
    (match st_op st with OMintTo _ _ _ | OMintFor _ _ _ => true | _ => false end) = true /\
    world_step vr s b st = Ok (s', b', ms) /\
    bal_get b (e_contract (st_env st)) 0 = 0 /\
    bal_get b' (e_contract (st_env st)) 0 = 50 /\
    bal_get b' (e_sender (st_env st)) 0 + 100 = bal_get b (e_sender (st_env st)) 0 /\
    bal_get b' (match s_payment s with Some p => p | None => s_admin s end) 0
    = bal_get b (match s_payment s with Some p => p | None => s_admin s end) 0.
Proof.
  exists (mkVariant false false false), ex_s0, ex_bal, (ex_step 10 [mkCoin 0 100] (OMintTo true 11 3)).
  vm_compute.
  eexists. eexists. eexists. repeat split; reflexivity.
Qed.

(* with the default parameters (airdrop price 0, fee 10000 bps) nothing is stranded *)
Example C02_ex_airdrop_default_params :
  match world_step (mkVariant true false false) ex_s0 ex_bal
                   (mkStep (mkEnv 2000 10 [] 20) (mkFP 50 0 1000 0 0 10000 500 50 604800) None
                           (OMintFor 2 true 11) true None None [] []) with
  | Ok (_, b', ms) => bank_of ms = [] /\ bal_get b' 20 0 = 0 /\ bal_get b' 10 0 = 1000
  | Err => False
  end.
Proof. vm_compute. repeat split; reflexivity. Qed.

(* fee exactly 1 (price 101 is replaced by 100, 100 bps): the mint fails *)
Example C02_ex_fee_one_fails :
  world_step (mkVariant false false false)
             (mkVS 10 (Some 12) 3 2 None 1000 100 0 None 3 [(1, 2); (2, 3); (3, 1)] [] 0 [] [] [] [] [] 0 0 0 0 0 None)
             ex_bal
             (mkStep (mkEnv 2000 11 [mkCoin 0 100] 20) (mkFP 50 0 100 0 0 10000 500 50 604800) None
                     (OMint None false None 3) true None None [] [])
  = Err.
Proof. vm_compute. reflexivity. Qed.


(* =====================================================================================
   Part 2: the three open-edition minters (open-edition-minter, -wl-flex, -merkle-wl) and
   the base minter (models MinterOpen.v, world steps SaleOeCorr.v).
   Open edition: same exact-payment rule; the fee is split WITH the factory's developer
   address (developer ceil(fee/2), liquidity DAO ceil(rest/5), launchpad DAO what is
   left; never the featured ratio), and the seller receives price - fee on EVERY kind of
   mint, airdrops included -- so the full conservation statement holds here without a
   carve-out.  (An open-edition airdrop on an uncapped collection with airdrop price 0
   has no price at all: o_mint_price fails and so does the mint.)
   Base minter: only the collection creator mints; the amount in force is
   floor(min_mint_price * mint_fee_bps / 10000) in ustars, all of it fair-burned: half
   (rounded down) burned, the rest to the fair-burn pool; there is no seller.
   ===================================================================================== *)
From LP Require Import MinterOpen SaleOeCorr C02OeProofs.

Theorem C02_oe_mint_ok_exact_funds : forall vr s e fp wv o s' ms,
  (match o with EMint _ _ _ | EMintTo _ _ => true | _ => false end) = true ->
  ostep vr s e fp wv o = Ok (s', ms) ->
  exists price dn,
    o_mint_price s fp wv (match o with EMintTo _ _ => true | _ => false end) = Ok (price, dn) /\
    ((e_funds e = [] /\ price = 0) \/ e_funds e = [mkCoin dn price]).
Proof. exact omint_ok_exact_funds. Qed.

Theorem C02_oe_mint_rejects_inexact_payment : forall vr s e fp wv o price dn,
  (match o with EMint _ _ _ | EMintTo _ _ => true | _ => false end) = true ->
  o_mint_price s fp wv (match o with EMintTo _ _ => true | _ => false end) = Ok (price, dn) ->
  ~ ((e_funds e = [] /\ price = 0) \/ e_funds e = [mkCoin dn price]) ->
  ostep vr s e fp wv o = Err.
Proof. exact omint_rejects_inexact. Qed.

(* fee = floor(price * bps / 10000), bps = airdrop fee bps for MintTo else mint fee bps;
   messages: developer, liquidity DAO, launchpad DAO (none when the fee is 0), then the
   seller's price - fee (none when 0) -- for airdrops too *)
Theorem C02_oe_fee_and_seller_messages : forall vr s e fp wv o s' ms,
  (match o with EMint _ _ _ | EMintTo _ _ => true | _ => false end) = true ->
  ostep vr s e fp wv o = Ok (s', ms) ->
  let air := match o with EMintTo _ _ => true | _ => false end in
  exists price dn,
    o_mint_price s fp wv air = Ok (price, dn) /\
    may_pay (e_funds e) dn = Ok price /\
    let fee := price * (if air then ofp_airdrop_fee_bps fp else ofp_mint_fee_bps fp) / 10000 in
    fee <= price /\
    (fee <> 0 -> ofp_dev fp <> None) /\
    SaleOeCorr.bank_of ms =
      (if fee =? 0 then []
       else match ofp_dev fp with
            | Some dv => [Send dv dn ((fee + 1) / 2);
                          Send A_LIQUIDITY_DAO dn ((fee - (fee + 1) / 2 + 4) / 5);
                          Send A_LAUNCHPAD_DAO dn (fee - (fee + 1) / 2 - (fee - (fee + 1) / 2 + 4) / 5)]
            | None => []
            end)
      ++ (if price - fee =? 0 then []
          else [Send (match o_payment s with Some p => p | None => o_admin s end) dn (price - fee)]) /\
    (air = true -> e_sender e = o_admin s).
Proof. exact ostep_mint_payment. Qed.

(* the bank messages of every successful open-edition mint add up to exactly the price *)
Theorem C02_oe_messages_sum_to_price : forall vr s e fp wv o s' ms,
  (match o with EMint _ _ _ | EMintTo _ _ => true | _ => false end) = true ->
  ostep vr s e fp wv o = Ok (s', ms) ->
  exists price dn,
    o_mint_price s fp wv (match o with EMintTo _ _ => true | _ => false end) = Ok (price, dn) /\
    sum_out (SaleOeCorr.bank_of ms) = price.
Proof. exact omint_conservation. Qed.

(* world level, any open-edition call: balances follow the messages, totals are constant *)
Theorem C02_oe_world_step_balances : forall vr s b st s' b' ms,
  oe_world_step vr s b st = Ok (s', b', ms) ->
  ostep vr s (os_env st) (os_fp st) (os_wv st) (os_op st) = Ok (s', ms) /\
  (forall c, In c (e_funds (os_env st)) -> c_amount c <> 0) /\
  (forall a d,
      bal_get b' a d
      + (if a =? e_sender (os_env st) then paid (e_funds (os_env st)) d else 0)
      + (if a =? e_contract (os_env st) then debits (SaleOeCorr.bank_of ms) d else 0)
      = bal_get b a d
        + (if a =? e_contract (os_env st) then paid (e_funds (os_env st)) d else 0)
        + credits (SaleOeCorr.bank_of ms) a d) /\
  (forall d, total b' d = total b d).
Proof. exact oe_world_step_balances. Qed.

(* world level, any successful open-edition mint, any coincidence of roles: the closed
   equation (the minter's own terms cancel: it receives the price and sends the price) *)
Theorem C02_oe_world_mint_equation : forall vr s b st s' b' ms,
  (match os_op st with EMint _ _ _ | EMintTo _ _ => true | _ => false end) = true ->
  oe_world_step vr s b st = Ok (s', b', ms) ->
  let air := match os_op st with EMintTo _ _ => true | _ => false end in
  let payer := e_sender (os_env st) in
  let seller := match o_payment s with Some p => p | None => o_admin s end in
  let dev := match ofp_dev (os_fp st) with Some dv => dv | None => 0 end in
  exists price dn,
    o_mint_price s (os_fp st) (os_wv st) air = Ok (price, dn) /\
    e_funds (os_env st) = (if price =? 0 then [] else [mkCoin dn price]) /\
    (air = true -> payer = o_admin s) /\
    let fee := price * (if air then ofp_airdrop_fee_bps (os_fp st) else ofp_mint_fee_bps (os_fp st)) / 10000 in
    fee <= price /\
    (fee <> 0 -> ofp_dev (os_fp st) <> None) /\
    forall a d,
      bal_get b' a d + (if (a =? payer) && (d =? dn) then price else 0)
      = bal_get b a d
        + (if (a =? dev) && (d =? dn) then (fee + 1) / 2 else 0)
        + (if (a =? A_LIQUIDITY_DAO) && (d =? dn) then (fee - (fee + 1) / 2 + 4) / 5 else 0)
        + (if (a =? A_LAUNCHPAD_DAO) && (d =? dn)
           then fee - (fee + 1) / 2 - (fee - (fee + 1) / 2 + 4) / 5 else 0)
        + (if (a =? seller) && (d =? dn) then price - fee else 0).
Proof. exact oe_world_mint_equation. Qed.

(* the open-edition minter keeps nothing, on every kind of mint *)
Theorem C02_oe_minter_balance_unchanged : forall vr s b st s' b' ms,
  (match os_op st with EMint _ _ _ | EMintTo _ _ => true | _ => false end) = true ->
  oe_world_step vr s b st = Ok (s', b', ms) ->
  ~ In (e_contract (os_env st))
       [e_sender (os_env st); match o_payment s with Some p => p | None => o_admin s end;
        match ofp_dev (os_fp st) with Some dv => dv | None => 0 end; A_LIQUIDITY_DAO; A_LAUNCHPAD_DAO] ->
  forall d, bal_get b' (e_contract (os_env st)) d = bal_get b (e_contract (os_env st)) d.
Proof. exact oe_minter_unchanged. Qed.

(* the property with six different parties (public, whitelist and airdrop mints alike) *)
Theorem C02_oe_world_mint : forall vr s b st s' b' ms dv,
  (match os_op st with EMint _ _ _ | EMintTo _ _ => true | _ => false end) = true ->
  oe_world_step vr s b st = Ok (s', b', ms) ->
  ofp_dev (os_fp st) = Some dv ->
  let air := match os_op st with EMintTo _ _ => true | _ => false end in
  let payer := e_sender (os_env st) in
  let minter := e_contract (os_env st) in
  let seller := match o_payment s with Some p => p | None => o_admin s end in
  NoDup [payer; minter; seller; dv; A_LIQUIDITY_DAO; A_LAUNCHPAD_DAO] ->
  exists price dn,
    o_mint_price s (os_fp st) (os_wv st) air = Ok (price, dn) /\
    let fee := price * (if air then ofp_airdrop_fee_bps (os_fp st) else ofp_mint_fee_bps (os_fp st)) / 10000 in
    fee <= price /\
    bal_get b' payer dn + price = bal_get b payer dn /\
    bal_get b' minter dn = bal_get b minter dn /\
    bal_get b' seller dn = bal_get b seller dn + (price - fee) /\
    bal_get b' dv dn = bal_get b dv dn + (fee + 1) / 2 /\
    bal_get b' A_LIQUIDITY_DAO dn = bal_get b A_LIQUIDITY_DAO dn + (fee - (fee + 1) / 2 + 4) / 5 /\
    bal_get b' A_LAUNCHPAD_DAO dn
      = bal_get b A_LAUNCHPAD_DAO dn + (fee - (fee + 1) / 2 - (fee - (fee + 1) / 2 + 4) / 5) /\
    (forall a d, d <> dn \/ ~ In a [payer; minter; seller; dv; A_LIQUIDITY_DAO; A_LAUNCHPAD_DAO] ->
                 bal_get b' a d = bal_get b a d).
Proof. exact oe_world_mint_distinct. Qed.

(* zero-amount sends again: an open-edition fee of 1, 2 or 3 makes a DAO share 0 and the
   whole mint fails *)
Theorem C02_oe_mint_with_tiny_fee_fails : forall vr s b st price dn,
  (match os_op st with EMint _ _ _ | EMintTo _ _ => true | _ => false end) = true ->
  o_mint_price s (os_fp st) (os_wv st) (match os_op st with EMintTo _ _ => true | _ => false end) = Ok (price, dn) ->
  1 <= price * (if (match os_op st with EMintTo _ _ => true | _ => false end)
                then ofp_airdrop_fee_bps (os_fp st) else ofp_mint_fee_bps (os_fp st)) / 10000 <= 3 ->
  oe_world_step vr s b st = Err.
Proof. exact omint_with_tiny_fee_fails. Qed.

(* ---- base minter ---- *)
Theorem C02_base_mint_payment : forall s e creator fee_bps uri_ok s' ms,
  bstep s e creator fee_bps (BMint uri_ok) = Ok (s', ms) ->
  creator = Some (e_sender e) /\
  b_price s * fee_bps / 10000 <> 0 /\
  e_funds e = [mkCoin NATIVE (b_price s * fee_bps / 10000)] /\
  SaleOeCorr.bank_of ms =
    [Burn NATIVE (b_price s * fee_bps / 10000 / 2);
     FundPool (e_contract e) NATIVE (b_price s * fee_bps / 10000 - b_price s * fee_bps / 10000 / 2)].
Proof. exact bmint_payment. Qed.

Theorem C02_base_world_mint : forall s b st uri_ok s' b' ms,
  bs_op st = BMint uri_ok ->
  base_world_step s b st = Ok (s', b', ms) ->
  let payer := e_sender (bs_env st) in
  let minter := e_contract (bs_env st) in
  let fee := b_price s * bs_fee_bps st / 10000 in
  NoDup [payer; minter; A_BURNED; A_FAIRBURN_POOL] ->
  bs_creator st = Some payer /\
  fee <> 0 /\
  e_funds (bs_env st) = [mkCoin NATIVE fee] /\
  bal_get b' payer NATIVE + fee = bal_get b payer NATIVE /\
  bal_get b' minter NATIVE = bal_get b minter NATIVE /\
  bal_get b' A_BURNED NATIVE = bal_get b A_BURNED NATIVE + fee / 2 /\
  bal_get b' A_FAIRBURN_POOL NATIVE = bal_get b A_FAIRBURN_POOL NATIVE + (fee - fee / 2) /\
  (forall a d, d <> NATIVE \/ ~ In a [payer; minter; A_BURNED; A_FAIRBURN_POOL] -> bal_get b' a d = bal_get b a d) /\
  (forall d, total b' d = total b d).
Proof. exact base_world_mint. Qed.

(* concrete evaluations: open-edition airdrop at price 100 with a 5000 bps airdrop fee:
   fee 50 = developer 25 + liquidity DAO 5 + launchpad DAO 20, seller (payment address 12)
   gets the other 50, the minter keeps nothing -- the behaviour the vending family lacks *)
Definition ex_ofp : ofparams := mkOFP 50 0 1000 100 0 5000 10 12 604800 (Some 13).
Definition ex_os0 : ostate :=
  mkOS 10 (Some 12) (Some 5) 3 None 1000 (Some 9000) 101 0 (Some 5) 0 0 0 [] [] [] [] [] 0 0 0 [] 0 None.
Definition ex_obal : bal := (13, 0, 0) :: ex_bal.

Example C02_ex_oe_airdrop_pays_the_seller :
  match oe_world_step (mkOV false false) ex_os0 ex_obal
          (mkOStep (mkEnv 2000 10 [mkCoin 0 100] 20) ex_ofp None (EMintTo true 11) true None None [] []) with
  | Ok (_, b', ms) =>
      SaleOeCorr.bank_of ms = [Send 13 0 25; Send A_LIQUIDITY_DAO 0 5; Send A_LAUNCHPAD_DAO 0 20; Send 12 0 50] /\
      (bal_get b' 10 0, bal_get b' 20 0, bal_get b' 12 0, total b' 0) = (900, 0, 50, 2000)
  | Err => False
  end.
Proof. vm_compute. split; reflexivity. Qed.

Example C02_ex_base_mint :
  match base_world_step (mkBS 1000 0 [] None) ex_bal
          (mkBStep (mkEnv 2000 10 [mkCoin 0 101] 20) (Some 10) 1010 (BMint true) true None [] []) with
  | Ok (_, b', ms) =>
      SaleOeCorr.bank_of ms = [Burn 0 50; FundPool 20 0 51] /\
      (bal_get b' 10 0, bal_get b' 20 0, bal_get b' A_BURNED 0, bal_get b' A_FAIRBURN_POOL 0) = (899, 0, 50, 51)
  | Err => False
  end.
Proof. vm_compute. split; reflexivity. Qed.

Print Assumptions C02_price_in_force.
Print Assumptions C02_mint_ok_exact_funds.
Print Assumptions C02_mint_rejects_inexact_payment.
Print Assumptions C02_fee_and_seller_messages.
Print Assumptions C02_messages_sum.
Print Assumptions C02_world_step_balances.
Print Assumptions C02_world_mint_exact_funds.
Print Assumptions C02_world_mint_equation.
Print Assumptions C02_world_public_or_whitelist_mint.
Print Assumptions C02_world_airdrop.
Print Assumptions C02_outside_known_airdrop.
Print Assumptions C02_airdrop_remainder_general.
Print Assumptions C02_airdrop_remainder_refuted.
Print Assumptions C02_failed_call_moves_nothing.
Print Assumptions C02_total_constant_over_histories.
Print Assumptions C02_mint_with_fee_one_fails.
Print Assumptions C02_oe_mint_ok_exact_funds.
Print Assumptions C02_oe_mint_rejects_inexact_payment.
Print Assumptions C02_oe_fee_and_seller_messages.
Print Assumptions C02_oe_messages_sum_to_price.
Print Assumptions C02_oe_world_step_balances.
Print Assumptions C02_oe_world_mint_equation.
Print Assumptions C02_oe_minter_balance_unchanged.
Print Assumptions C02_oe_world_mint.
Print Assumptions C02_oe_mint_with_tiny_fee_fails.
Print Assumptions C02_base_mint_payment.
Print Assumptions C02_base_world_mint.

(* ---- the NFT metadata mode (off-chain token_uri / on-chain extension) of an open
   edition does not influence the payment: under any two metadata configurations a call
   succeeds or fails alike and emits the same messages (hence the same bank messages: fee
   split, seller payout), so every statement above holds in both modes ---- *)
From LP Require Import MinterOpenMetaProofs.

Theorem C02_oe_metadata_mode_does_not_touch_payment : forall c c' vr s e fp wv o,
  match ostep_nft c vr s e fp wv o, ostep_nft c' vr s e fp wv o with
  | Ok (s1, ms1, mm1), Ok (s2, ms2, mm2) =>
      s1 = s2 /\ ms1 = ms2 /\ ostep vr s e fp wv o = Ok (s1, ms1) /\
      map om_id mm1 = map om_id mm2 /\ map om_owner mm1 = map om_owner mm2
  | Err, Err => ostep vr s e fp wv o = Err
  | _, _ => False
  end.
Proof. exact ostep_nft_mode_independent. Qed.

Print Assumptions C02_oe_metadata_mode_does_not_touch_payment.

(* =====================================================================================
   Migrations inside histories.  `minter_migrate` / `o_minter_migrate` (model/MinterMigrate.v)
   are the minters' `migrate` entry points as functions on the sale-world state; they are
   not handler operations, so `step` / `ostep` and the theorems above are untouched.  The
   sale-world correspondence runs migrations inside its histories (SaleCorr.IMigrate /
   SaleOeCorr.OIMigrate), from stored versions around 3.9.0 and the current version, by the
   wasm admin and by strangers.
   ===================================================================================== *)
From LP Require Import MinterMigrate MinterMigrateProofs MinterMigrateCorrProofs.

(* a migration moves no funds and emits no message: `minter_migrate` returns a state only,
   the payout configuration is untouched, and at world level the balances stay *)
Theorem C02_migrate_keeps_payout_config : forall vr now name_ok stored admin s s',
  minter_migrate vr now name_ok stored admin s = Ok s' ->
  s_payment s' = s_payment s /\ s_admin s' = s_admin s /\ s_price s' = s_price s /\ s_denom s' = s_denom s.
Proof. exact migrate_payout_config. Qed.

Theorem C02_migrate_moves_no_funds : forall vr accts s b m i,
  snd (fst (run_steps vr accts s b [IMigrate m] i)) = b.
Proof. exact run_steps_migrate_bal. Qed.

Theorem C02_oe_migrate_changes_nothing : forall vr now name_ok stored admin s s',
  o_minter_migrate vr now name_ok stored admin s = Ok s' -> s' = s.
Proof. exact o_migrate_id. Qed.

Print Assumptions C02_migrate_keeps_payout_config.
Print Assumptions C02_migrate_moves_no_funds.
Print Assumptions C02_oe_migrate_changes_nothing.
