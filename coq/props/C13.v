(* C13 — Tiered whitelist stages never overlap and membership is stage-scoped.
   ONLY statements (documented numbers written out), each closed by `exact <lemma>`,
   non-vacuity Examples and the axiom audit.

   Vocabulary (model/Stages.v, proofs/StagesProofs.v):
     kind            KPlain | KFlex | KMerkle  (tiered-whitelist, -flex, -merkletree)
     instantiate k now msg, step w now op      the handlers; `Err` = rejected, no change
     run w h                                   a history h : list (clock * op), any clocks
     contains now s  := s_start s <= now <= s_end s      (both ends inclusive)
     earliest_containing now l k := stage k contains now and no earlier stage does
     mem_get m k a / mem_has m k a             the member entry stored under (stage k, a)
   Times, stage ids, addresses range over all of N (hence every u64 / u32 / address). *)
From LP Require Import Prelude Stages StagesProofs.
Local Open Scope N_scope.

(* ---- the stage list is well formed after EVERY history, for every clock and input:
        at most three stages, each start before its end, no stage starts before an
        earlier one ends; and no member is stored under a stage that does not exist ---- *)
Theorem C13_stages_wellformed_after_any_history :
  forall (k : kind) (now0 : N) (msg : inst) (w : wl) (h : list (N * op)),
  instantiate k now0 msg = Ok w ->
  let l := w_stages (run w h) in
  ((length l <= 3)%nat /\
   (forall i s, nth_error l i = Some s -> s_start s < s_end s) /\
   (forall i j si sj, (i < j)%nat -> nth_error l i = Some si -> nth_error l j = Some sj ->
                      s_end si <= s_start sj)) /\
  Forall (fun e => (me_stage e < length l)%nat) (w_mem (run w h)).
Proof. exact history_inv. Qed.

(* the same as a one-step statement: any operation, any clock, any arguments *)
Theorem C13_every_operation_preserves_wellformedness :
  forall (w : wl) (now : N) (o : op) (w' : wl), step w now o = Ok w' ->
  StagesInv (w_stages w) -> MemInv w -> StagesInv (w_stages w') /\ MemInv w'.
Proof. exact step_preserves. Qed.

(* ---- created with one to three stages, the first one in the future ---- *)
Theorem C13_created_with_one_to_three_stages_first_in_future :
  forall (k : kind) (now : N) (msg : inst) (w : wl), instantiate k now msg = Ok w ->
  w_stages w = i_stages msg /\ (1 <= length (w_stages w) <= 3)%nat /\
  exists s r, w_stages w = s :: r /\ now < s_start s.
Proof. exact created_first_future. Qed.

(* ---- add_stage appends, never makes a fourth, and is accepted only while the FIRST
        stage is still in the future (the whole list is re-validated against the clock) ---- *)
Theorem C13_added_stage_first_in_future :
  forall (w : wl) (now sender : N) (s : stage) (ms : list (N * N)) (w' : wl),
  step w now (AddStage sender s ms) = Ok w' ->
  w_stages w' = w_stages w ++ [s] /\ (length (w_stages w') <= 3)%nat /\
  exists s0 r, w_stages w' = s0 :: r /\ now < s_start s0.
Proof. exact added_first_future. Qed.

(* accepted per-address limits: 1..30 (plain), 1..50 (Merkle); one denom per list *)
Theorem C13_per_address_limit_bounds : forall w, reachable w ->
  match w_kind w with
  | KPlain => Forall (fun s => 1 <= s_pal s <= 30) (w_stages w)
  | KMerkle => Forall (fun s => 1 <= s_pal s <= 50) (w_stages w)
  | KFlex => True
  end.
Proof. exact reachable_pal_bounds. Qed.

(* ---- at most one stage is reported active: the earliest whose window contains now ---- *)
Theorem C13_active_is_the_earliest_containing : forall (now : N) (l : list stage) (k : nat),
  fetch_active_index now l = Some k <-> earliest_containing now l k.
Proof. exact active_index_spec. Qed.

Theorem C13_active_is_unique : forall now l k k',
  earliest_containing now l k -> earliest_containing now l k' -> k = k'.
Proof. exact earliest_unique. Qed.

Theorem C13_nothing_active_iff_no_window_contains_now : forall now l,
  fetch_active_index now l = None <-> (forall s, In s l -> ~ contains now s).
Proof. exact active_index_none. Qed.

(* two stages of a well-formed list contain the same instant only when they are adjacent
   and touch (end_i = start_(i+1) = now); the earlier one is then the one reported *)
Theorem C13_windows_share_an_instant_only_by_touching :
  forall l now i j si sj, StagesInv l -> (i < j)%nat ->
  nth_error l i = Some si -> nth_error l j = Some sj ->
  contains now si -> contains now sj ->
  j = S i /\ now = s_end si /\ now = s_start sj.
Proof. exact overlap_only_touching. Qed.

(* ---- every answer comes from that stage ---- *)
(* ActiveStage, ActiveStageId (index+1), IsActive, and the window, price, denom and
   per-address limit of Config *)
Theorem C13_config_and_active_queries_from_active_stage : forall w now k s,
  earliest_containing now (w_stages w) k -> nth_error (w_stages w) k = Some s ->
  let c := q_config w now in
  c_active c = true /\ c_start c = s_start s /\ c_end c = s_end s /\
  c_denom c = s_denom s /\ c_price c = s_price s /\
  (w_kind w <> KFlex -> c_pal c = s_pal s) /\
  q_active_stage w now = Some s /\ q_active_stage_id w now = N.of_nat k + 1 /\ q_is_active w now = true.
Proof. exact config_from_active. Qed.

(* HasMember of the plain and flex kinds: true exactly for an address stored under the
   active stage (entries under any other stage are irrelevant) *)
Theorem C13_has_member_from_active_stage : forall w now a f, w_kind w <> KMerkle ->
  exists b, q_has_member w now a f = Ok b /\
  (b = true <-> exists k, earliest_containing now (w_stages w) k /\ mem_has (w_mem w) k a = true).
Proof. exact has_member_from_active. Qed.

(* HasMember of the Merkle kind: positive exactly when the proof folds (oracle h, any
   hash function) to the root stored for the ACTIVE stage *)
Theorem C13_merkle_has_member_consults_active_root : forall w now a h, w_kind w = KMerkle ->
  (q_has_member w now a (Some h) = Ok true <->
   exists k, earliest_containing now (w_stages w) k /\ nth_error (w_roots w) k = Some h).
Proof. exact has_member_merkle_from_active. Qed.

(* the flex kind's per-address limit (Member query) is the count stored under the active stage *)
Theorem C13_flex_member_limit_from_active_stage : forall w now a v, w_kind w = KFlex ->
  (q_member w now a = Ok v <->
   exists k, earliest_containing now (w_stages w) k /\ mem_get (w_mem w) k a = Some v).
Proof. exact member_limit_from_active. Qed.

(* no active stage: nobody is a member (the Merkle kind answers with an error, never
   positively), nothing is reported active *)
Theorem C13_no_active_stage_no_member : forall w now a f,
  (forall s, In s (w_stages w) -> ~ contains now s) ->
  q_has_member w now a f = (match w_kind w with KMerkle => Err | _ => Ok false end) /\
  q_member w now a = Err /\
  q_active_stage w now = None /\ q_active_stage_id w now = 0 /\ q_is_active w now = false /\
  c_active (q_config w now) = false.
Proof. exact no_active_no_member. Qed.

(* ---- removal: only before the stage starts; the list becomes its first k stages; no
        member stays stored under stage k or later; earlier stages keep their members;
        limit, kind and admins do not change ---- *)
Theorem C13_remove_stage : forall w now sender id w',
  step w now (RemoveStage sender id) = Ok w' -> MemInv w ->
  let k := N.to_nat id in
  (exists s, nth_error (w_stages w) k = Some s /\ now < s_start s) /\
  w_stages w' = firstn k (w_stages w) /\
  (forall e, In e (w_mem w') -> (me_stage e < k)%nat) /\
  (forall st a, (k <= st)%nat -> mem_get (w_mem w') st a = None) /\
  (forall st a, (st < k)%nat -> mem_get (w_mem w') st a = mem_get (w_mem w) st a) /\
  (forall st, (st < k)%nat -> mem_stage (w_mem w') st = mem_stage (w_mem w) st) /\
  w_limit w' = w_limit w /\ w_kind w' = w_kind w /\ w_admins w' = w_admins w.
Proof. exact remove_stage_spec. Qed.

(* the same on every state any history can reach (no side condition) *)
Theorem C13_remove_stage_on_reachable_states : forall w now sender id w',
  reachable w -> step w now (RemoveStage sender id) = Ok w' ->
  let k := N.to_nat id in
  (exists s, nth_error (w_stages w) k = Some s /\ now < s_start s) /\
  w_stages w' = firstn k (w_stages w) /\
  (forall st a, (k <= st)%nat -> mem_get (w_mem w') st a = None) /\
  (forall st a, (st < k)%nat -> mem_get (w_mem w') st a = mem_get (w_mem w) st a).
Proof. exact remove_stage_reachable. Qed.

(* ---- stage identity: add_stage only appends (its window starts no earlier than every
        existing stage ends) and every existing stage keeps its position, data and members;
        no accepted operation ever moves a stage or its members to another position ---- *)
Theorem C13_add_stage_only_appends : forall w now sender s ms w',
  step w now (AddStage sender s ms) = Ok w' ->
  w_stages w' = w_stages w ++ [s] /\
  (forall si, In si (w_stages w) -> s_end si <= s_start s) /\
  (forall i, (i < length (w_stages w))%nat ->
     nth_error (w_stages w') i = nth_error (w_stages w) i /\
     forall a, mem_get (w_mem w') i a = mem_get (w_mem w) i a).
Proof. exact add_stage_appends. Qed.

Theorem C13_stage_identity_is_stable : forall w now o w', step w now o = Ok w' ->
  forall i, (i < length (w_stages w))%nat -> (i < length (w_stages w'))%nat ->
  (match o with UpdateStage _ id _ _ _ _ _ _ => i <> N.to_nat id | _ => True end ->
     nth_error (w_stages w') i = nth_error (w_stages w) i) /\
  (match o with AddMembers _ id _ | RemoveMembers _ id _ => i <> N.to_nat id | _ => True end ->
     forall a, mem_get (w_mem w') i a = mem_get (w_mem w) i a).
Proof. exact stage_identity_stable. Qed.

(* ---- what the other operations leave alone ---- *)
Theorem C13_update_changes_one_stage_only :
  forall w now sender id name start end_ price pal mcl w',
  step w now (UpdateStage sender id name start end_ price pal mcl) = Ok w' ->
  length (w_stages w') = length (w_stages w) /\
  (forall j, j <> N.to_nat id -> nth_error (w_stages w') j = nth_error (w_stages w) j) /\
  w_mem w' = w_mem w /\ w_roots w' = w_roots w /\ w_num w' = w_num w /\ w_limit w' = w_limit w.
Proof. exact update_stage_frame. Qed.

(* member edits never touch the stage list nor another stage's members; members can be
   removed only before their stage starts; add_stage writes under the new id only *)
Theorem C13_member_edits_are_stage_scoped : forall w now o w', step w now o = Ok w' ->
  match o with
  | AddMembers _ id _ =>
      w_stages w' = w_stages w /\
      (forall st a, st <> N.to_nat id -> mem_get (w_mem w') st a = mem_get (w_mem w) st a)
  | RemoveMembers _ id _ =>
      w_stages w' = w_stages w /\
      (exists s, nth_error (w_stages w) (N.to_nat id) = Some s /\ now < s_start s) /\
      (forall st a, st <> N.to_nat id -> mem_get (w_mem w') st a = mem_get (w_mem w) st a)
  | AddStage _ _ _ =>
      forall st a, st <> length (w_stages w) -> mem_get (w_mem w') st a = mem_get (w_mem w) st a
  | _ => True
  end.
Proof. exact member_edits_frame. Qed.

Theorem C13_only_admins_change_anything : forall w now o w', step w now o = Ok w' ->
  is_admin w match o with
             | AddStage s _ _ | RemoveStage s _ | UpdateStage s _ _ _ _ _ _ _ | AddMembers s _ _ | RemoveMembers s _ _ => s
             end = true.
Proof. exact only_admins_change. Qed.

(* the Merkle kind has no add/remove-stage and no member messages: its number of stages
   and its roots never change *)
Theorem C13_merkle_stage_count_and_roots_fixed : forall w now o w',
  w_kind w = KMerkle -> step w now o = Ok w' ->
  length (w_stages w') = length (w_stages w) /\ w_roots w' = w_roots w /\ w_kind w' = KMerkle.
Proof. exact merkle_stage_count_fixed. Qed.

(* ---------------- non-vacuity: concrete evaluations ---------------- *)
(* fixtures (proofs/StagesProofs.v): T = 1647032401000000000 ns; st3 = three touching stages
   [T+10,T+20] [T+20,T+30] [T+30,T+40] priced 100/107/114; msg3 stores members {100,110},
   {101,110}, {102}; w3 = the plain whitelist created from msg3 at clock T *)
(* three touching stages are accepted; four are not; a 1 ns overlap is not; start = end is not;
   a first stage starting now is not *)
Example C13_ex_touching_accepted : is_ok (instantiate KPlain T msg3) = true /\ length (w_stages w3) = 3%nat.
Proof. vm_compute. split; reflexivity. Qed.
Example C13_ex_rejected_shapes :
  let mk l := mkInst l [[]; []; []; []] 20 None [] true [1] 100000000 in
  is_ok (instantiate KPlain T (mk (st3 ++ [mkStage 3 (T + 40) (T + 50) 0 1 1 None]))) = false /\
  is_ok (instantiate KPlain T (mk [mkStage 0 (T + 10) (T + 20) 0 1 1 None; mkStage 1 (T + 19) (T + 30) 0 1 1 None])) = false /\
  is_ok (instantiate KPlain T (mk [mkStage 0 (T + 10) (T + 10) 0 1 1 None])) = false /\
  is_ok (instantiate KPlain T (mk [mkStage 0 T (T + 10) 0 1 1 None])) = false /\
  is_ok (instantiate KPlain T (mk [mkStage 0 (T + 1) (T + 10) 0 1 1 None])) = true.
Proof. vm_compute. repeat split; reflexivity. Qed.

(* at the touching instant T+20 both windows contain the clock; stage 0 (the earlier) is
   the one reported, its member 100 is a member, stage 1's member 101 is not; one
   nanosecond later it is the other way round; after the last end nobody is *)
Example C13_ex_touching_instant :
  q_active_stage_id w3 (T + 20) = 1 /\ q_has_member w3 (T + 20) 100 None = Ok true /\
  q_has_member w3 (T + 20) 101 None = Ok false /\ c_price (q_config w3 (T + 20)) = 100 /\
  q_active_stage_id w3 (T + 21) = 2 /\ q_has_member w3 (T + 21) 100 None = Ok false /\
  q_has_member w3 (T + 21) 101 None = Ok true /\ c_price (q_config w3 (T + 21)) = 107 /\
  q_active_stage_id w3 (T + 41) = 0 /\ q_has_member w3 (T + 41) 110 None = Ok false /\
  q_active_stage_id w3 (T + 9) = 0 /\ q_has_member w3 (T + 9) 100 None = Ok false.
Proof. vm_compute. repeat split; reflexivity. Qed.

(* removal: one nanosecond before the stage starts it succeeds and takes stage 2 and both
   stages' members with it; at the start instant it is rejected *)
Example C13_ex_remove :
  is_ok (step w3 (T + 20) (RemoveStage 1 1)) = false /\
  match step w3 (T + 19) (RemoveStage 1 1) with
  | Ok w' => length (w_stages w') = 1%nat /\ w_mem w' = [(0%nat, 100, 1); (0%nat, 110, 1)] /\ w_num w' = 2
  | Err => False
  end.
Proof. vm_compute. repeat split; reflexivity. Qed.

(* not part of the property, recorded because a reader may expect otherwise: the code has
   no clock guard on update_stage_config (a running stage can be moved), and add_stage is
   refused once the first stage has started *)
Example C13_note_update_has_no_clock_guard :
  is_ok (step w3 (T + 15) (UpdateStage 1 0 None None (Some (T + 16)) (Some (0, 5)) None None)) = true /\
  is_ok (step (step_total w3 (T + 5) (RemoveStage 1 2)) (T + 9) (AddStage 1 (mkStage 7 (T + 30) (T + 40) 0 1 1 None) [])) = true /\
  is_ok (step (step_total w3 (T + 5) (RemoveStage 1 2)) (T + 10) (AddStage 1 (mkStage 7 (T + 30) (T + 40) 0 1 1 None) [])) = false.
Proof. vm_compute. repeat split; reflexivity. Qed.

(* an add_stage whose window lies before an existing stage (still in the future) is refused,
   as is one between two stages; after the last one it is accepted *)
Example C13_ex_add_stage_must_append :
  let w1 := step_total w3 (T + 5) (RemoveStage 1 2) in
  is_ok (step w1 (T + 1) (AddStage 1 (mkStage 7 (T + 3) (T + 8) 0 1 1 None) [(120, 1)])) = false /\
  is_ok (step w1 (T + 1) (AddStage 1 (mkStage 7 (T + 15) (T + 25) 0 1 1 None) [(120, 1)])) = false /\
  is_ok (step w1 (T + 1) (AddStage 1 (mkStage 7 (T + 30) (T + 35) 0 1 1 None) [(120, 1)])) = true.
Proof. vm_compute. repeat split; reflexivity. Qed.

Print Assumptions C13_stages_wellformed_after_any_history.
Print Assumptions C13_every_operation_preserves_wellformedness.
Print Assumptions C13_created_with_one_to_three_stages_first_in_future.
Print Assumptions C13_added_stage_first_in_future.
Print Assumptions C13_per_address_limit_bounds.
Print Assumptions C13_active_is_the_earliest_containing.
Print Assumptions C13_windows_share_an_instant_only_by_touching.
Print Assumptions C13_config_and_active_queries_from_active_stage.
Print Assumptions C13_has_member_from_active_stage.
Print Assumptions C13_merkle_has_member_consults_active_root.
Print Assumptions C13_flex_member_limit_from_active_stage.
Print Assumptions C13_no_active_stage_no_member.
Print Assumptions C13_remove_stage.
Print Assumptions C13_add_stage_only_appends.
Print Assumptions C13_stage_identity_is_stable.
Print Assumptions C13_remove_stage_on_reachable_states.
Print Assumptions C13_update_changes_one_stage_only.
Print Assumptions C13_member_edits_are_stage_scoped.
Print Assumptions C13_merkle_stage_count_and_roots_fixed.
