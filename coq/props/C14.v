(* C14 — Merkle whitelist membership is complete and sound.
   ONLY statements (documented numbers written out: SHA-256 tree 32-byte digests, tiered
   tree BLAKE3 truncated to 16 bytes; the caveat lengths 64 = 2*32 and 32 = 2*16), each
   closed by `exact <lemma>`, non-vacuity Examples, and the axiom audit.

   The hash is universally quantified: every theorem holds for EVERY function
   H : bytes -> bytes with outputs of the stated length, so in particular for SHA-256 and
   for BLAKE3 truncated to 16 bytes.  "Up to hash collisions" is an explicit disjunct and
   the colliding pair is computed by [find_collision] from the inputs H was applied to. *)
From LP Require Import Prelude Pay Semver Merkle MerkleProofs.
From LP Require Stages.
Import ListNotations.
Local Open Scope N_scope.

(* ---------------- completeness ---------------- *)
(* byte level, any digest length, any member list (odd sizes, duplicates): the proof
   rs_merkle issues for position i folds to the root *)
Theorem C14_complete_at : forall (H : list N -> list N) (ms : list (list N)) (i : nat) (m : list N),
  nth_error ms i = Some m -> fold_proof H m (proof_at H ms i) = root H ms.
Proof. exact complete_at. Qed.

Theorem C14_complete : forall (H : list N -> list N) (ms : list (list N)) (m : list N),
  In m ms -> exists i, nth_error ms i = Some m /\ verify H (root H ms) m (proof_at H ms i) = true.
Proof. exact complete. Qed.

(* contract level: HasMember answers Ok true for every listed entry with the hex rendering
   of its proof, for ANY spelling of the root that denotes the tree root's bytes (upper,
   lower or mixed case -- instantiate accepts them all; /repo c2c314c made the comparison
   case-insensitive, before that an upper-case root could never match) *)
Theorem C14_complete_sha256 : forall (H : list N -> list N),
  (forall x, length (H x) = 32%nat) -> (forall x, Forall (fun b => b < 256) (H x)) ->
  forall (s : wl_state) (ms : list (list N)) (i : nat) (m : list N),
  hex_decode (wl_root s) = Some (root H ms) -> nth_error ms i = Some m ->
  wl_has_member H s m (map hex_encode (proof_at H ms i)) = Ok true.
Proof. exact wl_has_member_complete. Qed.

Theorem C14_complete_blake3_16 : forall (H : list N -> list N),
  (forall x, length (H x) = 16%nat) -> (forall x, Forall (fun b => b < 256) (H x)) ->
  forall (ms : list (list N)) (i : nat) (m : list N) (rs : list N),
  nth_error ms i = Some m -> hex_decode rs = Some (root H ms) ->
  has_member 16 H rs m (map hex_encode (proof_at H ms i)) = Ok true.
Proof. exact has_member_complete_16. Qed.

(* the lower-case rendering rs_merkle's root_hex() produces is one such spelling *)
Theorem C14_lowercase_root_decodes : forall b, Forall (fun x => x < 256) b -> hex_decode (hex_encode b) = Some b.
Proof. exact hex_encode_decodes. Qed.

(* ---------------- accepted root spellings ---------------- *)
(* verify_merkle_root is the single definition of what instantiate accepts as a root: exactly
   64 (32 for the tiered tree) hexadecimal digits in any case -- no "0x" prefix, no
   whitespace, no other length *)
Theorem C14_accepted_root_spelling_sha256 : forall s,
  verify_merkle_root 32 s = Ok tt <-> length s = 64%nat /\ forallb is_hex_char s = true.
Proof. exact (accepted_spelling_iff 32). Qed.

Theorem C14_accepted_root_spelling_blake3_16 : forall s,
  verify_merkle_root 16 s = Ok tt <-> length s = 32%nat /\ forallb is_hex_char s = true.
Proof. exact (accepted_spelling_iff 16). Qed.

(* every accepted spelling denotes L bytes *)
Theorem C14_accepted_root_denotes : forall L s, verify_merkle_root L s = Ok tt ->
  exists r, hex_decode s = Some r /\ length r = L.
Proof. exact accepted_spelling_denotes. Qed.

(* instantiate stores the string as received, and only after verify_merkle_root accepted it *)
Theorem C14_instantiate_root : forall now funds rs uri_ok st en lim admins aok mut s,
  wl_instantiate now funds rs uri_ok st en lim admins aok mut = Ok s ->
  wl_root s = rs /\ verify_merkle_root 32 rs = Ok tt.
Proof. exact wl_instantiate_root. Qed.

Theorem C14_tiered_instantiate_roots : forall now funds roots uris_ok stages admins aok mut s,
  tw_instantiate now funds roots uris_ok stages admins aok mut = Ok s ->
  tw_roots s = roots /\ tw_stages s = stages /\ Forall (fun r => verify_merkle_root 16 r = Ok tt) roots.
Proof. exact tw_instantiate_roots. Qed.

(* completeness tied to instantiate acceptance: whatever spelling of the tree's root
   instantiate accepted, every listed entry is accepted with its proof after any history *)
Theorem C14_instantiate_then_complete : forall (H : list N -> list N),
  (forall x, length (H x) = 32%nat) -> (forall x, Forall (fun b => b < 256) (H x)) ->
  forall now funds rs uri_ok st en lim admins aok mut s (ms : list (list N)) i m h,
  wl_instantiate now funds rs uri_ok st en lim admins aok mut = Ok s ->
  hex_decode rs = Some (root H ms) -> nth_error ms i = Some m ->
  wl_has_member H (wl_run_steps h s) m (map hex_encode (proof_at H ms i)) = Ok true.
Proof. exact wl_instantiate_complete. Qed.

(* ---------------- soundness ---------------- *)
(* byte level.  Accepted => listed, or two different inputs with the same digest (found by
   the search over the inputs H was applied to), or one of the two shapes a tree without
   leaf/inner domain separation cannot exclude: the candidate, or a listed entry, is itself
   exactly 2*L bytes long (the length of an inner-node preimage). *)
Theorem C14_sound_sha256 : forall (H : list N -> list N), (forall x, length (H x) = 32%nat) ->
  forall (ms : list (list N)) (m : list N) (p : list (list N)),
  ms <> [] -> Forall (fun s => length s = 32%nat) p ->
  verify H (root H ms) m p = true ->
  In m ms \/
  (exists x y, find_collision H (calls H ms m p) = Some (x, y) /\ x <> y /\ H x = H y) \/
  length m = 64%nat \/
  (exists m', In m' ms /\ length m' = 64%nat).
Proof. exact sound_32. Qed.

Theorem C14_sound_blake3_16 : forall (H : list N -> list N), (forall x, length (H x) = 16%nat) ->
  forall (ms : list (list N)) (m : list N) (p : list (list N)),
  ms <> [] -> Forall (fun s => length s = 16%nat) p ->
  verify H (root H ms) m p = true ->
  In m ms \/
  (exists x y, find_collision H (calls H ms m p) = Some (x, y) /\ x <> y /\ H x = H y) \/
  length m = 32%nat \/
  (exists m', In m' ms /\ length m' = 32%nat).
Proof. exact sound_16. Qed.

Theorem C14_sound_wellformed : forall (L : nat) (H : list N -> list N), (forall x, length (H x) = L) ->
  forall (ms : list (list N)) (m : list N) (p : list (list N)),
  ms <> [] -> Forall (fun s => length s = L) p ->
  (forall x, In x (m :: ms) -> length x <> (2 * L)%nat) ->
  verify H (root H ms) m p = true ->
  In m ms \/ (exists x y, find_collision H (calls H ms m p) = Some (x, y) /\ x <> y /\ H x = H y).
Proof. exact sound_wellformed. Qed.

(* contract level: HasMember said Ok true (any strings as proof, no side condition on
   them: the contract's own parsing gives the lengths) *)
Theorem C14_contract_sound_sha256 : forall (H : list N -> list N), (forall x, length (H x) = 32%nat) ->
  forall (s : wl_state) (ms : list (list N)) (m : list N) (p : list (list N)),
  ms <> [] -> hex_decode (wl_root s) = Some (root H ms) ->
  wl_has_member H s m p = Ok true ->
  exists bs, Forall2 (fun h b => hex_decode h = Some b /\ length b = 32%nat) p bs /\
   (In m ms \/
    (exists x y, find_collision H (calls H ms m bs) = Some (x, y) /\ x <> y /\ H x = H y) \/
    length m = 64%nat \/
    (exists m', In m' ms /\ length m' = 64%nat)).
Proof. exact wl_has_member_sound. Qed.

Theorem C14_contract_sound_blake3_16 : forall (H : list N -> list N), (forall x, length (H x) = 16%nat) ->
  forall (ms : list (list N)) (m : list N) (p : list (list N)) (rs : list N),
  ms <> [] -> hex_decode rs = Some (root H ms) ->
  has_member 16 H rs m p = Ok true ->
  exists bs, Forall2 (fun h b => hex_decode h = Some b /\ length b = 16%nat) p bs /\
   (In m ms \/
    (exists x y, find_collision H (calls H ms m bs) = Some (x, y) /\ x <> y /\ H x = H y) \/
    length m = 32%nat \/
    (exists m', In m' ms /\ length m' = 32%nat)).
Proof. exact has_member_sound_16. Qed.

(* ---------------- malformed hashes ---------------- *)
(* a proof element that is not valid hex of exactly 32 (16) bytes, anywhere in the proof:
   the query is an error -- whatever the hash function, root, member and other elements *)
Theorem C14_malformed_is_error_sha256 : forall (H : list N -> list N) (s : wl_state) m p h,
  In h p -> hex_ok 32 h = false -> wl_has_member H s m p = Err.
Proof. exact wl_malformed_is_error. Qed.

Theorem C14_malformed_is_error_blake3_16 : forall (H : list N -> list N) root m p h,
  In h p -> hex_ok 16 h = false -> has_member 16 H root m p = Err.
Proof. exact malformed_is_error_16. Qed.

(* and that is the only source of errors *)
Theorem C14_error_iff_malformed : forall (L : nat) (H : list N -> list N) root m p,
  has_member L H root m p = Err <-> forallb (hex_ok L) p = false.
Proof. exact has_member_answer. Qed.

(* both parsers of helpers/crypto.rs accept exactly the same strings *)
Theorem C14_parsers_agree : forall L s,
  is_ok (string_to_byte_slice L s) = is_ok (valid_hash_string L s).
Proof. exact string_to_byte_slice_same. Qed.

(* ---------------- the stored root(s) ---------------- *)
(* no Execute message, from any sender at any time, changes MERKLE_ROOT / MERKLE_ROOTS *)
Theorem C14_root_immutable : forall now sender msg s s',
  wl_execute now sender msg s = Ok s' -> wl_root s' = wl_root s.
Proof. exact wl_root_immutable. Qed.

Theorem C14_root_immutable_history : forall h s, wl_root (wl_run h s) = wl_root s.
Proof. exact wl_root_immutable_history. Qed.

Theorem C14_tiered_roots_immutable : forall now sender msg s s',
  tw_execute now sender msg s = Ok s' -> tw_roots s' = tw_roots s.
Proof. exact tw_roots_immutable. Qed.

Theorem C14_tiered_roots_immutable_history : forall h s, tw_roots (tw_run h s) = tw_roots s.
Proof. exact tw_roots_immutable_history. Qed.

(* migrate: accepted exactly when sent by the wasm admin, from the contract's own cw2 name
   and a stored version that parses and is not newer than the code's (3.16.0); an accepted
   migrate returns the state untouched, a refused one changes nothing by construction *)
Theorem C14_migrate_accepted_iff : forall by_admin name_ok ver,
  merkle_migrate_ok by_admin name_ok ver = true <->
  by_admin = true /\ name_ok = true /\ exists x, ver = Some x /\ ver_ltb MERKLE_CUR_VERSION x = false.
Proof. exact merkle_migrate_ok_iff. Qed.

Theorem C14_migrate_is_frame : forall a n v s s', wl_migrate a n v s = Ok s' -> s' = s.
Proof. exact wl_migrate_frame. Qed.

Theorem C14_tiered_migrate_is_frame : forall a n v s s', tw_migrate a n v s = Ok s' -> s' = s.
Proof. exact tw_migrate_frame. Qed.

(* no Execute message and no Migrate changes the root(s): single step and whole histories *)
Theorem C14_root_immutable_step : forall st s s', wl_apply st s = Ok s' -> wl_root s' = wl_root s.
Proof. exact wl_root_immutable_step. Qed.

Theorem C14_root_immutable_history_with_migrates : forall h s, wl_root (wl_run_steps h s) = wl_root s.
Proof. exact wl_root_immutable_steps. Qed.

Theorem C14_tiered_roots_immutable_step : forall st s s', tw_apply st s = Ok s' -> tw_roots s' = tw_roots s.
Proof. exact tw_roots_immutable_step. Qed.

Theorem C14_tiered_roots_immutable_history_with_migrates : forall h s, tw_roots (tw_run_steps h s) = tw_roots s.
Proof. exact tw_roots_immutable_steps. Qed.

(* UpdateStageConfig rebuilds the record at the addressed index and nothing else: the roots,
   the identities position by position, the length and every other position are kept *)
Theorem C14_update_stage_in_place : forall sender id st en dn lm s s',
  tw_update_stage_config sender id st en dn lm s = Ok s' ->
  tw_roots s' = tw_roots s /\
  map st_id (tw_stages s') = map st_id (tw_stages s) /\
  length (tw_stages s') = length (tw_stages s) /\
  (forall j, j <> N.to_nat id -> nth_error (tw_stages s') j = nth_error (tw_stages s) j).
Proof. exact tw_update_stage_in_place. Qed.

(* hence the pairing (stage identity, root) by position is invariant over every history of
   Execute (incl. UpdateStageConfig) and Migrate calls: the list issued for a stage is
   checked against the root issued with it, for ever *)
Theorem C14_stage_root_pairing_invariant : forall h s,
  combine (map st_id (tw_stages (tw_run_steps h s))) (tw_roots (tw_run_steps h s)) =
  combine (map st_id (tw_stages s)) (tw_roots s).
Proof. exact tw_pairing_steps. Qed.

(* the update is validated exactly as in C13's model of the tiered family (Stages.v, kind
   KMerkle): non-empty, fewer than 4 stages, limits in 1..=50, one denom, every window
   non-empty, each later stage starting no earlier than every earlier one ends *)
Theorem C14_update_validation_is_C13s : forall l,
  is_ok (validate_update l) = Stages.validate_update Stages.KMerkle (map to_c13 l).
Proof. exact validate_update_c13. Qed.

(* so members keep being accepted and non-members rejected across any such history *)
Theorem C14_has_member_stable_over_histories : forall (H : list N -> list N) h s m p,
  wl_has_member H (wl_run_steps h s) m p = wl_has_member H s m p.
Proof. exact wl_has_member_stable. Qed.

Theorem C14_tiered_has_member_stable_over_migrate : forall (H : list N -> list N) a n v s s' now m p,
  tw_migrate a n v s = Ok s' -> tw_has_member H now s' m p = tw_has_member H now s m p.
Proof. exact tw_has_member_after_migrate. Qed.

(* ---------------- tiered: the active stage's root only ---------------- *)
Theorem C14_tiered_uses_active_root : forall (H : list N -> list N) now s m p,
  match active_index now (tw_stages s) with
  | None => tw_has_member H now s m p = Err
  | Some i =>
      match nth_error (tw_roots s) i with
      | Some r => tw_has_member H now s m p = has_member 16 H r m p
      | None => tw_has_member H now s m p = Err
      end
  end.
Proof. exact tiered_uses_active_root. Qed.

(* the active index is the first stage whose window [start, end] (both ends inclusive)
   contains the block time *)
Theorem C14_active_index_is_first_open_stage : forall now l i, active_index now l = Some i ->
  (exists s, nth_error l i = Some s /\ (st_start s <=? now) && (now <=? st_end s) = true) /\
  (forall j s, (j < i)%nat -> nth_error l j = Some s -> (st_start s <=? now) && (now <=? st_end s) = false).
Proof. exact active_index_spec. Qed.

Theorem C14_no_active_stage : forall now l, active_index now l = None ->
  forall s, In s l -> (st_start s <=? now) && (now <=? st_end s) = false.
Proof. exact active_index_none. Qed.

(* ---------------- the leaf binds the sender ---------------- *)
(* assumption on address strings, stated: they start with a non-digit character (every
   bech32 address starts with its human-readable prefix) and the two addresses have the
   same length.  Then the composed string determines stage, sender and allocation. *)
Theorem C14_leaf_injective : forall st a al st' a' al',
  head_nondigit a -> head_nondigit a' -> length a = length a' ->
  leaf st a al = leaf st' a' al' -> st = st' /\ a = a' /\ al = al'.
Proof. exact leaf_inj. Qed.

Theorem C14_leaf_binds_sender : forall st a al st' a' al',
  head_nondigit a -> head_nondigit a' -> length a = length a' ->
  a <> a' -> leaf st a al <> leaf st' a' al'.
Proof. exact leaf_binds_sender. Qed.

Theorem C14_decimal_injective : forall n m, dec n = dec m -> n = m.
Proof. exact dec_inj. Qed.

(* end to end: a proof for one (stage, address, allocation) entry is useless to a sender
   whose own triple is not an entry *)
Theorem C14_proof_useless_to_other : forall (L : nat) (H : list N -> list N), (forall x, length (H x) = L) ->
  forall (entries : list (option N * list N * option N)) (K : nat) st b al p,
  entries <> [] ->
  (forall st' a' al', In (st', a', al') entries -> head_nondigit a' /\ length a' = K) ->
  head_nondigit b -> length b = K ->
  Forall (fun s => length s = L) p ->
  verify H (root H (map entry_leaf entries)) (leaf st b al) p = true ->
  In (st, b, al) entries \/
  (exists x y, find_collision H (calls H (map entry_leaf entries) (leaf st b al) p) = Some (x, y)
               /\ x <> y /\ H x = H y) \/
  length (leaf st b al) = (2 * L)%nat \/
  (exists e, In e entries /\ length (entry_leaf e) = (2 * L)%nat).
Proof. exact proof_useless_to_other. Qed.

(* ---------------- non-vacuity ---------------- *)
(* toyH: 2-byte digests (sum, length).  Members "ab" "cd" "ef" "gh" "ij" (odd size). *)
Example C14_ex_members_accepted :
  let ms := [[97;98]; [99;100]; [101;102]; [103;104]; [105;106]] in
  map (fun i => verify toyH (root toyH ms) (nth i ms []) (proof_at toyH ms i)) [0;1;2;3;4]%nat
  = [true; true; true; true; true]
  /\ map (fun i => length (proof_at toyH ms i)) [0;1;2;3;4]%nat = [3;3;3;3;1]%nat.
Proof. vm_compute. split; reflexivity. Qed.

(* a non-member with a member's proof, a truncated and an extended proof: rejected *)
Example C14_ex_non_member_rejected :
  let ms := [[97;98]; [99;100]; [101;102]; [103;104]; [105;106]] in
  verify toyH (root toyH ms) [120;121] (proof_at toyH ms 0) = false /\
  verify toyH (root toyH ms) [97;98] (tl (proof_at toyH ms 0)) = false /\
  verify toyH (root toyH ms) [97;98] (proof_at toyH ms 0 ++ [[1;2]]) = false.
Proof. vm_compute. repeat split; reflexivity. Qed.

(* the collision disjunct is real and the search exhibits it: "ba" is not listed, is
   accepted with the proof of "ab" under the weak toy hash, and find_collision returns
   the colliding pair *)
Example C14_ex_collision_computed :
  let ms := [[97;98]; [99;100]; [101;102]] in
  ~ In [98;97] ms /\
  verify toyH (root toyH ms) [98;97] (proof_at toyH ms 0) = true /\
  find_collision toyH (calls toyH ms [98;97] (proof_at toyH ms 0)) = Some ([98;97], [97;98]).
Proof.
  split; [|vm_compute; split; reflexivity].
  intros [E|[E|[E|[]]]]; discriminate.
Qed.

(* the 2L caveat is real: the 4-byte concatenation of the two leaf digests is accepted
   with the empty proof although it is not listed *)
Example C14_ex_inner_preimage_accepted :
  let ms := [[97;98]; [99;100]] in
  let m := sortcat (toyH [97;98]) (toyH [99;100]) in
  length m = 4%nat /\ verify toyH (root toyH ms) m [] = true.
Proof. vm_compute. split; reflexivity. Qed.

(* hex parsing: upper case accepted, odd length / non-hex / wrong length rejected *)
Example C14_ex_hex :
  hex_decode [65;98;48;49] = Some [171; 1] /\ hex_decode [65;98;48] = None /\
  hex_decode [65;103] = None /\ hex_ok 2 [65;98;48;49] = true /\ hex_ok 32 [65;98;48;49] = false /\
  hex_encode [171; 1] = [97;98;48;49].
Proof. vm_compute. repeat split; reflexivity. Qed.

Example C14_ex_malformed_err :
  has_member 2 toyH [48;48;48;48] [97;98] [[48;48;48;48]; [120;121;48;48]] = Err /\
  has_member 2 toyH [48;48;48;48] [97;98] [[48;48;48;48]] = Ok false.
Proof. vm_compute. split; reflexivity. Qed.

(* an upper-case and a mixed-case spelling of the root accept the member as well *)
Example C14_ex_root_spelling :
  let ms := [[97;98]; [99;100]] in
  let r := hex_encode (root toyH ms) in
  let p := map hex_encode (proof_at toyH ms 1) in
  r = [97;51;48;52] /\
  has_member 2 toyH r [99;100] p = Ok true /\
  has_member 2 toyH [65;51;48;52] [99;100] p = Ok true /\
  has_member 2 toyH [65;51;48;53] [99;100] p = Ok false.
Proof. vm_compute. repeat split; reflexivity. Qed.

(* spellings: lower / upper / mixed case accepted; 0x prefix, whitespace, 63 / 65 / 62 / 66
   digits, empty, a non-hex character, the other tree's length refused *)
Example C14_ex_spellings :
  let r := hex_encode (repeat 171 32) in
  let up := map (fun c => if (97 <=? c) && (c <=? 102) then c - 32 else c) r in
  map (fun s => is_ok (verify_merkle_root 32 s))
      [r; up; firstn 32 up ++ skipn 32 r; [48; 120] ++ r; [48; 88] ++ r; [32] ++ r; r ++ [32]; r ++ [10];
       firstn 63 r; r ++ [48]; firstn 62 r; r ++ [48; 48]; []; [103] ++ skipn 1 r; firstn 32 r;
       [48; 120] ++ firstn 62 r]
  = [true; true; true; false; false; false; false; false; false; false; false; false; false; false; false; false].
Proof. vm_compute. reflexivity. Qed.

(* root immutability is a fact about `execute`'s dispatch: the update handler that exists
   in contract.rs would replace the root if anything called it *)
Example C14_ex_unreachable_handler_would_change_root :
  let s := mkWl [7] true 100 200 1 (hex_encode (repeat 1 32)) in
  match wl_update_merkle_tree 200 7 (hex_encode (repeat 2 32)) true s with
  | Ok s' => wl_root s' <> wl_root s
  | Err => False
  end.
Proof. vm_compute. discriminate. Qed.

(* migrate: from 3.0.0, 3.15.9 and 3.16.0 by the admin accepted; a newer stored version, a
   foreign cw2 name, an unparsable version or a non-admin refused; roots as before *)
Example C14_ex_migrate :
  let s := mkTw [7] true [mkStage 0 100 200 0 1] [hex_encode (repeat 1 16)] in
  map (fun c => match c with (a, n, v) => is_ok (tw_migrate a n v s) end)
      [(true, true, Some (3, 0, 0)); (true, true, Some (3, 15, 9)); (true, true, Some (3, 16, 0));
       (true, true, Some (3, 16, 1)); (true, true, Some (4, 0, 0)); (true, false, Some (3, 0, 0));
       (true, true, None); (false, true, Some (3, 0, 0))]
  = [true; true; true; false; false; false; false; false] /\
  tw_roots (tw_run_steps [TsMigrate true true (Some (3, 0, 0)); TsExec 50 7 TFreeze;
                          TsMigrate false true (Some (3, 0, 0))] s) = tw_roots s.
Proof. vm_compute. split; reflexivity. Qed.

(* re-scheduling: a window may shrink, grow until it touches its neighbours, and move inside
   its gap; it may not overlap or cross a neighbour (so no identity ever changes position) *)
Example C14_ex_reschedule :
  let s := mkTw [7] true [mkStage 0 100 200 0 1; mkStage 1 200 300 0 1; mkStage 2 400 500 0 1] [[48]; [49]; [50]] in
  map (fun c => match c with (id, st, en) => is_ok (tw_update_stage_config 7 id st en None None s) end)
      [(1, Some 210, Some 290); (1, None, Some 400); (1, None, Some 401); (1, Some 199, None);
       (0, Some 600, Some 700); (2, Some 10, Some 50); (1, Some 310, Some 390); (2, Some 300, None); (3, None, None)]
  = [true; true; false; false; false; false; true; true; false] /\
  match tw_update_stage_config 7 1 (Some 310) (Some 390) None None s with
  | Ok s' => tw_pairing s' = [(0, [48]); (1, [49]); (2, [50])]
  | Err => False
  end.
Proof. vm_compute. split; reflexivity. Qed.

(* the leaf: stage 0 is rendered "0", it is not dropped *)
Example C14_ex_leaf_stage_zero :
  leaf (Some 0) [115;49;113] None = [48; 115;49;113] /\ leaf (Some 0) [115;49;113] (Some 0) = [48; 115;49;113; 48] /\
  leaf None [115;49;113] None = [115;49;113] /\ leaf (Some 0) [115;49;113] None <> leaf None [115;49;113] None.
Proof. vm_compute. repeat split; try reflexivity. discriminate. Qed.

(* tiered: at the shared boundary instant of two adjacent stages the earlier stage wins *)
Example C14_ex_tiered_boundary :
  let st := [mkStage 0 100 200 0 1; mkStage 1 200 300 0 1; mkStage 2 400 500 0 1] in
  map (fun t => active_index t st) [99; 100; 200; 201; 300; 301; 400; 500; 501]
  = [None; Some 0; Some 0; Some 1; Some 1; None; Some 2; Some 2; None]%nat.
Proof. vm_compute. reflexivity. Qed.

(* the leaf: "3" ++ "stars1q" ++ "15"; and why equal address lengths are assumed *)
Example C14_ex_leaf :
  leaf (Some 3) [115;116;97;114;115;49;113] (Some 15) = [51; 115;116;97;114;115;49;113; 49;53] /\
  dec 0 = [48] /\ dec 4294967295 = [52;50;57;52;57;54;55;50;57;53] /\
  leaf None [115;49] (Some 23) = leaf None [115;49;50] (Some 3).
Proof. vm_compute. repeat split; reflexivity. Qed.

Print Assumptions C14_complete_at.
Print Assumptions C14_complete.
Print Assumptions C14_complete_sha256.
Print Assumptions C14_complete_blake3_16.
Print Assumptions C14_lowercase_root_decodes.
Print Assumptions C14_accepted_root_spelling_sha256.
Print Assumptions C14_accepted_root_spelling_blake3_16.
Print Assumptions C14_accepted_root_denotes.
Print Assumptions C14_instantiate_root.
Print Assumptions C14_tiered_instantiate_roots.
Print Assumptions C14_instantiate_then_complete.
Print Assumptions C14_sound_sha256.
Print Assumptions C14_sound_blake3_16.
Print Assumptions C14_sound_wellformed.
Print Assumptions C14_contract_sound_sha256.
Print Assumptions C14_contract_sound_blake3_16.
Print Assumptions C14_malformed_is_error_sha256.
Print Assumptions C14_malformed_is_error_blake3_16.
Print Assumptions C14_error_iff_malformed.
Print Assumptions C14_parsers_agree.
Print Assumptions C14_root_immutable.
Print Assumptions C14_root_immutable_history.
Print Assumptions C14_tiered_roots_immutable.
Print Assumptions C14_tiered_roots_immutable_history.
Print Assumptions C14_migrate_accepted_iff.
Print Assumptions C14_migrate_is_frame.
Print Assumptions C14_tiered_migrate_is_frame.
Print Assumptions C14_root_immutable_step.
Print Assumptions C14_root_immutable_history_with_migrates.
Print Assumptions C14_tiered_roots_immutable_step.
Print Assumptions C14_tiered_roots_immutable_history_with_migrates.
Print Assumptions C14_update_stage_in_place.
Print Assumptions C14_stage_root_pairing_invariant.
Print Assumptions C14_update_validation_is_C13s.
Print Assumptions C14_has_member_stable_over_histories.
Print Assumptions C14_tiered_has_member_stable_over_migrate.
Print Assumptions C14_tiered_uses_active_root.
Print Assumptions C14_active_index_is_first_open_stage.
Print Assumptions C14_no_active_stage.
Print Assumptions C14_leaf_injective.
Print Assumptions C14_leaf_binds_sender.
Print Assumptions C14_decimal_injective.
Print Assumptions C14_proof_useless_to_other.
