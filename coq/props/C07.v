(* C07 — Price rules: floor, no post-launch increase, honest price query.
   Part 1: the six vending minters (one model, three variant flags); Part 2 (further
   down): the three open-edition minters and creation through the factories.  Every statement is
   for every variant, every sender, clock, attached funds and every answer of the factory
   (parameters in force at call time, `fp`) and of the whitelist (`wv`).  Times are block
   times in nanoseconds: 12 h = 43200 s = 43200 * 1000000000 ns, 1 h = 3600 * 1000000000 ns.
   Statements only; proofs are in proofs/C07Proofs.v.

   Two clauses of the property are FALSE on the current tree and are recorded findings
   (known_findings.json), each with a refutation witness and the theorem that holds
   outside the recorded class:
     D4  C07:discount-above-lowered-price       (C07_charged_le_public_refuted / _outside_known)
     D8  C07:non-native-min-price-governance    (C07_denom_refuted / C07_update_price_denom_if_factory_denom_unchanged) *)
From LP Require Import Num Pay Sg1 MinterVending CreatePrice MinterVendingProofs C07Proofs.
Import ListNotations.
Local Open Scope N_scope.

(* ---- creation (vending factory, price clause): accepted => at least the minimum in
   force, in the minimum's denom ---- *)
Theorem C07_create_ok : forall fp price d,
  create_price_ok fp price d = true -> fp_min_price fp <= price /\ d = fp_min_denom fp.
Proof. exact create_price_ok_spec. Qed.

(* ---- UpdateMintPrice: only the admin, never below the minimum in force, strictly
   lower once the stored start time has been reached; changes the price amount and
   nothing else (in particular not the denom, the discount or its cooldown anchor) ---- *)
Theorem C07_update_price_ok : forall vr s e fp wv p s' ms,
  step vr s e fp wv (OUpdateMintPrice p) = Ok (s', ms) ->
  e_sender e = s_admin s /\ e_funds e = [] /\
  fp_min_price fp <= p /\
  (s_start s <= e_now e -> p < s_price s) /\
  s' = mkVS (s_admin s) (s_payment s) (s_num_tokens s) (s_pal s) (s_whitelist s) (s_start s)
            p (s_denom s) (s_discount s)
            (s_mintable s) (s_positions s) (s_minted s) (s_burned s) (s_public s) (s_wl s) (s_fs s) (s_ss s) (s_ts s)
            (s_fs_count s) (s_ss_count s) (s_ts_count s) (s_airdrops s) (s_last_discount s) (s_trading s) /\
  ms = [].
Proof. exact update_price_ok. Qed.

(* ---- UpdateDiscountPrice: only the admin, only from the start time on, never above the
   public price, never below the minimum in force, no sooner than 12 h after the last
   discount change; sets the discount and the cooldown anchor and nothing else ---- *)
Theorem C07_update_discount_ok : forall vr s e fp wv d s' ms,
  step vr s e fp wv (OUpdateDiscountPrice d) = Ok (s', ms) ->
  e_sender e = s_admin s /\ e_funds e = [] /\
  s_start s <= e_now e /\
  d <= s_price s /\
  fp_min_price fp <= d /\
  s_last_discount s + 43200 * 1000000000 <= e_now e /\
  s' = mkVS (s_admin s) (s_payment s) (s_num_tokens s) (s_pal s) (s_whitelist s) (s_start s)
            (s_price s) (s_denom s) (Some d)
            (s_mintable s) (s_positions s) (s_minted s) (s_burned s) (s_public s) (s_wl s) (s_fs s) (s_ss s) (s_ts s)
            (s_fs_count s) (s_ss_count s) (s_ts_count s) (s_airdrops s) (e_now e) (s_trading s) /\
  ms = [].
Proof. exact update_discount_ok. Qed.

(* ---- RemoveDiscountPrice: only the admin, no sooner than 1 h after the last discount
   change; clears the discount, moves the anchor, nothing else ---- *)
Theorem C07_remove_discount_ok : forall vr s e fp wv s' ms,
  step vr s e fp wv ORemoveDiscountPrice = Ok (s', ms) ->
  e_sender e = s_admin s /\ e_funds e = [] /\
  s_last_discount s + 3600 * 1000000000 <= e_now e /\
  s' = mkVS (s_admin s) (s_payment s) (s_num_tokens s) (s_pal s) (s_whitelist s) (s_start s)
            (s_price s) (s_denom s) None
            (s_mintable s) (s_positions s) (s_minted s) (s_burned s) (s_public s) (s_wl s) (s_fs s) (s_ss s) (s_ts s)
            (s_fs_count s) (s_ss_count s) (s_ts_count s) (s_airdrops s) (e_now e) (s_trading s) /\
  ms = [].
Proof. exact remove_discount_ok. Qed.

(* ---- SetWhitelist on an existing minter: only the admin, only before the start, only
   while the attached whitelist (if any) is not active; the new whitelist is not active,
   its price is at least the minimum in force, in the minimum's denom, and (except on the
   two flex variants) in the minter's own denom; only the whitelist field changes ---- *)
Theorem C07_set_whitelist_ok : forall vr s e fp wv wok w newview s' ms,
  step vr s e fp wv (OSetWhitelist wok w newview) = Ok (s', ms) ->
  e_sender e = s_admin s /\ e_funds e = [] /\
  e_now e < s_start s /\
  (s_whitelist s <> None -> exists v, wv = Some v /\ wv_active v = false) /\
  (exists nv, newview = Some nv /\ wv_active nv = false /\
              fp_min_price fp <= wv_price nv /\
              wv_denom nv = fp_min_denom fp /\
              (v_flex vr = false -> wv_denom nv = s_denom s)) /\
  s' = mkVS (s_admin s) (s_payment s) (s_num_tokens s) (s_pal s) (Some w) (s_start s)
            (s_price s) (s_denom s) (s_discount s)
            (s_mintable s) (s_positions s) (s_minted s) (s_burned s) (s_public s) (s_wl s) (s_fs s) (s_ss s) (s_ts s)
            (s_fs_count s) (s_ss_count s) (s_ts_count s) (s_airdrops s) (s_last_discount s) (s_trading s) /\
  ms = [].
Proof. exact set_whitelist_ok. Qed.

(* ---- no operation of any kind ever changes the denom of the mint price ---- *)
Theorem C07_denom_never_changes : forall vr cs s, s_denom (run vr s cs) = s_denom s.
Proof. exact run_denom. Qed.

(* ---- once the mint has started the public price can only go down.
   Sound formulation: "started" is judged against the start time STORED in the state at
   that moment (UpdateStartTime may still move it while it lies in the future); from a
   state whose stored start time is <= t, every history of calls made at block times >= t
   (any operations, any senders, failed calls included) ends with a public price that is
   not higher, and with the same start time.  Taking the state after cs1 and the state
   after cs1 ++ cs2 gives any two states of one history. ---- *)
Theorem C07_at_or_after_spelled_out : forall t cs,
  at_or_after t cs <-> Forall (fun c => t <= e_now (c_env c)) cs.
Proof. intros t cs. unfold at_or_after. tauto. Qed.

Theorem C07_public_price_nonincreasing_after_start : forall vr s0 cs1 cs2 t,
  s_start (run vr s0 cs1) <= t -> at_or_after t cs2 ->
  s_price (run vr s0 (cs1 ++ cs2)) <= s_price (run vr s0 cs1).
Proof. exact public_price_nonincreasing. Qed.

Theorem C07_start_time_frozen_after_start : forall vr cs s t,
  s_start s <= t -> at_or_after t cs ->
  s_price (run vr s cs) <= s_price s /\ s_start (run vr s cs) = s_start s.
Proof. exact price_nonincreasing_after_start. Qed.

(* ---- cooldowns over histories.  disc_events lists the accepted discount changes of a
   history in order as (block time, true = UpdateDiscountPrice / false = RemoveDiscountPrice).
   What the model guarantees (stronger than "12 h between sets unless a removal
   intervened"): ANY accepted set comes >= 12 h after EVERY earlier accepted change (set
   or removal), and any accepted removal >= 1 h after every earlier accepted change; the
   first change respects the anchor stored at creation (creation time - 12 h). ---- *)
Theorem C07_gap_spelled_out : gap true = 43200 * 1000000000 /\ gap false = 3600 * 1000000000.
Proof. split; reflexivity. Qed.

Theorem C07_disc_events_spelled_out : forall vr s c cs,
  disc_events vr s [] = [] /\
  disc_events vr s (c :: cs) =
    (match step vr s (c_env c) (c_fp c) (c_wv c) (c_op c), c_op c with
     | Ok _, OUpdateDiscountPrice _ => [(e_now (c_env c), true)]
     | Ok _, ORemoveDiscountPrice => [(e_now (c_env c), false)]
     | _, _ => []
     end) ++ disc_events vr (apply_call vr s c) cs.
Proof.
  intros vr s c cs. split; [ reflexivity | ]. cbn [disc_events]. unfold disc_event.
  destruct (step vr s (c_env c) (c_fp c) (c_wv c) (c_op c)); destruct (c_op c); reflexivity.
Qed.

Theorem C07_discount_cooldowns_pairwise : forall vr s cs l1 t1 k1 l2 t2 k2 l3,
  disc_events vr s cs = l1 ++ (t1, k1) :: l2 ++ (t2, k2) :: l3 ->
  t1 + (if k2 then 43200 * 1000000000 else 3600 * 1000000000) <= t2.
Proof. exact discount_changes_pairwise. Qed.

Theorem C07_discount_first_change : forall vr s cs t k,
  In (t, k) (disc_events vr s cs) ->
  s_last_discount s + (if k then 43200 * 1000000000 else 3600 * 1000000000) <= t.
Proof. exact discount_first_change. Qed.

(* ---- the price query is the charge.  current_price of MintPrice is literally the
   function the mint uses; a Mint that succeeds attached exactly that coin; a Mint whose
   attached funds are anything else fails whatever else holds; the quoted coin passes
   the payment guard and a single coin of any other amount or denom does not. ---- *)
Theorem C07_query_is_charge : forall s fp wv, q_current_price s fp wv = mint_price s fp wv false.
Proof. exact query_is_mint_price. Qed.

Theorem C07_mint_pays_exactly_the_quote : forall vr s e fp wv stage proof alloc choice s' ms,
  step vr s e fp wv (OMint stage proof alloc choice) = Ok (s', ms) ->
  exists p d, q_current_price s fp wv = Ok (p, d) /\ may_pay (e_funds e) d = Ok p.
Proof. exact mint_pays_quote. Qed.

Theorem C07_mint_with_other_payment_fails : forall vr s e fp wv stage proof alloc choice p d,
  q_current_price s fp wv = Ok (p, d) -> may_pay (e_funds e) d <> Ok p ->
  step vr s e fp wv (OMint stage proof alloc choice) = Err.
Proof. exact mint_other_payment_fails. Qed.

Theorem C07_payment_guard : forall d p,
  may_pay [mkCoin d p] d = Ok p /\
  (forall d' x, (d', x) <> (d, p) -> may_pay [mkCoin d' x] d <> Ok p).
Proof. intros d p. split; [ apply quoted_coin_passes | intros d' x; apply other_coin_fails ]. Qed.

(* which price is quoted: the whitelist's while an attached whitelist is active,
   otherwise the discount if one is set, otherwise the public price *)
Theorem C07_quote_when_whitelist_active : forall s fp w v,
  s_whitelist s = Some w -> wv_active v = true ->
  q_current_price s fp (Some v) = Ok (wv_price v, wv_denom v).
Proof. exact whitelist_quote. Qed.

Theorem C07_quote_when_public : forall s fp wv,
  (s_whitelist s = None \/ exists v, wv = Some v /\ wv_active v = false) ->
  q_current_price s fp wv =
    Ok (match s_discount s with Some d => d | None => s_price s end, s_denom s).
Proof. exact public_quote. Qed.

(* ---- D4: "a public buyer is never charged more than the advertised public price".
   FULL STATEMENT (refuted on the current tree):
     forall vr s0 cs ..., disc_le_price s0 -> wl_inactive (run vr s0 cs) wv ->
       step vr (run vr s0 cs) e fp wv (OMint ..) = Ok _ ->
       exists paid, may_pay (e_funds e) (s_denom ..) = Ok paid /\ paid <= s_price (run vr s0 cs).
   Witness: discount 80 set after the start, then the price lowered to 60; the query
   quotes 80, a mint paying 60 fails, a mint paying 80 succeeds. ---- *)
Definition ex_fp : fparams := mkFP 50 0 1000 0 0 10000 500 50 604800.
Definition ex_s0 : vstate :=
  mkVS 10 None 3 2 None 1000 100 0 None 3 [(1, 2); (2, 3); (3, 1)] [] 0 [] [] [] [] [] 0 0 0 0 0 None.
Definition ex_plain : variant := mkVariant false false false.
Definition d4_calls : list call :=
  [ mkCall (mkEnv 43200000000000 10 [] 20) ex_fp None (OUpdateDiscountPrice 80);
    mkCall (mkEnv 43200000000001 10 [] 20) ex_fp None (OUpdateMintPrice 60) ].

Theorem C07_disc_le_price_spelled_out : forall s,
  disc_le_price s <-> match s_discount s with Some d => d <= s_price s | None => True end.
Proof. intros s. unfold disc_le_price. tauto. Qed.

Theorem C07_charged_le_public_refuted :
  exists vr s0 cs e fp wv stage proof alloc choice s' ms paid,
    disc_le_price s0 /\
    (s_whitelist (run vr s0 cs) = None) /\
    step vr (run vr s0 cs) e fp wv (OMint stage proof alloc choice) = Ok (s', ms) /\
    may_pay (e_funds e) (s_denom (run vr s0 cs)) = Ok paid /\
    s_price (run vr s0 cs) < paid /\
    (* the query is honest about it, and the advertised public price is refused *)
    q_current_price (run vr s0 cs) fp wv = Ok (paid, s_denom (run vr s0 cs)) /\
    step vr (run vr s0 cs) (mkEnv (e_now e) (e_sender e) [mkCoin 0 (s_price (run vr s0 cs))] (e_contract e))
         fp wv (OMint stage proof alloc choice) = Err.
Proof.
  exists ex_plain, ex_s0, d4_calls, (mkEnv 43200000000002 11 [mkCoin 0 80] 20), ex_fp, None,
         None, false, None, 3.
  eexists. eexists. exists 80.
  split; [ exact I | ]. split; [ reflexivity | ]. split; [ vm_compute; reflexivity | ].
  split; [ reflexivity | ]. split; [ vm_compute; reflexivity | ]. split; reflexivity.
Qed.

(* what holds instead: in every history in which no ACCEPTED UpdateMintPrice sets a price
   below the discount standing at that moment (the recorded shape), the public buyer is
   charged at most the public price — so any other way of over-charging is still a
   violation *)
Theorem C07_cuts_below_discount_spelled_out : forall s o,
  cuts_below_discount s o = true <->
  exists p d, o = OUpdateMintPrice p /\ s_discount s = Some d /\ p < d.
Proof.
  intros s o. unfold cuts_below_discount. split.
  - destruct o; try discriminate. destruct (s_discount s) as [d|]; [ | discriminate ].
    intros H. exists p, d. repeat split. apply N.ltb_lt. exact H.
  - intros (p & d & -> & -> & H). apply N.ltb_lt. exact H.
Qed.

Theorem C07_no_cut_spelled_out : forall vr s c cs,
  (no_cut_below_discount vr s [] <-> True) /\
  (no_cut_below_discount vr s (c :: cs) <->
     (is_ok (step vr s (c_env c) (c_fp c) (c_wv c) (c_op c)) = true -> cuts_below_discount s (c_op c) = false) /\
     no_cut_below_discount vr (apply_call vr s c) cs).
Proof. intros. split; cbn [no_cut_below_discount]; tauto. Qed.

Theorem C07_discount_never_above_price_outside_known : forall vr cs s,
  disc_le_price s -> no_cut_below_discount vr s cs -> disc_le_price (run vr s cs).
Proof. exact run_disc_le. Qed.

Theorem C07_charged_le_public_outside_known : forall vr s0 cs e fp wv stage proof alloc choice s' ms,
  disc_le_price s0 -> no_cut_below_discount vr s0 cs ->
  (s_whitelist (run vr s0 cs) = None \/ exists v, wv = Some v /\ wv_active v = false) ->
  step vr (run vr s0 cs) e fp wv (OMint stage proof alloc choice) = Ok (s', ms) ->
  exists paid, may_pay (e_funds e) (s_denom (run vr s0 cs)) = Ok paid /\ paid <= s_price (run vr s0 cs).
Proof. exact charged_le_public_outside_known. Qed.

(* ---- D8: "an updated price is in the denom of the minimum in force".
   FULL STATEMENT (refuted on the current tree):
     create_price_ok fp0 price0 (s_denom s0) = true ->
     step vr (run vr s0 cs) e fp wv (OUpdateMintPrice p) = Ok (s', ms) -> s_denom s' = fp_min_denom fp.
   Governance can replace the minimum of a non-native factory only by a NATIVE coin; the
   minter keeps its creation denom.  Witness: created at 100 ibc/x (id 1) under a
   minimum of 50 ibc/x; minimum becomes 70 ustars (id 0); UpdateMintPrice 90 succeeds:
   90 ibc/x under a minimum of 70 ustars. ---- *)
Definition d8_fp0 : fparams := mkFP 50 1 1000 0 0 10000 500 50 604800.
Definition d8_fp1 : fparams := mkFP 70 0 1000 0 0 10000 500 50 604800.
Definition d8_s0 : vstate :=
  mkVS 10 None 3 2 None 1000 100 1 None 3 [(1, 2); (2, 3); (3, 1)] [] 0 [] [] [] [] [] 0 0 0 0 0 None.

Theorem C07_denom_refuted :
  exists vr fp0 price0 s0 cs e fp wv p s' ms,
    create_price_ok fp0 price0 (s_denom s0) = true /\
    step vr (run vr s0 cs) e fp wv (OUpdateMintPrice p) = Ok (s', ms) /\
    fp_min_price fp <= s_price s' /\
    s_denom s' <> fp_min_denom fp.
Proof.
  exists ex_plain, d8_fp0, 100, d8_s0, [], (mkEnv 500 10 [] 20), d8_fp1, None, 90.
  eexists. eexists.
  split; [ reflexivity | ]. split; [ vm_compute; reflexivity | ]. split; [ vm_compute; discriminate | ].
  vm_compute. discriminate.
Qed.

(* what holds instead: as long as the factory's minimum is still in the denom it had when
   the minter was created, every updated price and discount is in the minimum's denom *)
Theorem C07_update_price_denom_if_factory_denom_unchanged : forall vr fp0 price0 s0 cs e fp wv p s' ms,
  create_price_ok fp0 price0 (s_denom s0) = true ->
  fp_min_denom fp = fp_min_denom fp0 ->
  step vr (run vr s0 cs) e fp wv (OUpdateMintPrice p) = Ok (s', ms) ->
  s_price s' = p /\ s_denom s' = fp_min_denom fp.
Proof. exact update_price_denom. Qed.

Theorem C07_update_discount_denom_if_factory_denom_unchanged : forall vr fp0 price0 s0 cs e fp wv d s' ms,
  create_price_ok fp0 price0 (s_denom s0) = true ->
  fp_min_denom fp = fp_min_denom fp0 ->
  step vr (run vr s0 cs) e fp wv (OUpdateDiscountPrice d) = Ok (s', ms) ->
  s_discount s' = Some d /\ s_denom s' = fp_min_denom fp.
Proof. exact update_discount_denom. Qed.

(* ---- non-vacuity: one history through every operation of the property, at the exact
   boundaries, evaluated in the model.  Start 1000; creation anchor 0.
     t=999    raise 100 -> 120 before the start                         accepted
     t=1000   raise to 121 / keep 120 at the start instant              both refused
     t=1000   lower to 110                                              accepted
     12h-1ns  discount 90                                               refused (cooldown)
     12h      discount 111 (> public) / 49 (< minimum 50)               refused
     12h      discount 90                                               accepted
     +1h-1ns  remove                                                    refused
     +1h      remove                                                    accepted
     +12h-1   discount 80 (12 h after the REMOVAL minus 1 ns)           refused
     +12h     discount 80                                               accepted ---- *)
Definition H12 : N := 43200000000000.
Definition H1 : N := 3600000000000.
Definition adm (t : N) (o : vop) : call := mkCall (mkEnv t 10 [] 20) ex_fp None o.
Definition ex_calls : list call :=
  [ adm 999 (OUpdateMintPrice 120);
    adm 1000 (OUpdateMintPrice 121);
    adm 1000 (OUpdateMintPrice 120);
    adm 1000 (OUpdateMintPrice 110);
    adm (H12 - 1) (OUpdateDiscountPrice 90);
    adm H12 (OUpdateDiscountPrice 111);
    adm H12 (OUpdateDiscountPrice 49);
    adm H12 (OUpdateDiscountPrice 90);
    adm (H12 + H1 - 1) ORemoveDiscountPrice;
    adm (H12 + H1) ORemoveDiscountPrice;
    adm (H12 + H1 + H12 - 1) (OUpdateDiscountPrice 80);
    adm (H12 + H1 + H12) (OUpdateDiscountPrice 80) ].

Example C07_ex_history_evaluates :
  let s := run ex_plain ex_s0 ex_calls in
  (s_price s, s_discount s, s_last_discount s, s_denom s) = (110, Some 80, H12 + H1 + H12, 0) /\
  disc_events ex_plain ex_s0 ex_calls = [(H12, true); (H12 + H1, false); (H12 + H1 + H12, true)] /\
  q_current_price s ex_fp None = Ok (80, 0).
Proof. vm_compute. repeat split; reflexivity. Qed.

Example C07_ex_history_is_outside_the_known_class :
  disc_le_price ex_s0 /\ no_cut_below_discount ex_plain ex_s0 ex_calls /\
  at_or_after 1000 (skipn 1 ex_calls) /\ s_start (run ex_plain ex_s0 (firstn 1 ex_calls)) <= 1000.
Proof.
  split; [ exact I | ]. split.
  - cbn [no_cut_below_discount ex_calls]. repeat (split; [ intros _; vm_compute; reflexivity | ]). exact I.
  - split.
    + unfold at_or_after. cbn [skipn ex_calls]. repeat constructor; vm_compute; discriminate.
    + vm_compute. discriminate.
Qed.

Example C07_ex_d4_history_is_in_the_known_class : ~ no_cut_below_discount ex_plain ex_s0 d4_calls.
Proof.
  cbn [no_cut_below_discount d4_calls]. intros (_ & H & _).
  assert (K : cuts_below_discount (apply_call ex_plain ex_s0 (mkCall (mkEnv 43200000000000 10 [] 20) ex_fp None (OUpdateDiscountPrice 80)))
                                  (OUpdateMintPrice 60) = false) by (apply H; vm_compute; reflexivity).
  vm_compute in K. discriminate.
Qed.

(* a set-whitelist and a creation that meet their guards *)
Example C07_ex_set_whitelist_and_create :
  is_ok (step ex_plain ex_s0 (mkEnv 500 10 [] 20) ex_fp None
           (OSetWhitelist true 30 (Some (mkWV false 50 0 2 100 2 (Some false) None false None None None)))) = true /\
  is_ok (step ex_plain ex_s0 (mkEnv 500 10 [] 20) ex_fp None
           (OSetWhitelist true 30 (Some (mkWV false 49 0 2 100 2 (Some false) None false None None None)))) = false /\
  create_price_ok ex_fp 50 0 = true /\ create_price_ok ex_fp 49 0 = false /\ create_price_ok ex_fp 50 1 = false.
Proof. vm_compute. repeat split; reflexivity. Qed.

(* =====================================================================================
   Part 2 — the three open-edition minters (open-edition-minter, -wl-flex, -merkle-wl;
   one model MinterOpen.ostep, two variant flags) and creation through the factories.
   THERE IS NO DISCOUNT on the open-edition minters (no UpdateDiscountPrice /
   RemoveDiscountPrice handlers, no discount field): the discount clauses of the property
   are vacuous there and a public buyer is charged the public price itself
   (C07_oe_public_buyer_pays_public_price), so D4 cannot occur.  D8 occurs in the same
   shape (the open-edition factory's sudo goes through the same base-factory
   update_params, which only accepts a native minimum; UpdateMintPrice keeps the denom).
   Extra rules of the OE handler: no price update once the end time has been reached,
   and a zero price is refused when there is no token cap.
   ===================================================================================== *)
From LP Require Import MinterOpen Factory MinterOpenProofs C07OeProofs.

(* ---- creation: the price / denom clause, over the lead's full factory model (tied to
   the real factories by C08's correspondence and here by boundary probes) ---- *)
Theorem C07_oe_create_ok : forall self p now funds r ms,
  factory_create FOpen self p now funds r = Ok ms ->
  g_min_price p <= r_price r /\ r_price_denom r = g_min_denom p /\ (r_num_tokens r = None -> r_price r <> 0).
Proof. exact factory_create_open_price. Qed.

Theorem C07_vending_factory_create_ok : forall self p now funds r ms,
  factory_create FVending self p now funds r = Ok ms ->
  g_min_price p <= r_price r /\ r_price_denom r = g_min_denom p.
Proof. exact factory_create_vending_price. Qed.

(* ---- creation: whatever the amounts - a minimum of 0 (free-mint factory) and a price of 0
   included - an accepted creation is priced in the denom of the minimum in force; stated
   for the two probe clauses (CreatePrice.v) and for the full factory models ---- *)
Theorem C07_creation_denom_is_minimum_denom :
  (forall fp price d, create_price_ok fp price d = true -> d = fp_min_denom fp) /\
  (forall m md price d capped, oe_create_price_ok m md price d capped = true -> d = md) /\
  (forall self p now funds r ms, factory_create FVending self p now funds r = Ok ms -> r_price_denom r = g_min_denom p) /\
  (forall self p now funds r ms, factory_create FOpen self p now funds r = Ok ms -> r_price_denom r = g_min_denom p).
Proof. exact creation_denom_is_minimum_denom. Qed.

Example C07_creation_zero_minimum :
  let fp0 := mkFP 0 0 1000 0 0 10000 500 50 604800 in
  create_price_ok fp0 0 0 = true /\ create_price_ok fp0 100 0 = true /\
  create_price_ok fp0 0 1 = false /\ create_price_ok fp0 100 1 = false /\
  oe_create_price_ok 0 1 0 1 true = true /\ oe_create_price_ok 0 1 0 0 true = false /\
  oe_create_price_ok 0 1 5 0 true = false /\ oe_create_price_ok 0 0 0 0 false = false.
Proof. vm_compute. repeat split; reflexivity. Qed.

(* ---- UpdateMintPrice: only the admin, only before the end time (if any), never below
   the minimum in force, strictly lower once the stored start time has been reached,
   never zero without a token cap; changes the price amount and nothing else ---- *)
Theorem C07_oe_update_price_ok : forall vr s e fp wv p s' ms,
  ostep vr s e fp wv (EUpdateMintPrice p) = Ok (s', ms) ->
  e_sender e = o_admin s /\ e_funds e = [] /\
  (forall en, o_end s = Some en -> e_now e < en) /\
  ofp_min_price fp <= p /\
  (o_start s <= e_now e -> p < o_price s) /\
  (o_num_tokens s = None -> p <> 0) /\
  s' = mkOS (o_admin s) (o_payment s) (o_num_tokens s) (o_pal s) (o_whitelist s) (o_start s) (o_end s)
            p (o_denom s)
            (o_mintable s) (o_token_index s) (o_total s) (o_airdrops s)
            (o_public s) (o_wl s) (o_fs s) (o_ss s) (o_ts s) (o_fs_count s) (o_ss_count s) (o_ts_count s)
            (o_minted s) (o_burned s) (o_trading s) /\
  ms = [].
Proof. exact o_update_price_ok. Qed.

(* ---- SetWhitelist: only the admin, only before the start, only while the attached
   whitelist (if any) is not active; the new whitelist is not active, its price is at
   least the minimum in force, in the minimum's denom and in the minter's own denom (all
   three variants); only the whitelist field changes ---- *)
Theorem C07_oe_set_whitelist_ok : forall vr s e fp wv wok w newview s' ms,
  ostep vr s e fp wv (ESetWhitelist wok w newview) = Ok (s', ms) ->
  e_sender e = o_admin s /\ e_funds e = [] /\
  e_now e < o_start s /\
  (o_whitelist s <> None -> exists v, wv = Some v /\ wv_active v = false) /\
  (exists nv, newview = Some nv /\ wv_active nv = false /\
              ofp_min_price fp <= wv_price nv /\
              wv_denom nv = ofp_min_denom fp /\
              wv_denom nv = o_denom s) /\
  s' = mkOS (o_admin s) (o_payment s) (o_num_tokens s) (o_pal s) (Some w) (o_start s) (o_end s)
            (o_price s) (o_denom s)
            (o_mintable s) (o_token_index s) (o_total s) (o_airdrops s)
            (o_public s) (o_wl s) (o_fs s) (o_ss s) (o_ts s) (o_fs_count s) (o_ss_count s) (o_ts_count s)
            (o_minted s) (o_burned s) (o_trading s) /\
  ms = [].
Proof. exact o_set_whitelist_ok. Qed.

(* ---- every other operation leaves price, denom and start time alone; only
   UpdateStartTime moves the start; the denom never changes ---- *)
Theorem C07_oe_frame : forall vr s e fp wv o s' ms,
  ostep vr s e fp wv o = Ok (s', ms) ->
  o_denom s' = o_denom s /\ o_admin s' = o_admin s /\
  match o with
  | EUpdateMintPrice p => o_price s' = p /\ o_start s' = o_start s
  | EUpdateStartTime t => o_price s' = o_price s /\ o_start s' = t
  | _ => o_price s' = o_price s /\ o_start s' = o_start s
  end.
Proof. exact ostep_frame. Qed.

Theorem C07_oe_denom_never_changes : forall vr cs s, o_denom (orun vr s cs) = o_denom s.
Proof. exact orun_denom. Qed.

(* ---- once the stored start time has passed the public price only goes down (same sound
   formulation as in part 1) ---- *)
Theorem C07_oe_at_or_after_spelled_out : forall t cs,
  o_at_or_after t cs <-> Forall (fun c => t <= e_now (oc_env c)) cs.
Proof. intros t cs. unfold o_at_or_after. tauto. Qed.

Theorem C07_oe_public_price_nonincreasing_after_start : forall vr s0 cs1 cs2 t,
  o_start (orun vr s0 cs1) <= t -> o_at_or_after t cs2 ->
  o_price (orun vr s0 (cs1 ++ cs2)) <= o_price (orun vr s0 cs1).
Proof. exact o_public_price_nonincreasing. Qed.

Theorem C07_oe_start_time_frozen_after_start : forall vr cs s t,
  o_start s <= t -> o_at_or_after t cs ->
  o_price (orun vr s cs) <= o_price s /\ o_start (orun vr s cs) = o_start s.
Proof. exact o_price_nonincreasing_after_start. Qed.

(* ---- the price query is the charge: MintPrice.current_price is the function the mint
   uses and public_price is Config.mint_price; a Mint that succeeds attached exactly the
   quoted coin; any other attached funds fail; the whitelist's price is quoted (as current
   and as whitelist_price) and charged while the attached whitelist is active; otherwise
   the public price is quoted and charged ---- *)
Theorem C07_oe_query_is_charge : forall s fp wv v,
  oq_mint_price s fp wv = Ok v ->
  o_mint_price s fp wv false = Ok (opv_current v) /\ opv_public v = (o_price s, o_denom s).
Proof. exact oq_current_is_mint_price. Qed.

Theorem C07_oe_mint_pays_exactly_the_quote : forall vr s e fp wv stage proof alloc s' ms,
  ostep vr s e fp wv (EMint stage proof alloc) = Ok (s', ms) ->
  exists p d, o_mint_price s fp wv false = Ok (p, d) /\ may_pay (e_funds e) d = Ok p.
Proof. exact o_mint_pays_quote. Qed.

Theorem C07_oe_mint_with_other_payment_fails : forall vr s e fp wv stage proof alloc p d,
  o_mint_price s fp wv false = Ok (p, d) -> may_pay (e_funds e) d <> Ok p ->
  ostep vr s e fp wv (EMint stage proof alloc) = Err.
Proof. exact o_mint_other_payment_fails. Qed.

Theorem C07_oe_quote_when_whitelist_active : forall s fp w v,
  o_whitelist s = Some w -> wv_active v = true ->
  o_mint_price s fp (Some v) false = Ok (wv_price v, wv_denom v) /\
  exists pv, oq_mint_price s fp (Some v) = Ok pv /\ opv_current pv = (wv_price v, wv_denom v) /\
             opv_whitelist pv = Some (wv_price v, wv_denom v).
Proof. exact o_whitelist_quote. Qed.

Theorem C07_oe_quote_when_public : forall s fp wv,
  (o_whitelist s = None \/ exists v, wv = Some v /\ wv_active v = false) ->
  o_mint_price s fp wv false = Ok (o_price s, o_denom s).
Proof. exact o_public_quote. Qed.

(* charged <= public holds WITHOUT exception here: the public buyer pays the public price *)
Theorem C07_oe_public_buyer_pays_public_price : forall vr s e fp wv stage proof alloc s' ms,
  (o_whitelist s = None \/ exists v, wv = Some v /\ wv_active v = false) ->
  ostep vr s e fp wv (EMint stage proof alloc) = Ok (s', ms) ->
  may_pay (e_funds e) (o_denom s) = Ok (o_price s).
Proof. exact o_public_mint_pays_public_price. Qed.

(* ---- D8 on the open-edition minters: same recorded finding
   (C07:non-native-min-price-governance).  Witness: created at 100 ibc/x (id 1); minimum
   becomes 70 ustars (id 0); UpdateMintPrice 90 succeeds: 90 ibc/x under 70 ustars. ---- *)
Definition oe_fp : ofparams := mkOFP 50 0 1000 40 0 5000 10 12 604800 (Some 15).
Definition oe_fp_gov : ofparams := mkOFP 70 0 1000 40 0 5000 10 12 604800 (Some 15).
Definition oe_s0 : ostate :=
  mkOS 10 None (Some 5) 3 None 1000 (Some 90000) 100 0 (Some 5) 0 0 0 [] [] [] [] [] 0 0 0 [] 0 None.
Definition oe_s0_ibc : ostate :=
  mkOS 10 None (Some 5) 3 None 1000 (Some 90000) 100 1 (Some 5) 0 0 0 [] [] [] [] [] 0 0 0 [] 0 None.
Definition oe_plain : ovariant := mkOV false false.

Theorem C07_oe_denom_refuted :
  exists vr s0 cs e fp wv p s' ms,
    o_denom s0 = 1 /\                      (* created in ibc/x, the factory's minimum denom then *)
    ostep vr (orun vr s0 cs) e fp wv (EUpdateMintPrice p) = Ok (s', ms) /\
    ofp_min_price fp <= o_price s' /\
    o_denom s' <> ofp_min_denom fp.
Proof.
  exists oe_plain, oe_s0_ibc, [], (mkEnv 500 10 [] 20), oe_fp_gov, None, 90.
  eexists. eexists.
  split; [ reflexivity | ]. split; [ vm_compute; reflexivity | ]. split; [ vm_compute; discriminate | ].
  vm_compute. discriminate.
Qed.

Theorem C07_oe_update_price_denom_if_factory_denom_unchanged : forall vr d0 s0 cs e fp wv p s' ms,
  o_denom s0 = d0 ->
  ofp_min_denom fp = d0 ->
  ostep vr (orun vr s0 cs) e fp wv (EUpdateMintPrice p) = Ok (s', ms) ->
  o_price s' = p /\ o_denom s' = ofp_min_denom fp.
Proof. exact o_update_price_denom. Qed.

(* ---- non-vacuity: start 1000, end 90000, minimum 50.
     t=999    raise 100 -> 120 before the start                 accepted
     t=1000   121 / 120 at the start instant                    refused
     t=1000   119                                               accepted
     t=1001   49 (below the minimum)                            refused
     t=1001   50                                                accepted
     t=1002   public Mint paying 51 / 49                        refused
     t=1002   public Mint paying 50                             accepted
     t=90000  40 -> at the end time                             refused (ended; also < min) ---- *)
Definition oadm (t : N) (o : eop) : ocall := mkOCall (mkEnv t 10 [] 20) oe_fp None o.
Definition oe_calls : list ocall :=
  [ oadm 999 (EUpdateMintPrice 120);
    oadm 1000 (EUpdateMintPrice 121);
    oadm 1000 (EUpdateMintPrice 120);
    oadm 1000 (EUpdateMintPrice 119);
    oadm 1001 (EUpdateMintPrice 49);
    oadm 1001 (EUpdateMintPrice 50);
    mkOCall (mkEnv 1002 11 [mkCoin 0 51] 20) oe_fp None (EMint None false None);
    mkOCall (mkEnv 1002 11 [mkCoin 0 49] 20) oe_fp None (EMint None false None);
    mkOCall (mkEnv 1002 11 [mkCoin 0 50] 20) oe_fp None (EMint None false None);
    oadm 90000 (EUpdateMintPrice 55) ].

Example C07_oe_ex_history_evaluates :
  let s := orun oe_plain oe_s0 oe_calls in
  (o_price s, o_denom s, o_total s, o_start s) = (50, 0, 1, 1000) /\
  map (fun k => o_price (orun oe_plain oe_s0 (firstn k oe_calls))) [1; 2; 3; 4; 5; 6]%nat = [120; 120; 120; 119; 119; 50] /\
  o_mint_price s oe_fp None false = Ok (50, 0).
Proof. vm_compute. repeat split; reflexivity. Qed.

Example C07_oe_ex_zero_price_needs_a_cap :
  let fp0 := mkOFP 0 0 1000 40 0 5000 10 12 604800 (Some 15) in
  let s_nocap := mkOS 10 None None 3 None 1000 (Some 90000) 100 0 (Some 12) 0 0 0 [] [] [] [] [] 0 0 0 [] 0 None in
  is_ok (ostep oe_plain s_nocap (mkEnv 500 10 [] 20) fp0 None (EUpdateMintPrice 0)) = false /\
  is_ok (ostep oe_plain s_nocap (mkEnv 500 10 [] 20) fp0 None (EUpdateMintPrice 1)) = true /\
  is_ok (ostep oe_plain oe_s0 (mkEnv 500 10 [] 20) fp0 None (EUpdateMintPrice 0)) = true.
Proof. vm_compute. repeat split; reflexivity. Qed.

Example C07_oe_ex_set_whitelist :
  is_ok (ostep oe_plain oe_s0 (mkEnv 500 10 [] 20) oe_fp None
           (ESetWhitelist true 30 (Some (mkWV false 50 0 2 100 2 (Some false) None false None None None)))) = true /\
  is_ok (ostep oe_plain oe_s0 (mkEnv 500 10 [] 20) oe_fp None
           (ESetWhitelist true 30 (Some (mkWV false 49 0 2 100 2 (Some false) None false None None None)))) = false /\
  is_ok (ostep oe_plain oe_s0 (mkEnv 500 10 [] 20) oe_fp None
           (ESetWhitelist true 30 (Some (mkWV false 50 1 2 100 2 (Some false) None false None None None)))) = false.
Proof. vm_compute. repeat split; reflexivity. Qed.


(* =====================================================================================
   Part 3 — "the factory minimum in force" is what governance last decided.
   The factories' sudo UpdateParams (Params.update_params: the helper shared by the base,
   vending and open-edition factories) is last-writer-wins on min_mint_price, whatever
   else the same proposal sets; the minters read the factory's parameters at call time.
   Hence after an accepted proposal that supplies a minimum c, every price-setting
   operation a minter accepts is at or above c.  (The correspondence checks the premise on
   the real factories against the harness's own ledger of governance decisions: CGov cases.)
   ===================================================================================== *)
From LP Require Import Params ParamsProofs C07GovProofs.

Theorem C07_gov_minimum_is_last_supplied : forall p m p',
  update_params p m = Ok p' ->
  cp_min_mint_price p' = (match cm_min_mint_price m with Some c => c | None => cp_min_mint_price p end) /\
  (forall c, cm_min_mint_price m = Some c -> c_denom c = NATIVE) /\
  cp_creation_fee p' = (match cm_creation_fee m with Some f => f | None => cp_creation_fee p end).
Proof. exact gov_min_after. Qed.

Theorem C07_gov_minimum_after_sequence : forall ms p,
  cp_min_mint_price (apply_seq base_sudo p ms) =
  fold_left (fun a m => match cm_min_mint_price m with Some c => c | None => a end)
            (filter base_accepts ms) (cp_min_mint_price p).
Proof. exact gov_min_sequence. Qed.

Theorem C07_gov_floor_update_price : forall p p' m c, update_params p m = Ok p' -> cm_min_mint_price m = Some c ->
  forall vr s e fp wv x s' ms,
  fp_min_price fp = c_amount (cp_min_mint_price p') ->
  step vr s e fp wv (OUpdateMintPrice x) = Ok (s', ms) -> c_amount c <= x.
Proof. exact gov_floor_update_price. Qed.

Theorem C07_gov_floor_update_discount : forall p p' m c, update_params p m = Ok p' -> cm_min_mint_price m = Some c ->
  forall vr s e fp wv x s' ms,
  fp_min_price fp = c_amount (cp_min_mint_price p') ->
  step vr s e fp wv (OUpdateDiscountPrice x) = Ok (s', ms) -> c_amount c <= x.
Proof. exact gov_floor_update_discount. Qed.

Theorem C07_gov_floor_set_whitelist : forall p p' m c, update_params p m = Ok p' -> cm_min_mint_price m = Some c ->
  forall vr s e fp wv wok w nv s' ms,
  fp_min_price fp = c_amount (cp_min_mint_price p') ->
  step vr s e fp wv (OSetWhitelist wok w (Some nv)) = Ok (s', ms) -> c_amount c <= wv_price nv.
Proof. exact gov_floor_set_whitelist. Qed.

Theorem C07_oe_gov_floor_update_price : forall p p' m c, update_params p m = Ok p' -> cm_min_mint_price m = Some c ->
  forall vr s e fp wv x s' ms,
  ofp_min_price fp = c_amount (cp_min_mint_price p') ->
  ostep vr s e fp wv (EUpdateMintPrice x) = Ok (s', ms) -> c_amount c <= x.
Proof. exact gov_floor_oe_update_price. Qed.

Theorem C07_oe_gov_floor_set_whitelist : forall p p' m c, update_params p m = Ok p' -> cm_min_mint_price m = Some c ->
  forall vr s e fp wv wok w nv s' ms,
  ofp_min_price fp = c_amount (cp_min_mint_price p') ->
  ostep vr s e fp wv (ESetWhitelist wok w (Some nv)) = Ok (s', ms) -> c_amount c <= wv_price nv.
Proof. exact gov_floor_oe_set_whitelist. Qed.

(* non-vacuity: a proposal that raises the minimum to 150 together with a new creation fee *)
Example C07_gov_ex_fee_and_minimum :
  let p0 := mkCP 1 [2] false (mkCoin 0 5000) (mkCoin 0 50) 1000 604800 in
  let m := mkCM None None None None (Some (mkCoin 0 6000)) (Some (mkCoin 0 150)) None None in
  match update_params p0 m with
  | Ok p1 => cp_min_mint_price p1 = mkCoin 0 150 /\ cp_creation_fee p1 = mkCoin 0 6000 /\
             is_ok (step ex_plain ex_s0 (mkEnv 500 10 [] 20) (mkFP 150 0 1000 0 0 10000 500 50 604800) None (OUpdateMintPrice 149)) = false /\
             is_ok (step ex_plain ex_s0 (mkEnv 500 10 [] 20) (mkFP 150 0 1000 0 0 10000 500 50 604800) None (OUpdateMintPrice 150)) = true
  | Err => False
  end.
Proof. vm_compute. repeat split; reflexivity. Qed.

Print Assumptions C07_create_ok.
Print Assumptions C07_update_price_ok.
Print Assumptions C07_update_discount_ok.
Print Assumptions C07_remove_discount_ok.
Print Assumptions C07_set_whitelist_ok.
Print Assumptions C07_denom_never_changes.
Print Assumptions C07_public_price_nonincreasing_after_start.
Print Assumptions C07_start_time_frozen_after_start.
Print Assumptions C07_discount_cooldowns_pairwise.
Print Assumptions C07_discount_first_change.
Print Assumptions C07_query_is_charge.
Print Assumptions C07_mint_pays_exactly_the_quote.
Print Assumptions C07_mint_with_other_payment_fails.
Print Assumptions C07_payment_guard.
Print Assumptions C07_quote_when_whitelist_active.
Print Assumptions C07_quote_when_public.
Print Assumptions C07_charged_le_public_refuted.
Print Assumptions C07_discount_never_above_price_outside_known.
Print Assumptions C07_charged_le_public_outside_known.
Print Assumptions C07_denom_refuted.
Print Assumptions C07_update_price_denom_if_factory_denom_unchanged.
Print Assumptions C07_update_discount_denom_if_factory_denom_unchanged.
Print Assumptions C07_oe_create_ok.
Print Assumptions C07_vending_factory_create_ok.
Print Assumptions C07_oe_update_price_ok.
Print Assumptions C07_oe_set_whitelist_ok.
Print Assumptions C07_oe_frame.
Print Assumptions C07_oe_denom_never_changes.
Print Assumptions C07_oe_public_price_nonincreasing_after_start.
Print Assumptions C07_oe_start_time_frozen_after_start.
Print Assumptions C07_oe_query_is_charge.
Print Assumptions C07_oe_mint_pays_exactly_the_quote.
Print Assumptions C07_oe_mint_with_other_payment_fails.
Print Assumptions C07_oe_quote_when_whitelist_active.
Print Assumptions C07_oe_quote_when_public.
Print Assumptions C07_oe_public_buyer_pays_public_price.
Print Assumptions C07_oe_denom_refuted.
Print Assumptions C07_oe_update_price_denom_if_factory_denom_unchanged.
Print Assumptions C07_gov_minimum_is_last_supplied.
Print Assumptions C07_gov_minimum_after_sequence.
Print Assumptions C07_gov_floor_update_price.
Print Assumptions C07_gov_floor_update_discount.
Print Assumptions C07_gov_floor_set_whitelist.
Print Assumptions C07_oe_gov_floor_update_price.
Print Assumptions C07_oe_gov_floor_set_whitelist.

(* =====================================================================================
   Migrations inside histories.  `minter_migrate` / `o_minter_migrate` (model/MinterMigrate.v)
   are the minters' `migrate` entry points as functions on the sale-world state; they are
   not handler operations, so `step` / `ostep` and the theorems above are untouched.  The
   sale-world correspondence runs migrations inside its histories (SaleCorr.IMigrate /
   SaleOeCorr.OIMigrate), from stored versions around 3.9.0 and the current version, by the
   wasm admin and by strangers.
   ===================================================================================== *)
From LP Require Import MinterMigrate MinterMigrateProofs.

(* an accepted migration leaves the public price, its denom, the discount and therefore
   the quoted price as they were.  The ONLY slot it may write is the discount cooldown
   anchor: unchanged, or (stored version below 3.9.0 and not the code's) set to
   now - 12 h (43200 s) *)
Theorem C07_migrate_keeps_prices : forall vr now name_ok stored admin s s',
  minter_migrate vr now name_ok stored admin s = Ok s' ->
  s_price s' = s_price s /\ s_denom s' = s_denom s /\ s_discount s' = s_discount s /\
  (s_last_discount s' = s_last_discount s \/ s_last_discount s' + 43200 * 1000000000 = now) /\
  (forall fp wv, q_current_price s' fp wv = q_current_price s fp wv).
Proof. exact migrate_prices. Qed.

(* from 3.9.0 on nothing changes at all: every cooldown fact of part 1 is as before *)
Theorem C07_migrate_from_390_or_later_changes_nothing : forall vr now name_ok v admin s s',
  minter_migrate vr now name_ok (Some v) admin s = Ok s' ->
  ver_ltb v (3, 9, 0) = false -> s' = s.
Proof. exact migrate_anchor_moves_only_below_390. Qed.

(* what the anchor initialisation means for the cooldown: right after a migration from a
   version below 3.9.0 the admin can set a discount at once (same block), whatever the
   previous discount change was - the 12 h cooldown of C07_update_discount_ok restarts
   from the migration instant minus 12 h.  Stated, not hidden: this is the code's
   documented initialisation for contracts that predate the anchor. *)
Theorem C07_migrate_then_discount_at_once : forall vr now v admin s s' e fp wv d,
  minter_migrate vr now true (Some v) admin s = Ok s' ->
  ver_ltb v (3, 9, 0) = true ->
  code_version (vending_contract vr) <> Some v ->
  e_now e = now -> now <= U64_MAX -> e_sender e = s_admin s -> e_funds e = [] ->
  s_start s <= now -> d <= s_price s -> fp_min_price fp <= d ->
  exists s'', step vr s' e fp wv (OUpdateDiscountPrice d) = Ok (s'', []) /\ s_discount s'' = Some d.
Proof. exact migrate_then_discount_at_once. Qed.

Theorem C07_oe_migrate_changes_nothing : forall vr now name_ok stored admin s s',
  o_minter_migrate vr now name_ok stored admin s = Ok s' -> s' = s.
Proof. exact o_migrate_id. Qed.

Example C07_migrate_ex :
  match minter_migrate ex_plain 100000000000000 true (Some (3, 8, 9)) true ex_s0,
        minter_migrate ex_plain 100000000000000 true (Some (3, 9, 0)) true ex_s0,
        minter_migrate ex_plain 100000000000000 true (Some (99, 0, 0)) true ex_s0,
        minter_migrate ex_plain 100000000000000 true (Some (3, 8, 9)) false ex_s0 with
  | Ok a, Ok b, Err, Err => s_last_discount a = 100000000000000 - 43200000000000 /\ b = ex_s0 /\ s_price a = 100
  | _, _, _, _ => False
  end.
Proof. vm_compute. repeat split; reflexivity. Qed.

Print Assumptions C07_migrate_keeps_prices.
Print Assumptions C07_migrate_from_390_or_later_changes_nothing.
Print Assumptions C07_migrate_then_discount_at_once.
Print Assumptions C07_oe_migrate_changes_nothing.
Print Assumptions C07_creation_denom_is_minimum_denom.
