(* Correspondence vocabulary for C05.

   CRow: one (contract instance, state, message) row of the table.  `init` is the
   principal-relevant state READ FROM THE CONTRACT'S QUERIES (Config.admin, Ownership,
   CollectionInfo.creator, AdminList, splits Admin + group members, Params, Status, token
   owners/approvals/operators) before the calls; every call of the row is made from that
   same state (the harness rebuilds the world after any call that succeeded), by a
   different sender; `ac_post` is the same set of queries after the call.
   `guards_ok` = the row's message is reserved and the identical call by one of its
   principals succeeded from this state, i.e. every non-authorization guard passes.

   CHist: a threaded history of messages whose outcome the model decides completely
   (hand-over operations with valid arguments), random senders.

   CMig: one MsgMigrateContract: the principal-relevant queries before, whether the sender
   is the contract's wasm admin, whether a factory parameter message rides along (and the
   Params id that results), whether the stored cw2 pair is in the accepted range, the
   outcome and the queries afterwards.

   CInst: one instantiation attempt: who sent it (contract? answers Params?), whether the
   address the message names is a contract (recorded; the model must not look at it),
   whether the remaining arguments are those of the ordinary flow, and the outcome. *)
From LP Require Import Auth.
(* Part 1 (the vending minters' full handler model) is tied through the sale-world
   vocabulary: the harness prints its sender sweeps over the reserved handlers as `scase`
   terms checked by SaleCorr.sale_check (files C05v_cases_*.v) *)
From LP Require SaleCorr.
Local Open Scope N_scope.

Definition opt_addr_eqb := option_eqb N.eqb.
Definition expiry_eqb (a b : expiry) : bool :=
  match a, b with
  | ExNever, ExNever => true
  | ExAtTime x, ExAtTime y => x =? y
  | ExAtHeight x, ExAtHeight y => x =? y
  | _, _ => false
  end.
Definition ownership_eqb (a b : ownership) : bool :=
  opt_addr_eqb (ow_owner a) (ow_owner b) && opt_addr_eqb (ow_pending a) (ow_pending b) &&
  option_eqb expiry_eqb (ow_expiry a) (ow_expiry b).

(* sets of addresses / pairs / tokens: order is not an observation *)
Definition subset (a b : list addr) : bool := forallb (fun x => mem x b) a.
Definition set_eqb (a b : list addr) : bool := subset a b && subset b a.
Definition psubset (a b : list (addr * addr)) : bool := forallb (fun x => mem_pair x b) a.
Definition pset_eqb (a b : list (addr * addr)) : bool := psubset a b && psubset b a.
Definition token_eqb (a b : token) : bool :=
  (t_id a =? t_id b) && (t_owner a =? t_owner b) && set_eqb (t_approvals a) (t_approvals b).
Definition tsubset (a b : list token) : bool := forallb (fun x => existsb (token_eqb x) b) a.
Definition tokens_eqb (a b : list token) : bool :=
  (N.of_nat (length a) =? N.of_nat (length b)) && tsubset a b && tsubset b a.

Definition cstate_eqb (a b : cstate) : bool :=
  ownership_eqb (c_own a) (c_own b) && (c_creator a =? c_creator b) &&
  Bool.eqb (c_frozen a) (c_frozen b) && Bool.eqb (c_meta_frozen a) (c_meta_frozen b) &&
  Bool.eqb (c_enabled a) (c_enabled b) && tokens_eqb (c_tokens a) (c_tokens b) &&
  pset_eqb (c_operators a) (c_operators b).

Definition mstate_eqb (a b : mstate) : bool :=
  (m_admin a =? m_admin b) && (m_coll_creator a =? m_coll_creator b) &&
  (m_status a =? m_status b) && (m_params a =? m_params b).

(* the admin list is answered in stored order: compared as a list *)
Definition wstate_eqb (a b : wstate) : bool :=
  list_eqb N.eqb (w_admins a) (w_admins b) && Bool.eqb (w_mutable a) (w_mutable b).
Definition sstate_eqb (a b : sstate) : bool :=
  opt_addr_eqb (sp_admin a) (sp_admin b) && set_eqb (sp_members a) (sp_members b).

Definition mfamily_eqb (a b : mfamily) : bool :=
  match a, b with
  | FVending, FVending | FOpenEdition, FOpenEdition | FTokenMerge, FTokenMerge | FBase, FBase => true
  | _, _ => false
  end.
Definition collkind_eqb (a b : collkind) : bool :=
  match a, b with
  | Sg721Base, Sg721Base | Sg721Updatable, Sg721Updatable | Sg721Metadata, Sg721Metadata | Sg721Nt, Sg721Nt => true
  | _, _ => false
  end.
Definition wlkind_eqb (a b : wlkind) : bool :=
  match a, b with
  | WPlain, WPlain | WFlex, WFlex | WTiered, WTiered | WTieredFlex, WTieredFlex
  | WMerkle, WMerkle | WTieredMerkle, WTieredMerkle | WImmutable, WImmutable => true
  | _, _ => false
  end.

Definition astate_eqb (a b : astate) : bool :=
  match a, b with
  | AMinter f s, AMinter g t => mfamily_eqb f g && mstate_eqb s t
  | AColl k s, AColl l t => collkind_eqb k l && cstate_eqb s t
  | AWl k s, AWl l t => wlkind_eqb k l && wstate_eqb s t
  | ASplits s, ASplits t => sstate_eqb s t
  | AFactory p, AFactory q => p =? q
  | AAirdrop, AAirdrop => true
  | _, _ => false
  end.

Record acall := mkCall { ac_sender : addr; ac_ok : bool; ac_post : astate }.
Record hstep := mkH { h_env : aenv; h_sender : addr; h_msg : amsg; h_ok : bool; h_post : astate }.

Inductive c05_case :=
| CRow (env : aenv) (init : astate) (m : amsg) (guards_ok : bool) (calls : list acall)
| CHist (init : astate) (steps : list hstep)
| CInst (t : inst_target) (p : inst_parties) (args_ok : bool) (ok : bool)
| CMig (init : astate) (sender_is_wasm_admin : bool) (explicit_params : option N) (version_ok : bool)
       (ok : bool) (post : astate).

(* one call of a row:
   - the model refuses (sender is not the principal / no such message): the
     implementation must have refused and nothing the queries show may have moved;
   - the model authorizes: a success must show exactly the model's next state; a refusal
     is acceptable only when some other guard is known to fail (guards_ok = false) and
     then nothing may have moved. *)
Definition row_call_ok (env : aenv) (init : astate) (m : amsg) (guards_ok : bool) (c : acall) : bool :=
  match auth_step init env (ac_sender c) m with
  | Err => negb (ac_ok c) && astate_eqb (ac_post c) init
  | Ok st' =>
      if ac_ok c then astate_eqb (ac_post c) st'
      else negb guards_ok && astate_eqb (ac_post c) init
  end.

Fixpoint hist_ok (st : astate) (l : list hstep) : bool :=
  match l with
  | [] => true
  | h :: r =>
      match auth_step st (h_env h) (h_sender h) (h_msg h) with
      | Err => negb (h_ok h) && astate_eqb (h_post h) st && hist_ok st r
      | Ok st' => h_ok h && astate_eqb (h_post h) st' && hist_ok st' r
      end
  end.

Definition c05_check (c : c05_case) : bool :=
  match c with
  | CRow env init m g calls => forallb (row_call_ok env init m g) calls
  | CHist init steps => hist_ok init steps
  | CMig init adm ex version_ok ok post =>
      (* a migrate the model refuses (not the wasm admin / a parameter message where none
         is taken) must fail and move nothing; an allowed one must show exactly the
         model's state (a frame unless a factory got explicit parameters) and may fail
         only when the stored cw2 pair is not acceptable *)
      match migrate_step init adm ex with
      | Err => negb ok && astate_eqb post init
      | Ok st' => if ok then astate_eqb post st' else negb version_ok && astate_eqb post init
      end
  | CInst t p args_ok ok =>
      (* decided by the SENDER alone (ip_named_is_contract is carried by the case and
         ignored by inst_allowed): a sender the model does not allow must fail; an
         allowed one must succeed when the harness vouches for the other arguments
         (args_ok: the message is one the ordinary flow sends) *)
      if inst_allowed t p then (if args_ok then ok else true) else negb ok
  end.
