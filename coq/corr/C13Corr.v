(* Correspondence vocabulary for C13: one case = one history on one tiered whitelist
   (kind, instantiate message, clock) followed by steps; every step carries what the
   real contract answered.  `c13_check` replays the history in the model (Stages.v) and
   compares.  Compiles without the proofs. *)
From LP Require Import Prelude Stages.
Local Open Scope N_scope.

(* what was observed at one instant (clock-dependent queries) *)
Record tobs := mkT {
  t_active : option stage;          (* ActiveStage *)
  t_active_id : N;                  (* ActiveStageId: 0 = none, else index+1 *)
  t_is_active : bool;               (* IsActive *)
  t_started : bool;                 (* HasStarted *)
  t_ended : bool;                   (* HasEnded *)
  t_cfg : cfgobs;                   (* Config *)
  t_has : list (result bool);       (* HasMember per probe *)
  t_member : list (result N)        (* Member per probe (flex; Err elsewhere) *)
}.

Inductive c13_step :=
| SExec (now : N) (o : op) (ok : bool)
| SStatic (stages : result (list stage_resp))                 (* Stages *)
          (stage_k : list (result stage_resp))                (* Stage{0..3} *)
          (members_k : list (result (list (N * N))))          (* Members{0..3} walked to the end in pages of 100 *)
| SInfo (all : list (result (list member_info)))               (* AllStageMemberInfo per probe *)
        (one : list (list (result member_info)))               (* StageMemberInfo per probe, stage id 0..3 *)
| SPage (id : N) (start_after limit : option N) (out : result (list (N * N)))   (* one Members page *)
| STime (nows : list N) (obs : tobs).    (* the same answers at each of these instants *)

(* probes: (address id, Merkle fold oracle) *)
Inductive c13_case :=
| C13Case (k : kind) (now0 : N) (i : inst) (ok : bool) (probes : list (N * option N)) (steps : list c13_step).

Definition opt_n_eqb := option_eqb N.eqb.

Definition stage_eqb (a b : stage) : bool :=
  (s_name a =? s_name b) && (s_start a =? s_start b) && (s_end a =? s_end b) &&
  (s_denom a =? s_denom b) && (s_price a =? s_price b) && (s_pal a =? s_pal b) &&
  opt_n_eqb (s_mcl a) (s_mcl b).

Definition resp_eqb (a b : stage_resp) : bool :=
  match a, b with (i, s, x), (i', s', x') => (i =? i') && stage_eqb s s' && (x =? x') end.

Definition pair_eqb (a b : N * N) : bool := (fst a =? fst b) && (snd a =? snd b).

Definition info_eqb (a b : member_info) : bool :=
  match a, b with (i, m, l), (i', m', l') => (i =? i') && Bool.eqb m m' && (l =? l') end.

Definition cfg_eqb (a b : cfgobs) : bool :=
  (c_num a =? c_num b) && (c_pal a =? c_pal b) && (c_limit a =? c_limit b) &&
  (c_start a =? c_start b) && (c_end a =? c_end b) && (c_denom a =? c_denom b) &&
  (c_price a =? c_price b) && Bool.eqb (c_active a) (c_active b) && opt_n_eqb (c_whale a) (c_whale b).

Definition model_tobs (w : wl) (now : N) (probes : list (N * option N)) : tobs :=
  mkT (q_active_stage w now) (q_active_stage_id w now) (q_is_active w now)
      (q_has_started w now) (q_has_ended w now) (q_config w now)
      (map (fun p => q_has_member w now (fst p) (snd p)) probes)
      (map (fun p => q_member w now (fst p)) probes).

Definition tobs_eqb (a b : tobs) : bool :=
  option_eqb stage_eqb (t_active a) (t_active b) && (t_active_id a =? t_active_id b) &&
  Bool.eqb (t_is_active a) (t_is_active b) && Bool.eqb (t_started a) (t_started b) &&
  Bool.eqb (t_ended a) (t_ended b) && cfg_eqb (t_cfg a) (t_cfg b) &&
  list_eqb (result_eqb Bool.eqb) (t_has a) (t_has b) &&
  list_eqb (result_eqb N.eqb) (t_member a) (t_member b).

Definition ids4 : list N := [0; 1; 2; 3].

Fixpoint run_steps (w : wl) (probes : list (N * option N)) (steps : list c13_step) : bool :=
  match steps with
  | [] => true
  | SExec now o ok :: r =>
      match step w now o with
      | Ok w' => ok && run_steps w' probes r
      | Err => negb ok && run_steps w probes r
      end
  | SStatic sts sk mk :: r =>
      result_eqb (list_eqb resp_eqb) (q_stages w) sts &&
      list_eqb (result_eqb resp_eqb) (map (q_stage w) ids4) sk &&
      list_eqb (result_eqb (list_eqb pair_eqb)) (map (q_members w) ids4) mk &&
      run_steps w probes r
  | SInfo all one :: r =>
      list_eqb (result_eqb (list_eqb info_eqb)) (map (fun p => q_all_stage_member_info w (fst p)) probes) all &&
      list_eqb (list_eqb (result_eqb info_eqb))
               (map (fun p => map (fun id => q_stage_member_info w id (fst p)) ids4) probes) one &&
      run_steps w probes r
  | SPage id sa lim out :: r =>
      result_eqb (list_eqb pair_eqb) (q_members_page w id sa lim) out && run_steps w probes r
  | STime nows obs :: r =>
      forallb (fun now => tobs_eqb (model_tobs w now probes) obs) nows && run_steps w probes r
  end.

Definition c13_check (c : c13_case) : bool :=
  match c with
  | C13Case k now0 i ok probes steps =>
      match instantiate k now0 i with
      | Ok w => ok && run_steps w probes steps
      | Err => negb ok
      end
  end.
