(* Correspondence vocabulary for C08: one CreateMinter call on one of the four
   factories, with the parameters the factory reported right before the call, and what
   the chain looked like afterwards. *)
From LP Require Import Num Pay Sg1 Bank MinterVending Factory.

Record c08_case := mkC08 {
  c8_kind : fkind; c8_self : addr; c8_params : gparams; c8_now : N; c8_sender : addr;
  c8_funds : list coin; c8_req : create_req; c8_new_minter : addr;
  c8_bal0 : bal;
  c8_ok : bool;
  c8_wiring : list N;   (* [minter.factory; minter.admin; minter wasm admin; collection.minter;
                           collection creator; collection wasm admin; start_trading_time] *)
  c8_bal1 : bal
}.

Definition c08_check (c : c08_case) : bool :=
  match create_world (c8_kind c) (c8_self c) (c8_params c) (c8_now c) (c8_sender c) (c8_funds c) (c8_req c)
                     (c8_new_minter c) (c8_bal0 c) with
  | Err => negb (c8_ok c) && bal_agrees (c8_bal0 c) (c8_bal1 c)
  | Ok (cr, b) =>
      c8_ok c &&
      list_eqb N.eqb
        [cr_minter_factory cr; cr_minter_admin cr; cr_minter_contract_admin cr; cr_coll_minter cr;
         cr_coll_creator cr; cr_coll_contract_admin cr; cr_trading cr] (c8_wiring c) &&
      bal_agrees b (c8_bal1 c)
  end.
