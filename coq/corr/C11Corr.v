(* Correspondence vocabulary for C11: a whitelist of one of the five list-based kinds is
   created and driven through a history of calls; after every call the harness records
   ok/err, Config.num_members / member_limit, the paginated Members query walked to its
   end (per stage for the tiered kinds, with Stage.member_count), membership probes, and
   the bank picture (whitelist balance, fair-burn pool, amount burned, amount paid by the
   callers).  The check replays the history in the model and executes the bank messages
   the model emits on a four-account ledger. *)
From LP Require Import Wl WlTiered.

Definition valid_id (a : addr) : bool := 60 <=? a.
Definition SELF : addr := 5.

Record ledger := mkL { l_held : N; l_pool : N; l_burned : N; l_paid : N }.
Definition native_sum (fs : list coin) : N :=
  fold_right (fun c acc => (if c_denom c =? NATIVE then c_amount c else 0) + acc) 0 fs.
Definition apply_msg (l : ledger) (m : bmsg) : ledger :=
  match m with
  | Burn d a => if d =? NATIVE then mkL (l_held l - a) (l_pool l) (l_burned l + a) (l_paid l) else l
  | FundPool _ d a => if d =? NATIVE then mkL (l_held l - a) (l_pool l + a) (l_burned l) (l_paid l) else l
  | Send _ d a => if d =? NATIVE then mkL (l_held l - a) (l_pool l) (l_burned l) (l_paid l) else l
  | OtherMsg _ => l
  end.
(* an accepted call: the attached funds arrive, then the emitted messages run *)
Definition settle (l : ledger) (fs : list coin) (ms : list bmsg) : ledger :=
  let p := native_sum fs in
  fold_left apply_msg ms (mkL (l_held l + p) (l_pool l) (l_burned l) (l_paid l + p)).
Definition ledger_eqb (a b : ledger) : bool :=
  (l_held a =? l_held b) && (l_pool a =? l_pool b) && (l_burned a =? l_burned b) && (l_paid a =? l_paid b).

Definition pair_eqb (p q : addr * N) : bool := (fst p =? fst q) && (snd p =? snd q).
Definition rbool_eqb := result_eqb Bool.eqb.
Fixpoint pins (p : addr * N) (l : mem) : mem :=
  match l with [] => [p] | q :: t => if fst p <? fst q then p :: l else q :: pins p t end.
Definition msort (m : mem) : mem := fold_right pins [] m.

(* ---------------- plain / flex ---------------- *)
Record mobs := mkMobs {
  mo_num : N; mo_limit : N;
  mo_members : list (addr * N);
  mo_has : list (addr * result bool);
  mo_member : list (addr * result N);          (* Member { member } (flex) *)
  mo_can : list (addr * result bool);          (* CanExecute { sender } *)
  mo_admins : list addr * bool;                 (* AdminList *)
  mo_ledger : ledger
}.
Inductive mstep := MExec (e : env) (o : op) (ok : bool) (obs : mobs).

Definition mobs_ok (w : wl) (l : ledger) (o : mobs) : bool :=
  (w_num w =? mo_num o) && (w_limit w =? mo_limit o) &&
  list_eqb pair_eqb (msort (w_mem w)) (mo_members o) &&
  forallb (fun p => rbool_eqb (q_has valid_id (fst p) w) (snd p)) (mo_has o) &&
  forallb (fun p => result_eqb N.eqb (q_member valid_id (fst p) w) (snd p)) (mo_member o) &&
  forallb (fun p => rbool_eqb (q_can_execute valid_id (fst p) w) (snd p)) (mo_can o) &&
  list_eqb N.eqb (fst (q_admin_list w)) (fst (mo_admins o)) && Bool.eqb (snd (q_admin_list w)) (snd (mo_admins o)) &&
  ledger_eqb l (mo_ledger o).

Fixpoint msteps_ok (w : wl) (l : ledger) (s : list mstep) : bool :=
  match s with
  | [] => true
  | MExec e o ok ob :: t =>
      match exec valid_id SELF e o w with
      | Ok (w', ms) => let l' := settle l (e_funds e) ms in ok && mobs_ok w' l' ob && msteps_ok w' l' t
      | Err => negb ok && mobs_ok w l ob && msteps_ok w l t
      end
  end.

(* ---------------- tiered / tiered-flex ---------------- *)
Record tobs := mkTobs {
  to_num : N; to_limit : N; to_nstages : N;
  to_stages : list (N * list (addr * N));      (* per stage: member_count, members *)
  to_beyond : list (addr * N);                 (* Members { stage_id = #stages } *)
  to_probe : list (N * addr * result bool);    (* StageMemberInfo.is_member *)
  to_has : list (addr * result bool);          (* HasMember at the current instant *)
  to_all : list (addr * result (list (N * bool * N)));   (* AllStageMemberInfo { member } *)
  to_member : list (addr * result N);          (* Member { member } at the current instant (flex) *)
  to_stage_beyond_ok : bool;                   (* Stage { stage_id = #stages } answered at all *)
  to_can : list (addr * result bool);          (* CanExecute { sender } *)
  to_admins : list addr * bool;                (* AdminList *)
  to_ledger : ledger
}.
Inductive tstep := TExec (e : env) (o : top) (ok : bool) (obs : tobs).

Definition stage_list (k : N) (w : tw) : mem := msort (map (fun p => (e_addr p, snd p)) (t_stage k (t_mem w))).
Fixpoint stages_obs_ok (w : tw) (k : N) (l : list (N * list (addr * N))) : bool :=
  match l with
  | [] => true
  | (c, ms) :: t =>
      result_eqb N.eqb (tq_stage_count k w) (Ok c) && list_eqb pair_eqb (stage_list k w) ms &&
      stages_obs_ok w (k + 1) t
  end.
Definition info_eqb (p q : N * bool * N) : bool :=
  (fst (fst p) =? fst (fst q)) && Bool.eqb (snd (fst p)) (snd (fst q)) && (snd p =? snd q).
Definition tobs_ok (now : N) (w : tw) (l : ledger) (o : tobs) : bool :=
  (t_num w =? to_num o) && (t_limit w =? to_limit o) && (nlen (t_stages w) =? to_nstages o) &&
  (nlen (to_stages o) =? to_nstages o) && stages_obs_ok w 0 (to_stages o) &&
  list_eqb pair_eqb (stage_list (to_nstages o) w) (to_beyond o) &&
  forallb (fun p => rbool_eqb (tq_stage_member valid_id (fst (fst p)) (snd (fst p)) w) (snd p)) (to_probe o) &&
  forallb (fun p => rbool_eqb (tq_has valid_id now (fst p) w) (snd p)) (to_has o) &&
  forallb (fun p => result_eqb (list_eqb info_eqb) (tq_all_member valid_id (fst p) w) (snd p)) (to_all o) &&
  forallb (fun p => result_eqb N.eqb (tq_member valid_id now (fst p) w) (snd p)) (to_member o) &&
  Bool.eqb (is_ok (tq_stage_count (to_nstages o) w)) (to_stage_beyond_ok o) &&
  forallb (fun p => rbool_eqb (tq_can_execute valid_id (fst p) w) (snd p)) (to_can o) &&
  list_eqb N.eqb (fst (tq_admin_list w)) (fst (to_admins o)) && Bool.eqb (snd (tq_admin_list w)) (snd (to_admins o)) &&
  ledger_eqb l (to_ledger o).

Fixpoint tsteps_ok (w : tw) (l : ledger) (s : list tstep) : bool :=
  match s with
  | [] => true
  | TExec e o ok ob :: t =>
      match t_exec valid_id SELF e o w with
      | Ok (w', ms) => let l' := settle l (e_funds e) ms in ok && tobs_ok (e_now e) w' l' ob && tsteps_ok w' l' t
      | Err => negb ok && tobs_ok (e_now e) w l ob && tsteps_ok w l t
      end
  end.

Inductive c11_case :=
| C11Fail (k : kind) (e : env) (m : imsg)
| C11Hist (k : kind) (e : env) (m : imsg) (obs0 : mobs) (steps : list mstep)
| C11TFail (flex : bool) (e : env) (m : timsg)
| C11THist (flex : bool) (e : env) (m : timsg) (obs0 : tobs) (steps : list tstep)
(* whitelist-immutable: AddressCount, the raw stored keys, IncludesAddress probes *)
| C11ImmFail (funds : list coin) (ms : list addr)
| C11Imm (funds : list coin) (ms : list addr) (count : N) (stored : list addr) (probes : list (addr * bool))
(* + Config {admin, per_address_limit, mint_discount_bps}, Admin, PerAddressLimit as
   answered, and ok/err of the execute calls tried (there is no execute message) *)
| C11ImmCfg (sender : addr) (pal : N) (bps : option N) (funds : list coin) (ms : list addr)
            (cfg : addr * N * option N) (admin : addr) (pal_q : N) (execs : list bool).

Definition L0 : ledger := mkL 0 0 0 0.

Definition c11_check (c : c11_case) : bool :=
  match c with
  | C11Fail k e m => negb (is_ok (inst valid_id k SELF e m))
  | C11Hist k e m o0 steps =>
      match inst valid_id k SELF e m with
      | Ok (w, ms) => let l := settle L0 (e_funds e) ms in mobs_ok w l o0 && msteps_ok w l steps
      | Err => false
      end
  | C11TFail flex e m => negb (is_ok (t_inst valid_id flex SELF e m))
  | C11THist flex e m o0 steps =>
      match t_inst valid_id flex SELF e m with
      | Ok (w, ms) => let l := settle L0 (e_funds e) ms in tobs_ok (e_now e) w l o0 && tsteps_ok w l steps
      | Err => false
      end
  | C11ImmFail fs ms => negb (is_ok (imm_inst fs ms))
  | C11Imm fs ms count stored probes =>
      match imm_inst fs ms with
      | Ok st =>
          (snd st =? count) && list_eqb N.eqb (fst st) stored &&
          forallb (fun p => Bool.eqb (imm_includes (fst p) st) (snd p)) probes
      | Err => false
      end
  | C11ImmCfg sender pal bps fs ms cfg admin pal_q execs =>
      let c := imm_config sender pal bps in
      is_ok (imm_inst fs ms) &&
      (fst (fst c) =? fst (fst cfg)) && (snd (fst c) =? snd (fst cfg)) && option_eqb N.eqb (snd c) (snd cfg) &&
      (fst (fst c) =? admin) && (snd (fst c) =? pal_q) &&
      forallb (fun ok => Bool.eqb ok (is_ok imm_exec)) execs
  end.
