(* C01 uses the shared sale-world correspondence vocabulary. *)
From LP Require Export SaleCorr.
