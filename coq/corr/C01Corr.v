(* C01 uses the shared sale-world correspondence vocabularies: SaleCorr (six vending
   minters) and SaleOeCorr (three open-edition minters and the base minter). *)
From LP Require Export SaleCorr.
From LP Require Export SaleOeCorr.
(* part 3 (token-merge minter): the C17 case vocabulary and checker *)
From LP Require Export C17Corr.
