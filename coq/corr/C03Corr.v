(* C03 uses the shared sale-world correspondence vocabularies: scase / sale_check for the
   six vending minters and oecase / sale_oe_check for the open-edition minters; both
   observation vectors hold MintCount (count, whitelist_count) of every tracked address
   after every step. *)
From LP Require Export SaleCorr SaleOeCorr.
