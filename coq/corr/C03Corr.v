(* C03 uses the shared sale-world correspondence vocabulary (scase / sale_check): the
   observation vector holds MintCount (count, whitelist_count) of every tracked address
   after every step. *)
From LP Require Export SaleCorr.
