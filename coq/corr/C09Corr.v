(* Correspondence vocabulary for C09: one case is a whole recorded history of a collection
   (instantiate through the puppet, then calls from arbitrary senders) with the answers
   the implementation gave; the checker replays it in the model (Collection.history_check). *)
From LP Require Import Collection.

Inductive c09_case :=
| CHist (h : history).

Definition c09_check (c : c09_case) : bool :=
  match c with CHist h => history_check h end.
