(* Correspondence vocabulary for C17: a case is an initial world (the minter as created
   through the factory, the source tokens minted to the users), a history of timed
   operations, and after every operation what the real contracts showed: ok/err, the
   DepositedTokens grid (tracked addresses x collections), the MintCount grid,
   MintableNumTokens, start time and per-address limit from Config, the owner of every
   source token (0 = OwnerOf fails, i.e. burned) and of every target token id. *)
From Coq Require String.
From LP Require Import Num Pay Sg1 TokenMerge TokenMergeMigrate.

Record c17_obs := mkObs {
  ob_ok : bool;
  ob_ledger : list N;
  ob_counts : list N;
  ob_mintable : N;
  ob_start : N;
  ob_limit : N;
  ob_src : list N;
  ob_tgt : list N;
  ob_cw2 : option cw2info     (* after a Migrate step: the cw2 info found in storage afterwards; None on other steps *)
}.

Inductive c17_case :=
| C17Case (st0 : tm_state) (minter : N) (src0 : list (pkey * N))
          (addrs colls : list N) (srctoks : list pkey) (tgttoks : list N)
          (init : c17_obs) (steps : list (N * xstep * c17_obs)).

Definition nlist_eqb := list_eqb N.eqb.

Definition obs_of (addrs colls : list N) (srctoks : list pkey) (tgttoks : list N) (ok : bool) (w : world) (c : option cw2info) : c17_obs :=
  mkObs ok
        (flat_map (fun a => map (fun c => ledger (w_m w) a c) colls) addrs)
        (map (fun a => count (w_m w) a) addrs)
        (tm_mintable (w_m w)) (tm_start (w_m w)) (tm_limit (w_m w))
        (map (fun k => src_owner w (fst k) (snd k)) srctoks)
        (map (fun t => tgt_owner w t) tgttoks)
        c.

Definition cw2_eqb (a b : cw2info) : bool := String.eqb (fst a) (fst b) && String.eqb (snd a) (snd b).

Definition obs_eqb (a b : c17_obs) : bool :=
  Bool.eqb (ob_ok a) (ob_ok b) && nlist_eqb (ob_ledger a) (ob_ledger b) && nlist_eqb (ob_counts a) (ob_counts b)
  && (ob_mintable a =? ob_mintable b) && (ob_start a =? ob_start b) && (ob_limit a =? ob_limit b)
  && nlist_eqb (ob_src a) (ob_src b) && nlist_eqb (ob_tgt a) (ob_tgt b)
  && option_eqb cw2_eqb (ob_cw2 a) (ob_cw2 b).

Fixpoint run_check (addrs colls : list N) (srctoks : list pkey) (tgttoks : list N)
                   (w : world) (steps : list (N * xstep * c17_obs)) : bool :=
  match steps with
  | [] => true
  | (now, op, ob) :: t =>
      let '(w', ok, c') := wxstep now op w in
      obs_eqb (obs_of addrs colls srctoks tgttoks ok w' c') ob && run_check addrs colls srctoks tgttoks w' t
  end.

Definition c17_check (c : c17_case) : bool :=
  match c with
  | C17Case st0 minter src0 addrs colls srctoks tgttoks init steps =>
      let w0 := mkWorld st0 minter src0 [] in
      obs_eqb (obs_of addrs colls srctoks tgttoks true w0 None) init
      && run_check addrs colls srctoks tgttoks w0 steps
  end.
