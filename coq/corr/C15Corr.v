(* Correspondence vocabulary for C15: instantiate probes and histories over the splits
   world, each step carrying what the real cw4-group + splits + bank produced. *)
From LP Require Import Splits SplitsMigrate.

Record obs := mkObs {
  o_ok : bool;                              (* the transaction succeeded *)
  o_msgs : option (result (list bmsg));     (* execute_distribute called on the same state (Distribute only) *)
  o_bal : list (addr * denom * N);          (* balances after the step *)
  o_members : list member;                  (* splits ListMembers{limit 30} after the step *)
  o_total : N;                              (* cw4 total weight after the step *)
  o_admin : option addr                     (* splits Admin{} after the step *)
}.

(* a step of a history: one of the splits/group/bank ops, or a migration of the splits
   contract by `who` with the cw2 (name, version) that was stored when it ran *)
Inductive cstep :=
| SOp (o : op) (ob : obs)
| SMig (who : addr) (name ver : String.string) (ob : obs).

Inductive c15_case :=
| CInst (ms : list member) (group_ok splits_ok : bool)
| CHist (self : addr) (admin gadmin : option addr) (ms : list member) (steps : list (op * obs))
| CHistM (self wasm_admin : addr) (admin gadmin : option addr) (ms : list member) (steps : list cstep)
(* splits instantiated with `attached` coins; `bal0` = balances observed right after the
   instantiation (splits, the group contract, everybody named) *)
| CHistF (self wasm_admin : addr) (admin gadmin : option addr) (ms : list member) (attached : list coin)
         (bal0 : list (addr * denom * N)) (steps : list cstep).

(* bank messages are compared as multisets: both sides are sorted by (to, denom, amount) *)
Definition msg_key (m : bmsg) : N * N * N :=
  match m with Send t d a => (t, d, a) | _ => (0, 0, 0) end.
Definition key_leb (x y : N * N * N) : bool :=
  let '(a, b, c) := x in let '(a', b', c') := y in
  (a <? a') || ((a =? a') && ((b <? b') || ((b =? b') && (c <=? c')))).
Fixpoint ins_msg (m : bmsg) (l : list bmsg) : list bmsg :=
  match l with
  | [] => [m]
  | x :: xs => if key_leb (msg_key m) (msg_key x) then m :: x :: xs else x :: ins_msg m xs
  end.
Definition sort_msgs (l : list bmsg) : list bmsg := fold_right ins_msg [] l.
Definition msgs_eq (a b : list bmsg) : bool := list_eqb bmsg_eqb (sort_msgs a) (sort_msgs b).

Definition check_obs (w : world) (o : op) (ob : obs) : bool * world :=
  let r := step w o in
  let w' := match r with Ok w' => w' | Err => w end in
  (Bool.eqb (is_ok r) (o_ok ob)
   && match o, o_msgs ob with
      | Distribute s dl, Some m => result_eqb msgs_eq (distribute w s dl) m
      | Distribute _ _, None => false
      | _, _ => true
      end
   && forallb (fun x => let '(a, d, v) := x in bal (w_bank w') a d =? v) (o_bal ob)
   && list_eqb member_eqb (page (w_members w')) (o_members ob)
   && (total_weight (w_members w') =? o_total ob)
   && option_eqb N.eqb (w_admin w') (o_admin ob), w').

Fixpoint check_steps (w : world) (steps : list (op * obs)) : bool :=
  match steps with
  | [] => true
  | (o, ob) :: rest =>
      let '(okb, w') := check_obs w o ob in
      okb && check_steps w' rest
  end.

(* after a migration step the very same observations must hold of the UNCHANGED world *)
Definition check_mig (wa : addr) (w : world) (who : addr) (name ver : String.string) (ob : obs) : bool :=
  Bool.eqb (is_ok (splits_migrate wa who name ver w)) (o_ok ob)
  && match o_msgs ob with None => true | Some _ => false end
  && forallb (fun x => let '(a, d, v) := x in bal (w_bank w) a d =? v) (o_bal ob)
  && list_eqb member_eqb (page (w_members w)) (o_members ob)
  && (total_weight (w_members w) =? o_total ob)
  && option_eqb N.eqb (w_admin w) (o_admin ob).

Fixpoint check_xsteps (wa : addr) (w : world) (steps : list cstep) : bool :=
  match steps with
  | [] => true
  | SOp o ob :: rest =>
      let '(okb, w') := check_obs w o ob in
      okb && check_xsteps wa w' rest
  | SMig who name ver ob :: rest =>
      check_mig wa w who name ver ob && check_xsteps wa w rest
  end.

Definition c15_check (c : c15_case) : bool :=
  match c with
  | CInst ms gok sok =>
      match group_instantiate ms with
      | Ok g => gok && Bool.eqb (instantiate_existing_ok g) sok
      | Err => negb gok
      end
  | CHist self admin gadmin ms steps =>
      match group_instantiate ms with
      | Ok g => check_steps (init_world self admin gadmin g) steps
      | Err => false
      end
  | CHistF self wa admin gadmin ms attached bal0 steps =>
      match group_instantiate ms with
      | Ok g =>
          let w := init_world_funded self admin gadmin g attached in
          forallb (fun x => let '(a, d, v) := x in bal (w_bank w) a d =? v) bal0 && check_xsteps wa w steps
      | Err => false
      end
  | CHistM self wa admin gadmin ms steps =>
      match group_instantiate ms with
      | Ok g => check_xsteps wa (init_world self admin gadmin g) steps
      | Err => false
      end
  end.
