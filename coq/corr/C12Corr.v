(* Correspondence vocabulary for C12: one whitelist (plain / flex / Merkle) is created and
   driven through a history of calls and clock moves; after every step the harness
   records ok/err and what Config, HasStarted, HasEnded, IsActive answered at that
   instant.  The check replays the same history in the model. *)
From LP Require Import Wl.

(* harness convention: ids below 60 are strings `addr_validate` rejects *)
Definition valid_id (a : addr) : bool := 60 <=? a.
Definition SELF : addr := 5.

Record sobs := mkSobs {
  so_start : N; so_end : N; so_pal : N; so_num : N;
  so_cfg_active : bool;            (* Config.is_active *)
  so_started : bool; so_ended : bool; so_active : bool;
  so_can : list (addr * result bool)            (* CanExecute { sender } *)
}.

Inductive sstep :=
| SExec (e : env) (o : op) (ok : bool) (obs : sobs)
| SLook (now : N) (obs : sobs).

Inductive c12_case :=
| C12Fail (k : kind) (e : env) (m : imsg)
| C12Hist (k : kind) (e : env) (m : imsg) (obs0 : sobs) (steps : list sstep).

Definition obs_ok (now : N) (w : wl) (o : sobs) : bool :=
  (w_start w =? so_start o) && (w_end w =? so_end o) && (w_pal w =? so_pal o) && (w_num w =? so_num o) &&
  Bool.eqb (snd (q_config now w)) (so_cfg_active o) &&
  Bool.eqb (q_started now w) (so_started o) &&
  Bool.eqb (q_ended now w) (so_ended o) &&
  Bool.eqb (q_active now w) (so_active o) &&
  forallb (fun p => result_eqb Bool.eqb (q_can_execute valid_id (fst p) w) (snd p)) (so_can o).

Fixpoint steps_ok (w : wl) (l : list sstep) : bool :=
  match l with
  | [] => true
  | SLook now o :: t => obs_ok now w o && steps_ok w t
  | SExec e o ok ob :: t =>
      match exec valid_id SELF e o w with
      | Ok (w', _) => ok && obs_ok (e_now e) w' ob && steps_ok w' t
      | Err => negb ok && obs_ok (e_now e) w ob && steps_ok w t
      end
  end.

Definition c12_check (c : c12_case) : bool :=
  match c with
  | C12Fail k e m => negb (is_ok (inst valid_id k SELF e m))
  | C12Hist k e m o0 steps =>
      match inst valid_id k SELF e m with
      | Ok (w, _) => obs_ok (e_now e) w o0 && steps_ok w steps
      | Err => false
      end
  end.
