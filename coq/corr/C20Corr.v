(* Correspondence vocabulary for C20: the semver crate's parse and order, and one
   migration: inputs (contract, block time, factory message, stored cw2 info and slots)
   with what the real contract did (ok/err, cw2 info and slots afterwards, whether the
   factory parameters / anything else changed). *)
From Coq Require Import String.
From LP Require Import Semver Migrate Params MigrateParams C18Corr.
Local Open Scope N_scope.

Inductive c20_case :=
| CParse (s : string) (v : option version)
| CCmp (a b : version) (lt : bool)
| CMig (c : contract) (now : N) (msg : option fmsg) (pre : cstate) (ok : bool) (post : cstate)
       (params_changed rest_unchanged : bool)
(* a factory migration with its parameters: stored cw2 info and parameters, the optional
   message, then ok/err, the cw2 info and the Params{} answer afterwards, and whether
   anything else in raw storage moved *)
| CMigBase (now : N) (pre : cstate) (p : cparams) (msg : option cmsg) (ok : bool) (post : cstate) (p' : cparams) (rest_unchanged : bool)
| CMigVending (now : N) (pre : cstate) (p : vparams) (msg : option vmsg) (ok : bool) (post : cstate) (p' : vparams) (rest_unchanged : bool)
| CMigOE (now : N) (pre : cstate) (p : oparams) (msg : option omsg) (ok : bool) (post : cstate) (p' : oparams) (rest_unchanged : bool)
| CMigTM (now : N) (pre : cstate) (p : tparams) (msg : option tmsg) (ok : bool) (post : cstate) (p' : tparams) (rest_unchanged : bool).

Definition slots_eqb (a b : slots) : bool :=
  option_eqb N.eqb (s_last_discount a) (s_last_discount b) &&
  option_eqb Bool.eqb (s_frozen_meta a) (s_frozen_meta b) &&
  option_eqb Bool.eqb (s_enable_updatable a) (s_enable_updatable b) &&
  option_eqb N.eqb (s_royalty_at a) (s_royalty_at b) &&
  option_eqb N.eqb (s_legacy_minter a) (s_legacy_minter b) &&
  option_eqb N.eqb (s_owner a) (s_owner b) &&
  option_eqb (fun x y => let '(a1, a2, a3) := x in let '(b1, b2, b3) := y in
                         Bool.eqb a1 b1 && Bool.eqb a2 b2 && Bool.eqb a3 b3)
             (s_status a) (s_status b) &&
  option_eqb N.eqb (s_mintable a) (s_mintable b).

Definition state_eqb (a b : cstate) : bool :=
  String.eqb (c_name a) (c_name b) && String.eqb (c_version a) (c_version b) &&
  slots_eqb (c_slots a) (c_slots b).

Definition fmig_check {P} (peqb : P -> P -> bool) (r : result (cstate * P))
           (pre : cstate) (p : P) (ok : bool) (post : cstate) (p' : P) (rest : bool) : bool :=
  match r with
  | Ok (st', q) => ok && state_eqb st' post && peqb q p' && rest
  | Err => negb ok && state_eqb pre post && peqb p p' && rest
  end.

Definition c20_check (x : c20_case) : bool :=
  match x with
  | CMigBase now pre p msg ok post p' rest =>
      fmig_check cparams_eqb (base_factory_migrate now pre p msg) pre p ok post p' rest
  | CMigVending now pre p msg ok post p' rest =>
      fmig_check vparams_eqb (vending_factory_migrate now pre p msg) pre p ok post p' rest
  | CMigOE now pre p msg ok post p' rest =>
      fmig_check oparams_eqb (oe_factory_migrate now pre p msg) pre p ok post p' rest
  | CMigTM now pre p msg ok post p' rest =>
      fmig_check tparams_eqb (tm_factory_migrate now pre p msg) pre p ok post p' rest
  | CParse s v => option_eqb ver_eqb (parse_version s) v
  | CCmp a b lt => Bool.eqb (ver_ltb a b) lt
  | CMig c now msg pre ok post pch rest =>
      match migrate c now msg pre with
      | Ok (st', pmay) => ok && state_eqb st' post && rest && (pmay || negb pch)
      | Err => negb ok && state_eqb pre post && rest && negb pch
      end
  end.
