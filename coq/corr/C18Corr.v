(* Correspondence vocabulary for C18.  A factory case is a history on ONE factory
   instance: the parameters it was instantiated with and a list of steps, each carrying
   what the implementation answered.  The model state is threaded through the history
   (never re-seeded from an observation), so an update that the implementation applies
   differently shows up at that step and a creation that reads stale parameters shows up
   at the creation step. *)
From LP Require Import Params Status.
Local Open Scope N_scope.

Definition coin_eqb (a b : coin) : bool := (c_denom a =? c_denom b) && (c_amount a =? c_amount b).
Definition ids_eqb := list_eqb N.eqb.

Definition cparams_eqb (a b : cparams) : bool :=
  (cp_code_id a =? cp_code_id b) && ids_eqb (cp_allowed a) (cp_allowed b) &&
  Bool.eqb (cp_frozen a) (cp_frozen b) && coin_eqb (cp_creation_fee a) (cp_creation_fee b) &&
  coin_eqb (cp_min_mint_price a) (cp_min_mint_price b) &&
  (cp_mint_fee_bps a =? cp_mint_fee_bps b) && (cp_offset a =? cp_offset b).

Definition vext_eqb (a b : vext) : bool :=
  (vx_max_token_limit a =? vx_max_token_limit b) &&
  (vx_max_per_address_limit a =? vx_max_per_address_limit b) &&
  coin_eqb (vx_airdrop_mint_price a) (vx_airdrop_mint_price b) &&
  (vx_airdrop_mint_fee_bps a =? vx_airdrop_mint_fee_bps b) &&
  coin_eqb (vx_shuffle_fee a) (vx_shuffle_fee b).
Definition vparams_eqb (a b : vparams) : bool :=
  cparams_eqb (vp_common a) (vp_common b) && vext_eqb (vp_ext a) (vp_ext b).

Definition oext_eqb (a b : oext) : bool :=
  (ox_max_token_limit a =? ox_max_token_limit b) &&
  (ox_max_per_address_limit a =? ox_max_per_address_limit b) &&
  (ox_airdrop_mint_fee_bps a =? ox_airdrop_mint_fee_bps b) &&
  coin_eqb (ox_airdrop_mint_price a) (ox_airdrop_mint_price b) &&
  (ox_dev_fee_address a =? ox_dev_fee_address b).
Definition oparams_eqb (a b : oparams) : bool :=
  cparams_eqb (op_common a) (op_common b) && oext_eqb (op_ext a) (op_ext b).

Definition tparams_eqb (a b : tparams) : bool :=
  (tp_code_id a =? tp_code_id b) && ids_eqb (tp_allowed a) (tp_allowed b) &&
  Bool.eqb (tp_frozen a) (tp_frozen b) && coin_eqb (tp_creation_fee a) (tp_creation_fee b) &&
  (tp_offset a =? tp_offset b) && (tp_max_token_limit a =? tp_max_token_limit b) &&
  (tp_max_per_address_limit a =? tp_max_per_address_limit b) &&
  coin_eqb (tp_airdrop_mint_price a) (tp_airdrop_mint_price b) &&
  (tp_airdrop_mint_fee_bps a =? tp_airdrop_mint_fee_bps b) &&
  coin_eqb (tp_shuffle_fee a) (tp_shuffle_fee b).

Section Hist.
  Variables P M R : Type.

  (* what the three queries returned after a step *)
  Record qobs := mkQ { qo_params : P; qo_ids : list N; qo_probes : list (N * bool) }.

  Inductive step :=
  | SUpd (m : M) (ok : bool) (q : qobs)      (* sudo UpdateParams, then the queries *)
  | SBad (q : qobs)                          (* undecodable UpdateParams: must fail, nothing moves *)
  | SCreate (r : R) (ok : bool)              (* execute CreateMinter *)
  (* CreateMinter that also requests a collection start_trading_time `rel` seconds after
     the sale start: the minter's instantiate refuses it beyond max_trading_offset_secs
     (vending, open edition, token merge; the base minter has no bound) *)
  | SCreateT (r : R) (rel : N) (ok : bool).

  Variable sudo : P -> M -> result P.
  Variable create : P -> R -> result unit.
  Variable peqb : P -> P -> bool.
  Variable ids_of : P -> list N.
  Variable toff : P -> option N.

  Definition trading_ok (p : P) (rel : N) : bool :=
    match toff p with Some off => rel <=? off | None => true end.

  Definition obs_ok (p : P) (q : qobs) : bool :=
    peqb p (qo_params q) &&
    ids_eqb (q_allowed_ids (ids_of p)) (qo_ids q) &&
    forallb (fun xb => Bool.eqb (q_allowed_id (ids_of p) (fst xb)) (snd xb)) (qo_probes q).

  Fixpoint run (p : P) (l : list step) : bool :=
    match l with
    | [] => true
    | SUpd m ok q :: rest =>
        match sudo p m with
        | Ok p' => ok && obs_ok p' q && run p' rest
        | Err => negb ok && obs_ok p q && run p rest
        end
    | SBad q :: rest => obs_ok p q && run p rest
    | SCreate r ok :: rest => Bool.eqb (is_ok (create p r)) ok && run p rest
    | SCreateT r rel ok :: rest =>
        Bool.eqb (is_ok (create p r) && trading_ok p rel) ok && run p rest
    end.
End Hist.
Arguments mkQ {P}. Arguments SUpd {P M R}. Arguments SBad {P M R}. Arguments SCreate {P M R}. Arguments SCreateT {P M R}.

Definition kind_of (n : N) : option minter_kind := nth_error all_minter_kinds (N.to_nat n).

Definition flags_eqb (a b : bool * bool * bool) : bool :=
  match a, b with (v, b1, e), (v', b1', e') => Bool.eqb v v' && Bool.eqb b1 b1' && Bool.eqb e e' end.

Fixpoint run_status (k : minter_kind) (s : minter_state unit)
         (l : list ((bool * bool * bool) * bool * (bool * bool * bool))) : bool :=
  match l with
  | [] => true
  | (f, ok, seen) :: rest =>
      match f with (v, b, e) =>
        match sudo_update_status k s v b e with
        | Ok s' => ok && flags_eqb (query_status s') seen && run_status k s' rest
        | Err => negb ok && flags_eqb (query_status s) seen && run_status k s rest
        end
      end
  end.

Inductive c18_case :=
| CBase (init : cparams) (q0 : qobs cparams) (steps : list (step cparams cmsg breq))
| CVending (init : vparams) (q0 : qobs vparams) (steps : list (step vparams vmsg vreq))
| COpenEdition (init : oparams) (q0 : qobs oparams) (steps : list (step oparams omsg oreq))
| CTokenMerge (init : tparams) (q0 : qobs tparams) (steps : list (step tparams tmsg treq))
  (* minter variant (index into all_minter_kinds), Status right after creation through
     the factory, then (flags sent, ok, Status afterwards) *)
| CStatus (variant : N) (seen0 : bool * bool * bool)
          (steps : list ((bool * bool * bool) * bool * (bool * bool * bool)))
  (* a public mint after mint_fee_bps := bps on the factory: what the seller received *)
| CMintSeller (price bps : N) (ok : bool) (seller_delta : N)
  (* open-edition: what the factory's current dev_fee_address received *)
| CMintDev (price bps : N) (dev_delta : N)
  (* base minter: a payment of `paid` for a mint priced `price` under `bps` *)
| CBaseMint (price bps paid : N) (ok : bool)
  (* a payment of `paid` where the factory's CURRENT parameter demands `required`
     (airdrop price: exactly; shuffle fee: at least) *)
| CPayProbe (exact : bool) (required paid : N) (ok : bool)
  (* what the fee recipients received out of `amount` under the current `bps` *)
| CNetFee (amount bps delta : N).

Definition c18_check (c : c18_case) : bool :=
  match c with
  | CBase init q0 steps =>
      obs_ok _ cparams_eqb cp_allowed init q0 &&
      run _ _ _ base_sudo base_create cparams_eqb cp_allowed (fun _ => None) init steps
  | CVending init q0 steps =>
      obs_ok _ vparams_eqb (fun p => cp_allowed (vp_common p)) init q0 &&
      run _ _ _ vending_sudo vending_create vparams_eqb (fun p => cp_allowed (vp_common p))
          (fun p => Some (cp_offset (vp_common p))) init steps
  | COpenEdition init q0 steps =>
      obs_ok _ oparams_eqb (fun p => cp_allowed (op_common p)) init q0 &&
      run _ _ _ oe_sudo oe_create oparams_eqb (fun p => cp_allowed (op_common p))
          (fun p => Some (cp_offset (op_common p))) init steps
  | CTokenMerge init q0 steps =>
      obs_ok _ tparams_eqb tp_allowed init q0 &&
      run _ _ _ tm_sudo tm_create tparams_eqb tp_allowed (fun p => Some (tp_offset p)) init steps
  | CStatus variant seen0 steps =>
      match kind_of variant with
      | None => false
      | Some k =>
          let s0 := minter_instantiate k tt in
          flags_eqb (query_status s0) seen0 && run_status k s0 steps
      end
  | CMintSeller price bps ok d =>
      match mint_seller_share price bps with
      | Ok x => ok && (x =? d)
      | Err => negb ok
      end
  | CMintDev price bps d => mint_dev_share price bps =? d
  | CBaseMint price bps paid ok =>
      (* must_pay: a non-zero single native coin; then fee == payment *)
      Bool.eqb ok (negb (paid =? 0) && (mint_network_fee price bps =? paid))
  | CPayProbe exact required paid ok =>
      Bool.eqb ok (if exact then paid =? required else required <=? paid)
  | CNetFee amount bps d => mint_network_fee amount bps =? d
  end.
