(* Correspondence vocabulary for C06: one constructor per sg1 entry point, carrying the
   inputs the harness used and the output the Rust function produced. *)
From LP Require Import Num Pay Sg1.

Inductive c06_case :=
| CFairBurn (sender fee : N) (dev : option N) (out : result (list bmsg))
| CChecked (contract : N) (funds : list coin) (fee : N) (dev : option N) (out : result (list bmsg))
| CIbc (d fee : N) (dev : option N) (out : result (list bmsg))
| CMintFees (d fee : N) (featured : bool) (dev : option N) (out : result (list bmsg))
| CDao (funds : list coin) (fee d : N) (out : result (list bmsg)).

Definition out_eqb := result_eqb (list_eqb bmsg_eqb).

Definition c06_check (c : c06_case) : bool :=
  match c with
  | CFairBurn s f dv o => out_eqb (fair_burn s f dv) o
  | CChecked ct fs f dv o => out_eqb (checked_fair_burn ct fs f dv) o
  | CIbc d f dv o => out_eqb (ibc_denom_fair_burn d f dv) o
  | CMintFees d f ft dv o => out_eqb (distribute_mint_fees d f ft dv) o
  | CDao fs f d o => out_eqb (transfer_funds_to_launchpad_dao fs f d) o
  end.
