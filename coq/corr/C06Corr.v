(* Correspondence vocabulary for C06: one constructor per sg1 entry point, carrying the
   inputs the harness used and the output the Rust function produced; and one for the
   CALL SITES in the contracts, carrying the inputs of the site and what the chain looked
   like before and after the real contract ran (bank balances of the tracked slots, the
   burned amount as the balance of A_BURNED, the sender decoded from the
   MsgFundFairburnPool the stargate keeper saw). *)
From LP Require Import Num Pay Sg1 Bank FeeSites.

Inductive c06_case :=
| CFairBurn (sender fee : N) (dev : option N) (out : result (list bmsg))
| CChecked (contract : N) (funds : list coin) (fee : N) (dev : option N) (out : result (list bmsg))
| CIbc (d fee : N) (dev : option N) (out : result (list bmsg))
| CMintFees (d fee : N) (featured : bool) (dev : option N) (out : result (list bmsg))
| CDao (funds : list coin) (fee d : N) (out : result (list bmsg))
| CSite (s : site) (self payer : N) (funds : list coin) (bal0 : bal)
        (ok : bool) (bal1 : bal) (pool_sender : option N).

Definition out_eqb := result_eqb (list_eqb bmsg_eqb).

Definition c06_check (c : c06_case) : bool :=
  match c with
  | CFairBurn s f dv o => out_eqb (fair_burn s f dv) o
  | CChecked ct fs f dv o => out_eqb (checked_fair_burn ct fs f dv) o
  | CIbc d f dv o => out_eqb (ibc_denom_fair_burn d f dv) o
  | CMintFees d f ft dv o => out_eqb (distribute_mint_fees d f ft dv) o
  | CDao fs f d o => out_eqb (transfer_funds_to_launchpad_dao fs f d) o
  | CSite s self payer fs b0 ok b1 ps =>
      (* the model's fee messages, applied by the model bank to the observed balances
         before the call, must give the observed balances after it on every tracked
         slot; a rejection must leave every tracked slot as it was; the pool message
         must name the sender the model names *)
      match site_msgs s self fs with
      | Err => negb ok && bal_agrees b0 b1 && option_eqb N.eqb ps None
      | Ok ms =>
          match site_world s self payer fs b0 with
          | Err => negb ok && bal_agrees b0 b1
          | Ok b => ok && bal_agrees b b1 && option_eqb N.eqb ps (fund_sender ms)
          end
      end
  end.
