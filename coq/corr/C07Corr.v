(* C07 correspondence: (a) sale-world histories of price operations, governance changes
   and probing mints on a vending minter (the shared `scase` / `sale_check`: the
   observation vector after every step contains the public price, its denom, the
   discount, the start time, the attached whitelist and the MintPrice current price);
   (b) creation probes: a create_minter sent to the real vending factory with everything
   valid except possibly the price / denom, against the price clause of the factory. *)
From LP Require Export SaleCorr.
From LP Require Import Num Pay Sg1 Bank MinterVending CreatePrice Params.
(* the second case set of the harness (open-edition histories) is checked by SaleOeCorr.sale_oe_check:
   loaded here so that building this file builds it *)
From LP Require SaleOeCorr.

Inductive c07_case :=
| CSale (c : scase)
| CCreate (fp : fparams) (price : N) (d : denom) (ok : bool)
| COeCreate (min : N) (min_denom : denom) (price : N) (d : denom) (capped : bool) (ok : bool)
(* one governance proposal (sudo UpdateParams) inside a history: the minimum governance had
   last decided according to the HARNESS'S OWN LEDGER (never read back from the factory),
   the minimum the proposal supplies (if any), whether the factory accepted the proposal,
   and the minimum the factory's Params query reports afterwards.  All other fields of the
   proposals the harness sends are valid, so acceptance depends on the minimum's denom only. *)
| CGov (ledger_before : coin) (supplied : option coin) (ok : bool) (reported_after : coin).

Definition coin_eqb (a b : coin) : bool := (c_denom a =? c_denom b) && (c_amount a =? c_amount b).

Definition c07_check (c : c07_case) : bool :=
  match c with
  | CSale s => sale_check s
  | CCreate fp price d ok => Bool.eqb (create_price_ok fp price d) ok
  | COeCreate m md price d capped ok => Bool.eqb (oe_create_price_ok m md price d capped) ok
  | CGov before supplied ok after =>
      (* Params.update_params: last supplied native minimum wins, an absent one keeps *)
      match native_or_err supplied before with
      | Ok c => ok && coin_eqb c after
      | Err => negb ok && coin_eqb before after
      end
  end.
