(* C07 correspondence: (a) sale-world histories of price operations, governance changes
   and probing mints on a vending minter (the shared `scase` / `sale_check`: the
   observation vector after every step contains the public price, its denom, the
   discount, the start time, the attached whitelist and the MintPrice current price);
   (b) creation probes: a create_minter sent to the real vending factory with everything
   valid except possibly the price / denom, against the price clause of the factory. *)
From LP Require Export SaleCorr.
From LP Require Import Num Pay Sg1 Bank MinterVending CreatePrice.

Inductive c07_case :=
| CSale (c : scase)
| CCreate (fp : fparams) (price : N) (d : denom) (ok : bool).

Definition c07_check (c : c07_case) : bool :=
  match c with
  | CSale s => sale_check s
  | CCreate fp price d ok => Bool.eqb (create_price_ok fp price d) ok
  end.
