(* Correspondence vocabulary for C19.
   - KSale: a whole history on one of the six vending minters (shared sale-world
     vocabulary: the observation vector contains the collection's start_trading_time
     after every step, the initial state carries the value the collection was created
     with).
   - KCreate: one creation through the family's factory: clock, requested mint start,
     factory offset, requested trading time; `stored` is what the new collection's
     CollectionInfo reports (Err: the creation was rejected).
   - KUpdate: one UpdateStartTradingTime on an open-edition / token-merge / base minter:
     what the handler reads (clock, Config.start_time, factory offset right before the
     call, sender = admin?, no funds?), the argument, the collection's value before,
     ok/err and the collection's value after.
   - KDirect: UpdateStartTradingTime sent to the collection itself. *)
From LP Require Export SaleCorr.
From LP Require Import Num Pay Sg1 Bank MinterVending Trading.

Inductive c19_case :=
| KSale (c : scase)
| KCreate (f : family) (now start offset : N) (requested : option N) (stored : result (option N))
| KUpdate (f : family) (now start offset : N) (is_admin no_funds : bool) (t : option N)
          (before : option N) (ok : bool) (after : option N)
| KDirect (sender_is_minter : bool) (t : option N) (before : option N) (ok : bool) (after : option N).

Definition optN_eqb := option_eqb N.eqb.

Definition c19_check (c : c19_case) : bool :=
  match c with
  | KSale sc => sale_check sc
  | KCreate f now start offset requested stored =>
      match create_trading_fam f now start offset requested, stored with
      | Ok v, Ok (Some v') => v =? v'
      | Err, Err => true
      | _, _ => false
      end
  | KUpdate f now start offset adm nf t before ok after =>
      match update_trading_fam f now start offset adm nf t with
      | Ok v => ok && optN_eqb v after
      | Err => negb ok && optN_eqb before after
      end
  | KDirect is_minter t before ok after =>
      match coll_update (mkColl 1 before) (if is_minter then 1 else 2) t with
      | Ok c' => ok && optN_eqb (cl_trading c') after
      | Err => negb ok && optN_eqb before after
      end
  end.
