(* C02 reuses the sale-world correspondence vocabulary: case type `scase`, checker `sale_check`
   (handler state, minted token, query observations and every tracked balance after every step). *)
From LP Require Export SaleCorr.
