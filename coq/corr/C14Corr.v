(* Correspondence vocabulary for C14.  The hash is the finite table of (input, digest)
   pairs the implementation run computed; an input missing from the table gives the
   sentinel digest [256] (not a byte string), which propagates through every later hash
   and makes the case FAIL: a missing entry is a correspondence error, never a pass. *)
From Coq Require Import Uint63 FMapPositive.
From LP Require Import Prelude Pay Semver Merkle.
Local Open Scope N_scope.

(* Byte strings in case files are written with primitive 63-bit integer literals (the only
   literals Coq 8.16 reads quickly): (B [k; c1; c2; ...]) is the big-endian concatenation
   of the low k bytes of c1 (1 <= k <= 7) and the low 7 bytes of every further chunk;
   (B []) is the empty string.  Uint63 is used here only, never in the model or proofs. *)
Fixpoint bitsN (k : nat) (x : int) : N :=
  match k with
  | O => 0
  | S k' => let r := bitsN k' (Uint63.lsr x 1) in
            if Uint63.eqb (Uint63.land x 1) 0 then N.double r else N.succ_double r
  end.
Fixpoint chunk (nb : nat) (x : int) (tail : list N) : list N :=
  match nb with
  | O => tail
  | S k => chunk k (Uint63.lsr x 8) (bitsN 8 x :: tail)
  end.
Fixpoint chunks7 (l : list int) : list N :=
  match l with [] => [] | c :: r => chunk 7 c (chunks7 r) end.
Definition small_nat (k : int) : nat :=
  if Uint63.eqb k 1 then 1 else if Uint63.eqb k 2 then 2 else if Uint63.eqb k 3 then 3
  else if Uint63.eqb k 4 then 4 else if Uint63.eqb k 5 then 5 else if Uint63.eqb k 6 then 6 else 7.
Definition B (l : list int) : list N :=
  match l with
  | k :: c1 :: rest => chunk (small_nat k) c1 (chunks7 rest)
  | _ => []
  end.

Definition table := list (list N * list N).
Definition SENTINEL : list N := [256].
Fixpoint lookup (t : table) (x : list N) : list N :=
  match t with
  | [] => SENTINEL
  | (i, d) :: r => if bytes_eqb i x then d else lookup r x
  end.
(* the table is indexed by the last three bytes of the input (a trie of small association
   lists), so that a lookup does not scan thousands of entries *)
Fixpoint last3 (x : list N) (a b c : N) : N :=
  match x with [] => a + 256 * b + 65536 * c | y :: r => last3 r y a b end.
Definition key_of (x : list N) : positive := N.succ_pos (last3 x 0 0 0).
Definition index := PositiveMap.t table.
Definition build (t : table) : index :=
  fold_right (fun e m =>
                let k := key_of (fst e) in
                PositiveMap.add k (e :: match PositiveMap.find k m with Some b => b | None => [] end) m)
             (PositiveMap.empty table) t.
Definition tblH (t : table) : list N -> list N :=
  let m := build t in
  fun x => match PositiveMap.find (key_of x) m with Some b => lookup b x | None => SENTINEL end.

Definition hit (d : list N) : bool := negb (bytes_eqb d SENTINEL).

(* the final digest of a query, to detect table misses even when the answer is false *)
Definition final_hit (L : nat) (H : list N -> list N) (member : list N) (p : list (list N)) : bool :=
  match fold_proof_str L H (H member) p with Ok f => hit f | Err => true end.

Definition rb_eqb := result_eqb Bool.eqb.

(* one step of a whitelist-merkletree history *)
Inductive wl_op :=
| WExec (now sender : N) (m : wl_msg) (ok : bool) (root_after : list N)
| WUnknown (now sender : N) (ok : bool) (root_after : list N)   (* JSON that is not an ExecuteMsg *)
(* migrate_contract after the stored cw2 record was rewritten to (name, version) *)
| WMigrate (by_admin name_ok : bool) (ver : option version) (ok : bool) (root_after : list N)
| WQuery (member : list N) (proof : list (list N)) (out : result bool).

Fixpoint wl_steps (H : list N -> list N) (s : wl_state) (ops : list wl_op) : bool :=
  match ops with
  | [] => true
  | WExec now sender m ok root_after :: r =>
      match wl_execute now sender m s with
      | Ok s' => ok && str_eqb (wl_root s') root_after && wl_steps H s' r
      | Err => negb ok && str_eqb (wl_root s) root_after && wl_steps H s r
      end
  | WUnknown _ _ ok root_after :: r => negb ok && str_eqb (wl_root s) root_after && wl_steps H s r
  | WMigrate a n v ok root_after :: r =>
      match wl_migrate a n v s with
      | Ok s' => ok && str_eqb (wl_root s') root_after && wl_steps H s' r
      | Err => negb ok && str_eqb (wl_root s) root_after && wl_steps H s r
      end
  | WQuery m p out :: r =>
      rb_eqb (wl_has_member H s m p) out && final_hit 32 H m p && wl_steps H s r
  end.

Inductive tw_op :=
(* ids_after: the stage identities in stored order after the step (raw CONFIG names) *)
| TExec (now sender : N) (m : tw_msg) (ok : bool) (roots_after : list (list N)) (ids_after : list N)
| TUnknown (now sender : N) (ok : bool) (roots_after : list (list N))
| TMigrate (by_admin name_ok : bool) (ver : option version) (ok : bool) (roots_after : list (list N))
| TQuery (now : N) (member : list N) (proof : list (list N)) (out : result bool).

Fixpoint tw_steps (H : list N -> list N) (s : tw_state) (ops : list tw_op) : bool :=
  match ops with
  | [] => true
  | TExec now sender m ok roots_after ids_after :: r =>
      match tw_execute now sender m s with
      | Ok s' => ok && list_eqb str_eqb (tw_roots s') roots_after &&
                 list_eqb N.eqb (map st_id (tw_stages s')) ids_after && tw_steps H s' r
      | Err => negb ok && list_eqb str_eqb (tw_roots s) roots_after &&
               list_eqb N.eqb (map st_id (tw_stages s)) ids_after && tw_steps H s r
      end
  | TUnknown _ _ ok roots_after :: r => negb ok && list_eqb str_eqb (tw_roots s) roots_after && tw_steps H s r
  | TMigrate a n v ok roots_after :: r =>
      match tw_migrate a n v s with
      | Ok s' => ok && list_eqb str_eqb (tw_roots s') roots_after && tw_steps H s' r
      | Err => negb ok && list_eqb str_eqb (tw_roots s) roots_after && tw_steps H s r
      end
  | TQuery now m p out :: r =>
      rb_eqb (tw_has_member H now s m p) out && final_hit 16 H m p && tw_steps H s r
  end.

Inductive c14_case :=
(* a tree rs_merkle built: the model's root and per-position proofs must be the same bytes *)
| CTree (t : table) (ms : list (list N)) (root : list N) (proofs : list (nat * list (list N)))
(* HasMember on a whitelist-merkletree instance whose stored root is `root` *)
| CQuery (t : table) (root member : list N) (proof : list (list N)) (out : result bool)
(* HasMember on a tiered instance at block time `now` *)
| CTwQuery (t : table) (now : N) (stages : list stage) (roots : list (list N))
           (member : list N) (proof : list (list N)) (out : result bool)
(* instantiate + history, whitelist-merkletree *)
| CWl (t : table) (now : N) (funds : list coin) (root : list N) (uri_ok : bool) (start_t end_t limit : N)
      (admins : list N) (admins_ok mutable : bool) (inst_ok : bool) (ops : list wl_op)
(* instantiate + history, tiered-whitelist-merkletree *)
| CTw (t : table) (now : N) (funds : list coin) (roots : list (list N)) (uris_ok : bool)
      (stages : list stage) (admins : list N) (admins_ok mutable : bool) (inst_ok : bool) (ops : list tw_op)
(* a first mint on a Merkle minter whose whitelist (flat: tiered = false, SHA-256; tiered:
   one stage, BLAKE3/16) stores `root`, whitelist active, right payment: sender presents
   (stage, proof, allocation); wl_limit is the whitelist's per_address_limit *)
| CMint (t : table) (tiered : bool) (root : list N) (sender : list N) (st al : option N)
        (proof : list (list N)) (wl_limit : N) (ok : bool)
(* the string Rust's format! produced for (stage, sender, allocation) *)
| CLeaf (st : option N) (sender : list N) (al : option N) (rendered : list N).

Definition c14_check (c : c14_case) : bool :=
  match c with
  | CTree t ms root proofs =>
      let H := tblH t in
      bytes_eqb (Merkle.root H ms) root &&
      forallb (fun ip => list_eqb bytes_eqb (proof_at H ms (fst ip)) (snd ip) &&
                         (* and the byte-level verifier accepts it *)
                         match nth_error ms (fst ip) with
                         | Some m => verify H root m (snd ip)
                         | None => false
                         end) proofs
  | CQuery t root m p out =>
      let H := tblH t in
      rb_eqb (wl_has_member H (mkWl [] false 0 0 0 root) m p) out && final_hit 32 H m p
  | CTwQuery t now stages roots m p out =>
      let H := tblH t in
      rb_eqb (tw_has_member H now (mkTw [] false stages roots) m p) out && final_hit 16 H m p
  | CWl t now funds root uri_ok st en lim admins aok mut inst_ok ops =>
      match wl_instantiate now funds root uri_ok st en lim admins aok mut with
      | Ok s => inst_ok && wl_steps (tblH t) s ops
      | Err => negb inst_ok
      end
  | CTw t now funds roots uris_ok stages admins aok mut inst_ok ops =>
      match tw_instantiate now funds roots uris_ok stages admins aok mut with
      | Ok s => inst_ok && tw_steps (tblH t) s ops
      | Err => negb inst_ok
      end
  | CMint t tiered root sender st al proof lim ok =>
      let H := tblH t in
      let L := if tiered then 16%nat else 32%nat in
      Bool.eqb (minter_wl_check (has_member L H root (leaf st sender al) proof) 0 al lim) ok &&
      final_hit L H (leaf st sender al) proof
  | CLeaf st a al r => str_eqb (leaf st a al) r
  end.
