(* Correspondence vocabulary of the sale world for the three open-edition minters and the
   base minter (same shape as SaleCorr.v): a case is an initial model state (built by the
   harness from the minter's own queries and raw storage right after creation through
   the factory), initial balances of the tracked accounts and a list of steps; each step
   carries the call (env, op), the oracle answers the real contracts gave at that moment
   (factory params, whitelist view / collection creator), and what the implementation
   did: ok/err, the token it minted and its owner in the collection, the observation
   vector of the minter's queries after the step, balances after the step. *)
From LP Require Import Num Pay Sg1 Bank MinterVending MinterOpen MinterMigrate.

Record oestep := mkOStep {
  os_env : env; os_fp : ofparams; os_wv : option wlview; os_op : eop;
  os_ok : bool;
  os_minted : option (N * addr);     (* token id (response attribute) and its owner (collection OwnerOf) *)
  os_wv_after : option wlview;       (* whitelist view used by the MintPrice query after the step *)
  os_obs : list N;                   (* oe_observe ... after the step *)
  os_bal : bal                       (* tracked balances after the step *)
}.

Record bastep := mkBStep {
  bs_env : env; bs_creator : option addr; bs_fee_bps : N; bs_op : bop;
  bs_ok : bool;
  bs_minted : option (N * addr);
  bs_obs : list N;
  bs_bal : bal
}.

(* OECaseM = OECase plus the metadata configuration (minter Config.nft_data) and, for every
   token the collection holds at the end of the history (ascending id), what the
   collection stores for it: owner, token_uri, extension (AllNftInfo) *)
(* a migration of the open-edition minter inside a history (not an `eop`; see SaleCorr.smig) *)
Record omig := mkOMig {
  om_now : N; om_name_ok : bool; om_stored : option (N * N * N); om_admin : bool;
  om_ok : bool;
  om_fp : ofparams; om_wv_after : option wlview;
  om_obs : list N;
  om_bal : bal
}.

Inductive oitem := OIStep (st : oestep) | OIMigrate (m : omig).

Inductive oecase :=
| OECase (vr : ovariant) (init : ostate) (b : bal) (accts : list addr) (steps : list oitem)
| BaseCase (init : bstate) (b : bal) (steps : list bastep)
| OECaseM (nft : nft_cfg) (vr : ovariant) (init : ostate) (b : bal) (accts : list addr) (steps : list oitem)
          (stored : list omint).

Definition opt_n (o : option N) : list N := match o with Some x => [1; x] | None => [0; 0] end.
Definition len {A} (l : list A) : N := N.of_nat (length l).

(* fixed-layout vector of everything the open-edition minter's queries report:
   Config | MintPrice | StartTime EndTime | TotalMintCount MintableNumTokens |
   raw TOKEN_INDEX, collection NumTokens, collection start_trading_time | MintCount per account *)
Definition oe_observe (vr : ovariant) (s : ostate) (fp : ofparams) (wv : option wlview) (accts : list addr)
  : list N :=
  [o_admin s] ++ opt_n (o_payment s) ++ [o_pal s] ++ opt_n (o_num_tokens s) ++ opt_n (o_end s) ++
  [o_start s; o_price s; o_denom s] ++ opt_n (o_whitelist s) ++
  (match oq_mint_price s fp wv with
   | Ok v => [1; fst (opv_current v); snd (opv_current v); fst (opv_public v); snd (opv_public v);
              fst (opv_airdrop v); snd (opv_airdrop v)] ++
             (match opv_whitelist v with Some (p, d) => [1; p; d] | None => [0; 0; 0] end)
   | Err => [0; 0; 0; 0; 0; 0; 0; 0; 0; 0]
   end) ++
  [o_start s] ++ opt_n (o_end s) ++
  [o_total s] ++ opt_n (o_mintable s) ++
  [o_token_index s; len (o_minted s)] ++ opt_n (o_trading s) ++
  flat_map (fun a => let '(c, w) := oq_mint_count vr s a in [c; w]) accts.

(* base minter: Config.mint_price.amount | raw TOKEN_INDEX | collection NumTokens | trading time *)
Definition base_observe (s : bstate) : list N :=
  [b_price s; b_token_index s; len (b_minted s)] ++ opt_n (b_trading s).

Definition bank_of (ms : list omsg) : list bmsg :=
  flat_map (fun m => match m with OBank b => [b] | _ => [] end) ms.
Definition nft_of (ms : list omsg) : option (N * addr) :=
  match flat_map (fun m => match m with OMintNft t o => [(t, o)] | _ => [] end) ms with
  | [x] => Some x
  | _ => None
  end.
Definition pair_eqb (x y : N * addr) : bool := (fst x =? fst y) && (snd x =? snd y).

(* one world-level step: attach funds, run the handler, apply its bank messages; any
   failure reverts everything *)
Definition oe_world_step (vr : ovariant) (s : ostate) (b : bal) (st : oestep)
  : result (ostate * bal * list omsg) :=
  let e := os_env st in
  do b1 <- attach b (e_sender e) (e_contract e) (e_funds e);
  do r <- ostep vr s e (os_fp st) (os_wv st) (os_op st);
  let '(s', ms) := r in
  do b2 <- apply_bmsgs (e_contract e) b1 (bank_of ms);
  Ok (s', b2, ms).

Definition base_world_step (s : bstate) (b : bal) (st : bastep) : result (bstate * bal * list omsg) :=
  let e := bs_env st in
  do b1 <- attach b (e_sender e) (e_contract e) (e_funds e);
  do r <- bstep s e (bs_creator st) (bs_fee_bps st) (bs_op st);
  let '(s', ms) := r in
  do b2 <- apply_bmsgs (e_contract e) b1 (bank_of ms);
  Ok (s', b2, ms).

(* result: index of the first diverging step, if any *)
Definition omigrate_agrees (vr : ovariant) (accts : list addr) (s : ostate) (b : bal) (m : omig) : bool :=
  list_eqb N.eqb (oe_observe vr s (om_fp m) (om_wv_after m) accts) (om_obs m) && bal_agrees b (om_bal m).

(* a migration moves no funds and emits no message *)
Definition oe_migrate_item (vr : ovariant) (accts : list addr) (s : ostate) (b : bal) (m : omig) : option ostate :=
  match o_minter_migrate vr (om_now m) (om_name_ok m) (om_stored m) (om_admin m) s with
  | Err => if om_ok m then None else if omigrate_agrees vr accts s b m then Some s else None
  | Ok s' => if negb (om_ok m) then None else if omigrate_agrees vr accts s' b m then Some s' else None
  end.

Fixpoint oe_run_steps (vr : ovariant) (accts : list addr) (s : ostate) (b : bal) (steps : list oitem) (i : N)
  : option N :=
  match steps with
  | [] => None
  | OIStep st :: rest =>
      match oe_world_step vr s b st with
      | Err =>
          if os_ok st then Some i
          else if list_eqb N.eqb (oe_observe vr s (os_fp st) (os_wv_after st) accts) (os_obs st)
                  && bal_agrees b (os_bal st)
               then oe_run_steps vr accts s b rest (i + 1) else Some i
      | Ok (s', b', ms) =>
          if negb (os_ok st) then Some i
          else if option_eqb pair_eqb (nft_of ms) (os_minted st)
                  && list_eqb N.eqb (oe_observe vr s' (os_fp st) (os_wv_after st) accts) (os_obs st)
                  && bal_agrees b' (os_bal st)
               then oe_run_steps vr accts s' b' rest (i + 1) else Some i
      end
  | OIMigrate m :: rest =>
      match oe_migrate_item vr accts s b m with
      | Some s' => oe_run_steps vr accts s' b rest (i + 1)
      | None => Some i
      end
  end.

Fixpoint base_run_steps (s : bstate) (b : bal) (steps : list bastep) (i : N) : option N :=
  match steps with
  | [] => None
  | st :: rest =>
      match base_world_step s b st with
      | Err =>
          if bs_ok st then Some i
          else if list_eqb N.eqb (base_observe s) (bs_obs st) && bal_agrees b (bs_bal st)
               then base_run_steps s b rest (i + 1) else Some i
      | Ok (s', b', ms) =>
          if negb (bs_ok st) then Some i
          else if option_eqb pair_eqb (nft_of ms) (bs_minted st)
                  && list_eqb N.eqb (base_observe s') (bs_obs st)
                  && bal_agrees b' (bs_bal st)
               then base_run_steps s' b' rest (i + 1) else Some i
      end
  end.

(* the same run through `ostep_nft`, collecting what the collection was asked to store
   (oldest first); result: first diverging step, if any, and the collected mints *)
Definition oe_world_step_nft (c : nft_cfg) (vr : ovariant) (s : ostate) (b : bal) (st : oestep)
  : result (ostate * bal * list omsg * list omint) :=
  let e := os_env st in
  do b1 <- attach b (e_sender e) (e_contract e) (e_funds e);
  do r <- ostep_nft c vr s e (os_fp st) (os_wv st) (os_op st);
  let '(s', ms, mm) := r in
  do b2 <- apply_bmsgs (e_contract e) b1 (bank_of ms);
  Ok (s', b2, ms, mm).

Fixpoint oe_run_steps_nft (c : nft_cfg) (vr : ovariant) (accts : list addr) (s : ostate) (b : bal)
         (steps : list oitem) (i : N) (acc : list omint) : option N * list omint :=
  match steps with
  | [] => (None, rev acc)
  | OIStep st :: rest =>
      match oe_world_step_nft c vr s b st with
      | Err =>
          if os_ok st then (Some i, rev acc)
          else if list_eqb N.eqb (oe_observe vr s (os_fp st) (os_wv_after st) accts) (os_obs st)
                  && bal_agrees b (os_bal st)
               then oe_run_steps_nft c vr accts s b rest (i + 1) acc else (Some i, rev acc)
      | Ok (s', b', ms, mm) =>
          if negb (os_ok st) then (Some i, rev acc)
          else if option_eqb pair_eqb (nft_of ms) (os_minted st)
                  && list_eqb N.eqb (oe_observe vr s' (os_fp st) (os_wv_after st) accts) (os_obs st)
                  && bal_agrees b' (os_bal st)
               then oe_run_steps_nft c vr accts s' b' rest (i + 1) (rev_append mm acc) else (Some i, rev acc)
      end
  | OIMigrate m :: rest =>
      match oe_migrate_item vr accts s b m with
      | Some s' => oe_run_steps_nft c vr accts s' b rest (i + 1) acc
      | None => (Some i, rev acc)
      end
  end.

Definition omint_eqb (x y : omint) : bool :=
  (om_id x =? om_id y) && (om_owner x =? om_owner y) &&
  option_eqb N.eqb (om_uri x) (om_uri y) && option_eqb N.eqb (om_ext x) (om_ext y).

(* for diagnosis: index of the first diverging step (the number of steps when only the
   tokens stored by the collection differ from what the model sent) *)
Definition sale_oe_diverges_at (c : oecase) : option N :=
  match c with
  | OECase vr init b accts steps => oe_run_steps vr accts init b steps 0
  | BaseCase init b steps => base_run_steps init b steps 0
  | OECaseM nft vr init b accts steps stored =>
      match oe_run_steps_nft nft vr accts init b steps 0 [] with
      | (Some i, _) => Some i
      | (None, mm) => if list_eqb omint_eqb mm stored then None else Some (len steps)
      end
  end.

Definition sale_oe_check (c : oecase) : bool :=
  match sale_oe_diverges_at c with None => true | Some _ => false end.
