(* Correspondence vocabulary shared by the sale-world properties (C01 C02 C03 C04 C07
   C19) for the six vending minters: a case is an initial model state (built by the
   harness from the minter's Config query and raw position table right after creation),
   initial balances of the tracked accounts, and a list of steps; each step carries the
   call (env, op), the oracle answers the real contracts gave at that moment (factory
   params, whitelist view), and what the implementation did (ok/err, the token it
   minted and its owner in the collection, the observation vector of the minter's
   queries after the step, balances after the step). *)
From LP Require Import Num Pay Sg1 Bank MinterVending MinterMigrate.

Record sstep := mkStep {
  st_env : env; st_fp : fparams; st_wv : option wlview; st_op : vop;
  st_ok : bool;
  st_minted : option (N * addr);     (* token id (response attribute) and its owner (collection OwnerOf) *)
  st_wv_after : option wlview;       (* whitelist view used by the MintPrice query after the step *)
  st_obs : list N;                   (* observe ... after the step *)
  st_bal : bal                       (* tracked balances after the step *)
}.

(* a migration of the minter inside a history (not a `vop`: `world_step` and `step` are
   unchanged): block time, whether the stored cw2 name is the contract's own, the stored
   cw2 version parsed as MAJOR.MINOR.PATCH (None = does not parse), whether the sender is
   the contract's wasm admin; what the chain did; the observation vector, the raw
   LAST_DISCOUNT_TIME and the balances afterwards *)
Record smig := mkMig {
  mg_now : N; mg_name_ok : bool; mg_stored : option (N * N * N); mg_admin : bool;
  mg_ok : bool;
  mg_fp : fparams; mg_wv_after : option wlview;
  mg_obs : list N;
  mg_last_discount : N;
  mg_bal : bal
}.

Inductive sitem := IStep (st : sstep) | IMigrate (m : smig).

Record scase := mkCase {
  sc_variant : variant;
  sc_init : vstate;
  sc_bal : bal;
  sc_accts : list addr;              (* addresses whose MintCount is observed *)
  sc_steps : list sitem;
  sc_final_positions : list (N * N)  (* raw MINTABLE_TOKEN_POSITIONS at the end *)
}.

Definition opt_n (o : option N) : list N := match o with Some x => [1; x] | None => [0; 0] end.

(* fixed-layout vector of everything the minter's queries report *)
Definition observe (vr : variant) (s : vstate) (fp : fparams) (wv : option wlview) (accts : list addr) : list N :=
  [s_mintable s; s_price s; s_denom s] ++ opt_n (s_discount s) ++ [s_start s; s_pal s] ++ opt_n (s_whitelist s) ++
  (match q_current_price s fp wv with Ok (p, d) => [1; p; d] | Err => [0; 0; 0] end) ++
  opt_n (s_trading s) ++
  flat_map (fun a => let '(c, w) := q_mint_count vr s a in [c; w]) accts.

Definition bank_of (ms : list omsg) : list bmsg :=
  flat_map (fun m => match m with OBank b => [b] | _ => [] end) ms.
Definition nft_of (ms : list omsg) : option (N * addr) :=
  match flat_map (fun m => match m with OMintNft t o => [(t, o)] | _ => [] end) ms with
  | [x] => Some x
  | _ => None
  end.

(* one world-level step: attach funds, run the handler, apply its bank messages; any
   failure reverts everything *)
Definition world_step (vr : variant) (s : vstate) (b : bal) (st : sstep) : result (vstate * bal * list omsg) :=
  let e := st_env st in
  do b1 <- attach b (e_sender e) (e_contract e) (e_funds e);
  do r <- step vr s e (st_fp st) (st_wv st) (st_op st);
  let '(s', ms) := r in
  do b2 <- apply_bmsgs (e_contract e) b1 (bank_of ms);
  Ok (s', b2, ms).

Definition pair_eqb (x y : N * addr) : bool := (fst x =? fst y) && (snd x =? snd y).

Definition migrate_agrees (vr : variant) (accts : list addr) (s : vstate) (b : bal) (m : smig) : bool :=
  list_eqb N.eqb (observe vr s (mg_fp m) (mg_wv_after m) accts) (mg_obs m)
  && (s_last_discount s =? mg_last_discount m) && bal_agrees b (mg_bal m).

Fixpoint run_steps (vr : variant) (accts : list addr) (s : vstate) (b : bal) (steps : list sitem) (i : N)
  : vstate * bal * option N :=                  (* third component: index of the first diverging step *)
  match steps with
  | [] => (s, b, None)
  | IStep st :: rest =>
      match world_step vr s b st with
      | Err =>
          if st_ok st then (s, b, Some i)
          else if list_eqb N.eqb (observe vr s (st_fp st) (st_wv_after st) accts) (st_obs st) && bal_agrees b (st_bal st)
               then run_steps vr accts s b rest (i + 1) else (s, b, Some i)
      | Ok (s', b', ms) =>
          if negb (st_ok st) then (s, b, Some i)
          else if option_eqb pair_eqb (nft_of ms) (st_minted st)
                  && list_eqb N.eqb (observe vr s' (st_fp st) (st_wv_after st) accts) (st_obs st)
                  && bal_agrees b' (st_bal st)
               then run_steps vr accts s' b' rest (i + 1) else (s, b, Some i)
      end
  | IMigrate m :: rest =>
      (* a migration moves no funds and emits no message: the balances stay *)
      match minter_migrate vr (mg_now m) (mg_name_ok m) (mg_stored m) (mg_admin m) s with
      | Err =>
          if mg_ok m then (s, b, Some i)
          else if migrate_agrees vr accts s b m then run_steps vr accts s b rest (i + 1) else (s, b, Some i)
      | Ok s' =>
          if negb (mg_ok m) then (s, b, Some i)
          else if migrate_agrees vr accts s' b m then run_steps vr accts s' b rest (i + 1) else (s, b, Some i)
      end
  end.

Definition positions_eqb (a b : list (N * N)) : bool :=
  list_eqb (fun x y => (fst x =? fst y) && (snd x =? snd y)) a b.

Definition sale_check (c : scase) : bool :=
  match run_steps (sc_variant c) (sc_accts c) (sc_init c) (sc_bal c) (sc_steps c) 0 with
  | (s, _, None) => positions_eqb (s_positions s) (sc_final_positions c)
  | (_, _, Some _) => false
  end.

(* for diagnosis: index of the first diverging step (or the number of steps if only the
   final position table differs) *)
Definition sale_diverges_at (c : scase) : option N :=
  match run_steps (sc_variant c) (sc_accts c) (sc_init c) (sc_bal c) (sc_steps c) 0 with
  | (s, _, None) => if positions_eqb (s_positions s) (sc_final_positions c) then None
                    else Some (N.of_nat (length (sc_steps c)))
  | (_, _, Some i) => Some i
  end.
