(* Correspondence vocabulary for C16.  A case is one airdrop world (the arguments of the
   airdrop's instantiate and of its surroundings) with a history of ClaimAirdrop calls.
   Every call carries (a) the answers an independent implementation inside the harness
   gave for hex decoding, Keccak-256, public-key recovery, address derivation and ECDSA
   verification on that call's data, from which the model's oracles are instantiated, and
   (b) what the real contracts did and showed afterwards. *)
From Coq Require Import ZArith Uint63.
From LP Require Import Airdrop.
Local Open Scope N_scope.

(* hex::decode, concretely (the theorems do not depend on this; it instantiates `hexdec`
   and is itself compared with the harness's decoder on every call) *)
Definition nibble (c : N) : option N :=
  if (48 <=? c) && (c <=? 57) then Some (c - 48)
  else if (97 <=? c) && (c <=? 102) then Some (c - 87)
  else if (65 <=? c) && (c <=? 70) then Some (c - 55)
  else None.
Fixpoint hex_decode (s : bytes) : option bytes :=
  match s with
  | [] => Some []
  | [_] => None
  | a :: b :: s' =>
      match nibble a, nibble b, hex_decode s' with
      | Some x, Some y, Some r => Some (16 * x + y :: r)
      | _, _, _ => None
      end
  end.

(* Byte strings cross from the harness packed seven to a primitive 63-bit integer
   (big-endian, the last chunk zero-padded) with their length: the elaborator reads a
   primitive integer literal as one node, a list of N costs it ~13x more time.  Only this
   correspondence vocabulary uses primitive integers; the model and the theorems do not. *)
Definition byte_at (i : int) (k : int) : N := Z.to_N (Uint63.to_Z (Uint63.land (Uint63.lsr i k) 255%uint63)).
Definition bytes7 (i : int) : bytes :=
  [byte_at i 48%uint63; byte_at i 40%uint63; byte_at i 32%uint63; byte_at i 24%uint63;
   byte_at i 16%uint63; byte_at i 8%uint63; byte_at i 0%uint63].
Definition P (n : N) (chunks : list int) : bytes := firstn (N.to_nat n) (flat_map bytes7 chunks).
Arguments P n%N chunks%uint63.

Definition obytes_eqb := option_eqb bytes_eqb.

Record oracle_answers := mkOracle {
  o_sig : option bytes;        (* eth_sig hex-decoded *)
  o_addr : option bytes;       (* eth_address without its first two characters, hex-decoded *)
  o_pre : bytes;               (* "\x19Ethereum Signed Message:\n" len text, text = template with the sender spliced in *)
  o_hash : bytes;              (* Keccak-256 o_pre *)
  o_rec0 : option bytes;       (* key recovered from (o_hash, o_sig without its last byte) with recovery id 0 *)
  o_rec1 : option bytes;       (* ... with recovery id 1 *)
  o_a0 : option bytes;         (* Ethereum address of o_rec0 *)
  o_a1 : option bytes;
  o_v0 : option bool;          (* ECDSA verification of the same data under o_rec0 *)
  o_v1 : option bool
}.

Definition o_rs (o : oracle_answers) : option bytes :=
  match o_sig o with Some s => Some (removelast s) | None => None end.

Definition or_keccak (o : oracle_answers) (m : bytes) : bytes :=
  if bytes_eqb m (o_pre o) then o_hash o else [].
Definition or_recover (o : oracle_answers) (h rs : bytes) (rid : N) : option bytes :=
  if bytes_eqb h (o_hash o) && obytes_eqb (Some rs) (o_rs o)
  then (if rid =? 0 then o_rec0 o else if rid =? 1 then o_rec1 o else None)
  else None.
Definition or_address_of (o : oracle_answers) (pk : bytes) : option bytes :=
  if obytes_eqb (Some pk) (o_rec0 o) then o_a0 o
  else if obytes_eqb (Some pk) (o_rec1 o) then o_a1 o
  else None.
Definition or_verify (o : oracle_answers) (h rs pk : bytes) : option bool :=
  if bytes_eqb h (o_hash o) && obytes_eqb (Some rs) (o_rs o)
  then (if obytes_eqb (Some pk) (o_rec0 o) then o_v0 o
        else if obytes_eqb (Some pk) (o_rec1 o) then o_v1 o
        else None)
  else None.

Inductive c16_step :=
| Claim (sender eth_addr eth_sig : bytes) (o : oracle_answers)
        (* what the implementation did and shows afterwards *)
        (ok : bool)                       (* ClaimAirdrop succeeded *)
        (bal_sender bal_airdrop : N)      (* bank balances *)
        (elig : bool)                     (* query AirdropEligible { eth_addr } *)
        (member : bool)                   (* collection whitelist HasMember { sender } *)
        (count : option N)                (* raw ADDRS_TO_MINT_COUNT[eth_addr] *)
        (num_members : N)                 (* collection whitelist Config.num_members *)
(* operations of the collection whitelist's own admin between claims *)
| WlRemove (m : bytes) (ok member : bool) (num_members : N)   (* RemoveMembers [m]; HasMember m afterwards *)
| WlAdd (m : bytes) (ok member : bool) (num_members : N)      (* AddMembers [m] *)
| WlAirdropAdmin (b : bool) (ok : bool).                      (* UpdateAdmins with / without the airdrop contract *)

Inductive c16_case :=
| CWorld (funds : list coin) (template : bytes) (amount : N) (addresses : list bytes) (limit : N)
         (top_up : N)
         (minter_has_wl : bool) (airdrop_admin : bool) (members0 : list bytes) (num0 member_limit : N)
         (built : bool)                   (* the airdrop's instantiate succeeded *)
         (bal0 : N)                       (* airdrop balance before the first claim *)
         (steps : list c16_step)
         (final_counts : list (bytes * N)).   (* all raw ADDRS_TO_MINT_COUNT entries at the end *)

Definition AIRDROP : addr := 10.
Definition CWL_ID : N := 20.

Definition step_check (w : world) (s : c16_step) : option world :=
  match s with
  | Claim sender eth_addr eth_sig o ok bs ba elig member count nm =>
      let r := claim_tx hex_decode (or_keccak o) (or_recover o) (or_address_of o) (or_verify o)
                        w sender eth_addr eth_sig in
      let w' := match r with Ok w' => w' | Err => w end in
      if Bool.eqb (is_ok r) ok
         && obytes_eqb (hex_decode eth_sig) (o_sig o)
         && obytes_eqb (hex_decode (skipn 2 eth_addr)) (o_addr o)
         && (bmap_get sender (w_recv w') =? bs)
         && (w_bal w' =? ba)
         && Bool.eqb (eligible (w_air w') eth_addr) elig
         && Bool.eqb (mem sender (cw_members (w_cwl w'))) member
         && option_eqb N.eqb (bmap_find eth_addr (a_counts (w_air w'))) count
         && (cw_num (w_cwl w') =? nm)
      then Some w' else None
  | WlRemove m ok member nm =>
      let r := cwl_remove (w_cwl w) m in
      let c' := match r with Ok c' => c' | Err => w_cwl w end in
      if Bool.eqb (is_ok r) ok && Bool.eqb (mem m (cw_members c')) member && (cw_num c' =? nm)
      then Some (set_cwl w c') else None
  | WlAdd m ok member nm =>
      let r := cwl_add (w_cwl w) [m] in
      let c' := match r with Ok c' => c' | Err => w_cwl w end in
      if Bool.eqb (is_ok r) ok && Bool.eqb (mem m (cw_members c')) member && (cw_num c' =? nm)
      then Some (set_cwl w c') else None
  | WlAirdropAdmin b ok =>
      if ok then Some (set_cwl w (cwl_set_airdrop_admin (w_cwl w) b)) else None
  end.

Fixpoint steps_check (w : world) (ss : list c16_step) : option world :=
  match ss with
  | [] => Some w
  | s :: ss' => match step_check w s with Some w' => steps_check w' ss' | None => None end
  end.

Definition counts_agree (m : bmap) (obs : list (bytes * N)) : bool :=
  (N.of_nat (List.length m) =? N.of_nat (List.length obs))
  && forallb (fun kv => option_eqb N.eqb (bmap_find (fst kv) m) (Some (snd kv))) obs.

Definition c16_check (c : c16_case) : bool :=
  match c with
  | CWorld funds template amount addresses limit top_up mwl admin members0 num0 mlimit built bal0 steps final =>
      match instantiate AIRDROP funds template amount addresses limit with
      | Err => negb built
      | Ok (st, fee_msgs) =>
          built &&
          match must_pay funds NATIVE with
          | Err => false
          | Ok paid =>
              let w := mkWorld st (paid - sum_out fee_msgs + top_up) (if mwl then Some CWL_ID else None) CWL_ID
                               (mkCwl admin members0 num0 mlimit) [] in
              (w_bal w =? bal0) &&
              match steps_check w steps with
              | Some w' => counts_agree (a_counts (w_air w')) final
              | None => false
              end
          end
      end
  end.

(* diagnostics: index of the first call of a case on which model and implementation differ *)
Fixpoint first_bad_step (w : world) (ss : list c16_step) (i : N) : option N :=
  match ss with
  | [] => None
  | s :: ss' => match step_check w s with Some w' => first_bad_step w' ss' (i + 1) | None => Some i end
  end.
Definition c16_first_bad (c : c16_case) : option N :=
  match c with
  | CWorld funds template amount addresses limit top_up mwl admin members0 num0 mlimit built bal0 steps final =>
      match instantiate AIRDROP funds template amount addresses limit, must_pay funds NATIVE with
      | Ok (st, fee_msgs), Ok paid =>
          first_bad_step (mkWorld st (paid - sum_out fee_msgs + top_up) (if mwl then Some CWL_ID else None) CWL_ID
                                  (mkCwl admin members0 num0 mlimit) []) steps 0
      | _, _ => None
      end
  end.
