(* Correspondence vocabulary for C10: royalty-update histories on the real collections
   (same replay as C09) and direct calls of CollectionInfoResponse::royalty_payout. *)
From LP Require Import Collection.

Inductive c10_case :=
| RHist (h : history)
| RPayout (roy : option royalty) (payment fee : N) (finders : option N) (out : result (N * list bmsg)).

Definition payout_eqb (a b : N * list bmsg) : bool :=
  (fst a =? fst b) && list_eqb bmsg_eqb (snd a) (snd b).

Definition c10_check (c : c10_case) : bool :=
  match c with
  | RHist h => history_check h
  | RPayout roy p f ff out => result_eqb payout_eqb (royalty_payout roy p f ff) out
  end.
