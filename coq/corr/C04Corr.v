(* C04 correspondence: the sale-world vocabulary (scase / sale_check: whole histories run
   on the real minter and in the model with the real whitelist/factory answers as
   oracle inputs) plus whitelist-activity probes.  The C04 theorems take the
   whitelist's "active" answer as an oracle; the probes tie that answer to the window(s)
   the whitelist was created with, at every instant the harness visits:
     plain / flex / merkle whitelist : active  <->  start <= now <  end
     tiered kinds                    : active  <->  some stage has start <= now <= end,
                                       ActiveStageId = 1 + index of the earliest such stage
                                       (0 if none). *)
From LP Require Export SaleCorr.
From LP Require Import Num Pay Sg1 Bank MinterVending MinterOpen SaleOeCorr.

Record wprobe := mkProbe {
  pr_tiered : bool;
  pr_windows : list (N * N);        (* (start, end) per stage, nanoseconds *)
  pr_now : N;
  pr_active : bool;                 (* Config.is_active / IsActive answer *)
  pr_stage : N                      (* ActiveStageId answer (tiered only; 0 = none) *)
}.

Definition in_stage (w : N * N) (now : N) : bool := (fst w <=? now) && (now <=? snd w).

Definition window_active (tiered : bool) (ws : list (N * N)) (now : N) : bool :=
  if tiered then existsb (fun w => in_stage w now) ws
  else match ws with
       | [w] => (fst w <=? now) && (now <? snd w)
       | _ => false
       end.

Fixpoint stage_of (ws : list (N * N)) (now : N) (k : N) : N :=
  match ws with
  | [] => 0
  | w :: r => if in_stage w now then k else stage_of r now (k + 1)
  end.

Definition probe_ok (p : wprobe) : bool :=
  Bool.eqb (window_active (pr_tiered p) (pr_windows p) (pr_now p)) (pr_active p) &&
  (if pr_tiered p then stage_of (pr_windows p) (pr_now p) 1 =? pr_stage p else true).

(* a vending-family history or an open-edition history, each with its probes *)
Inductive c04_case :=
| mkC04 (sale : scase) (probes : list wprobe)
| mkC04O (oe : oecase) (probes : list wprobe).

Definition c04_check (c : c04_case) : bool :=
  match c with
  | mkC04 sale probes => sale_check sale && forallb probe_ok probes
  | mkC04O oe probes => sale_oe_check oe && forallb probe_ok probes
  end.
