(* C04 reuses the sale-world correspondence vocabulary (scase / sale_check) and adds the
   whitelist-activity probes: at every step the answer the attached whitelist gave to
   Config.is_active / ActiveStageId is compared with the window(s) it was created with. *)
From LP Require Export SaleCorr.
