(* Lemmas about the token-merge model (model/TokenMerge.v). *)
From LP Require Import Num Pay Sg1 Consts TokenMerge.
From Coq Require Import ZArith Lia ZifyN ZifyBool.
Local Open Scope N_scope.

(* ---------- association lists ---------- *)
Section ALFacts.
  Context {K : Type} (eqb : K -> K -> bool).
  Hypothesis eqb_spec : forall a b, eqb a b = true <-> a = b.

  Lemma al_eqb_refl k : eqb k k = true.
  Proof. apply eqb_spec. reflexivity. Qed.
  Lemma al_eqb_neq k k' : k <> k' -> eqb k k' = false.
  Proof. intros Hn. destruct (eqb k k') eqn:E; auto. apply eqb_spec in E. contradiction. Qed.

  Lemma al_get_remove_same k l : al_get eqb k (al_remove eqb k l) = 0.
  Proof.
    induction l as [|[k' v] t IH]; cbn [al_remove al_get]; auto.
    destruct (eqb k k') eqn:E; auto. cbn [al_get]. rewrite E. exact IH.
  Qed.
  Lemma al_get_remove_other k k' l : k <> k' -> al_get eqb k (al_remove eqb k' l) = al_get eqb k l.
  Proof.
    intros Hn. induction l as [|[k2 v] t IH]; cbn [al_remove al_get]; auto.
    destruct (eqb k' k2) eqn:E.
    - apply eqb_spec in E. subst k2. rewrite (al_eqb_neq _ _ Hn). exact IH.
    - cbn [al_get]. destruct (eqb k k2); auto.
  Qed.
  Lemma al_get_set_same k v l : al_get eqb k (al_set eqb k v l) = v.
  Proof. unfold al_set. cbn [al_get]. rewrite al_eqb_refl. reflexivity. Qed.
  Lemma al_get_set_other k k' v l : k <> k' -> al_get eqb k (al_set eqb k' v l) = al_get eqb k l.
  Proof. intros Hn. unfold al_set. cbn [al_get]. rewrite (al_eqb_neq _ _ Hn). apply al_get_remove_other. exact Hn. Qed.
  Lemma al_get_remove_cases k k' l :
    al_get eqb k (al_remove eqb k' l) = 0 \/ al_get eqb k (al_remove eqb k' l) = al_get eqb k l.
  Proof.
    destruct (eqb k k') eqn:E.
    - apply eqb_spec in E. subst. left. apply al_get_remove_same.
    - right. apply al_get_remove_other. intros ->. rewrite al_eqb_refl in E. discriminate.
  Qed.
End ALFacts.

Lemma pkey_eqb_spec (a b : pkey) : pkey_eqb a b = true <-> a = b.
Proof.
  destruct a as [a1 a2], b as [b1 b2]. unfold pkey_eqb. cbn [fst snd].
  rewrite andb_true_iff, !N.eqb_eq. split.
  - intros [-> ->]. reflexivity.
  - intros [= -> ->]. auto.
Qed.
Lemma neqb_spec (a b : N) : N.eqb a b = true <-> a = b.
Proof. apply N.eqb_eq. Qed.

Definition pget_set_same := al_get_set_same pkey_eqb pkey_eqb_spec.
Definition pget_set_other := al_get_set_other pkey_eqb pkey_eqb_spec.
Definition pget_remove_same := al_get_remove_same pkey_eqb.
Definition pget_remove_other := al_get_remove_other pkey_eqb pkey_eqb_spec.
Definition pget_remove_cases := al_get_remove_cases pkey_eqb pkey_eqb_spec.
Definition nget_set_same := al_get_set_same N.eqb neqb_spec.
Definition nget_set_other := al_get_set_other N.eqb neqb_spec.
Definition nget_remove_same := al_get_remove_same N.eqb.
Definition nget_remove_other := al_get_remove_other N.eqb neqb_spec.

(* ---------- requirement list ---------- *)
Lemma req_amount_in c req a : req_amount c req = Some a -> In (c, a) req.
Proof.
  unfold req_amount. destruct (find (fun p => fst p =? c) req) as [p|] eqn:F; [|discriminate].
  intros [= <-]. apply find_some in F. destruct F as [Hin He]. apply N.eqb_eq in He.
  destruct p as [c' a']. cbn [fst snd] in *. subst. exact Hin.
Qed.
Lemma req_amount_none c req : req_amount c req = None -> ~ In c (map fst req).
Proof.
  unfold req_amount. destruct (find (fun p => fst p =? c) req) as [p|] eqn:F; [discriminate|]. intros _ Hin.
  apply in_map_iff in Hin. destruct Hin as [p [Hp Hin]].
  pose proof (find_none _ _ F p Hin) as Hf. cbn in Hf. apply N.eqb_neq in Hf. contradiction.
Qed.
Lemma req_amount_nodup c a req : NoDup (map fst req) -> In (c, a) req -> req_amount c req = Some a.
Proof.
  unfold req_amount. induction req as [|[c' a'] t IH]; intros Hnd Hin; [contradiction|].
  cbn [find fst snd map] in *. inversion Hnd as [|x l Hnot Hnd']; subst.
  destruct Hin as [E|Hin].
  - injection E as -> ->. rewrite N.eqb_refl. reflexivity.
  - destruct (c' =? c) eqn:E.
    + apply N.eqb_eq in E. subst c'. exfalso. apply Hnot. apply in_map_iff. exists (c, a). auto.
    + apply IH; assumption.
Qed.

Lemma all_met_iff led r req :
  all_met led r req = true <-> forall c a, In (c, a) req -> a <= al_get pkey_eqb (r, c) led.
Proof.
  unfold all_met. rewrite forallb_forall. split.
  - intros H c a Hin. specialize (H (c, a) Hin). cbn [fst snd] in H. apply N.leb_le. exact H.
  - intros H [c a] Hin. cbn [fst snd]. apply N.leb_le. apply H. exact Hin.
Qed.

Lemma get_clear_other r r' c req led :
  r' <> r -> al_get pkey_eqb (r', c) (clear_ledger r req led) = al_get pkey_eqb (r', c) led.
Proof.
  intros Hn. revert led. induction req as [|p t IH]; intros led; cbn [clear_ledger]; auto.
  rewrite IH. apply pget_remove_other. intros [= E _]. contradiction.
Qed.
Lemma get_clear_cases r c req led :
  al_get pkey_eqb (r, c) (clear_ledger r req led) = 0 \/
  al_get pkey_eqb (r, c) (clear_ledger r req led) = al_get pkey_eqb (r, c) led.
Proof.
  revert led. induction req as [|p t IH]; intros led; cbn [clear_ledger]; auto.
  destruct (IH (al_remove pkey_eqb (r, fst p) led)) as [H|H]; [left; exact H|].
  rewrite H. apply pget_remove_cases.
Qed.
Lemma get_clear_in r c req led :
  In c (map fst req) -> al_get pkey_eqb (r, c) (clear_ledger r req led) = 0.
Proof.
  revert led. induction req as [|p t IH]; intros led Hin; [contradiction|].
  cbn [clear_ledger map] in *.
  destruct (get_clear_cases r c t (al_remove pkey_eqb (r, fst p) led)) as [H|H]; [exact H|].
  destruct Hin as [E|Hin].
  - rewrite H, E. apply pget_remove_same.
  - apply IH. exact Hin.
Qed.

(* ---------- take_token ---------- *)
Lemma guard_ok b : guard b = Ok tt -> b = true.
Proof. destruct b; [reflexivity|discriminate]. Qed.

Lemma existsb_eqb_in t l : existsb (N.eqb t) l = true -> In t l.
Proof. intros H. apply existsb_exists in H. destruct H as [x [Hin E]]. apply N.eqb_eq in E. subst. exact Hin. Qed.

Lemma take_token_inv r t st st' :
  take_token r t st = Ok st' ->
  0 < tm_mintable st /\ In t (tm_avail st) /\
  st' = set_counts (set_supply st (tm_mintable st - 1) (remove_tok t (tm_avail st)))
                   (al_set N.eqb r (count st r + 1) (tm_counts st)).
Proof.
  unfold take_token, bind, guard.
  destruct (0 <? tm_mintable st) eqn:E1; [|discriminate].
  destruct (existsb (N.eqb t) (tm_avail st)) eqn:E2; [|discriminate].
  destruct (count st r + 1 <=? U32_MAX) eqn:E3; [|discriminate].
  intros [= <-]. repeat split.
  - apply N.ltb_lt. exact E1.
  - apply existsb_eqb_in. exact E2.
Qed.

Lemma take_token_sold_out r t st : tm_mintable st = 0 -> take_token r t st = Err.
Proof. intros H. unfold take_token. rewrite H. reflexivity. Qed.

(* ---------- receive: the structural inversion everything else is read from ---------- *)
Definition led1 (st : tm_state) (r caller : N) : list (pkey * N) :=
  al_set pkey_eqb (r, caller) (ledger st r caller + 1) (tm_ledger st).

Lemma receive_inv now caller cws recip tok pick st st' ms :
  receive now caller cws recip tok pick st = Ok (st', ms) ->
  let r := recipient_of cws recip in
  tm_start st < now /\ r <> 0 /\ count st r < tm_limit st /\
  exists amt, req_amount caller (tm_req st) = Some amt /\ ledger st r caller < amt /\
    ((all_met (led1 st r caller) r (tm_req st) = false /\
      st' = set_ledger st (led1 st r caller) /\ ms = [TBurn caller tok]) \/
     (all_met (led1 st r caller) r (tm_req st) = true /\
      exists st2, take_token r pick (set_ledger st (led1 st r caller)) = Ok st2 /\
        st' = set_ledger st2 (clear_ledger r (tm_req st) (tm_ledger st2)) /\
        ms = [TMint r pick; TBurn caller tok])).
Proof.
  intros H. cbv zeta. unfold receive, bind, guard in H.
  set (r := recipient_of cws recip) in *.
  destruct (tm_start st <? now) eqn:E1; [|discriminate].
  destruct (addr_ok r) eqn:E2; [|discriminate].
  destruct (count st r <? tm_limit st) eqn:E3; [|discriminate].
  destruct (req_amount caller (tm_req st)) as [amt|] eqn:E4; [|discriminate].
  destruct (ledger st r caller <? amt) eqn:E5; [|discriminate].
  apply N.ltb_lt in E1, E3, E5.
  unfold addr_ok in E2. apply negb_true_iff, N.eqb_neq in E2.
  repeat (split; [assumption|]).
  exists amt. repeat (split; [auto|]).
  cbn [tm_ledger set_ledger] in H. fold (led1 st r caller) in H.
  destruct (all_met (led1 st r caller) r (tm_req st)) eqn:E6.
  - right. split; [reflexivity|].
    destruct (take_token r pick (set_ledger st (led1 st r caller))) as [st2|] eqn:E7; [|discriminate].
    injection H as <- <-. exists st2. auto.
  - left. injection H as <- <-. auto.
Qed.

(* the entry the deposit increments, seen through `ledger` *)
Lemma led1_same st r caller : al_get pkey_eqb (r, caller) (led1 st r caller) = ledger st r caller + 1.
Proof. unfold led1. apply pget_set_same. Qed.
Lemma led1_other st r caller r' c' :
  (r', c') <> (r, caller) -> al_get pkey_eqb (r', c') (led1 st r caller) = ledger st r' c'.
Proof. intros Hn. unfold led1. rewrite pget_set_other by exact Hn. reflexivity. Qed.
Lemma led1_val st r caller c :
  al_get pkey_eqb (r, c) (led1 st r caller) = if c =? caller then ledger st r c + 1 else ledger st r c.
Proof.
  destruct (c =? caller) eqn:E.
  - apply N.eqb_eq in E. subst. apply led1_same.
  - apply N.eqb_neq in E. apply led1_other. intros [= ?]. contradiction.
Qed.

Definition complete_after (st : tm_state) (r caller : N) : Prop :=
  forall c a, In (c, a) (tm_req st) -> a <= (if c =? caller then ledger st r c + 1 else ledger st r c).

Lemma all_met_complete st r caller :
  all_met (led1 st r caller) r (tm_req st) = true <-> complete_after st r caller.
Proof.
  rewrite all_met_iff. unfold complete_after. split; intros H c a Hin; specialize (H c a Hin).
  - rewrite led1_val in H. exact H.
  - rewrite led1_val. exact H.
Qed.

(* ---- the theorems of props/C17.v ---- *)

Lemma deposit_ok_guards now caller cws recip tok pick st st' ms :
  receive now caller cws recip tok pick st = Ok (st', ms) ->
  tm_start st < now /\
  (exists amt, In (caller, amt) (tm_req st) /\ req_amount caller (tm_req st) = Some amt /\
               ledger st (recipient_of cws recip) caller < amt) /\
  count st (recipient_of cws recip) < tm_limit st /\
  recipient_of cws recip <> 0.
Proof.
  intros H. apply receive_inv in H. cbv zeta in H.
  destruct H as (H1 & H2 & H3 & amt & H4 & H5 & _).
  repeat split; auto. exists amt. repeat split; auto. apply req_amount_in. exact H4.
Qed.

Lemma mints_iff_complete now caller cws recip tok pick st st' ms :
  receive now caller cws recip tok pick st = Ok (st', ms) ->
  ((exists t, In (TMint (recipient_of cws recip) t) ms) <-> complete_after st (recipient_of cws recip) caller) /\
  (forall r' t, In (TMint r' t) ms -> r' = recipient_of cws recip /\ t = pick) /\
  (forall c t, In (TBurn c t) ms <-> c = caller /\ t = tok).
Proof.
  intros H. apply receive_inv in H. cbv zeta in H.
  destruct H as (_ & _ & _ & amt & _ & _ & [(Hm & _ & ->) | (Hm & st2 & _ & _ & ->)]).
  - split; [split|split].
    + intros [t [E|[]]]. discriminate.
    + intros Hc. apply all_met_complete in Hc. rewrite Hc in Hm. discriminate.
    + intros r' t [E|[]]. discriminate.
    + intros c t. split.
      * intros [E|[]]. injection E as -> ->. auto.
      * intros [-> ->]. left. reflexivity.
  - split; [split|split].
    + intros _. apply all_met_complete. exact Hm.
    + intros _. exists pick. left. reflexivity.
    + intros r' t [E|[E|[]]]; [|discriminate]. injection E as -> ->. auto.
    + intros c t. split.
      * intros [E|[E|[]]]; [discriminate|]. injection E as -> ->. auto.
      * intros [-> ->]. right. left. reflexivity.
Qed.

Lemma deposit_without_mint now caller cws recip tok pick st st' ms :
  receive now caller cws recip tok pick st = Ok (st', ms) ->
  ~ complete_after st (recipient_of cws recip) caller ->
  ms = [TBurn caller tok] /\
  ledger st' (recipient_of cws recip) caller = ledger st (recipient_of cws recip) caller + 1 /\
  (forall r' c', (r', c') <> (recipient_of cws recip, caller) -> ledger st' r' c' = ledger st r' c') /\
  tm_counts st' = tm_counts st /\ tm_mintable st' = tm_mintable st /\ tm_avail st' = tm_avail st /\
  tm_start st' = tm_start st /\ tm_limit st' = tm_limit st /\ tm_req st' = tm_req st /\ tm_admin st' = tm_admin st.
Proof.
  intros H Hnc. apply receive_inv in H. cbv zeta in H.
  destruct H as (_ & _ & _ & amt & _ & _ & [(Hm & -> & ->) | (Hm & _)]).
  - split; [reflexivity|]. unfold ledger. cbn [tm_ledger set_ledger tm_counts tm_mintable tm_avail tm_start tm_limit tm_req tm_admin].
    split; [apply led1_same|]. split; [|repeat split].
    intros r' c' Hn. apply led1_other. exact Hn.
  - exfalso. apply Hnc. apply all_met_complete. exact Hm.
Qed.

Lemma deposit_with_mint now caller cws recip tok pick st st' ms :
  receive now caller cws recip tok pick st = Ok (st', ms) ->
  complete_after st (recipient_of cws recip) caller ->
  let r := recipient_of cws recip in
  ms = [TMint r pick; TBurn caller tok] /\
  0 < tm_mintable st /\ In pick (tm_avail st) /\
  (forall c a, In (c, a) (tm_req st) -> ledger st' r c = 0) /\
  (forall r' c', r' <> r -> ledger st' r' c' = ledger st r' c') /\
  count st' r = count st r + 1 /\ (forall r', r' <> r -> count st' r' = count st r') /\
  tm_mintable st' + 1 = tm_mintable st /\ tm_avail st' = remove_tok pick (tm_avail st) /\
  tm_start st' = tm_start st /\ tm_limit st' = tm_limit st /\ tm_req st' = tm_req st /\ tm_admin st' = tm_admin st.
Proof.
  intros H Hc r. apply receive_inv in H. cbv zeta in H. fold r in H.
  destruct H as (_ & _ & _ & amt & _ & _ & [(Hm & _) | (Hm & st2 & Ht & -> & ->)]).
  - apply all_met_complete in Hc. fold r in Hc. rewrite Hc in Hm. discriminate.
  - apply take_token_inv in Ht. destruct Ht as (Hpos & Hin & ->).
    cbn [tm_mintable tm_avail set_ledger set_counts set_supply tm_ledger tm_counts tm_start tm_limit tm_req tm_admin] in *.
    unfold ledger, count.
    cbn [tm_mintable tm_avail set_ledger set_counts set_supply tm_ledger tm_counts tm_start tm_limit tm_req tm_admin].
    split; [reflexivity|]. split; [exact Hpos|]. split; [exact Hin|].
    split; [|split; [|split; [|split; [|split; [|repeat split]]]]].
    + intros c a Hca. apply get_clear_in. apply in_map_iff. exists (c, a). auto.
    + intros r' c' Hn. rewrite get_clear_other by exact Hn. apply led1_other. intros [= E _]. contradiction.
    + apply nget_set_same.
    + intros r' Hn. apply nget_set_other. exact Hn.
    + lia.
Qed.

Lemma direct_call_rejected now caller cws recip tok pick st :
  req_amount caller (tm_req st) = None -> receive now caller cws recip tok pick st = Err.
Proof.
  intros Hn. unfold receive, bind, guard. rewrite Hn.
  destruct (tm_start st <? now); [|reflexivity].
  destruct (addr_ok _); [|reflexivity].
  destruct (count st _ <? tm_limit st); reflexivity.
Qed.

Lemma not_in_req_none caller req : ~ In caller (map fst req) -> req_amount caller req = None.
Proof.
  intros Hn. destruct (req_amount caller req) as [a|] eqn:E; [|reflexivity].
  exfalso. apply Hn. apply req_amount_in in E. apply in_map_iff. exists (caller, a). auto.
Qed.

Lemma direct_call_rejected_notin now caller cws recip tok pick st :
  ~ In caller (map fst (tm_req st)) -> receive now caller cws recip tok pick st = Err.
Proof. intros Hn. apply direct_call_rejected. apply not_in_req_none. exact Hn. Qed.

Lemma not_after_start_rejected now caller cws recip tok pick st :
  now <= tm_start st -> receive now caller cws recip tok pick st = Err.
Proof.
  intros Hle. unfold receive, bind, guard.
  assert (E : tm_start st <? now = false) by (apply N.ltb_ge; exact Hle). rewrite E. reflexivity.
Qed.

Lemma at_limit_rejected now caller cws recip tok pick st :
  tm_limit st <= count st (recipient_of cws recip) -> receive now caller cws recip tok pick st = Err.
Proof.
  intros Hle. unfold receive, bind, guard.
  assert (E : count st (recipient_of cws recip) <? tm_limit st = false) by (apply N.ltb_ge; exact Hle).
  rewrite E. destruct (tm_start st <? now); [|reflexivity]. destruct (addr_ok _); reflexivity.
Qed.

Lemma beyond_requirement_rejected now caller cws recip tok pick st a :
  req_amount caller (tm_req st) = Some a -> a <= ledger st (recipient_of cws recip) caller ->
  receive now caller cws recip tok pick st = Err.
Proof.
  intros Hr Hle. unfold receive, bind, guard. rewrite Hr.
  assert (E : ledger st (recipient_of cws recip) caller <? a = false) by (apply N.ltb_ge; exact Hle).
  rewrite E. destruct (tm_start st <? now); [|reflexivity]. destruct (addr_ok _); [|reflexivity].
  destruct (count st _ <? tm_limit st); reflexivity.
Qed.

Lemma sold_out_completing_rejected now caller cws recip tok pick st :
  tm_mintable st = 0 -> complete_after st (recipient_of cws recip) caller ->
  receive now caller cws recip tok pick st = Err.
Proof.
  intros Hz Hc. destruct (receive now caller cws recip tok pick st) as [[st' ms]|] eqn:E; [|reflexivity].
  exfalso. pose proof (deposit_with_mint _ _ _ _ _ _ _ _ _ E Hc) as H. cbv zeta in H.
  destruct H as (_ & Hpos & _). lia.
Qed.

(* ---------- other entry points never touch ledger or requirement list ---------- *)
Lemma admin_mint_frame caller r funds fixed pick st st' ms :
  admin_mint caller r funds fixed pick st = Ok (st', ms) ->
  tm_ledger st' = tm_ledger st /\ tm_req st' = tm_req st /\ caller = tm_admin st /\
  (exists t, ms = [TMint r t] /\ In t (tm_avail st)) /\ 0 < tm_mintable st /\
  tm_mintable st' + 1 = tm_mintable st.
Proof.
  unfold admin_mint, bind, guard.
  destruct (addr_ok r); [|discriminate].
  destruct (caller =? tm_admin st) eqn:Ea; [|discriminate].
  destruct (match fixed with Some t => _ | None => true end); [|discriminate].
  destruct (may_pay funds NATIVE) as [p|]; [|discriminate].
  destruct (p =? tm_airdrop_price st); [|discriminate].
  destruct (take_token r _ st) as [st2|] eqn:Et; [|discriminate].
  intros [= <- <-]. apply take_token_inv in Et. destruct Et as (Hpos & Hin & ->).
  cbn [tm_ledger tm_req set_counts set_supply tm_mintable]. apply N.eqb_eq in Ea.
  repeat split; auto. eexists. split; [reflexivity|exact Hin]. lia.
Qed.

Lemma step_other_frame minter now op st st' ms :
  (forall a b c d e, op <> OReceive a b c d e) ->
  step minter now op st = Ok (st', ms) ->
  tm_ledger st' = tm_ledger st /\ tm_req st' = tm_req st.
Proof.
  intros Hop. destruct op; cbn [step].
  - exfalso. eapply Hop. reflexivity.
  - intros H. apply admin_mint_frame in H. tauto.
  - intros H. apply admin_mint_frame in H. tauto.
  - unfold bind, guard. destruct (checked_fair_burn _ _ _ _); [|discriminate].
    destruct (negb _); [|discriminate]. intros [= <- <-]. auto.
  - unfold bind, guard. destruct (nonpayable _); [|discriminate].
    destruct (tm_mintable st =? 0); [|discriminate]. intros [= <- <-]. auto.
  - unfold bind, guard. destruct (nonpayable _); [|discriminate].
    destruct (caller =? tm_admin st); [|discriminate].
    destruct (negb _); [|discriminate]. destruct (_ <=? _); [|discriminate]. intros [= <- <-]. auto.
  - unfold bind, guard. destruct (nonpayable _); [|discriminate].
    destruct (caller =? tm_admin st); [|discriminate].
    destruct (now <? tm_start st); [|discriminate]. destruct (now <=? t); [|discriminate].
    destruct (_ <=? t); [|discriminate]. intros [= <- <-]. auto.
  - unfold bind, guard. destruct (nonpayable _); [|discriminate].
    destruct (caller =? tm_admin st); [|discriminate].
    destruct (negb _ && _); [|discriminate]. destruct (dynamic_limit_ok _ _ _); [|discriminate].
    intros [= <- <-]. auto.
Qed.

(* ---------- the accounting invariant over all histories ---------- *)
Definition Inv (req0 : list (N * N)) (sg : tm_state * ghost) : Prop :=
  tm_req (fst sg) = req0 /\
  (forall r c a, req_amount c req0 = Some a ->
     ledger (fst sg) r c <= a /\ dmints (snd sg) r * a + ledger (fst sg) r c = cred (snd sg) r c) /\
  (forall r c, req_amount c req0 = None -> ledger (fst sg) r c = 0 /\ cred (snd sg) r c = 0).

Lemma ghost_burn_only r caller tok g :
  ghost_msgs r [TBurn caller tok] g =
  mkGhost (al_set pkey_eqb (r, caller) (cred g r caller + 1) (g_cred g)) (g_dm g).
Proof. reflexivity. Qed.
Lemma ghost_mint_burn r caller tok pick g :
  ghost_msgs r [TMint r pick; TBurn caller tok] g =
  mkGhost (al_set pkey_eqb (r, caller) (cred g r caller + 1) (g_cred g))
          (al_set N.eqb r (dmints g r + 1) (g_dm g)).
Proof. reflexivity. Qed.

Lemma inv_receive req0 now caller cws recip tok pick st g st' ms :
  Inv req0 (st, g) ->
  receive now caller cws recip tok pick st = Ok (st', ms) ->
  Inv req0 (st', ghost_msgs (recipient_of cws recip) ms g).
Proof.
  intros (Hreq & Hin & Hout) H. cbn [fst snd] in *.
  set (r := recipient_of cws recip) in *.
  pose proof H as H0. apply receive_inv in H0. cbv zeta in H0. fold r in H0.
  destruct H0 as (_ & _ & _ & amt & Hamt & Hlt & Hcase). rewrite Hreq in Hamt.
  destruct Hcase as [(Hm & -> & ->) | (Hm & st2 & Ht & -> & ->)].
  - (* no mint *)
    rewrite ghost_burn_only. unfold Inv. cbn [fst snd]. split; [exact Hreq|]. split.
    + intros r' c a Hca. unfold ledger, cred, dmints. cbn [tm_ledger set_ledger g_cred g_dm].
      destruct (pkey_eqb (r', c) (r, caller)) eqn:E.
      * apply pkey_eqb_spec in E. injection E as -> ->.
        rewrite led1_same, pget_set_same. rewrite Hamt in Hca. injection Hca as <-.
        destruct (Hin r caller amt Hamt) as [Hle Hid]. unfold cred, dmints in *. split; lia.
      * assert (Hn : (r', c) <> (r, caller)) by (intros E'; rewrite E' in E; rewrite (proj2 (pkey_eqb_spec _ _) eq_refl) in E; discriminate).
        rewrite led1_other by exact Hn. rewrite pget_set_other by exact Hn.
        apply (Hin r' c a Hca).
    + intros r' c Hnone. unfold ledger, cred. cbn [tm_ledger set_ledger g_cred].
      assert (Hn : (r', c) <> (r, caller)) by (intros [= _ E]; subst c; rewrite Hamt in Hnone; discriminate).
      rewrite led1_other by exact Hn. rewrite pget_set_other by exact Hn. apply (Hout r' c Hnone).
  - (* mint *)
    rewrite ghost_mint_burn. apply take_token_inv in Ht. destruct Ht as (_ & _ & ->).
    unfold Inv. cbn [fst snd tm_req set_ledger set_counts set_supply tm_ledger].
    split; [exact Hreq|]. split.
    + intros r' c a Hca. unfold ledger, cred, dmints.
      cbn [tm_ledger set_ledger set_counts set_supply g_cred g_dm].
      destruct (N.eq_dec r' r) as [->|Hr].
      * (* the recipient: every required entry is reset, one more mint *)
        rewrite get_clear_in by (rewrite Hreq; apply in_map_iff; exists (c, a); split; [reflexivity|apply req_amount_in; exact Hca]).
        rewrite nget_set_same.
        assert (Hge : a <= al_get pkey_eqb (r, c) (led1 st r caller)).
        { apply (proj1 (all_met_iff _ _ _) Hm). rewrite Hreq. apply req_amount_in. exact Hca. }
        destruct (Hin r c a Hca) as [Hle Hid]. unfold cred, dmints, ledger in *.
        rewrite led1_val in Hge.
        destruct (c =? caller) eqn:Ec.
        -- apply N.eqb_eq in Ec. subst c. rewrite pget_set_same.
           rewrite Hamt in Hca. injection Hca as <-. unfold ledger in *. split; [lia|]. rewrite N.mul_add_distr_r, N.mul_1_l. lia.
        -- apply N.eqb_neq in Ec. rewrite pget_set_other by congruence.
           unfold ledger in *. split; [lia|]. rewrite N.mul_add_distr_r, N.mul_1_l. lia.
      * rewrite get_clear_other by exact Hr.
        rewrite led1_other by congruence.
        rewrite pget_set_other by congruence.
        rewrite nget_set_other by exact Hr. apply (Hin r' c a Hca).
    + intros r' c Hnone. unfold ledger, cred. cbn [tm_ledger set_ledger set_counts set_supply g_cred].
      assert (Hc : c <> caller) by (intros ->; rewrite Hamt in Hnone; discriminate).
      rewrite pget_set_other by congruence.
      destruct (Hout r' c Hnone) as [Hl Hcr]. split; [|exact Hcr].
      destruct (N.eq_dec r' r) as [->|Hr].
      * destruct (get_clear_cases r c (tm_req st) (led1 st r caller)) as [E|E]; [exact E|].
        rewrite E. rewrite led1_other by congruence. exact Hl.
      * rewrite get_clear_other by exact Hr. rewrite led1_other by congruence. exact Hl.
Qed.

Lemma inv_gstep minter req0 sg e : Inv req0 sg -> Inv req0 (gstep minter sg e).
Proof.
  destruct sg as [st g], e as [now op]. intros HI. unfold gstep.
  destruct (step minter now op st) as [[st' ms]|] eqn:E; [|exact HI].
  destruct op; try (
    apply step_other_frame in E; [|intros; discriminate]; destruct E as [El Er];
    destruct HI as (Hreq & Hin & Hout); unfold Inv, ledger in *; cbn [fst snd] in *;
    rewrite El, Er; auto).
  cbn [step] in E. eapply inv_receive; eassumption.
Qed.

Lemma inv_grun minter req0 h sg : Inv req0 sg -> Inv req0 (grun minter h sg).
Proof.
  unfold grun. revert sg. induction h as [|e t IH]; intros sg HI; cbn [fold_left]; auto.
  apply IH. apply inv_gstep. exact HI.
Qed.

Lemma inv_init st0 : tm_ledger st0 = [] -> Inv (tm_req st0) (st0, ghost0).
Proof.
  intros Hl. unfold Inv, ledger, cred, dmints. cbn [fst snd ghost0 g_cred g_dm]. rewrite Hl.
  cbn [al_get]. repeat split; auto; lia.
Qed.

Theorem accounting_invariant minter st0 h :
  tm_ledger st0 = [] ->
  let st := fst (grun minter h (st0, ghost0)) in
  let g := snd (grun minter h (st0, ghost0)) in
  tm_req st = tm_req st0 /\
  (forall r c a, req_amount c (tm_req st0) = Some a ->
     ledger st r c <= a /\ dmints g r * a + ledger st r c = cred g r c) /\
  (forall r c, req_amount c (tm_req st0) = None -> ledger st r c = 0 /\ cred g r c = 0).
Proof.
  intros Hl. cbv zeta. pose proof (inv_grun minter _ h _ (inv_init st0 Hl)) as (H1 & H2 & H3).
  auto.
Qed.

Corollary accounting_invariant_nodup minter st0 h :
  tm_ledger st0 = [] -> NoDup (map fst (tm_req st0)) ->
  let st := fst (grun minter h (st0, ghost0)) in
  let g := snd (grun minter h (st0, ghost0)) in
  (forall r c a, In (c, a) (tm_req st0) ->
     ledger st r c <= a /\ dmints g r * a + ledger st r c = cred g r c) /\
  (forall r c, ~ In c (map fst (tm_req st0)) -> ledger st r c = 0 /\ cred g r c = 0).
Proof.
  intros Hl Hnd. cbv zeta. destruct (accounting_invariant minter st0 h Hl) as (_ & H2 & H3). split.
  - intros r c a Hin. apply H2. apply req_amount_nodup; assumption.
  - intros r c Hn. apply H3. apply not_in_req_none. exact Hn.
Qed.

(* ---------- world ---------- *)
Lemma wstep_rejected_unchanged now op w w' : wstep now op w = (w', false) -> w' = w.
Proof.
  unfold wstep. destruct op as [coll caller tok wf recip pick | caller cws tok recip pick | o].
  - destruct (_ && _ && _); [|intros [= <-]; reflexivity].
    destruct (receive _ _ _ _ _ _ _) as [[m' ms]|]; [|intros [= <-]; reflexivity].
    destruct (exec_msgs _ _ _ _) as [[s1 t1]|]; [discriminate|intros [= <-]; reflexivity].
  - destruct (receive _ _ _ _ _ _ _) as [[m' ms]|]; [|intros [= <-]; reflexivity].
    destruct (exec_msgs _ _ _ _) as [[s1 t1]|]; [discriminate|intros [= <-]; reflexivity].
  - destruct o; try (intros [= <-]; reflexivity);
      (destruct (step _ _ _ _) as [[m' ms]|]; [|intros [= <-]; reflexivity];
       destruct (exec_msgs _ _ _ _) as [[s1 t1]|]; [discriminate|intros [= <-]; reflexivity]).
Qed.

Lemma wsend_ok now coll caller tok wf recip pick w w' :
  wstep now (WSend coll caller tok wf recip pick) w = (w', true) ->
  let r := recipient_of caller recip in
  caller <> 0 /\ src_owner w coll tok = caller /\ src_owner w' coll tok = 0 /\
  (forall c t, (c, t) <> (coll, tok) -> src_owner w' c t = src_owner w c t) /\
  exists ms, receive now coll caller recip tok pick (w_m w) = Ok (w_m w', ms) /\
    ((ms = [TBurn coll tok] /\ forall t, tgt_owner w' t = tgt_owner w t) \/
     (ms = [TMint r pick; TBurn coll tok] /\ tgt_owner w pick = 0 /\ tgt_owner w' pick = r /\
      forall t, t <> pick -> tgt_owner w' t = tgt_owner w t)).
Proof.
  intros H r. unfold wstep in H.
  destruct (negb (caller =? 0) && (src_owner w coll tok =? caller) && wf) eqn:G; [|discriminate].
  apply andb_true_iff in G. destruct G as [G _]. apply andb_true_iff in G. destruct G as [G1 G2].
  apply negb_true_iff, N.eqb_neq in G1. apply N.eqb_eq in G2.
  destruct (receive now coll caller recip tok pick (w_m w)) as [[m' ms]|] eqn:R; [|discriminate].
  pose proof R as R0. apply receive_inv in R0. cbv zeta in R0. fold r in R0.
  destruct R0 as (_ & Hr0 & _ & amt & _ & _ & Hcase).
  remember (al_set pkey_eqb (coll, tok) (w_minter w) (w_src w)) as src1 eqn:Hs1.
  assert (Hburn : forall tgt, exec_msgs (w_minter w) [TBurn coll tok] src1 tgt =
                    if negb (w_minter w =? 0) then Some (al_remove pkey_eqb (coll, tok) src1, tgt) else None).
  { intros tgt. cbn [exec_msgs]. rewrite Hs1 at 1. rewrite pget_set_same. rewrite N.eqb_refl, andb_true_r. reflexivity. }
  destruct Hcase as [(_ & _ & ->) | (_ & st2 & _ & _ & ->)].
  - rewrite Hburn in H. destruct (negb (w_minter w =? 0)); [|discriminate].
    injection H as <-. unfold src_owner, tgt_owner. cbn [w_src w_tgt w_m].
    split; [exact G1|]. split; [exact G2|]. split; [apply pget_remove_same|]. split.
    + intros c t Hn. rewrite pget_remove_other by exact Hn. rewrite Hs1. apply pget_set_other. exact Hn.
    + exists [TBurn coll tok]. split; [reflexivity|]. left. auto.
  - cbn [exec_msgs] in H. fold (exec_msgs (w_minter w) [TBurn coll tok]) in H.
    destruct ((al_get N.eqb pick (w_tgt w) =? 0) && addr_ok r) eqn:Gm; [|discriminate].
    apply andb_true_iff in Gm. destruct Gm as [Gm _]. apply N.eqb_eq in Gm.
    change (match exec_msgs (w_minter w) [TBurn coll tok] src1 (al_set N.eqb pick r (w_tgt w)) with
            | Some (src2, tgt2) => (mkWorld m' (w_minter w) src2 tgt2, true) | None => (w, false) end = (w', true)) in H.
    rewrite Hburn in H. destruct (negb (w_minter w =? 0)); [|discriminate].
    injection H as <-. unfold src_owner, tgt_owner. cbn [w_src w_tgt w_m].
    split; [exact G1|]. split; [exact G2|]. split; [apply pget_remove_same|]. split.
    + intros c t Hn. rewrite pget_remove_other by exact Hn. rewrite Hs1. apply pget_set_other. exact Hn.
    + exists [TMint r pick; TBurn coll tok]. split; [reflexivity|]. right.
      split; [reflexivity|]. split; [exact Gm|]. split; [apply nget_set_same|].
      intros t Hn. apply nget_set_other. exact Hn.
Qed.

Lemma wdirect_user_rejected now caller cws tok recip pick w :
  ~ In caller (map fst (tm_req (w_m w))) ->
  wstep now (WDirect caller cws tok recip pick) w = (w, false).
Proof.
  intros Hn. unfold wstep. rewrite direct_call_rejected; [reflexivity|]. apply not_in_req_none. exact Hn.
Qed.
