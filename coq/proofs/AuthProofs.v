(* C05 — authorization.  Part 1: the six vending minters, over the full handler model
   (MinterVending.step).  Part 2: every other contract, over the authorization models of
   model/Auth.v. *)
From LP Require Import Num Pay Sg1 MinterVending MinterVendingProofs Auth.
From Coq Require Import ZArith Lia.
Local Open Scope N_scope.

Lemma neq_eqb (a b : N) : a <> b -> (a =? b) = false.
Proof. intros H. apply N.eqb_neq. exact H. Qed.

(* ====================================================================== *)
(* Part 1 — vending minters, full handler model                            *)
(* ====================================================================== *)

Lemma not_admin_sender s e : e_sender e <> s_admin s -> is_admin_sender s e = false.
Proof. intros H. unfold is_admin_sender. apply neq_eqb. exact H. Qed.

Ltac nonadmin H :=
  cbn [step];
  rewrite ?(not_admin_sender _ _ H);
  repeat match goal with
         | |- context [bind (nonpayable ?f) _] => destruct (nonpayable f); cbn [bind]
         | |- context [negb ?b] => is_var b; destruct b; cbn [negb]
         end;
  cbn [negb]; try reflexivity.

Theorem vending_nonadmin_rejected vr s e fp wv :
  e_sender e <> s_admin s ->
  (forall rok r choice, step vr s e fp wv (OMintTo rok r choice) = Err) /\
  (forall t rok r, step vr s e fp wv (OMintFor t rok r) = Err) /\
  step vr s e fp wv OBurnRemaining = Err /\
  (forall p, step vr s e fp wv (OUpdateMintPrice p) = Err) /\
  (forall t, step vr s e fp wv (OUpdateStartTime t) = Err) /\
  (forall t, step vr s e fp wv (OUpdateStartTradingTime t) = Err) /\
  (forall l, step vr s e fp wv (OUpdatePerAddressLimit l) = Err) /\
  (forall wok w nv, step vr s e fp wv (OSetWhitelist wok w nv) = Err) /\
  (forall p, step vr s e fp wv (OUpdateDiscountPrice p) = Err) /\
  step vr s e fp wv ORemoveDiscountPrice = Err.
Proof.
  intros H. repeat split; intros; nonadmin H.
Qed.

(* the handlers guarded by the admin comparison, as a decision on the message *)
Definition admin_op (o : vop) : bool :=
  match o with
  | OMintTo _ _ _ | OMintFor _ _ _ | OBurnRemaining | OUpdateMintPrice _ | OUpdateStartTime _
  | OUpdateStartTradingTime _ | OUpdatePerAddressLimit _ | OSetWhitelist _ _ _
  | OUpdateDiscountPrice _ | ORemoveDiscountPrice => true
  | OMint _ _ _ _ | OPurge | OShuffle _ => false
  end.

Lemma vending_admin_op_rejected vr s e fp wv o :
  admin_op o = true -> e_sender e <> s_admin s -> step vr s e fp wv o = Err.
Proof.
  intros Ho H. destruct (vending_nonadmin_rejected vr s e fp wv H) as (A & B & C & D & E & F & G & I & J & K).
  destruct o; try discriminate Ho; auto.
Qed.

(* the admin is written once (instantiation) and no handler touches it *)
Lemma mint_core_admin vr s e fp wv adm rcp tok choice isp s' ms :
  execute_mint_core vr s e fp wv adm rcp tok choice isp = Ok (s', ms) -> s_admin s' = s_admin s.
Proof.
  unfold execute_mint_core. intros H.
  destruct (s_mintable s =? 0); [ discriminate | ].
  bind_in H u1 Hg.
  bind_in H pr Hpr. destruct pr as [amount dn].
  bind_in H payment Hpay.
  destruct (negb (payment =? amount)); [ discriminate | ].
  match type of H with (if ?c then _ else _) = _ => destruct c; [ discriminate | ] end.
  bind_in H fmsgs Hfm.
  bind_in H tid Htid.
  bind_in H pos Hpos.
  bind_in H s1 Hs1.
  bind_in H smsgs Hsm. inv H.
  destruct isp.
  - inv Hs1. reflexivity.
  - destruct wv as [v|]; [ | discriminate ].
    bind_in Hs1 c3 Hc3. destruct c3 as [[cnt tiered] stage].
    destruct tiered.
    + destruct stage as [st|]; [ | discriminate ].
      destruct st as [|st]; [ discriminate | ].
      destruct st as [st|st|]; try (destruct st; try discriminate); inv Hs1; reflexivity.
    + inv Hs1. reflexivity.
Qed.

Theorem vending_admin_constant vr s e fp wv o s' ms :
  step vr s e fp wv o = Ok (s', ms) -> s_admin s' = s_admin s.
Proof.
  intros H. destruct o; cbn [step] in H.
  - repeat step_hyp H. all: eapply mint_core_admin; eauto.
  - repeat step_hyp H. eapply mint_core_admin; eauto.
  - repeat step_hyp H. eapply mint_core_admin; eauto.
  - repeat step_hyp H. inv H. reflexivity.
  - repeat step_hyp H. inv H. reflexivity.
  - repeat step_hyp H. inv H. reflexivity.
  - repeat step_hyp H. inv H. reflexivity.
  - repeat step_hyp H. inv H. reflexivity.
  - repeat step_hyp H; inv H; reflexivity.
  - repeat step_hyp H. inv H. reflexivity.
  - repeat step_hyp H. inv H. reflexivity.
  - repeat step_hyp H. inv H. reflexivity.
  - repeat step_hyp H. inv H. reflexivity.
Qed.

Lemma apply_call_admin vr s c : s_admin (apply_call vr s c) = s_admin s.
Proof.
  unfold apply_call.
  destruct (step vr s (c_env c) (c_fp c) (c_wv c) (c_op c)) as [[s' ms]|] eqn:E; [ | reflexivity ].
  eapply vending_admin_constant; eauto.
Qed.

Theorem vending_admin_constant_run vr cs : forall s, s_admin (run vr s cs) = s_admin s.
Proof.
  induction cs as [|c cs IH]; intros s; cbn [run fold_left]; [ reflexivity | ].
  change (s_admin (run vr (apply_call vr s c) cs) = s_admin s).
  rewrite IH. apply apply_call_admin.
Qed.

(* after any history whatsoever, a reserved call by anyone but the admin the minter was
   created with is refused and leaves the state as it is *)
Theorem vending_nonadmin_rejected_after_history vr s cs c :
  admin_op (c_op c) = true -> e_sender (c_env c) <> s_admin s ->
  step vr (run vr s cs) (c_env c) (c_fp c) (c_wv c) (c_op c) = Err /\
  apply_call vr (run vr s cs) c = run vr s cs.
Proof.
  intros Ho H.
  assert (E : step vr (run vr s cs) (c_env c) (c_fp c) (c_wv c) (c_op c) = Err).
  { apply vending_admin_op_rejected; [ exact Ho | ]. rewrite vending_admin_constant_run. exact H. }
  split; [ exact E | ]. unfold apply_call. rewrite E. reflexivity.
Qed.

(* ====================================================================== *)
(* Part 2 — authorization models                                           *)
(* ====================================================================== *)

(* ---------------------------------------------------------------- cw-ownable *)
Lemma opt_is_spec o a : opt_is o a = true <-> o = Some a.
Proof.
  destruct o as [x|]; cbn [opt_is]; [ | split; discriminate ].
  rewrite N.eqb_eq. split; [ intros; subst; reflexivity | intros H; inversion H; reflexivity ].
Qed.

Lemma assert_owner_spec o a : assert_owner o a = Ok tt <-> ow_owner o = Some a.
Proof.
  unfold assert_owner, is_owner. rewrite <- opt_is_spec.
  destruct (opt_is (ow_owner o) a); cbn [guard]; split; congruence.
Qed.

Lemma assert_owner_err o a : ow_owner o <> Some a -> assert_owner o a = Err.
Proof.
  intros H. destruct (assert_owner o a) as [[]|] eqn:E; [ | reflexivity ].
  apply assert_owner_spec in E. contradiction.
Qed.

Theorem ownership_action_auth o env sender a o' :
  update_ownership o env sender a = Ok o' ->
  match a with
  | TransferOwnership n e => ow_owner o = Some sender /\ o' = mkOwn (Some sender) (Some n) e
  | AcceptOwnership =>
      ow_pending o = Some sender /\ o' = mkOwn (Some sender) None None /\
      (forall e, ow_expiry o = Some e -> expired e env = false)
  | RenounceOwnership => ow_owner o = Some sender /\ o' = mkOwn None None None
  end.
Proof.
  destruct a as [n e| |]; cbn [update_ownership]; intros H.
  - destruct (ow_owner o) as [cur|]; [ | discriminate ].
    destruct (sender =? cur) eqn:E; [ | discriminate ]. apply N.eqb_eq in E. subst. inv H. auto.
  - destruct (ow_pending o) as [p|]; [ | discriminate ].
    destruct (sender =? p) eqn:E; cbn [negb] in H; [ | discriminate ]. apply N.eqb_eq in E. subst p.
    destruct (ow_expiry o) as [e|].
    + destruct (expired e env) eqn:X; [ discriminate | ]. inv H.
      repeat split. intros e' He. inv He. exact X.
    + inv H. repeat split. intros e' He. discriminate.
  - destruct (ow_owner o) as [cur|]; [ | discriminate ].
    destruct (sender =? cur) eqn:E; [ | discriminate ]. apply N.eqb_eq in E. subst. inv H. auto.
Qed.

(* hand-over: after transfer + accept the new owner is the owner and the old one is refused *)
Theorem ownership_handover o env env' a b e :
  ow_owner o = Some a ->
  (forall x, e = Some x -> expired x env' = false) ->
  exists o1 o2,
    update_ownership o env a (TransferOwnership b e) = Ok o1 /\
    ow_owner o1 = Some a /\
    update_ownership o1 env' b AcceptOwnership = Ok o2 /\
    ow_owner o2 = Some b /\
    (a <> b -> assert_owner o2 a = Err) /\
    assert_owner o2 b = Ok tt.
Proof.
  intros Ho Hx. exists (mkOwn (Some a) (Some b) e), (mkOwn (Some b) None None).
  cbn [update_ownership]. rewrite Ho, N.eqb_refl. cbn [ow_owner ow_pending ow_expiry].
  rewrite N.eqb_refl. cbn [negb].
  assert (X : (match e with Some e0 => expired e0 env' | None => false end) = false).
  { destruct e as [x|]; [ apply Hx; reflexivity | reflexivity ]. }
  rewrite X. repeat split.
  - intros Hab. apply assert_owner_err. cbn. congruence.
  - apply assert_owner_spec. reflexivity.
Qed.

(* a lapsed offer cannot be accepted by anyone *)
Theorem ownership_expired_offer o env sender e :
  ow_expiry o = Some e -> expired e env = true -> update_ownership o env sender AcceptOwnership = Err.
Proof.
  intros He Hx. cbn [update_ownership]. destruct (ow_pending o); [ | reflexivity ].
  destruct (negb (sender =? a)); [ reflexivity | ]. rewrite He, Hx. reflexivity.
Qed.

(* once renounced (and nothing pending) every ownership action fails for everyone *)
Theorem ownership_renounced_forever o env sender a :
  ow_owner o = None -> ow_pending o = None -> update_ownership o env sender a = Err.
Proof. intros H1 H2. destruct a; cbn [update_ownership]; rewrite ?H1, ?H2; reflexivity. Qed.

(* ---------------------------------------------------------------- collections *)
Ltac coll_has_or_err k m :=
  unfold coll_step; destruct (coll_has k m); cbn [negb]; [ | reflexivity ].

Theorem coll_minter_only k s env sender :
  coll_minter s <> Some sender ->
  (forall id o, coll_step k s env sender (CMint id o) = Err) /\
  coll_step k s env sender CUpdateStartTradingTime = Err /\
  (forall n e, coll_step k s env sender (CUpdateOwnership (TransferOwnership n e)) = Err) /\
  coll_step k s env sender (CUpdateOwnership RenounceOwnership) = Err.
Proof.
  unfold coll_minter. intros H. pose proof (assert_owner_err _ _ H) as A.
  repeat split; intros.
  - coll_has_or_err k (CMint id o). rewrite A. reflexivity.
  - coll_has_or_err k CUpdateStartTradingTime. rewrite A. reflexivity.
  - coll_has_or_err k (CUpdateOwnership (TransferOwnership n e)). cbn [update_ownership].
    destruct (ow_owner (c_own s)) as [cur|]; [ | reflexivity ].
    destruct (sender =? cur) eqn:E; [ | reflexivity ]. apply N.eqb_eq in E. subst. contradiction H. reflexivity.
  - coll_has_or_err k (CUpdateOwnership RenounceOwnership). cbn [update_ownership].
    destruct (ow_owner (c_own s)) as [cur|]; [ | reflexivity ].
    destruct (sender =? cur) eqn:E; [ | reflexivity ]. apply N.eqb_eq in E. subst. contradiction H. reflexivity.
Qed.

Theorem coll_accept_only_pending k s env sender :
  ow_pending (c_own s) <> Some sender -> coll_step k s env sender (CUpdateOwnership AcceptOwnership) = Err.
Proof.
  intros H. coll_has_or_err k (CUpdateOwnership AcceptOwnership). cbn [update_ownership].
  destruct (ow_pending (c_own s)) as [p|]; [ | reflexivity ].
  destruct (sender =? p) eqn:E; [ | reflexivity ]. apply N.eqb_eq in E. subst. contradiction H. reflexivity.
Qed.

Theorem coll_creator_only k s env sender :
  sender <> c_creator s ->
  (forall nc, coll_step k s env sender (CUpdateCollectionInfo nc) = Err) /\
  coll_step k s env sender CFreezeCollectionInfo = Err /\
  coll_step k s env sender CFreezeTokenMetadata = Err /\
  (forall id, coll_step k s env sender (CUpdateTokenMetadata id) = Err) /\
  coll_step k s env sender CEnableUpdatable = Err.
Proof.
  intros H. pose proof (neq_eqb _ _ H) as E.
  assert (E' : (c_creator s =? sender) = false) by (rewrite N.eqb_sym; exact E).
  repeat split; intros.
  - coll_has_or_err k (CUpdateCollectionInfo nc). destruct (c_frozen s); [ reflexivity | ]. rewrite E'. reflexivity.
  - coll_has_or_err k CFreezeCollectionInfo. rewrite E'. reflexivity.
  - coll_has_or_err k CFreezeTokenMetadata. rewrite E. reflexivity.
  - coll_has_or_err k (CUpdateTokenMetadata id). rewrite E. reflexivity.
  - coll_has_or_err k CEnableUpdatable. destruct (c_enabled s); [ reflexivity | ]. rewrite E. reflexivity.
Qed.

(* frozen collection info: no update for anyone, and nothing unfreezes *)
Theorem coll_frozen_rejects k s env sender nc :
  c_frozen s = true -> coll_step k s env sender (CUpdateCollectionInfo nc) = Err.
Proof. intros H. coll_has_or_err k (CUpdateCollectionInfo nc). rewrite H. reflexivity. Qed.

Theorem coll_meta_frozen_rejects k s env sender id :
  c_meta_frozen s = true -> coll_step k s env sender (CUpdateTokenMetadata id) = Err.
Proof.
  intros H. coll_has_or_err k (CUpdateTokenMetadata id).
  destruct (negb (sender =? c_creator s)); [ reflexivity | ]. rewrite H. reflexivity.
Qed.

Lemma transfer_frame s sender id to s' :
  transfer s sender id to = Ok s' ->
  c_own s' = c_own s /\ c_creator s' = c_creator s /\ c_frozen s' = c_frozen s /\
  c_meta_frozen s' = c_meta_frozen s /\ c_enabled s' = c_enabled s /\ c_operators s' = c_operators s /\
  exists t, find_token (c_tokens s) id = Some t /\ can_send s t sender = true.
Proof.
  unfold transfer. destruct (find_token (c_tokens s) id) as [t|] eqn:F; [ | discriminate ].
  destruct (can_send s t sender) eqn:C; [ | discriminate ]. intros H. inv H. cbn. repeat split; eauto.
Qed.

(* what a successful step may change, message by message *)
Theorem coll_step_frame k s env sender m s' :
  coll_step k s env sender m = Ok s' ->
  (* the minter role moves only through UpdateOwnership *)
  (c_own s' <> c_own s -> exists a, m = CUpdateOwnership a) /\
  (* the creator moves only through the creator's own UpdateCollectionInfo{creator} *)
  (c_creator s' <> c_creator s ->
     sender = c_creator s /\ c_frozen s = false /\ m = CUpdateCollectionInfo (Some (c_creator s'))) /\
  (* the three flags are monotone *)
  (c_frozen s = true -> c_frozen s' = true) /\
  (c_meta_frozen s = true -> c_meta_frozen s' = true) /\
  (c_enabled s = true -> c_enabled s' = true).
Proof.
  unfold coll_step. destruct (coll_has k m); cbn [negb]; [ | discriminate ].
  destruct m; intros H.
  - apply transfer_frame in H. destruct H as (A & B & C & D & E & _). rewrite A, B, C, D, E. repeat split; intros; congruence.
  - apply transfer_frame in H. destruct H as (A & B & C & D & E & _). rewrite A, B, C, D, E. repeat split; intros; congruence.
  - repeat step_hyp H. inv H. cbn. repeat split; intros; congruence.
  - repeat step_hyp H. inv H. cbn. repeat split; intros; congruence.
  - inv H. cbn. repeat split; intros; congruence.
  - inv H. cbn. repeat split; intros; congruence.
  - repeat step_hyp H. inv H. cbn. repeat split; intros; congruence.
  - repeat step_hyp H. inv H. cbn. repeat split; intros; congruence.
  - discriminate.
  - repeat step_hyp H. inv H. cbn. apply negb_false_iff in E0. apply N.eqb_eq in E0.
    repeat split; intros; try congruence.
    destruct new_creator as [c|]; [ f_equal | congruence ].
  - repeat step_hyp H. inv H. repeat split; intros; congruence.
  - repeat step_hyp H. inv H. cbn. repeat split; intros; congruence.
  - repeat step_hyp H. inv H. cbn. repeat split; intros; try congruence. eauto.
  - repeat step_hyp H. inv H. cbn. repeat split; intros; congruence.
  - repeat step_hyp H. inv H. repeat split; intros; congruence.
  - repeat step_hyp H. inv H. cbn. repeat split; intros; congruence.
Qed.

(* creator hand-over: the new creator is the creator, the old one is refused *)
Theorem coll_creator_handover k s env c :
  c_frozen s = false -> coll_has k (CUpdateCollectionInfo (Some c)) = true ->
  exists s', coll_step k s env (c_creator s) (CUpdateCollectionInfo (Some c)) = Ok s' /\ c_creator s' = c /\
             (c <> c_creator s -> forall env' nc,
                coll_step k s' env' (c_creator s) (CUpdateCollectionInfo nc) = Err /\
                coll_step k s' env' (c_creator s) CFreezeCollectionInfo = Err).
Proof.
  intros Hf Hh. unfold coll_step at 1. rewrite Hh. cbn [negb]. rewrite Hf, N.eqb_refl. cbn [negb].
  eexists. split; [ reflexivity | ]. split; [ reflexivity | ].
  intros Hc env' nc.
  match goal with |- coll_step k ?s' _ _ _ = _ /\ _ => assert (Hn : c_creator s <> c_creator s') by (cbn; congruence) end.
  match goal with |- coll_step k ?s' _ _ _ = _ /\ _ => destruct (coll_creator_only k s' env' (c_creator s) Hn) as (A & B & _) end.
  split; [ apply A | exact B ].
Qed.

(* tokens move, burn and get approvals only for who holds them *)
Theorem coll_token_ops k s env sender id :
  (forall t, find_token (c_tokens s) id = Some t -> can_send s t sender = false) ->
  (forall to, coll_step k s env sender (CTransferNft id to) = Err) /\
  (forall to, coll_step k s env sender (CSendNft id to) = Err) /\
  coll_step k s env sender (CBurn id) = Err.
Proof.
  intros H. repeat split; intros.
  - coll_has_or_err k (CTransferNft id to). unfold transfer.
    destruct (find_token (c_tokens s) id) as [t|] eqn:F; [ | reflexivity ]. rewrite (H t eq_refl). reflexivity.
  - coll_has_or_err k (CSendNft id to). unfold transfer.
    destruct (find_token (c_tokens s) id) as [t|] eqn:F; [ | reflexivity ]. rewrite (H t eq_refl). reflexivity.
  - coll_has_or_err k (CBurn id).
    destruct (find_token (c_tokens s) id) as [t|] eqn:F; [ | reflexivity ]. rewrite (H t eq_refl). reflexivity.
Qed.

Theorem coll_approval_ops k s env sender id sp :
  (forall t, find_token (c_tokens s) id = Some t -> can_approve s t sender = false) ->
  coll_step k s env sender (CApprove id sp) = Err /\ coll_step k s env sender (CRevoke id sp) = Err.
Proof.
  intros H. split.
  - coll_has_or_err k (CApprove id sp).
    destruct (find_token (c_tokens s) id) as [t|] eqn:F; [ | reflexivity ]. rewrite (H t eq_refl). reflexivity.
  - coll_has_or_err k (CRevoke id sp).
    destruct (find_token (c_tokens s) id) as [t|] eqn:F; [ | reflexivity ]. rewrite (H t eq_refl). reflexivity.
Qed.

(* sg721-nt has no transfer, send, approval, ownership or trading-time message at all *)
Theorem nt_reduced_message_set s env sender m :
  coll_step Sg721Nt s env sender m = Err \/
  (exists id o, m = CMint id o) \/ (exists id, m = CBurn id) \/
  (exists nc, m = CUpdateCollectionInfo nc) \/ m = CFreezeCollectionInfo.
Proof.
  destruct m; try (left; reflexivity); right; eauto 6.
Qed.

(* ---------------------------------------------------------------- minters (authorization model) *)
Theorem minter_admin_only f s sender k :
  admin_only f k = true -> sender <> m_admin s -> minter_step f s sender k = Err.
Proof.
  intros Ha H. unfold minter_step. destruct (has_msg f k); cbn [negb]; [ | reflexivity ].
  rewrite Ha, (neq_eqb _ _ H). reflexivity.
Qed.

Theorem base_minter_creator_only s sender k :
  sender <> m_coll_creator s -> minter_step FBase s sender k = Err.
Proof.
  intros H. unfold minter_step. destruct (has_msg FBase k) eqn:Hh; cbn [negb]; [ | reflexivity ].
  destruct k; try discriminate Hh; cbn [admin_only creator_only andb]; rewrite (neq_eqb _ _ H); reflexivity.
Qed.

(* nothing an execute message does moves the admin, the Status or the factory Params *)
Theorem minter_step_frame f s sender k s' : minter_step f s sender k = Ok s' -> s' = s.
Proof.
  unfold minter_step. intros H. repeat step_hyp H. inv H. reflexivity.
Qed.

Fixpoint in_kinds (k : mkind) (l : list mkind) : Prop :=
  match l with [] => False | x :: r => x = k \/ in_kinds k r end.

(* the admin-gated handlers of each family, listed *)
Theorem admin_only_table :
  (forall k, (has_msg FVending k && admin_only FVending k = true) <->
     in_kinds k [KSetWhitelist; KUpdateMintPrice; KUpdateStartTime; KUpdateStartTradingTime; KUpdatePerAddressLimit;
                 KMintTo; KMintFor; KBurnRemaining; KUpdateDiscountPrice; KRemoveDiscountPrice]) /\
  (forall k, (has_msg FOpenEdition k && admin_only FOpenEdition k = true) <->
     in_kinds k [KSetWhitelist; KUpdateMintPrice; KUpdateStartTime; KUpdateEndTime; KUpdateStartTradingTime;
                 KUpdatePerAddressLimit; KMintTo; KBurnRemaining]) /\
  (forall k, (has_msg FTokenMerge k && admin_only FTokenMerge k = true) <->
     in_kinds k [KUpdateStartTime; KUpdateStartTradingTime; KUpdatePerAddressLimit; KMintTo; KMintFor; KBurnRemaining]) /\
  (forall k, (has_msg FBase k && creator_only FBase k = true) <-> in_kinds k [KMint; KUpdateStartTradingTime]).
Proof.
  repeat split; destruct k; cbn; intros H; try discriminate H; try reflexivity; intuition discriminate.
Qed.

(* ---------------------------------------------------------------- whitelists *)
Theorem wl_admin_only w s sender :
  is_admin s sender = false ->
  (forall k, wl_admin_gated k = true -> wl_step w s sender (WOp k) = Err) /\
  (forall l, wl_step w s sender (WUpdateAdmins l) = Err) /\
  wl_step w s sender WFreeze = Err.
Proof.
  intros H. unfold wl_step, can_modify. rewrite H, andb_false_r.
  repeat split; intros; destruct w; try reflexivity;
    try (destruct (wl_has _ k); cbn [negb]; [ rewrite H0; reflexivity | reflexivity ]).
Qed.

Theorem wl_frozen_rejects w s sender :
  w_mutable s = false ->
  (forall l, wl_step w s sender (WUpdateAdmins l) = Err) /\ wl_step w s sender WFreeze = Err.
Proof.
  intros H. unfold wl_step, can_modify. rewrite H. cbn [andb]. split; intros; destruct w; reflexivity.
Qed.

Theorem wl_step_frame w s sender m s' :
  wl_step w s sender m = Ok s' ->
  match m with
  | WOp _ => s' = s
  | WUpdateAdmins l => can_modify s sender = true /\ s' = mkWS l (w_mutable s)
  | WFreeze => can_modify s sender = true /\ s' = mkWS (w_admins s) false
  end.
Proof.
  unfold wl_step. intros H. destruct w; try discriminate H; destruct m;
    repeat step_hyp H; inv H; auto.
Qed.

(* frozen_forever: once mutable = false no operation changes admins or mutable *)
Lemma wl_frozen_step w s sender m s' :
  w_mutable s = false -> wl_step w s sender m = Ok s' -> s' = s.
Proof.
  intros Hm H. pose proof (wl_step_frame _ _ _ _ _ H) as F. destruct m.
  - exact F.
  - destruct F as [C _]. unfold can_modify in C. rewrite Hm in C. discriminate.
  - destruct F as [C _]. unfold can_modify in C. rewrite Hm in C. discriminate.
Qed.

Lemma auth_step_wl k s env sender m st' :
  auth_step (AWl k s) env sender m = Ok st' -> exists w s', m = WM w /\ wl_step k s sender w = Ok s' /\ st' = AWl k s'.
Proof.
  destruct m; cbn [auth_step]; try discriminate. intros H. bind_in H s' Hs. inv H. eauto.
Qed.

Theorem wl_frozen_forever k s cs :
  w_mutable s = false -> run_auth (AWl k s) cs = AWl k s.
Proof.
  intros Hm. induction cs as [|[[env sender] m] cs IH]; cbn [run_auth fold_left]; [ reflexivity | ].
  assert (E : apply_auth (AWl k s) (env, sender, m) = AWl k s).
  { unfold apply_auth. destruct (auth_step (AWl k s) env sender m) as [st'|] eqn:E; [ | reflexivity ].
    apply auth_step_wl in E. destruct E as (w & s' & -> & Hs & ->).
    rewrite (wl_frozen_step _ _ _ _ _ Hm Hs). reflexivity. }
  rewrite E. exact IH.
Qed.

(* ---------------------------------------------------------------- splits *)
Theorem splits_distribute_auth s sender :
  splits_step s sender SDistribute = Ok s <->
  match sp_admin s with Some a => sender = a | None => mem sender (sp_members s) = true end.
Proof.
  cbn [splits_step]. unfold can_distribute. destruct (sp_admin s) as [a|].
  - destruct (a =? sender) eqn:E.
    + apply N.eqb_eq in E. split; auto.
    + apply N.eqb_neq in E. split; [ discriminate | intros; subst; contradiction E; reflexivity ].
  - destruct (mem sender (sp_members s)); split; congruence.
Qed.

Theorem splits_distribute_rejected s sender :
  (forall a, sp_admin s = Some a -> sender <> a -> splits_step s sender SDistribute = Err) /\
  (sp_admin s = None -> mem sender (sp_members s) = false -> splits_step s sender SDistribute = Err).
Proof.
  cbn [splits_step]. unfold can_distribute. split.
  - intros a Ha Hn. rewrite Ha. rewrite N.eqb_sym, (neq_eqb _ _ Hn). reflexivity.
  - intros Ha Hm. rewrite Ha, Hm. reflexivity.
Qed.

Theorem splits_update_admin_auth s sender n :
  sp_admin s <> Some sender -> splits_step s sender (SUpdateAdmin n) = Err.
Proof.
  intros H. cbn [splits_step]. destruct (opt_is (sp_admin s) sender) eqn:E; [ | reflexivity ].
  apply opt_is_spec in E. contradiction.
Qed.

Theorem splits_step_frame s sender m s' :
  splits_step s sender m = Ok s' ->
  sp_members s' = sp_members s /\
  (sp_admin s' <> sp_admin s -> sp_admin s = Some sender /\ exists n, m = SUpdateAdmin n /\ sp_admin s' = n).
Proof.
  destruct m; cbn [splits_step]; intros H; repeat step_hyp H; inv H; cbn.
  - split; [ reflexivity | congruence ].
  - split; [ reflexivity | ]. intros _. apply opt_is_spec in E. eauto.
Qed.

(* ---------------------------------------------------------------- the table as a whole *)
Theorem undecodable_rejected st env sender : auth_step st env sender XUndecodable = Err.
Proof. destruct st; reflexivity. Qed.

Theorem factory_execute_keeps_params p env sender m st' :
  auth_step (AFactory p) env sender m = Ok st' -> st' = AFactory p.
Proof. destruct m; cbn [auth_step]; try discriminate. intros H. inv H. reflexivity. Qed.

Theorem minter_execute_keeps_admin_status_params f s env sender m st' :
  auth_step (AMinter f s) env sender m = Ok st' -> st' = AMinter f s.
Proof.
  destruct m; cbn [auth_step]; try discriminate. intros H. bind_in H s' Hs. inv H.
  rewrite (minter_step_frame _ _ _ _ _ Hs). reflexivity.
Qed.

Theorem airdrop_claim_only_signed_wallet env sender w :
  sender <> w -> auth_step AAirdrop env sender (AClaim w) = Err.
Proof. intros H. cbn [auth_step]. rewrite (neq_eqb _ _ H). reflexivity. Qed.

(* a refused call changes nothing *)
Theorem refused_changes_nothing st env sender m :
  auth_step st env sender m = Err -> apply_auth st (env, sender, m) = st.
Proof. intros H. unfold apply_auth. rewrite H. reflexivity. Qed.

Theorem instantiate_requires_contract_sender t p : ip_sender_is_contract p = false -> inst_allowed t p = false.
Proof. intros H. destruct t; cbn [inst_allowed]; rewrite H; reflexivity. Qed.

Theorem minter_instantiate_requires_factory p : ip_sender_answers_params p = false -> inst_allowed IMinter p = false.
Proof. intros H. cbn [inst_allowed]. rewrite H. apply andb_false_r. Qed.

(* the address named in the message plays no part: same sender, same answer *)
Theorem instantiate_ignores_named_party t sc ap n1 n2 :
  inst_allowed t (mkIP sc ap n1) = inst_allowed t (mkIP sc ap n2).
Proof. destruct t; reflexivity. Qed.

(* in particular a user account naming an existing contract (a live minter, a factory,
   anything) as the minter is refused *)
Theorem user_naming_a_contract_refused t ap : inst_allowed t (mkIP false ap true) = false.
Proof. destruct t; reflexivity. Qed.


Lemma ownership_eq_dec (a b : ownership) : {a = b} + {a <> b}.
Proof. repeat decide equality; apply N.eq_dec. Qed.

(* ---------------------------------------------------------------- histories *)
Lemma run_auth_inv (P : astate -> Prop) :
  (forall st c, P st -> P (apply_auth st c)) -> forall cs st, P st -> P (run_auth st cs).
Proof.
  intros Hstep. induction cs as [|c cs IH]; intros st H; cbn [run_auth fold_left]; [ exact H | ].
  apply IH. apply Hstep. exact H.
Qed.

Lemma auth_step_coll k s env sender m st' :
  auth_step (AColl k s) env sender m = Ok st' ->
  exists c s', m = CM c /\ coll_step k s env sender c = Ok s' /\ st' = AColl k s'.
Proof.
  destruct m; cbn [auth_step]; try discriminate. intros H. bind_in H s' Hs. inv H. eauto.
Qed.

Definition coll_state_sat (P : cstate -> Prop) (st : astate) : Prop :=
  match st with AColl _ s => P s | _ => False end.

Lemma coll_inv_run (P : cstate -> Prop) :
  (forall k s env sender m s', P s -> coll_step k s env sender m = Ok s' -> P s') ->
  forall cs k s, P s -> coll_state_sat P (run_auth (AColl k s) cs).
Proof.
  intros Hstep cs k s H.
  apply (run_auth_inv (coll_state_sat P)); [ | exact H ].
  intros st [[env sender] m] Hst. destruct st as [| k0 s0 | | | |]; try contradiction.
  unfold apply_auth. destruct (auth_step (AColl k0 s0) env sender m) as [st'|] eqn:E; [ | exact Hst ].
  apply auth_step_coll in E. destruct E as (c & s' & -> & Hs & ->). cbn. eapply Hstep; eauto.
Qed.

(* frozen collection info stays frozen through every history, so no later update succeeds *)
Theorem coll_info_frozen_forever cs k s :
  c_frozen s = true -> coll_state_sat (fun s' => c_frozen s' = true) (run_auth (AColl k s) cs).
Proof.
  apply (coll_inv_run (fun s' => c_frozen s' = true)). intros k0 s0 env sender m s' H Hs.
  apply coll_step_frame in Hs. destruct Hs as (_ & _ & F & _). auto.
Qed.

Theorem coll_metadata_frozen_forever cs k s :
  c_meta_frozen s = true -> coll_state_sat (fun s' => c_meta_frozen s' = true) (run_auth (AColl k s) cs).
Proof.
  apply (coll_inv_run (fun s' => c_meta_frozen s' = true)). intros k0 s0 env sender m s' H Hs.
  apply coll_step_frame in Hs. destruct Hs as (_ & _ & _ & F & _). auto.
Qed.

(* a renounced minter role never comes back: no history makes minting possible again *)
Theorem coll_renounced_forever cs k s :
  ow_owner (c_own s) = None -> ow_pending (c_own s) = None ->
  coll_state_sat (fun s' => ow_owner (c_own s') = None /\ ow_pending (c_own s') = None) (run_auth (AColl k s) cs).
Proof.
  intros H1 H2.
  apply (coll_inv_run (fun s' => ow_owner (c_own s') = None /\ ow_pending (c_own s') = None)); [ | split; assumption ].
  intros k0 s0 env sender m s' [A B] Hs.
  destruct (coll_step_frame _ _ _ _ _ _ Hs) as (Fo & _).
  assert (D : c_own s' = c_own s0 \/ c_own s' <> c_own s0).
  { destruct (ownership_eq_dec (c_own s') (c_own s0)); auto. }
  destruct D as [D|D]; [ rewrite D; auto | ].
  destruct (Fo D) as [a ->]. unfold coll_step in Hs.
  destruct (coll_has k0 (CUpdateOwnership a)); cbn [negb] in Hs; [ | discriminate ].
  rewrite (ownership_renounced_forever _ env sender a A B) in Hs. discriminate.
Qed.

(* the creator changes only by the creator's own hand-over, at every point of every
   history: if the creator after a history differs from the one before the last call,
   that call was the then-creator's UpdateCollectionInfo naming the new one *)
Theorem coll_creator_moves_only_by_handover k s env sender m st' :
  auth_step (AColl k s) env sender m = Ok st' ->
  exists s', st' = AColl k s' /\
    (c_creator s' <> c_creator s -> sender = c_creator s /\ m = CM (CUpdateCollectionInfo (Some (c_creator s')))).
Proof.
  intros H. apply auth_step_coll in H. destruct H as (c & s' & -> & Hs & ->).
  exists s'. split; [ reflexivity | ]. intros Hc.
  destruct (coll_step_frame _ _ _ _ _ _ Hs) as (_ & F & _). destruct (F Hc) as (A & _ & B). subst c. auto.
Qed.

(* minters and factories: no history of execute messages moves admin / Status / Params *)
Theorem minter_run_constant f s cs : run_auth (AMinter f s) cs = AMinter f s.
Proof.
  induction cs as [|[[env sender] m] cs IH]; cbn [run_auth fold_left]; [ reflexivity | ].
  assert (E : apply_auth (AMinter f s) (env, sender, m) = AMinter f s).
  { unfold apply_auth. destruct (auth_step (AMinter f s) env sender m) as [st'|] eqn:E; [ | reflexivity ].
    apply minter_execute_keeps_admin_status_params in E. exact E. }
  rewrite E. exact IH.
Qed.

Theorem factory_run_constant p cs : run_auth (AFactory p) cs = AFactory p.
Proof.
  induction cs as [|[[env sender] m] cs IH]; cbn [run_auth fold_left]; [ reflexivity | ].
  assert (E : apply_auth (AFactory p) (env, sender, m) = AFactory p).
  { unfold apply_auth. destruct (auth_step (AFactory p) env sender m) as [st'|] eqn:E; [ | reflexivity ].
    apply factory_execute_keeps_params in E. exact E. }
  rewrite E. exact IH.
Qed.

(* ---------------------------------------------------------------- statement-shaped corollaries *)
Theorem admin_op_kinds o :
  admin_op o = true <->
  match o with
  | OMint _ _ _ _ | OPurge | OShuffle _ => False
  | _ => True
  end.
Proof. destruct o; cbn; intuition discriminate. Qed.

Theorem wl_changes_only_for_admins w s sender :
  mem sender (w_admins s) = false ->
  (forall k, k <> WIncreaseMemberLimit -> wl_step w s sender (WOp k) = Err) /\
  (forall l, wl_step w s sender (WUpdateAdmins l) = Err) /\
  wl_step w s sender WFreeze = Err.
Proof.
  intros H. destruct (wl_admin_only w s sender H) as (A & B & C).
  split; [ | exact (conj B C) ]. intros k Hk. apply A. destruct k; try reflexivity. contradiction Hk. reflexivity.
Qed.

Theorem splits_admin_changes_only_by_admin s sender m s' :
  (forall n, sp_admin s <> Some sender -> splits_step s sender (SUpdateAdmin n) = Err) /\
  (splits_step s sender m = Ok s' ->
   sp_members s' = sp_members s /\
   (sp_admin s' <> sp_admin s -> sp_admin s = Some sender /\ exists n, m = SUpdateAdmin n /\ sp_admin s' = n)).
Proof.
  split; [ intros n H; exact (splits_update_admin_auth s sender n H) | exact (splits_step_frame s sender m s') ].
Qed.

Theorem coll_freezes_forever calls k s :
  (c_frozen s = true ->
     match run_auth (AColl k s) calls with AColl _ s' => c_frozen s' = true | _ => False end) /\
  (c_meta_frozen s = true ->
     match run_auth (AColl k s) calls with AColl _ s' => c_meta_frozen s' = true | _ => False end).
Proof. exact (conj (coll_info_frozen_forever calls k s) (coll_metadata_frozen_forever calls k s)). Qed.

(* ---------------------------------------------------------------- the table, in one statement *)
Lemma minter_table f s sender k :
  holds_role (AMinter f s) sender (minter_reserved f k) = false -> minter_step f s sender k = Err.
Proof.
  unfold minter_reserved, minter_step. destruct (has_msg f k) eqn:Hh; cbn [negb]; [ | reflexivity ].
  destruct f, k; try discriminate Hh; cbn [holds_role admin_only creator_only andb]; intros H;
    try discriminate H; rewrite H; reflexivity.
Qed.

Lemma coll_table k s env sender c :
  holds_role (AColl k s) sender (if coll_has k c then coll_reserved c else RNobody) = false ->
  coll_step k s env sender c = Err.
Proof.
  unfold coll_step. destruct (coll_has k c) eqn:Hh; cbn [negb]; [ | reflexivity ].
  destruct c as [id to|id to|id sp|id sp|op|op|id o|id| |nc| | |a| |id| ]; cbn [coll_reserved holds_role]; intros H; try discriminate H.
  - unfold transfer. destruct (find_token (c_tokens s) id); [ rewrite H | ]; reflexivity.
  - unfold transfer. destruct (find_token (c_tokens s) id); [ rewrite H | ]; reflexivity.
  - destruct (find_token (c_tokens s) id); [ rewrite H | ]; reflexivity.
  - destruct (find_token (c_tokens s) id); [ rewrite H | ]; reflexivity.
  - unfold assert_owner, is_owner. rewrite H. reflexivity.
  - destruct (find_token (c_tokens s) id); [ rewrite H | ]; reflexivity.
  - reflexivity.
  - destruct (c_frozen s); [ reflexivity | ]. rewrite N.eqb_sym, H. reflexivity.
  - unfold assert_owner, is_owner. rewrite H. reflexivity.
  - rewrite N.eqb_sym, H. reflexivity.
  - destruct a as [n e| |]; cbn [coll_reserved holds_role] in H; cbn [update_ownership].
    + destruct (ow_owner (c_own s)) as [cur|]; [ | reflexivity ]. cbn [opt_is] in H.
      rewrite N.eqb_sym, H. reflexivity.
    + destruct (ow_pending (c_own s)) as [p|]; [ | reflexivity ]. cbn [opt_is] in H.
      rewrite N.eqb_sym, H. reflexivity.
    + destruct (ow_owner (c_own s)) as [cur|]; [ | reflexivity ]. cbn [opt_is] in H.
      rewrite N.eqb_sym, H. reflexivity.
  - rewrite H. reflexivity.
  - rewrite H. reflexivity.
  - destruct (c_enabled s); [ reflexivity | ]. rewrite H. reflexivity.
Qed.

Lemma wl_table w s sender x :
  holds_role (AWl w s) sender (wl_reserved w x) = false -> wl_step w s sender x = Err.
Proof.
  destruct w; try reflexivity; cbn [wl_step wl_reserved]; destruct x as [k|l|];
    try (cbn [holds_role]; intros H; rewrite H; reflexivity);
    (match goal with |- context [wl_has ?W k] => destruct (wl_has W k) eqn:Hh end; cbn [negb]; [ | reflexivity ]);
    destruct k; cbn [holds_role wl_admin_gated andb]; intros H; try discriminate H; rewrite H; reflexivity.
Qed.

Lemma splits_table s sender x :
  holds_role (ASplits s) sender (match x with SDistribute => RSplitsDistributor | SUpdateAdmin _ => RSplitsAdmin end) = false ->
  splits_step s sender x = Err.
Proof. destruct x; cbn [holds_role splits_step]; intros H; rewrite H; reflexivity. Qed.

(* every (contract, message, sender) triple: a sender who does not hold the role the
   message is reserved to is refused *)
Theorem table_sound st env sender m :
  holds_role st sender (reserved_to st m) = false -> auth_step st env sender m = Err.
Proof.
  destruct st as [f s|k s|w s|s|p|]; destruct m as [k'|c|x|y| |w'|]; cbn [reserved_to auth_step]; try reflexivity.
  - intros H. rewrite (minter_table _ _ _ _ H). reflexivity.
  - intros H. rewrite (coll_table _ _ env _ _ H). reflexivity.
  - intros H. rewrite (wl_table _ _ _ _ H). reflexivity.
  - intros H. assert (E : splits_step s sender y = Err).
    { apply splits_table. destruct y; exact H. }
    rewrite E. reflexivity.
  - cbn [holds_role]. discriminate.
  - cbn [holds_role]. intros H. rewrite H. reflexivity.
Qed.

(* and in every reachable state: whatever history of calls by anyone came before *)
Theorem table_sound_after_history st cs env sender m :
  holds_role (run_auth st cs) sender (reserved_to (run_auth st cs) m) = false ->
  auth_step (run_auth st cs) env sender m = Err /\ apply_auth (run_auth st cs) (env, sender, m) = run_auth st cs.
Proof.
  intros H. pose proof (table_sound _ env _ _ H) as E. split; [ exact E | ].
  unfold apply_auth. rewrite E. reflexivity.
Qed.

(* ---------------------------------------------------------------- migration *)
Theorem migrate_only_wasm_admin st ex : migrate_step st false ex = Err.
Proof. reflexivity. Qed.

(* without an explicit parameter message a migrate changes nothing the queries show *)
Theorem migrate_frame st adm st' : migrate_step st adm None = Ok st' -> st' = st.
Proof. unfold migrate_step. destruct adm; cbn; intros H; inv H. reflexivity. Qed.

(* a minter's Status (and admin, and the Params it reads) survive every migrate *)
Theorem migrate_keeps_minter f s adm ex st' : migrate_step (AMinter f s) adm ex = Ok st' -> st' = AMinter f s.
Proof. unfold migrate_step. destruct adm, ex; cbn; intros H; inv H. reflexivity. Qed.

Lemma user_step_minter f s env sender u st' : user_step (AMinter f s) env sender u = Ok st' -> st' = AMinter f s.
Proof.
  destruct u as [m|adm ex]; cbn [user_step].
  - apply minter_execute_keeps_admin_status_params.
  - apply migrate_keeps_minter.
Qed.

Lemma user_step_factory p env sender u st' :
  no_explicit_params (env, sender, u) = true -> user_step (AFactory p) env sender u = Ok st' -> st' = AFactory p.
Proof.
  destruct u as [m|adm ex]; cbn [user_step no_explicit_params snd].
  - intros _. apply factory_execute_keeps_params.
  - destruct ex; [ discriminate | ]. intros _. apply migrate_frame.
Qed.

(* no message a user account can send - execute or migrate - changes a minter's Status
   (admin, Params) in any reachable state *)
Theorem no_user_message_changes_minter_status f s cs : run_user (AMinter f s) cs = AMinter f s.
Proof.
  induction cs as [|[[env sender] u] cs IH]; cbn [run_user fold_left]; [ reflexivity | ].
  assert (E : apply_user (AMinter f s) (env, sender, u) = AMinter f s).
  { unfold apply_user. destruct (user_step (AMinter f s) env sender u) as [st'|] eqn:E; [ | reflexivity ].
    apply user_step_minter in E. exact E. }
  rewrite E. exact IH.
Qed.

(* nor a factory's Params, as long as no migrate carries an explicit parameter message *)
Theorem no_user_message_changes_factory_params p cs :
  forallb no_explicit_params cs = true -> run_user (AFactory p) cs = AFactory p.
Proof.
  induction cs as [|[[env sender] u] cs IH]; cbn [run_user fold_left forallb]; [ reflexivity | ].
  intros H. apply andb_true_iff in H. destruct H as [H1 H2].
  assert (E : apply_user (AFactory p) (env, sender, u) = AFactory p).
  { unfold apply_user. destruct (user_step (AFactory p) env sender u) as [st'|] eqn:E; [ | reflexivity ].
    apply (user_step_factory _ _ _ _ _ H1) in E. exact E. }
  rewrite E. exact (IH H2).
Qed.

(* the exception is exactly: wasm admin + explicit parameters + a factory *)
Theorem migrate_changes_state_only_by_admin_explicit_params st adm ex st' :
  migrate_step st adm ex = Ok st' -> st' <> st ->
  adm = true /\ exists p q, st = AFactory p /\ ex = Some q /\ st' = AFactory q.
Proof.
  unfold migrate_step. destruct adm; cbn [negb]; [ | discriminate ].
  destruct ex as [q|]; [ | intros H Hd; inv H; contradiction Hd; reflexivity ].
  destruct st; try discriminate. intros H _. inv H. split; [ reflexivity | eauto ].
Qed.
