(* C05 Part 3 — the authorization clauses over the FULL handler models of the other
   properties (MinterOpen, TokenMerge, Collection, Wl, WlTiered, Stages, Splits, Params),
   and agreement of model/Auth.v with them.  One module per family: the models reuse
   names (step, env, is_admin, ...), so each is imported only inside its module. *)
From LP Require Import Prelude.
From LP Require MinterVending MinterVendingProofs MinterOpen MinterOpenProofs TokenMerge TokenMergeProofs.
From LP Require Collection CollectionProofs Wl WlSchedProofs WlTiered Stages StagesProofs Splits SplitsProofs Params.
From LP Require Auth AuthProofs.
From Coq Require Import ZArith Lia.
Local Open Scope N_scope.

Lemma neq_eqb (a b : N) : a <> b -> (a =? b) = false.
Proof. intros H. apply N.eqb_neq. exact H. Qed.

(* generic destructuring of handler results (as in MinterVendingProofs, restated here
   because that file's other names would shadow the models imported below) *)
Ltac inv H := inversion H; subst; clear H.
Lemma bind_ok' {A B} (r : result A) (f : A -> result B) b :
  bind r f = Ok b -> exists a, r = Ok a /\ f a = Ok b.
Proof. destruct r as [a|]; cbn [bind]; intros H; [ eauto | discriminate ]. Qed.
Ltac step_hyp H :=
  match type of H with
  | bind ?r ?f = Ok _ =>
      let a := fresh "a" in let Ha := fresh "Ha" in
      apply bind_ok' in H; destruct H as [a [Ha H]]
  | (if ?c then _ else _) = Ok _ =>
      let E := fresh "E" in destruct c eqn:E; [ | ]; try discriminate H
  | (let '(_, _) := ?p in _) = Ok _ => destruct p
  | (match ?x with _ => _ end) = Ok _ =>
      let E := fresh "E" in destruct x eqn:E; try discriminate H
  | Err = Ok _ => discriminate H
  end.
Ltac bind_in H x Hx := apply bind_ok' in H; destruct H as [x [Hx H]].

(* a result that is never Ok is Err *)
Lemma never_ok_err {A} (r : result A) : (forall x, r = Ok x -> False) -> r = Err.
Proof. destruct r as [x|]; [ intros H; exfalso; eapply H; reflexivity | reflexivity ]. Qed.

(* ====================================================================== *)
(* open-edition minters and the base minter (MinterOpen.v)                 *)
(* ====================================================================== *)
Module FullOE.
Import MinterVending MinterVendingProofs MinterOpen MinterOpenProofs.

Lemma not_o_admin s e : e_sender e <> o_admin s -> o_is_admin s e = false.
Proof. intros H. unfold o_is_admin. apply neq_eqb. exact H. Qed.

Ltac nonadmin H :=
  cbn [ostep];
  rewrite ?(not_o_admin _ _ H);
  repeat match goal with
         | |- context [bind (nonpayable ?f) _] => destruct (nonpayable f); cbn [bind]
         | |- context [negb ?b] => is_var b; destruct b; cbn [negb]
         end;
  cbn [negb]; try reflexivity.

(* the eight admin-gated handlers of the open-edition ExecuteMsg *)
Theorem oe_nonadmin_rejected vr s e fp wv :
  e_sender e <> o_admin s ->
  (forall rok r, ostep vr s e fp wv (EMintTo rok r) = Err) /\
  ostep vr s e fp wv EBurnRemaining = Err /\
  (forall p, ostep vr s e fp wv (EUpdateMintPrice p) = Err) /\
  (forall t, ostep vr s e fp wv (EUpdateStartTime t) = Err) /\
  (forall t, ostep vr s e fp wv (EUpdateEndTime t) = Err) /\
  (forall t, ostep vr s e fp wv (EUpdateStartTradingTime t) = Err) /\
  (forall l, ostep vr s e fp wv (EUpdatePerAddressLimit l) = Err) /\
  (forall wok w nv, ostep vr s e fp wv (ESetWhitelist wok w nv) = Err).
Proof. intros H. repeat split; intros; nonadmin H. Qed.

Definition oe_admin_op (o : eop) : bool :=
  match o with EMint _ _ _ | EPurge => false | _ => true end.

Lemma oe_admin_op_rejected vr s e fp wv o :
  oe_admin_op o = true -> e_sender e <> o_admin s -> ostep vr s e fp wv o = Err.
Proof.
  intros Ho H. destruct (oe_nonadmin_rejected vr s e fp wv H) as (A & B & C & D & E & F & G & I).
  destruct o; try discriminate Ho; auto.
Qed.

Lemma o_bump_counts_admin s e wv isp s1 : o_bump_counts s e wv isp = Ok s1 -> o_admin s1 = o_admin s.
Proof.
  unfold o_bump_counts. intros H. destruct isp.
  - repeat step_hyp H. inv H. reflexivity.
  - destruct (o_whitelist s); [ | discriminate ]. destruct wv as [v|]; [ | discriminate ].
    bind_in H c3 Hc3. destruct c3 as [[cnt tiered] stage]. bind_in H c Hc.
    destruct tiered.
    + destruct stage as [st|]; [ | discriminate ].
      destruct st as [|st]; [ discriminate | ].
      destruct st as [st|st|]; try (destruct st; try discriminate); repeat step_hyp H; inv H; reflexivity.
    + inv H. reflexivity.
Qed.

Lemma o_execute_mint_admin vr s e fp wv adm rcp isp s' ms :
  o_execute_mint vr s e fp wv adm rcp isp = Ok (s', ms) -> o_admin s' = o_admin s.
Proof.
  unfold o_execute_mint. intros H.
  destruct (match o_mintable s with Some 0 => true | _ => false end); [ discriminate | ].
  bind_in H pr Hpr. destruct pr as [amount dn].
  bind_in H payment Hpay.
  destruct (negb (payment =? amount)); [ discriminate | ].
  match type of H with (if ?c then _ else _) = _ => destruct c; [ discriminate | ] end.
  bind_in H fmsgs Hf. bind_in H tid Htid. bind_in H s1 Hs1. bind_in H total' Ht.
  bind_in H airdrops' Ha. bind_in H amt Hamt. inv H.
  cbn. eapply o_bump_counts_admin; eauto.
Qed.

Theorem oe_admin_constant vr s e fp wv o s' ms :
  ostep vr s e fp wv o = Ok (s', ms) -> o_admin s' = o_admin s.
Proof.
  intros H. destruct o; cbn [ostep] in H;
    try (repeat step_hyp H; first [ eapply o_execute_mint_admin; eassumption | inv H; reflexivity ]).
Qed.

Lemma o_apply_admin vr s c : o_admin (o_apply vr s c) = o_admin s.
Proof.
  unfold o_apply.
  destruct (ostep vr s (oc_env c) (oc_fp c) (oc_wv c) (oc_op c)) as [[s' ms]|] eqn:E; [ | reflexivity ].
  eapply oe_admin_constant; eauto.
Qed.

Theorem oe_admin_constant_run vr cs : forall s, o_admin (orun vr s cs) = o_admin s.
Proof.
  induction cs as [|c cs IH]; intros s; cbn [orun fold_left]; [ reflexivity | ].
  change (o_admin (orun vr (o_apply vr s c) cs) = o_admin s). rewrite IH. apply o_apply_admin.
Qed.

Theorem oe_nonadmin_rejected_after_history vr s cs c :
  oe_admin_op (oc_op c) = true -> e_sender (oc_env c) <> o_admin s ->
  ostep vr (orun vr s cs) (oc_env c) (oc_fp c) (oc_wv c) (oc_op c) = Err /\
  o_apply vr (orun vr s cs) c = orun vr s cs.
Proof.
  intros Ho H.
  assert (E : ostep vr (orun vr s cs) (oc_env c) (oc_fp c) (oc_wv c) (oc_op c) = Err).
  { apply oe_admin_op_rejected; [ exact Ho | ]. rewrite oe_admin_constant_run. exact H. }
  split; [ exact E | ]. unfold o_apply. rewrite E. reflexivity.
Qed.

Theorem oe_nonadmin_rejected_after_history' vr s cs c :
  (match oc_op c with EMint _ _ _ | EPurge => False | _ => True end) ->
  e_sender (oc_env c) <> o_admin s ->
  ostep vr (orun vr s cs) (oc_env c) (oc_fp c) (oc_wv c) (oc_op c) = Err /\
  o_apply vr (orun vr s cs) c = orun vr s cs.
Proof.
  intros Hop. apply oe_nonadmin_rejected_after_history.
  destruct (oc_op c); try contradiction; reflexivity.
Qed.

(* base minter: both handlers compare the sender with the creator the collection answers *)
Theorem base_only_creator s e creator bps o :
  creator <> Some (e_sender e) -> bstep s e creator bps o = Err.
Proof.
  intros H. destruct o; cbn [bstep].
  - destruct creator as [c|]; [ | reflexivity ].
    destruct (c =? e_sender e) eqn:E; [ apply N.eqb_eq in E; subst; contradiction H; reflexivity | reflexivity ].
  - destruct (nonpayable (e_funds e)); cbn [bind]; [ | reflexivity ].
    destruct creator as [c|]; [ | reflexivity ].
    destruct (e_sender e =? c) eqn:E; [ apply N.eqb_eq in E; subst; contradiction H; reflexivity | reflexivity ].
Qed.

(* agreement with model/Auth.v: whatever the full model accepts, Auth.v authorizes *)
Definition kind_of (o : eop) : Auth.mkind :=
  match o with
  | EMint _ _ _ => Auth.KMint | EMintTo _ _ => Auth.KMintTo | EPurge => Auth.KPurge
  | EBurnRemaining => Auth.KBurnRemaining | EUpdateMintPrice _ => Auth.KUpdateMintPrice
  | EUpdateStartTime _ => Auth.KUpdateStartTime | EUpdateEndTime _ => Auth.KUpdateEndTime
  | EUpdateStartTradingTime _ => Auth.KUpdateStartTradingTime
  | EUpdatePerAddressLimit _ => Auth.KUpdatePerAddressLimit | ESetWhitelist _ _ _ => Auth.KSetWhitelist
  end.

Theorem oe_agrees vr s e fp wv o s' ms creator status params :
  ostep vr s e fp wv o = Ok (s', ms) ->
  Auth.minter_step Auth.FOpenEdition (Auth.mkMS (o_admin s) creator status params) (e_sender e) (kind_of o)
  = Ok (Auth.mkMS (o_admin s') creator status params).
Proof.
  intros H. rewrite (oe_admin_constant _ _ _ _ _ _ _ _ H).
  destruct (N.eq_dec (e_sender e) (o_admin s)) as [Heq|Hne].
  - unfold Auth.minter_step. cbn [Auth.m_admin]. rewrite Heq, N.eqb_refl.
    destruct o; reflexivity.
  - destruct (oe_admin_op o) eqn:Ho.
    + rewrite (oe_admin_op_rejected _ _ _ _ _ _ Ho Hne) in H. discriminate.
    + destruct o; try discriminate Ho; reflexivity.
Qed.

Theorem base_agrees s e creator bps o s' ms c status params :
  bstep s e creator bps o = Ok (s', ms) -> creator = Some c ->
  Auth.minter_step Auth.FBase (Auth.mkMS 0 c status params) (e_sender e)
    (match o with BMint _ => Auth.KMint | BUpdateStartTradingTime _ => Auth.KUpdateStartTradingTime end)
  = Ok (Auth.mkMS 0 c status params).
Proof.
  intros H Hc. subst creator.
  assert (E : e_sender e = c).
  { destruct (N.eq_dec (e_sender e) c) as [|Hne]; [ assumption | ].
    rewrite base_only_creator in H; [ discriminate | congruence ]. }
  unfold Auth.minter_step. cbn [Auth.m_coll_creator]. rewrite E.
  destruct o; cbn; rewrite N.eqb_refl; reflexivity.
Qed.
End FullOE.

(* ====================================================================== *)
(* token-merge minter (TokenMerge.v)                                       *)
(* ====================================================================== *)
(* TokenMerge.v models ReceiveNft, MintTo, MintFor, Shuffle, Purge, BurnRemaining,
   UpdateStartTime, UpdatePerAddressLimit; UpdateStartTradingTime is not part of that
   model (Part 2 and Trading.v cover it). *)
Module FullTM.
Import TokenMerge TokenMergeProofs.

Theorem tm_nonadmin_rejected minter now st caller :
  caller <> tm_admin st ->
  (forall r funds pick, step minter now (OMintTo caller r funds pick) st = Err) /\
  (forall tid r funds, step minter now (OMintFor caller tid r funds) st = Err) /\
  (forall funds, step minter now (OBurnRemaining caller funds) st = Err) /\
  (forall t funds, step minter now (OUpdStart caller t funds) st = Err) /\
  (forall l funds, step minter now (OUpdLimit caller l funds) st = Err).
Proof.
  intros H. pose proof (neq_eqb _ _ H) as E. repeat split; intros; cbn [step].
  - unfold admin_mint, bind, guard. destruct (addr_ok r); [ | reflexivity ]. rewrite E. reflexivity.
  - unfold admin_mint, bind, guard. destruct (addr_ok r); [ | reflexivity ]. rewrite E. reflexivity.
  - unfold bind, guard. destruct (nonpayable funds); [ | reflexivity ]. rewrite E. reflexivity.
  - unfold bind, guard. destruct (nonpayable funds); [ | reflexivity ]. rewrite E. reflexivity.
  - unfold bind, guard. destruct (nonpayable funds); [ | reflexivity ]. rewrite E. reflexivity.
Qed.

Lemma take_token_admin r t st st' : take_token r t st = Ok st' -> tm_admin st' = tm_admin st.
Proof.
  unfold take_token, bind, guard. destruct (0 <? tm_mintable st); [ | discriminate ].
  destruct (existsb (N.eqb t) (tm_avail st)); [ | discriminate ].
  destruct (count st r + 1 <=? U32_MAX); [ | discriminate ]. intros [= <-]. reflexivity.
Qed.

Theorem tm_admin_constant minter now op st st' ms :
  step minter now op st = Ok (st', ms) -> tm_admin st' = tm_admin st.
Proof.
  destruct op; cbn [step].
  - unfold receive, bind, guard.
    destruct (tm_start st <? now); [ | discriminate ].
    destruct (addr_ok (recipient_of cw_sender recip)); [ | discriminate ].
    destruct (count st (recipient_of cw_sender recip) <? tm_limit st); [ | discriminate ].
    destruct (req_amount caller (tm_req st)) as [amt|]; [ | discriminate ].
    destruct (ledger st (recipient_of cw_sender recip) caller <? amt); [ | discriminate ].
    match goal with |- context [if ?c then _ else _] => destruct c end.
    + match goal with |- context [take_token ?r ?p ?s1] => destruct (take_token r p s1) as [st2|] eqn:Et; [ | discriminate ] end.
      intros [= <- <-]. apply take_token_admin in Et. cbn in *. exact Et.
    + intros [= <- <-]. reflexivity.
  - unfold admin_mint, bind, guard. destruct (addr_ok recipient); [ | discriminate ].
    destruct (caller =? tm_admin st); [ | discriminate ]. destruct (may_pay funds NATIVE) as [paid|]; [ | discriminate ].
    destruct (paid =? tm_airdrop_price st); [ | discriminate ].
    destruct (take_token recipient pick st) as [st2|] eqn:Et; [ | discriminate ].
    intros [= <- <-]. eapply take_token_admin; eauto.
  - unfold admin_mint, bind, guard. destruct (addr_ok recipient); [ | discriminate ].
    destruct (caller =? tm_admin st); [ | discriminate ].
    destruct (negb (tid =? 0) && (tid <=? tm_num_tokens st)); [ | discriminate ].
    destruct (may_pay funds NATIVE) as [paid|]; [ | discriminate ].
    destruct (paid =? tm_airdrop_price st); [ | discriminate ].
    destruct (take_token recipient tid st) as [st2|] eqn:Et; [ | discriminate ].
    intros [= <- <-]. eapply take_token_admin; eauto.
  - unfold bind, guard. destruct (checked_fair_burn _ _ _ _); [ | discriminate ].
    destruct (negb _); [ | discriminate ]. intros [= <- <-]. reflexivity.
  - unfold bind, guard. destruct (nonpayable _); [ | discriminate ].
    destruct (tm_mintable st =? 0); [ | discriminate ]. intros [= <- <-]. reflexivity.
  - unfold bind, guard. destruct (nonpayable _); [ | discriminate ].
    destruct (caller =? tm_admin st); [ | discriminate ].
    destruct (negb _); [ | discriminate ]. destruct (_ <=? _); [ | discriminate ]. intros [= <- <-]. reflexivity.
  - unfold bind, guard. destruct (nonpayable _); [ | discriminate ].
    destruct (caller =? tm_admin st); [ | discriminate ].
    destruct (now <? tm_start st); [ | discriminate ]. destruct (now <=? t); [ | discriminate ].
    destruct (_ <=? t); [ | discriminate ]. intros [= <- <-]. reflexivity.
  - unfold bind, guard. destruct (nonpayable _); [ | discriminate ].
    destruct (caller =? tm_admin st); [ | discriminate ].
    destruct (negb _ && _); [ | discriminate ]. destruct (dynamic_limit_ok _ _ _); [ | discriminate ].
    intros [= <- <-]. reflexivity.
Qed.

(* histories: grun threads (state, ghost); the admin never moves *)
Theorem tm_admin_constant_run minter h : forall sg, tm_admin (fst (grun minter h sg)) = tm_admin (fst sg).
Proof.
  induction h as [|[now op] h IH]; intros [st g]; cbn [grun fold_left]; [ reflexivity | ].
  change (tm_admin (fst (grun minter h (gstep minter (st, g) (now, op)))) = tm_admin st).
  rewrite IH. unfold gstep. destruct (step minter now op st) as [[st' ms]|] eqn:E; [ | reflexivity ].
  apply tm_admin_constant in E. destruct op; exact E.
Qed.

(* agreement with model/Auth.v *)
Definition op_caller (o : tm_op) : N :=
  match o with
  | OReceive c _ _ _ _ | OMintTo c _ _ _ | OMintFor c _ _ _ | OShuffle c _ | OPurge c _
  | OBurnRemaining c _ | OUpdStart c _ _ | OUpdLimit c _ _ => c
  end.
Definition kind_of (o : tm_op) : Auth.mkind :=
  match o with
  | OReceive _ _ _ _ _ => Auth.KReceiveNft | OMintTo _ _ _ _ => Auth.KMintTo | OMintFor _ _ _ _ => Auth.KMintFor
  | OShuffle _ _ => Auth.KShuffle | OPurge _ _ => Auth.KPurge | OBurnRemaining _ _ => Auth.KBurnRemaining
  | OUpdStart _ _ _ => Auth.KUpdateStartTime | OUpdLimit _ _ _ => Auth.KUpdatePerAddressLimit
  end.

Theorem tm_agrees minter now op st st' ms creator status params :
  step minter now op st = Ok (st', ms) ->
  Auth.minter_step Auth.FTokenMerge (Auth.mkMS (tm_admin st) creator status params) (op_caller op) (kind_of op)
  = Ok (Auth.mkMS (tm_admin st') creator status params).
Proof.
  intros H. rewrite (tm_admin_constant _ _ _ _ _ _ H).
  destruct (N.eq_dec (op_caller op) (tm_admin st)) as [Heq|Hne].
  - unfold Auth.minter_step. cbn [Auth.m_admin]. rewrite Heq, N.eqb_refl. destruct op; reflexivity.
  - destruct op; cbn [op_caller] in Hne; try reflexivity;
      destruct (tm_nonadmin_rejected minter now st _ Hne) as (A & B & C & D & E);
      rewrite ?A, ?B, ?C, ?D, ?E in H; discriminate.
Qed.
End FullTM.

(* ====================================================================== *)
(* vending minters (MinterVending.v): agreement of model/Auth.v with Part 1 *)
(* ====================================================================== *)
Module FullVending.
Import MinterVending MinterVendingProofs AuthProofs.

Definition kind_of (o : vop) : Auth.mkind :=
  match o with
  | OMint _ _ _ _ => Auth.KMint | OMintTo _ _ _ => Auth.KMintTo | OMintFor _ _ _ => Auth.KMintFor
  | OPurge => Auth.KPurge | OShuffle _ => Auth.KShuffle | OBurnRemaining => Auth.KBurnRemaining
  | OUpdateMintPrice _ => Auth.KUpdateMintPrice | OUpdateStartTime _ => Auth.KUpdateStartTime
  | OUpdateStartTradingTime _ => Auth.KUpdateStartTradingTime
  | OUpdatePerAddressLimit _ => Auth.KUpdatePerAddressLimit | OSetWhitelist _ _ _ => Auth.KSetWhitelist
  | OUpdateDiscountPrice _ => Auth.KUpdateDiscountPrice | ORemoveDiscountPrice => Auth.KRemoveDiscountPrice
  end.

Theorem vending_agrees vr s e fp wv o s' ms creator status params :
  step vr s e fp wv o = Ok (s', ms) ->
  Auth.minter_step Auth.FVending (Auth.mkMS (s_admin s) creator status params) (e_sender e) (kind_of o)
  = Ok (Auth.mkMS (s_admin s') creator status params).
Proof.
  intros H. rewrite (vending_admin_constant _ _ _ _ _ _ _ _ H).
  destruct (N.eq_dec (e_sender e) (s_admin s)) as [Heq|Hne].
  - unfold Auth.minter_step. cbn [Auth.m_admin]. rewrite Heq, N.eqb_refl. destruct o; reflexivity.
  - destruct (admin_op o) eqn:Ho.
    + rewrite (vending_admin_op_rejected _ _ _ _ _ _ Ho Hne) in H. discriminate.
    + destruct o; try discriminate Ho; reflexivity.
Qed.
End FullVending.

(* ====================================================================== *)
(* collections (Collection.v: cw721-base + cw-ownable + sg721 + updatable + nt) *)
(* ====================================================================== *)
Module FullColl.
Import Collection CollectionProofs.

Lemma not_minter s who : o_owner (own s) <> Some who -> is_minter who s = false.
Proof.
  unfold is_minter. destruct (o_owner (own s)) as [o|]; [ | reflexivity ].
  intros H. destruct (o =? who) eqn:E; [ apply N.eqb_eq in E; subst; contradiction H; reflexivity | reflexivity ].
Qed.

Ltac unsupported ct o := unfold step; destruct (supports ct o); [ | reflexivity ]; cbn [exec].

(* token minting and trading-time updates (and offering / renouncing the role) only for
   the collection's minter = the current cw-ownable owner *)
Theorem coll_minter_only ct self e s :
  o_owner (own s) <> Some (sender e) ->
  (forall id owner uri, step ct self e (OMint id owner uri) s = Err) /\
  (forall t, step ct self e (OStartTrading t) s = Err) /\
  (forall new ex, step ct self e (OOwnTransfer new ex) s = Err) /\
  step ct self e OOwnRenounce s = Err.
Proof.
  intros H. pose proof (not_minter _ _ H) as E. repeat split; intros.
  - unsupported ct (OMint id owner uri). unfold mint. rewrite E. reflexivity.
  - unsupported ct (OStartTrading t). unfold update_start_trading_time. rewrite E. reflexivity.
  - unsupported ct (OOwnTransfer new ex). unfold own_transfer. rewrite E. reflexivity.
  - unsupported ct OOwnRenounce. unfold own_renounce. rewrite E. reflexivity.
Qed.

Theorem coll_accept_only_pending ct self e s :
  o_pending (own s) <> Some (sender e) -> step ct self e OOwnAccept s = Err.
Proof.
  intros H. unsupported ct OOwnAccept. unfold own_accept.
  destruct (o_pending (own s)) as [p|]; [ | reflexivity ].
  destruct (p =? sender e) eqn:E; [ apply N.eqb_eq in E; subst; contradiction H; reflexivity | reflexivity ].
Qed.

(* hand-over: a offers, b accepts (before the deadline, if any): now b is the minter, a
   is refused *)
Theorem coll_ownership_handover ct self e1 e2 s b ex :
  supports ct OOwnAccept = true ->
  o_owner (own s) = Some (sender e1) -> sender e2 = b ->
  (forall x, ex = Some x -> is_expired (now e2) x = false) ->
  exists s1 s2,
    step ct self e1 (OOwnTransfer b ex) s = Ok (s1, []) /\
    step ct self e2 OOwnAccept s1 = Ok (s2, []) /\
    o_owner (own s2) = Some b /\
    (sender e1 <> b -> forall e3 id owner uri t,
       sender e3 = sender e1 ->
       step ct self e3 (OMint id owner uri) s2 = Err /\ step ct self e3 (OStartTrading t) s2 = Err).
Proof.
  intros Hs Ho Hb Hx.
  assert (Hs' : supports ct (OOwnTransfer b ex) = true) by (destruct ct; try discriminate Hs; reflexivity).
  exists (set_own s (mkOwn (o_owner (own s)) (Some b) ex)), (set_own (set_own s (mkOwn (o_owner (own s)) (Some b) ex)) (mkOwn (Some b) None None)).
  split.
  { unfold step. rewrite Hs'. cbn [exec]. unfold own_transfer, is_minter. rewrite Ho, N.eqb_refl. reflexivity. }
  split.
  { unfold step. rewrite Hs. cbn [exec]. unfold own_accept. cbn [own set_own o_pending o_expiry].
    rewrite Hb, N.eqb_refl. cbn [negb].
    assert (X : (match ex with Some x => is_expired (now e2) x | None => false end) = false).
    { destruct ex as [x|]; [ apply Hx; reflexivity | reflexivity ]. }
    rewrite X. reflexivity. }
  split; [ reflexivity | ].
  intros Hne e3 id owner uri t He3.
  match goal with |- step ct self e3 _ ?s2 = _ /\ _ =>
    assert (Hn : o_owner (own s2) <> Some (sender e3)) by (cbn; rewrite He3; congruence);
    destruct (coll_minter_only ct self e3 s2 Hn) as (A & B & _) end.
  split; [ apply A | apply B ].
Qed.

(* collection-info, freeze and token-metadata updates only for the collection creator *)
Theorem coll_creator_only ct self e s :
  ci_creator (info s) <> sender e ->
  (forall m, step ct self e (OUpdateInfo m) s = Err) /\
  step ct self e OFreezeInfo s = Err /\
  (forall id uri, step ct self e (OUpdateTokenMd id uri) s = Err) /\
  step ct self e OFreezeTokenMd s = Err /\
  step ct self e OEnableUpdatable s = Err.
Proof.
  intros H. pose proof (neq_eqb _ _ H) as E. repeat split; intros.
  - unsupported ct (OUpdateInfo m). unfold update_collection_info. destruct (frozen s); [ reflexivity | ].
    rewrite E. reflexivity.
  - unsupported ct OFreezeInfo. unfold freeze_collection_info. rewrite E. reflexivity.
  - unsupported ct (OUpdateTokenMd id uri). unfold update_token_metadata.
    destruct (nonpayable (funds e)); cbn [bind quiet]; [ | reflexivity ]. rewrite E. reflexivity.
  - unsupported ct OFreezeTokenMd. unfold freeze_token_metadata.
    destruct (nonpayable (funds e)); cbn [bind quiet]; [ | reflexivity ]. rewrite E. reflexivity.
  - unsupported ct OEnableUpdatable. unfold enable_updatable. destruct (md_enabled s); [ reflexivity | ].
    rewrite E. reflexivity.
Qed.

(* creator hand-over: an accepted UpdateCollectionInfo naming c makes c the creator; the
   old creator is then refused *)
Theorem coll_creator_handover ct self e m s s' ms c :
  step ct self e (OUpdateInfo m) s = Ok (s', ms) -> u_creator m = Some c ->
  ci_creator (info s) = sender e /\ ci_creator (info s') = c /\
  (c <> sender e -> forall e', sender e' = sender e ->
     (forall m', step ct self e' (OUpdateInfo m') s' = Err) /\ step ct self e' OFreezeInfo s' = Err).
Proof.
  intros H Hc. apply step_exec in H. destruct H as [_ H]. cbn [exec] in H.
  apply quiet_ok in H. destruct H as [H _].
  pose proof (uci_ok _ _ _ _ H) as (_ & Hcr & _).
  assert (Hc' : ci_creator (info s') = c).
  { unfold update_collection_info in H. rewrite Hc in H.
    repeat step_hyp H; inv H; reflexivity. }
  split; [ exact Hcr | ]. split; [ exact Hc' | ].
  intros Hne e' He'.
  assert (Hn : ci_creator (info s') <> sender e') by (rewrite Hc', He'; exact Hne).
  destruct (coll_creator_only ct self e' s' Hn) as (A & B & _). split; [ exact A | exact B ].
Qed.

(* frozen => rejected for everyone, the creator included *)
Theorem coll_frozen_rejects ct self e m s : frozen s = true -> step ct self e (OUpdateInfo m) s = Err.
Proof. intros H. unsupported ct (OUpdateInfo m). unfold update_collection_info. rewrite H. reflexivity. Qed.

Theorem coll_md_frozen_rejects ct self e id uri s :
  md_frozen s = true -> step ct self e (OUpdateTokenMd id uri) s = Err.
Proof.
  intros H. unsupported ct (OUpdateTokenMd id uri). unfold update_token_metadata.
  destruct (nonpayable (funds e)); cbn [bind quiet]; [ | reflexivity ].
  destruct (negb (ci_creator (info s) =? sender e)); [ reflexivity | ]. rewrite H. reflexivity.
Qed.

(* both freezes are final over every history (re-exported from the C09 development) *)
Theorem coll_frozen_forever ct self l s : frozen s = true -> frozen (run ct self s l) = true.
Proof. intros H. exact (proj2 (frozen_is_final ct self l s H)). Qed.

Theorem coll_md_frozen_forever ct self l : forall s, md_frozen s = true -> md_frozen (run ct self s l) = true.
Proof.
  induction l as [|eo l IH]; intros s H; cbn [run fold_left]; [ exact H | ].
  change (md_frozen (run ct self (apply ct self s eo) l) = true). apply IH.
  unfold apply. destruct (step ct self (fst eo) (snd eo) s) as [[s' ms]|] eqn:E; [ | exact H ].
  eapply md_frozen_step; eauto.
Qed.

(* tokens move / burn only for owner, live approval or live operator; approvals only for
   owner or live operator *)
Theorem coll_token_ops ct self e id s :
  (forall t, tfind id (tokens s) = Some t -> check_can_send (now e) (sender e) s t = false) ->
  (forall to, step ct self e (OTransfer to id) s = Err) /\
  (forall to acc, step ct self e (OSend to id acc) s = Err) /\
  step ct self e (OBurn id) s = Err.
Proof.
  intros H. repeat split; intros.
  - unsupported ct (OTransfer to id). unfold transfer.
    destruct (tfind id (tokens s)) as [t|] eqn:F; [ rewrite (H t eq_refl) | ]; reflexivity.
  - unsupported ct (OSend to id acc). destruct acc; [ | reflexivity ]. unfold transfer.
    destruct (tfind id (tokens s)) as [t|] eqn:F; [ rewrite (H t eq_refl) | ]; reflexivity.
  - unsupported ct (OBurn id). unfold burn.
    destruct (tfind id (tokens s)) as [t|] eqn:F; [ rewrite (H t eq_refl) | ]; reflexivity.
Qed.

Theorem coll_approval_ops ct self e id sp s :
  (forall t, tfind id (tokens s) = Some t -> check_can_approve (now e) (sender e) s t = false) ->
  (forall ex, step ct self e (OApprove sp id ex) s = Err) /\ step ct self e (ORevoke sp id) s = Err.
Proof.
  intros H. split; intros.
  - unsupported ct (OApprove sp id ex). unfold approve.
    destruct (tfind id (tokens s)) as [t|] eqn:F; [ rewrite (H t eq_refl) | ]; reflexivity.
  - unsupported ct (ORevoke sp id). unfold approve.
    destruct (tfind id (tokens s)) as [t|] eqn:F; [ rewrite (H t eq_refl) | ]; reflexivity.
Qed.

(* ---- agreement with model/Auth.v on the role-reserved messages ---- *)
Definition exp_abs (x : expiration) : Auth.expiry :=
  match x with ExNever => Auth.ExNever | ExAt t => Auth.ExAtTime t end.
Definition kind_abs (ct : ctype) : Auth.collkind :=
  match ct with Base => Auth.Sg721Base | Updatable => Auth.Sg721Updatable | Onchain => Auth.Sg721Metadata | NT => Auth.Sg721Nt end.
(* the principal part of the state; Auth.v's token table is not needed for these messages *)
Definition abs (s : state) : Auth.cstate :=
  Auth.mkCS (Auth.mkOwn (o_owner (own s)) (o_pending (own s)) (option_map exp_abs (o_expiry (own s))))
            (ci_creator (info s)) (frozen s) (md_frozen s) (md_enabled s) [] [].
Definition msg_abs (o : op) : option Auth.cmsg :=
  match o with
  | OStartTrading _ => Some Auth.CUpdateStartTradingTime
  | OUpdateInfo m => Some (Auth.CUpdateCollectionInfo (u_creator m))
  | OFreezeInfo => Some Auth.CFreezeCollectionInfo
  | OOwnTransfer n ex => Some (Auth.CUpdateOwnership (Auth.TransferOwnership n (option_map exp_abs ex)))
  | OOwnAccept => Some (Auth.CUpdateOwnership Auth.AcceptOwnership)
  | OOwnRenounce => Some (Auth.CUpdateOwnership Auth.RenounceOwnership)
  | OFreezeTokenMd => Some Auth.CFreezeTokenMetadata
  | OEnableUpdatable => Some Auth.CEnableUpdatable
  | _ => None
  end.

Lemma is_minter_spec who s : is_minter who s = true -> o_owner (own s) = Some who.
Proof. apply is_minter_true. Qed.

(* whatever the full model accepts among the role-reserved messages that do not touch
   the token table, Auth.v authorizes from the abstracted state, and lands in the
   abstraction of the full model's next state *)
Theorem coll_agrees ct self e o s s' ms c height :
  step ct self e o s = Ok (s', ms) -> msg_abs o = Some c ->
  Auth.coll_step (kind_abs ct) (abs s) (Auth.mkAE (now e) height) (sender e) c = Ok (abs s').
Proof.
  intros H Hc. apply step_exec in H. destruct H as [Hs H].
  destruct o; try discriminate Hc; inv Hc; cbn [exec] in H.
  - (* UpdateInfo *)
    apply quiet_ok in H. destruct H as [H _]. pose proof (uci_ok _ _ _ _ H) as (Hf & Hcr & _ & _ & _ & Ho & Hfr & Hmf & Hme & _).
    assert (Hc' : ci_creator (info s') = match u_creator m with Some a => a | None => ci_creator (info s) end).
    { unfold update_collection_info in H. repeat step_hyp H; inv H; reflexivity. }
    unfold Auth.coll_step. assert (Hh : Auth.coll_has (kind_abs ct) (Auth.CUpdateCollectionInfo (u_creator m)) = true) by (destruct ct; reflexivity).
    rewrite Hh. cbn [negb abs Auth.c_frozen Auth.c_creator]. rewrite Hf, Hcr, N.eqb_refl. cbn [negb].
    unfold abs. rewrite Ho, Hfr, Hmf, Hme, Hc', Hf, Hcr. reflexivity.
  - (* StartTrading *)
    apply quiet_ok in H. destruct H as [H _]. unfold update_start_trading_time in H.
    destruct (is_minter (sender e) s) eqn:Em; [ | discriminate ]. inv H.
    apply is_minter_spec in Em.
    unfold Auth.coll_step. assert (Hh : Auth.coll_has (kind_abs ct) Auth.CUpdateStartTradingTime = true) by (destruct ct; try discriminate Hs; reflexivity).
    rewrite Hh. cbn [negb]. unfold Auth.assert_owner, Auth.is_owner. cbn. rewrite Em. cbn. rewrite N.eqb_refl. reflexivity.
  - (* FreezeInfo *)
    apply quiet_ok in H. destruct H as [H _]. unfold freeze_collection_info in H.
    destruct (ci_creator (info s) =? sender e) eqn:Ec; [ | discriminate ]. inv H.
    unfold Auth.coll_step. assert (Hh : Auth.coll_has (kind_abs ct) Auth.CFreezeCollectionInfo = true) by (destruct ct; reflexivity).
    rewrite Hh. cbn. rewrite Ec. reflexivity.
  - (* OwnTransfer *)
    apply quiet_ok in H. destruct H as [H _]. unfold own_transfer in H.
    destruct (is_minter (sender e) s) eqn:Em; [ | discriminate ]. inv H. apply is_minter_spec in Em.
    unfold Auth.coll_step.
    assert (Hh : Auth.coll_has (kind_abs ct) (Auth.CUpdateOwnership (Auth.TransferOwnership new (option_map exp_abs e0))) = true) by (destruct ct; try discriminate Hs; reflexivity).
    rewrite Hh. cbn. rewrite Em. rewrite N.eqb_refl. reflexivity.
  - (* OwnAccept *)
    apply quiet_ok in H. destruct H as [H _]. unfold own_accept in H.
    destruct (o_pending (own s)) as [p|] eqn:Ep; [ | discriminate ].
    destruct (p =? sender e) eqn:Eq; cbn [negb] in H; [ | discriminate ]. apply N.eqb_eq in Eq. subst p.
    destruct (match o_expiry (own s) with Some x => is_expired (now e) x | None => false end) eqn:Ex; [ discriminate | ]. inv H.
    unfold Auth.coll_step.
    assert (Hh : Auth.coll_has (kind_abs ct) (Auth.CUpdateOwnership Auth.AcceptOwnership) = true) by (destruct ct; try discriminate Hs; reflexivity).
    rewrite Hh. cbn. rewrite Ep. rewrite N.eqb_refl. cbn.
    assert (Ex' : match option_map exp_abs (o_expiry (own s)) with
                  | Some x => Auth.expired x (Auth.mkAE (now e) height) | None => false end = false).
    { destruct (o_expiry (own s)) as [x|]; [ | reflexivity ]. destruct x; exact Ex. }
    rewrite Ex'. reflexivity.
  - (* OwnRenounce *)
    apply quiet_ok in H. destruct H as [H _]. unfold own_renounce in H.
    destruct (is_minter (sender e) s) eqn:Em; [ | discriminate ]. inv H. apply is_minter_spec in Em.
    unfold Auth.coll_step.
    assert (Hh : Auth.coll_has (kind_abs ct) (Auth.CUpdateOwnership Auth.RenounceOwnership) = true) by (destruct ct; try discriminate Hs; reflexivity).
    rewrite Hh. cbn. rewrite Em. rewrite N.eqb_refl. reflexivity.
  - (* FreezeTokenMd *)
    apply quiet_ok in H. destruct H as [H _]. unfold freeze_token_metadata in H.
    bind_in H u Hu. destruct (ci_creator (info s) =? sender e) eqn:Ec; [ | discriminate ]. inv H.
    unfold Auth.coll_step. assert (Hh : Auth.coll_has (kind_abs ct) Auth.CFreezeTokenMetadata = true) by (destruct ct; try discriminate Hs; reflexivity).
    rewrite Hh. cbn. rewrite N.eqb_sym, Ec. reflexivity.
  - (* EnableUpdatable *)
    unfold enable_updatable in H. destruct (md_enabled s) eqn:En; [ discriminate | ].
    destruct (ci_creator (info s) =? sender e) eqn:Ec; cbn [negb] in H; [ | discriminate ].
    bind_in H m0 Hm. inv H.
    unfold Auth.coll_step. assert (Hh : Auth.coll_has (kind_abs ct) Auth.CEnableUpdatable = true) by (destruct ct; try discriminate Hs; reflexivity).
    rewrite Hh. cbn. rewrite En. rewrite N.eqb_sym, Ec. reflexivity.
Qed.
End FullColl.

(* ====================================================================== *)
(* whitelists: plain / flex / Merkle (Wl.v)                                *)
(* ====================================================================== *)
Module FullWl.
Import Wl.

Section Oracle.
Variable valid : addr -> bool.
Variable self : addr.

(* every membership / schedule handler needs an admin (IncreaseMemberLimit is open:
   DESIGN §7 C05); UpdateAdmins and Freeze need can_modify = mutable && admin *)
Theorem wl_admin_only e w :
  is_admin (e_sender e) w = false ->
  (forall t, exec valid self e (OUpdStart t) w = Err) /\
  (forall t, exec valid self e (OUpdEnd t) w = Err) /\
  (forall ms, exec valid self e (OAdd ms) w = Err) /\
  (forall ms, exec valid self e (ORemove ms) w = Err) /\
  (forall n, exec valid self e (OUpdPal n) w = Err) /\
  (forall l, exec valid self e (OUpdAdmins l) w = Err) /\
  exec valid self e OFreeze w = Err.
Proof.
  intros H. unfold exec, can_modify; cbv zeta. rewrite H, andb_false_r.
  repeat split; intros; try reflexivity; destruct (w_kind w); reflexivity.
Qed.

Theorem wl_frozen_rejects e w :
  w_mutable w = false ->
  (forall l, exec valid self e (OUpdAdmins l) w = Err) /\ exec valid self e OFreeze w = Err.
Proof. intros H. unfold exec, can_modify. rewrite H. split; intros; reflexivity. Qed.

(* what a successful call does to the admin list and the flag *)
Theorem wl_exec_admins e o w w' ms :
  exec valid self e o w = Ok (w', ms) ->
  match o with
  | OUpdAdmins l => can_modify (e_sender e) w = true /\ w_admins w' = l /\ w_mutable w' = w_mutable w
  | OFreeze => can_modify (e_sender e) w = true /\ w_admins w' = w_admins w /\ w_mutable w' = false
  | _ => w_admins w' = w_admins w /\ w_mutable w' = w_mutable w
  end /\ w_kind w' = w_kind w.
Proof.
  unfold exec; cbv zeta. intros H. destruct o.
  - repeat step_hyp H. inv H. cbn. auto.
  - repeat step_hyp H. inv H. cbn. auto.
  - destruct (w_kind w) eqn:K; try discriminate H; repeat step_hyp H; inv H; cbn; auto.
  - destruct (w_kind w) eqn:K; try discriminate H; repeat step_hyp H; inv H; cbn; auto.
  - destruct (w_kind w) eqn:K; try discriminate H; repeat step_hyp H; inv H; cbn; auto.
  - destruct (w_kind w) eqn:K; try discriminate H; repeat step_hyp H; inv H; cbn; auto.
  - bind_in H u Hu. bind_in H u2 Hu2. inv H. cbn. unfold guard in Hu. destruct (can_modify (e_sender e) w); [ auto | discriminate ].
  - bind_in H u Hu. inv H. cbn. unfold guard in Hu. destruct (can_modify (e_sender e) w); [ auto | discriminate ].
Qed.

(* once frozen, forever: no history changes the admin list or un-freezes it *)
Theorem wl_frozen_forever h : forall w,
  w_mutable w = false ->
  w_admins (run valid self h w) = w_admins w /\ w_mutable (run valid self h w) = false.
Proof.
  induction h as [|[e o] h IH]; intros w Hm; cbn [run fold_left]; [ auto | ].
  change (w_admins (run valid self h (step valid self w (e, o))) = w_admins w /\
          w_mutable (run valid self h (step valid self w (e, o))) = false).
  assert (S : w_admins (step valid self w (e, o)) = w_admins w /\ w_mutable (step valid self w (e, o)) = false).
  { unfold step. cbn [fst snd]. destruct (exec valid self e o w) as [[w' ms]|] eqn:E; [ | auto ].
    pose proof (wl_exec_admins _ _ _ _ _ E) as [F _].
    destruct o; try (destruct F as [A B]; rewrite A, B; auto);
      destruct F as [C _]; unfold can_modify in C; rewrite Hm in C; discriminate. }
  destruct S as [SA SM]. destruct (IH _ SM) as [A B]. rewrite A, B, SA. auto.
Qed.

Theorem wl_frozen_statement h w :
  w_mutable w = false ->
  (forall e l, exec valid self e (OUpdAdmins l) w = Err) /\
  (forall e, exec valid self e OFreeze w = Err) /\
  w_admins (run valid self h w) = w_admins w /\ w_mutable (run valid self h w) = false.
Proof.
  intros H.
  split; [ intros e l; exact (proj1 (wl_frozen_rejects e w H) l) | ].
  split; [ intros e; exact (proj2 (wl_frozen_rejects e w H)) | ].
  exact (wl_frozen_forever h w H).
Qed.

(* ---- agreement with model/Auth.v ---- *)
Definition kind_abs (k : kind) : Auth.wlkind :=
  match k with KPlain => Auth.WPlain | KFlex => Auth.WFlex | KMerkle => Auth.WMerkle end.
Definition abs (w : wl) : Auth.wstate := Auth.mkWS (w_admins w) (w_mutable w).
Definition msg_abs (o : op) : Auth.wmsg :=
  match o with
  | OUpdStart _ => Auth.WOp Auth.WUpdateStartTime
  | OUpdEnd _ => Auth.WOp Auth.WUpdateEndTime
  | OAdd _ => Auth.WOp Auth.WAddMembers
  | ORemove _ => Auth.WOp Auth.WRemoveMembers
  | OUpdPal _ => Auth.WOp Auth.WUpdatePerAddressLimit
  | OIncrease _ => Auth.WOp Auth.WIncreaseMemberLimit
  | OUpdAdmins l => Auth.WUpdateAdmins l
  | OFreeze => Auth.WFreeze
  end.

Lemma is_admin_abs a w : Auth.is_admin (abs w) a = is_admin a w.
Proof.
  unfold Auth.is_admin, Auth.mem, is_admin, abs. cbn [Auth.w_admins].
  induction (w_admins w) as [|x l IH]; cbn [existsb]; [ reflexivity | ]. rewrite IH, (N.eqb_sym x a). reflexivity.
Qed.

Lemma guard_true b u : guard b = Ok u -> b = true.
Proof. destruct b; cbn; congruence. Qed.

(* whatever the full handler accepts, Auth.v authorizes, with the same admin list and
   flag afterwards; hence a sender Auth.v refuses is refused by the full handler *)
Theorem wl_agrees e o w w' ms :
  exec valid self e o w = Ok (w', ms) ->
  Auth.wl_step (kind_abs (w_kind w)) (abs w) (e_sender e) (msg_abs o) = Ok (abs w').
Proof.
  intros H. pose proof (wl_exec_admins _ _ _ _ _ H) as [F K].
  assert (Hadm : forall o', (match o' with OIncrease _ | OUpdAdmins _ | OFreeze => False | _ => True end) ->
                 exec valid self e o' w = Ok (w', ms) -> is_admin (e_sender e) w = true).
  { intros o' Ho' H'. destruct (is_admin (e_sender e) w) eqn:A; [ reflexivity | ].
    destruct (wl_admin_only e w A) as (A1 & A2 & A3 & A4 & A5 & _).
    destruct o'; try contradiction; rewrite ?A1, ?A2, ?A3, ?A4, ?A5 in H'; discriminate. }
  unfold Auth.wl_step, Auth.can_modify. rewrite !is_admin_abs. unfold abs. cbn [Auth.w_mutable Auth.w_admins].
  destruct o as [t|t|ms0|ms0|n|n|l|]; cbn [msg_abs].
  - rewrite (Hadm (OUpdStart t) I H). destruct F as [A B]. rewrite A, B. destruct (w_kind w); reflexivity.
  - rewrite (Hadm (OUpdEnd t) I H). destruct F as [A B]. rewrite A, B. destruct (w_kind w); reflexivity.
  - rewrite (Hadm (OAdd ms0) I H). destruct F as [A B]. rewrite A, B.
    unfold exec in H; cbv zeta in H. destruct (w_kind w); try discriminate H; reflexivity.
  - rewrite (Hadm (ORemove ms0) I H). destruct F as [A B]. rewrite A, B.
    unfold exec in H; cbv zeta in H. destruct (w_kind w); try discriminate H; reflexivity.
  - rewrite (Hadm (OUpdPal n) I H). destruct F as [A B]. rewrite A, B.
    unfold exec in H; cbv zeta in H. destruct (w_kind w); try discriminate H; reflexivity.
  - destruct F as [A B]. rewrite A, B.
    unfold exec in H; cbv zeta in H. destruct (w_kind w); try discriminate H; reflexivity.
  - destruct F as (C & A & B). unfold can_modify in C. rewrite C. rewrite A, B. destruct (w_kind w); reflexivity.
  - destruct F as (C & A & B). unfold can_modify in C. rewrite C. rewrite A, B. destruct (w_kind w); reflexivity.
Qed.
End Oracle.
End FullWl.

(* ====================================================================== *)
(* tiered whitelists: tiered / tiered-flex handlers incl. admin list (WlTiered.v) *)
(* ====================================================================== *)
Module FullTiered.
Import Wl WlTiered.

Section Oracle.
Variable valid : addr -> bool.
Variable self : addr.

Theorem tiered_admin_only e w :
  t_is_admin (e_sender e) w = false ->
  (forall k ms, t_exec valid self e (TAdd k ms) w = Err) /\
  (forall k ms, t_exec valid self e (TRemove k ms) w = Err) /\
  (forall s ms, t_exec valid self e (TAddStage s ms) w = Err) /\
  (forall k, t_exec valid self e (TRemoveStage k) w = Err) /\
  (forall k a b c, t_exec valid self e (TUpdStage k a b c) w = Err) /\
  (forall l, t_exec valid self e (TUpdAdmins l) w = Err) /\
  t_exec valid self e TFreeze w = Err.
Proof.
  intros H. unfold t_exec, t_can_modify; cbv zeta. rewrite H, andb_false_r.
  repeat split; intros; reflexivity.
Qed.

Theorem tiered_frozen_rejects e w :
  t_mutable w = false ->
  (forall l, t_exec valid self e (TUpdAdmins l) w = Err) /\ t_exec valid self e TFreeze w = Err.
Proof. intros H. unfold t_exec, t_can_modify. rewrite H. split; intros; reflexivity. Qed.

Theorem tiered_exec_admins e o w w' ms :
  t_exec valid self e o w = Ok (w', ms) ->
  match o with
  | TUpdAdmins l => t_can_modify (e_sender e) w = true /\ t_admins w' = l /\ t_mutable w' = t_mutable w
  | TFreeze => t_can_modify (e_sender e) w = true /\ t_admins w' = t_admins w /\ t_mutable w' = false
  | _ => t_admins w' = t_admins w /\ t_mutable w' = t_mutable w
  end.
Proof.
  unfold t_exec; cbv zeta. intros H. destruct o.
  - repeat step_hyp H. inv H. cbn. auto.
  - repeat step_hyp H. inv H. cbn. auto.
  - repeat step_hyp H. inv H. cbn. auto.
  - repeat step_hyp H. inv H. cbn. auto.
  - repeat step_hyp H. inv H. cbn. auto.
  - repeat step_hyp H; inv H; cbn; auto.
  - bind_in H u Hu. bind_in H u2 Hu2. inv H. cbn. unfold guard in Hu. destruct (t_can_modify (e_sender e) w); [ auto | discriminate ].
  - bind_in H u Hu. inv H. cbn. unfold guard in Hu. destruct (t_can_modify (e_sender e) w); [ auto | discriminate ].
Qed.

Theorem tiered_frozen_forever h : forall w,
  t_mutable w = false ->
  t_admins (t_run valid self h w) = t_admins w /\ t_mutable (t_run valid self h w) = false.
Proof.
  induction h as [|[e o] h IH]; intros w Hm; cbn [t_run fold_left]; [ auto | ].
  change (t_admins (t_run valid self h (t_step valid self w (e, o))) = t_admins w /\
          t_mutable (t_run valid self h (t_step valid self w (e, o))) = false).
  assert (S : t_admins (t_step valid self w (e, o)) = t_admins w /\ t_mutable (t_step valid self w (e, o)) = false).
  { unfold t_step. cbn [fst snd]. destruct (t_exec valid self e o w) as [[w' ms]|] eqn:E; [ | auto ].
    pose proof (tiered_exec_admins _ _ _ _ _ E) as F.
    destruct o; try (destruct F as [A B]; rewrite A, B; auto);
      destruct F as [C _]; unfold t_can_modify in C; rewrite Hm in C; discriminate. }
  destruct S as [SA SM]. destruct (IH _ SM) as [A B]. rewrite A, B, SA. auto.
Qed.
Theorem tiered_frozen_statement h w :
  t_mutable w = false ->
  (forall e l, t_exec valid self e (TUpdAdmins l) w = Err) /\
  (forall e, t_exec valid self e TFreeze w = Err) /\
  t_admins (t_run valid self h w) = t_admins w /\ t_mutable (t_run valid self h w) = false.
Proof.
  intros H.
  split; [ intros e l; exact (proj1 (tiered_frozen_rejects e w H) l) | ].
  split; [ intros e; exact (proj2 (tiered_frozen_rejects e w H)) | ].
  exact (tiered_frozen_forever h w H).
Qed.
End Oracle.
End FullTiered.

(* ====================================================================== *)
(* the stage handlers of the three tiered kinds (Stages.v)                 *)
(* ====================================================================== *)
(* Stages.v keeps the admin list constant (it has no UpdateAdmins / Freeze and no
   `mutable` flag): the admin-list clauses of tiered and tiered-flex are in FullTiered
   above, those of tiered-whitelist-merkletree stay with Part 2 (model/Auth.v). *)
Module FullStages.
Import Stages StagesProofs.

Definition op_sender (o : op) : N :=
  match o with
  | AddStage s _ _ | RemoveStage s _ | UpdateStage s _ _ _ _ _ _ _ | AddMembers s _ _ | RemoveMembers s _ _ => s
  end.

(* C13's only_admins_change in the C05 wording: a non-admin's stage or member message is
   refused, for plain, flex and Merkle tiered whitelists *)
Theorem stages_admin_only w now o : is_admin w (op_sender o) = false -> step w now o = Err.
Proof.
  intros H. apply never_ok_err. intros w' E. apply only_admins_change in E.
  unfold op_sender in H. destruct o; rewrite E in H; discriminate.
Qed.

Lemma stages_admins_constant w now o w' : step w now o = Ok w' -> w_admins w' = w_admins w.
Proof.
  destruct o; cbn [step]; unfold exec_add_stage, exec_remove_stage, exec_update_stage, exec_add_members, exec_remove_members;
    intros H; repeat step_hyp H; inv H; reflexivity.
Qed.
End FullStages.

(* ====================================================================== *)
(* sg-splits with its cw4-group and the bank (Splits.v)                    *)
(* ====================================================================== *)
Module FullSplits.
Import Splits SplitsProofs.

(* distribution iff admin, or member when no admin is set (C15_entitled), and what that
   means for the call *)
Theorem splits_distribute_needs_entitlement w s dl :
  can_distribute w s = false -> distribute w s dl = Err /\ step w (Distribute s dl) = Err.
Proof.
  intros H. assert (D : distribute w s dl = Err) by (unfold distribute; rewrite H; reflexivity).
  split; [ exact D | ]. cbn [step]. rewrite D. reflexivity.
Qed.

Theorem splits_distribute_rejected w s dl :
  (forall a, w_admin w = Some a -> s <> a -> step w (Distribute s dl) = Err) /\
  (w_admin w = None -> (forall m, In m (w_members w) -> m_addr m <> s) -> step w (Distribute s dl) = Err).
Proof.
  split.
  - intros a Ha Hn. apply splits_distribute_needs_entitlement. unfold can_distribute. rewrite Ha.
    rewrite N.eqb_sym. apply neq_eqb. exact Hn.
  - intros Ha Hm. apply splits_distribute_needs_entitlement.
    destruct (can_distribute w s) eqn:C; [ | reflexivity ].
    apply can_distribute_spec in C. rewrite Ha in C. destruct C as (m & Hin & Hs). exfalso. exact (Hm m Hin Hs).
Qed.

Theorem splits_update_admin_only_admin w s na :
  w_admin w <> Some s -> step w (UpdateAdmin s na) = Err.
Proof.
  intros H. cbn [step]. destruct (w_admin w) as [a|]; [ | reflexivity ].
  destruct (a =? s) eqn:E; [ apply N.eqb_eq in E; subst; contradiction H; reflexivity | reflexivity ].
Qed.

(* the admin moves only by the admin's UpdateAdmin *)
Theorem splits_admin_frame w o w' :
  step w o = Ok w' -> w_admin w' <> w_admin w ->
  exists s na, o = UpdateAdmin s na /\ w_admin w = Some s /\ w_admin w' = na.
Proof.
  destruct o; cbn [step]; intros H Hd.
  - inv H. contradiction Hd. reflexivity.
  - bind_in H ms Hms. inv H. contradiction Hd. reflexivity.
  - destruct (w_admin w) as [a|] eqn:Ea; [ | discriminate ].
    destruct (a =? sender) eqn:E; [ | discriminate ]. apply N.eqb_eq in E. subst a. inv H.
    exists sender, new_admin. cbn. auto.
  - bind_in H msgs Hm. destruct (exec_sends (w_bank w) (w_self w) msgs); [ | discriminate ]. inv H.
    contradiction Hd. reflexivity.
Qed.

Theorem splits_distribute_statement w s denoms :
  (can_distribute w s = true <->
     match w_admin w with
     | Some a => a = s
     | None => exists m, In m (w_members w) /\ m_addr m = s
     end) /\
  (can_distribute w s = false -> distribute w s denoms = Err /\ step w (Distribute s denoms) = Err) /\
  (forall a, w_admin w = Some a -> s <> a -> step w (Distribute s denoms) = Err) /\
  (w_admin w = None -> (forall m, In m (w_members w) -> m_addr m <> s) -> step w (Distribute s denoms) = Err).
Proof.
  exact (conj (can_distribute_spec w s)
        (conj (splits_distribute_needs_entitlement w s denoms) (splits_distribute_rejected w s denoms))).
Qed.

(* ---- agreement with model/Auth.v ---- *)
Definition abs (w : world) : Auth.sstate := Auth.mkSS (w_admin w) (map m_addr (w_members w)).

Lemma can_distribute_abs w s : Auth.can_distribute (abs w) s = can_distribute w s.
Proof.
  unfold Auth.can_distribute, can_distribute, abs. cbn [Auth.sp_admin Auth.sp_members].
  destruct (w_admin w); [ reflexivity | ].
  unfold Auth.mem, is_member. induction (w_members w) as [|m l IH]; cbn [map existsb]; [ reflexivity | ].
  rewrite IH. reflexivity.
Qed.

(* Distribute: Auth.v refuses exactly the senders the full model refuses on entitlement;
   UpdateAdmin: the two models agree exactly, state included *)
Theorem splits_agrees_distribute w s :
  Auth.splits_step (abs w) s Auth.SDistribute = Err <-> can_distribute w s = false.
Proof.
  cbn [Auth.splits_step]. rewrite can_distribute_abs. destruct (can_distribute w s); split; congruence.
Qed.

Theorem splits_agrees_distribute_ok w s dl w' :
  step w (Distribute s dl) = Ok w' -> Auth.splits_step (abs w) s Auth.SDistribute = Ok (abs w').
Proof.
  intros H. cbn [Auth.splits_step]. rewrite can_distribute_abs.
  destruct (can_distribute w s) eqn:C.
  - cbn [step] in H. bind_in H msgs Hm. destruct (exec_sends (w_bank w) (w_self w) msgs); [ | discriminate ]. inv H. reflexivity.
  - destruct (splits_distribute_needs_entitlement w s dl C) as [_ E]. rewrite E in H. discriminate.
Qed.

Theorem splits_agrees_update_admin w s na :
  match step w (UpdateAdmin s na), Auth.splits_step (abs w) s (Auth.SUpdateAdmin na) with
  | Ok w', Ok a' => a' = abs w'
  | Err, Err => True
  | _, _ => False
  end.
Proof.
  cbn [step Auth.splits_step]. unfold abs. cbn [Auth.sp_admin Auth.sp_members Auth.opt_is].
  destruct (w_admin w) as [a|]; cbn [Auth.opt_is]; [ | exact I ].
  destruct (a =? s); [ reflexivity | exact I ].
Qed.
End FullSplits.

(* ====================================================================== *)
(* factories (Params.v)                                                    *)
(* ====================================================================== *)
(* In Params.v the only ExecuteMsg of a factory, CreateMinter, is a function
   `params -> request -> result unit`: it reads the parameters and has no successor
   parameters at all; only the sudo functions return parameters.  Spelled out over mixed
   histories: the parameters after any interleaving of governance updates and user
   CreateMinter calls are those after the governance updates alone. *)
Module FullFactory.
Import Params.

Inductive fcall (M R : Type) := GovUpdate (m : M) | UserCreate (r : R).
Arguments GovUpdate {M R}. Arguments UserCreate {M R}.

Definition fapply {P M R} (upd : P -> M -> result P) (create : P -> R -> result unit) (p : P) (c : fcall M R) : P :=
  match c with
  | GovUpdate m => match upd p m with Ok q => q | Err => p end
  | UserCreate r => match create p r with Ok tt => p | Err => p end   (* accepted or refused: no new parameters *)
  end.
Definition frun {P M R} upd create (p : P) (cs : list (fcall M R)) : P := fold_left (fapply upd create) cs p.

Fixpoint gov_only {M R} (cs : list (fcall M R)) : list M :=
  match cs with
  | [] => []
  | GovUpdate m :: r => m :: gov_only r
  | UserCreate _ :: r => gov_only r
  end.

Theorem params_move_only_by_sudo {P M R} (upd : P -> M -> result P) (create : P -> R -> result unit) cs :
  forall p, frun upd create p cs = apply_seq upd p (gov_only cs).
Proof.
  unfold frun, apply_seq. induction cs as [|c cs IH]; intros p; cbn [fold_left gov_only]; [ reflexivity | ].
  destruct c as [m|r]; cbn [fapply fold_left gov_only].
  - apply IH.
  - destruct (create p r) as [[]|]; apply IH.
Qed.

Theorem user_messages_alone_keep_params {P M R} (upd : P -> M -> result P) (create : P -> R -> result unit) (rs : list R) p :
  frun upd create p (map UserCreate rs) = p.
Proof.
  rewrite params_move_only_by_sudo. assert (E : gov_only (map (@UserCreate M R) rs) = []) by (induction rs; cbn; auto).
  rewrite E. reflexivity.
Qed.

Theorem four_factories :
  (forall calls p, frun base_sudo base_create p calls = apply_seq base_sudo p (gov_only calls)) /\
  (forall calls p, frun vending_sudo vending_create p calls = apply_seq vending_sudo p (gov_only calls)) /\
  (forall calls p, frun oe_sudo oe_create p calls = apply_seq oe_sudo p (gov_only calls)) /\
  (forall calls p, frun tm_sudo tm_create p calls = apply_seq tm_sudo p (gov_only calls)).
Proof. repeat split; intros; apply params_move_only_by_sudo. Qed.
End FullFactory.
