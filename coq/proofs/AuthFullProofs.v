(* C05 Part 3 — the authorization clauses over the FULL handler models of the other
   properties (MinterOpen, TokenMerge, Collection, Wl, WlTiered, Stages, Splits, Params),
   and agreement of model/Auth.v with them.  One module per family: the models reuse
   names (step, env, is_admin, ...), so each is imported only inside its module. *)
From LP Require Import Prelude.
From LP Require MinterVending MinterVendingProofs MinterOpen MinterOpenProofs TokenMerge TokenMergeProofs.
From LP Require Collection CollectionProofs Wl WlSchedProofs WlTiered Stages StagesProofs Splits SplitsProofs Params.
From LP Require Auth AuthProofs.
From Coq Require Import ZArith Lia.
Local Open Scope N_scope.

Lemma neq_eqb (a b : N) : a <> b -> (a =? b) = false.
Proof. intros H. apply N.eqb_neq. exact H. Qed.

(* generic destructuring of handler results (as in MinterVendingProofs, restated here
   because that file's other names would shadow the models imported below) *)
Ltac inv H := inversion H; subst; clear H.
Lemma bind_ok' {A B} (r : result A) (f : A -> result B) b :
  bind r f = Ok b -> exists a, r = Ok a /\ f a = Ok b.
Proof. destruct r as [a|]; cbn [bind]; intros H; [ eauto | discriminate ]. Qed.
Ltac step_hyp H :=
  match type of H with
  | bind ?r ?f = Ok _ =>
      let a := fresh "a" in let Ha := fresh "Ha" in
      apply bind_ok' in H; destruct H as [a [Ha H]]
  | (if ?c then _ else _) = Ok _ =>
      let E := fresh "E" in destruct c eqn:E; [ | ]; try discriminate H
  | (let '(_, _) := ?p in _) = Ok _ => destruct p
  | (match ?x with _ => _ end) = Ok _ =>
      let E := fresh "E" in destruct x eqn:E; try discriminate H
  | Err = Ok _ => discriminate H
  end.
Ltac bind_in H x Hx := apply bind_ok' in H; destruct H as [x [Hx H]].

(* a result that is never Ok is Err *)
Lemma never_ok_err {A} (r : result A) : (forall x, r = Ok x -> False) -> r = Err.
Proof. destruct r as [x|]; [ intros H; exfalso; eapply H; reflexivity | reflexivity ]. Qed.

(* ====================================================================== *)
(* open-edition minters and the base minter (MinterOpen.v)                 *)
(* ====================================================================== *)
Module FullOE.
Import MinterVending MinterVendingProofs MinterOpen MinterOpenProofs.

Lemma not_o_admin s e : e_sender e <> o_admin s -> o_is_admin s e = false.
Proof. intros H. unfold o_is_admin. apply neq_eqb. exact H. Qed.

Ltac nonadmin H :=
  cbn [ostep];
  rewrite ?(not_o_admin _ _ H);
  repeat match goal with
         | |- context [bind (nonpayable ?f) _] => destruct (nonpayable f); cbn [bind]
         | |- context [negb ?b] => is_var b; destruct b; cbn [negb]
         end;
  cbn [negb]; try reflexivity.

(* the eight admin-gated handlers of the open-edition ExecuteMsg *)
Theorem oe_nonadmin_rejected vr s e fp wv :
  e_sender e <> o_admin s ->
  (forall rok r, ostep vr s e fp wv (EMintTo rok r) = Err) /\
  ostep vr s e fp wv EBurnRemaining = Err /\
  (forall p, ostep vr s e fp wv (EUpdateMintPrice p) = Err) /\
  (forall t, ostep vr s e fp wv (EUpdateStartTime t) = Err) /\
  (forall t, ostep vr s e fp wv (EUpdateEndTime t) = Err) /\
  (forall t, ostep vr s e fp wv (EUpdateStartTradingTime t) = Err) /\
  (forall l, ostep vr s e fp wv (EUpdatePerAddressLimit l) = Err) /\
  (forall wok w nv, ostep vr s e fp wv (ESetWhitelist wok w nv) = Err).
Proof. intros H. repeat split; intros; nonadmin H. Qed.

Definition oe_admin_op (o : eop) : bool :=
  match o with EMint _ _ _ | EPurge => false | _ => true end.

Lemma oe_admin_op_rejected vr s e fp wv o :
  oe_admin_op o = true -> e_sender e <> o_admin s -> ostep vr s e fp wv o = Err.
Proof.
  intros Ho H. destruct (oe_nonadmin_rejected vr s e fp wv H) as (A & B & C & D & E & F & G & I).
  destruct o; try discriminate Ho; auto.
Qed.

Lemma o_bump_counts_admin s e wv isp s1 : o_bump_counts s e wv isp = Ok s1 -> o_admin s1 = o_admin s.
Proof.
  unfold o_bump_counts. intros H. destruct isp.
  - repeat step_hyp H. inv H. reflexivity.
  - destruct (o_whitelist s); [ | discriminate ]. destruct wv as [v|]; [ | discriminate ].
    bind_in H c3 Hc3. destruct c3 as [[cnt tiered] stage]. bind_in H c Hc.
    destruct tiered.
    + destruct stage as [st|]; [ | discriminate ].
      destruct st as [|st]; [ discriminate | ].
      destruct st as [st|st|]; try (destruct st; try discriminate); repeat step_hyp H; inv H; reflexivity.
    + inv H. reflexivity.
Qed.

Lemma o_execute_mint_admin vr s e fp wv adm rcp isp s' ms :
  o_execute_mint vr s e fp wv adm rcp isp = Ok (s', ms) -> o_admin s' = o_admin s.
Proof.
  unfold o_execute_mint. intros H.
  destruct (match o_mintable s with Some 0 => true | _ => false end); [ discriminate | ].
  bind_in H pr Hpr. destruct pr as [amount dn].
  bind_in H payment Hpay.
  destruct (negb (payment =? amount)); [ discriminate | ].
  match type of H with (if ?c then _ else _) = _ => destruct c; [ discriminate | ] end.
  bind_in H fmsgs Hf. bind_in H tid Htid. bind_in H s1 Hs1. bind_in H total' Ht.
  bind_in H airdrops' Ha. bind_in H amt Hamt. inv H.
  cbn. eapply o_bump_counts_admin; eauto.
Qed.

Theorem oe_admin_constant vr s e fp wv o s' ms :
  ostep vr s e fp wv o = Ok (s', ms) -> o_admin s' = o_admin s.
Proof.
  intros H. destruct o; cbn [ostep] in H;
    try (repeat step_hyp H; first [ eapply o_execute_mint_admin; eassumption | inv H; reflexivity ]).
Qed.

Lemma o_apply_admin vr s c : o_admin (o_apply vr s c) = o_admin s.
Proof.
  unfold o_apply.
  destruct (ostep vr s (oc_env c) (oc_fp c) (oc_wv c) (oc_op c)) as [[s' ms]|] eqn:E; [ | reflexivity ].
  eapply oe_admin_constant; eauto.
Qed.

Theorem oe_admin_constant_run vr cs : forall s, o_admin (orun vr s cs) = o_admin s.
Proof.
  induction cs as [|c cs IH]; intros s; cbn [orun fold_left]; [ reflexivity | ].
  change (o_admin (orun vr (o_apply vr s c) cs) = o_admin s). rewrite IH. apply o_apply_admin.
Qed.

Theorem oe_nonadmin_rejected_after_history vr s cs c :
  oe_admin_op (oc_op c) = true -> e_sender (oc_env c) <> o_admin s ->
  ostep vr (orun vr s cs) (oc_env c) (oc_fp c) (oc_wv c) (oc_op c) = Err /\
  o_apply vr (orun vr s cs) c = orun vr s cs.
Proof.
  intros Ho H.
  assert (E : ostep vr (orun vr s cs) (oc_env c) (oc_fp c) (oc_wv c) (oc_op c) = Err).
  { apply oe_admin_op_rejected; [ exact Ho | ]. rewrite oe_admin_constant_run. exact H. }
  split; [ exact E | ]. unfold o_apply. rewrite E. reflexivity.
Qed.

(* base minter: both handlers compare the sender with the creator the collection answers *)
Theorem base_only_creator s e creator bps o :
  creator <> Some (e_sender e) -> bstep s e creator bps o = Err.
Proof.
  intros H. destruct o; cbn [bstep].
  - destruct creator as [c|]; [ | reflexivity ].
    destruct (c =? e_sender e) eqn:E; [ apply N.eqb_eq in E; subst; contradiction H; reflexivity | reflexivity ].
  - destruct (nonpayable (e_funds e)); cbn [bind]; [ | reflexivity ].
    destruct creator as [c|]; [ | reflexivity ].
    destruct (e_sender e =? c) eqn:E; [ apply N.eqb_eq in E; subst; contradiction H; reflexivity | reflexivity ].
Qed.

(* agreement with model/Auth.v: whatever the full model accepts, Auth.v authorizes *)
Definition kind_of (o : eop) : Auth.mkind :=
  match o with
  | EMint _ _ _ => Auth.KMint | EMintTo _ _ => Auth.KMintTo | EPurge => Auth.KPurge
  | EBurnRemaining => Auth.KBurnRemaining | EUpdateMintPrice _ => Auth.KUpdateMintPrice
  | EUpdateStartTime _ => Auth.KUpdateStartTime | EUpdateEndTime _ => Auth.KUpdateEndTime
  | EUpdateStartTradingTime _ => Auth.KUpdateStartTradingTime
  | EUpdatePerAddressLimit _ => Auth.KUpdatePerAddressLimit | ESetWhitelist _ _ _ => Auth.KSetWhitelist
  end.

Theorem oe_agrees vr s e fp wv o s' ms creator status params :
  ostep vr s e fp wv o = Ok (s', ms) ->
  Auth.minter_step Auth.FOpenEdition (Auth.mkMS (o_admin s) creator status params) (e_sender e) (kind_of o)
  = Ok (Auth.mkMS (o_admin s') creator status params).
Proof.
  intros H. rewrite (oe_admin_constant _ _ _ _ _ _ _ _ H).
  destruct (N.eq_dec (e_sender e) (o_admin s)) as [Heq|Hne].
  - unfold Auth.minter_step. cbn [Auth.m_admin]. rewrite Heq, N.eqb_refl.
    destruct o; reflexivity.
  - destruct (oe_admin_op o) eqn:Ho.
    + rewrite (oe_admin_op_rejected _ _ _ _ _ _ Ho Hne) in H. discriminate.
    + destruct o; try discriminate Ho; reflexivity.
Qed.

Theorem base_agrees s e creator bps o s' ms c status params :
  bstep s e creator bps o = Ok (s', ms) -> creator = Some c ->
  Auth.minter_step Auth.FBase (Auth.mkMS 0 c status params) (e_sender e)
    (match o with BMint _ => Auth.KMint | BUpdateStartTradingTime _ => Auth.KUpdateStartTradingTime end)
  = Ok (Auth.mkMS 0 c status params).
Proof.
  intros H Hc. subst creator.
  assert (E : e_sender e = c).
  { destruct (N.eq_dec (e_sender e) c) as [|Hne]; [ assumption | ].
    rewrite base_only_creator in H; [ discriminate | congruence ]. }
  unfold Auth.minter_step. cbn [Auth.m_coll_creator]. rewrite E.
  destruct o; cbn; rewrite N.eqb_refl; reflexivity.
Qed.
End FullOE.

(* ====================================================================== *)
(* token-merge minter (TokenMerge.v)                                       *)
(* ====================================================================== *)
(* TokenMerge.v models ReceiveNft, MintTo, MintFor, Shuffle, Purge, BurnRemaining,
   UpdateStartTime, UpdatePerAddressLimit; UpdateStartTradingTime is not part of that
   model (Part 2 and Trading.v cover it). *)
Module FullTM.
Import TokenMerge TokenMergeProofs.

Theorem tm_nonadmin_rejected minter now st caller :
  caller <> tm_admin st ->
  (forall r funds pick, step minter now (OMintTo caller r funds pick) st = Err) /\
  (forall tid r funds, step minter now (OMintFor caller tid r funds) st = Err) /\
  (forall funds, step minter now (OBurnRemaining caller funds) st = Err) /\
  (forall t funds, step minter now (OUpdStart caller t funds) st = Err) /\
  (forall l funds, step minter now (OUpdLimit caller l funds) st = Err).
Proof.
  intros H. pose proof (neq_eqb _ _ H) as E. repeat split; intros; cbn [step].
  - unfold admin_mint, bind, guard. destruct (addr_ok r); [ | reflexivity ]. rewrite E. reflexivity.
  - unfold admin_mint, bind, guard. destruct (addr_ok r); [ | reflexivity ]. rewrite E. reflexivity.
  - unfold bind, guard. destruct (nonpayable funds); [ | reflexivity ]. rewrite E. reflexivity.
  - unfold bind, guard. destruct (nonpayable funds); [ | reflexivity ]. rewrite E. reflexivity.
  - unfold bind, guard. destruct (nonpayable funds); [ | reflexivity ]. rewrite E. reflexivity.
Qed.

Lemma take_token_admin r t st st' : take_token r t st = Ok st' -> tm_admin st' = tm_admin st.
Proof.
  unfold take_token, bind, guard. destruct (0 <? tm_mintable st); [ | discriminate ].
  destruct (existsb (N.eqb t) (tm_avail st)); [ | discriminate ].
  destruct (count st r + 1 <=? U32_MAX); [ | discriminate ]. intros [= <-]. reflexivity.
Qed.

Theorem tm_admin_constant minter now op st st' ms :
  step minter now op st = Ok (st', ms) -> tm_admin st' = tm_admin st.
Proof.
  destruct op; cbn [step].
  - unfold receive, bind, guard.
    destruct (tm_start st <? now); [ | discriminate ].
    destruct (addr_ok (recipient_of cw_sender recip)); [ | discriminate ].
    destruct (count st (recipient_of cw_sender recip) <? tm_limit st); [ | discriminate ].
    destruct (req_amount caller (tm_req st)) as [amt|]; [ | discriminate ].
    destruct (ledger st (recipient_of cw_sender recip) caller <? amt); [ | discriminate ].
    match goal with |- context [if ?c then _ else _] => destruct c end.
    + match goal with |- context [take_token ?r ?p ?s1] => destruct (take_token r p s1) as [st2|] eqn:Et; [ | discriminate ] end.
      intros [= <- <-]. apply take_token_admin in Et. cbn in *. exact Et.
    + intros [= <- <-]. reflexivity.
  - unfold admin_mint, bind, guard. destruct (addr_ok recipient); [ | discriminate ].
    destruct (caller =? tm_admin st); [ | discriminate ]. destruct (may_pay funds NATIVE) as [paid|]; [ | discriminate ].
    destruct (paid =? tm_airdrop_price st); [ | discriminate ].
    destruct (take_token recipient pick st) as [st2|] eqn:Et; [ | discriminate ].
    intros [= <- <-]. eapply take_token_admin; eauto.
  - unfold admin_mint, bind, guard. destruct (addr_ok recipient); [ | discriminate ].
    destruct (caller =? tm_admin st); [ | discriminate ].
    destruct (negb (tid =? 0) && (tid <=? tm_num_tokens st)); [ | discriminate ].
    destruct (may_pay funds NATIVE) as [paid|]; [ | discriminate ].
    destruct (paid =? tm_airdrop_price st); [ | discriminate ].
    destruct (take_token recipient tid st) as [st2|] eqn:Et; [ | discriminate ].
    intros [= <- <-]. eapply take_token_admin; eauto.
  - unfold bind, guard. destruct (checked_fair_burn _ _ _ _); [ | discriminate ].
    destruct (negb _); [ | discriminate ]. intros [= <- <-]. reflexivity.
  - unfold bind, guard. destruct (nonpayable _); [ | discriminate ].
    destruct (tm_mintable st =? 0); [ | discriminate ]. intros [= <- <-]. reflexivity.
  - unfold bind, guard. destruct (nonpayable _); [ | discriminate ].
    destruct (caller =? tm_admin st); [ | discriminate ].
    destruct (negb _); [ | discriminate ]. destruct (_ <=? _); [ | discriminate ]. intros [= <- <-]. reflexivity.
  - unfold bind, guard. destruct (nonpayable _); [ | discriminate ].
    destruct (caller =? tm_admin st); [ | discriminate ].
    destruct (now <? tm_start st); [ | discriminate ]. destruct (now <=? t); [ | discriminate ].
    destruct (_ <=? t); [ | discriminate ]. intros [= <- <-]. reflexivity.
  - unfold bind, guard. destruct (nonpayable _); [ | discriminate ].
    destruct (caller =? tm_admin st); [ | discriminate ].
    destruct (negb _ && _); [ | discriminate ]. destruct (dynamic_limit_ok _ _ _); [ | discriminate ].
    intros [= <- <-]. reflexivity.
Qed.

(* histories: grun threads (state, ghost); the admin never moves *)
Theorem tm_admin_constant_run minter h : forall sg, tm_admin (fst (grun minter h sg)) = tm_admin (fst sg).
Proof.
  induction h as [|[now op] h IH]; intros [st g]; cbn [grun fold_left]; [ reflexivity | ].
  change (tm_admin (fst (grun minter h (gstep minter (st, g) (now, op)))) = tm_admin st).
  rewrite IH. unfold gstep. destruct (step minter now op st) as [[st' ms]|] eqn:E; [ | reflexivity ].
  apply tm_admin_constant in E. destruct op; exact E.
Qed.
End FullTM.

(* ====================================================================== *)
(* collections (Collection.v: cw721-base + cw-ownable + sg721 + updatable + nt) *)
(* ====================================================================== *)
Module FullColl.
Import Collection CollectionProofs.

Lemma not_minter s who : o_owner (own s) <> Some who -> is_minter who s = false.
Proof.
  unfold is_minter. destruct (o_owner (own s)) as [o|]; [ | reflexivity ].
  intros H. destruct (o =? who) eqn:E; [ apply N.eqb_eq in E; subst; contradiction H; reflexivity | reflexivity ].
Qed.

Ltac unsupported ct o := unfold step; destruct (supports ct o); [ | reflexivity ]; cbn [exec].

(* token minting and trading-time updates (and offering / renouncing the role) only for
   the collection's minter = the current cw-ownable owner *)
Theorem coll_minter_only ct self e s :
  o_owner (own s) <> Some (sender e) ->
  (forall id owner uri, step ct self e (OMint id owner uri) s = Err) /\
  (forall t, step ct self e (OStartTrading t) s = Err) /\
  (forall new ex, step ct self e (OOwnTransfer new ex) s = Err) /\
  step ct self e OOwnRenounce s = Err.
Proof.
  intros H. pose proof (not_minter _ _ H) as E. repeat split; intros.
  - unsupported ct (OMint id owner uri). unfold mint. rewrite E. reflexivity.
  - unsupported ct (OStartTrading t). unfold update_start_trading_time. rewrite E. reflexivity.
  - unsupported ct (OOwnTransfer new ex). unfold own_transfer. rewrite E. reflexivity.
  - unsupported ct OOwnRenounce. unfold own_renounce. rewrite E. reflexivity.
Qed.

Theorem coll_accept_only_pending ct self e s :
  o_pending (own s) <> Some (sender e) -> step ct self e OOwnAccept s = Err.
Proof.
  intros H. unsupported ct OOwnAccept. unfold own_accept.
  destruct (o_pending (own s)) as [p|]; [ | reflexivity ].
  destruct (p =? sender e) eqn:E; [ apply N.eqb_eq in E; subst; contradiction H; reflexivity | reflexivity ].
Qed.

(* hand-over: a offers, b accepts (before the deadline, if any): now b is the minter, a
   is refused *)
Theorem coll_ownership_handover ct self e1 e2 s b ex :
  supports ct OOwnAccept = true ->
  o_owner (own s) = Some (sender e1) -> sender e2 = b ->
  (forall x, ex = Some x -> is_expired (now e2) x = false) ->
  exists s1 s2,
    step ct self e1 (OOwnTransfer b ex) s = Ok (s1, []) /\
    step ct self e2 OOwnAccept s1 = Ok (s2, []) /\
    o_owner (own s2) = Some b /\
    (sender e1 <> b -> forall e3 id owner uri t,
       sender e3 = sender e1 ->
       step ct self e3 (OMint id owner uri) s2 = Err /\ step ct self e3 (OStartTrading t) s2 = Err).
Proof.
  intros Hs Ho Hb Hx.
  assert (Hs' : supports ct (OOwnTransfer b ex) = true) by (destruct ct; try discriminate Hs; reflexivity).
  exists (set_own s (mkOwn (o_owner (own s)) (Some b) ex)), (set_own (set_own s (mkOwn (o_owner (own s)) (Some b) ex)) (mkOwn (Some b) None None)).
  split.
  { unfold step. rewrite Hs'. cbn [exec]. unfold own_transfer, is_minter. rewrite Ho, N.eqb_refl. reflexivity. }
  split.
  { unfold step. rewrite Hs. cbn [exec]. unfold own_accept. cbn [own set_own o_pending o_expiry].
    rewrite Hb, N.eqb_refl. cbn [negb].
    assert (X : (match ex with Some x => is_expired (now e2) x | None => false end) = false).
    { destruct ex as [x|]; [ apply Hx; reflexivity | reflexivity ]. }
    rewrite X. reflexivity. }
  split; [ reflexivity | ].
  intros Hne e3 id owner uri t He3.
  match goal with |- step ct self e3 _ ?s2 = _ /\ _ =>
    assert (Hn : o_owner (own s2) <> Some (sender e3)) by (cbn; rewrite He3; congruence);
    destruct (coll_minter_only ct self e3 s2 Hn) as (A & B & _) end.
  split; [ apply A | apply B ].
Qed.

(* collection-info, freeze and token-metadata updates only for the collection creator *)
Theorem coll_creator_only ct self e s :
  ci_creator (info s) <> sender e ->
  (forall m, step ct self e (OUpdateInfo m) s = Err) /\
  step ct self e OFreezeInfo s = Err /\
  (forall id uri, step ct self e (OUpdateTokenMd id uri) s = Err) /\
  step ct self e OFreezeTokenMd s = Err /\
  step ct self e OEnableUpdatable s = Err.
Proof.
  intros H. pose proof (neq_eqb _ _ H) as E. repeat split; intros.
  - unsupported ct (OUpdateInfo m). unfold update_collection_info. destruct (frozen s); [ reflexivity | ].
    rewrite E. reflexivity.
  - unsupported ct OFreezeInfo. unfold freeze_collection_info. rewrite E. reflexivity.
  - unsupported ct (OUpdateTokenMd id uri). unfold update_token_metadata.
    destruct (nonpayable (funds e)); cbn [bind quiet]; [ | reflexivity ]. rewrite E. reflexivity.
  - unsupported ct OFreezeTokenMd. unfold freeze_token_metadata.
    destruct (nonpayable (funds e)); cbn [bind quiet]; [ | reflexivity ]. rewrite E. reflexivity.
  - unsupported ct OEnableUpdatable. unfold enable_updatable. destruct (md_enabled s); [ reflexivity | ].
    rewrite E. reflexivity.
Qed.

(* creator hand-over: an accepted UpdateCollectionInfo naming c makes c the creator; the
   old creator is then refused *)
Theorem coll_creator_handover ct self e m s s' ms c :
  step ct self e (OUpdateInfo m) s = Ok (s', ms) -> u_creator m = Some c ->
  ci_creator (info s) = sender e /\ ci_creator (info s') = c /\
  (c <> sender e -> forall e', sender e' = sender e ->
     (forall m', step ct self e' (OUpdateInfo m') s' = Err) /\ step ct self e' OFreezeInfo s' = Err).
Proof.
  intros H Hc. apply step_exec in H. destruct H as [_ H]. cbn [exec] in H.
  apply quiet_ok in H. destruct H as [H _].
  pose proof (uci_ok _ _ _ _ H) as (_ & Hcr & _).
  assert (Hc' : ci_creator (info s') = c).
  { unfold update_collection_info in H. rewrite Hc in H.
    repeat step_hyp H; inv H; reflexivity. }
  split; [ exact Hcr | ]. split; [ exact Hc' | ].
  intros Hne e' He'.
  assert (Hn : ci_creator (info s') <> sender e') by (rewrite Hc', He'; exact Hne).
  destruct (coll_creator_only ct self e' s' Hn) as (A & B & _). split; [ exact A | exact B ].
Qed.

(* frozen => rejected for everyone, the creator included *)
Theorem coll_frozen_rejects ct self e m s : frozen s = true -> step ct self e (OUpdateInfo m) s = Err.
Proof. intros H. unsupported ct (OUpdateInfo m). unfold update_collection_info. rewrite H. reflexivity. Qed.

Theorem coll_md_frozen_rejects ct self e id uri s :
  md_frozen s = true -> step ct self e (OUpdateTokenMd id uri) s = Err.
Proof.
  intros H. unsupported ct (OUpdateTokenMd id uri). unfold update_token_metadata.
  destruct (nonpayable (funds e)); cbn [bind quiet]; [ | reflexivity ].
  destruct (negb (ci_creator (info s) =? sender e)); [ reflexivity | ]. rewrite H. reflexivity.
Qed.

(* both freezes are final over every history (re-exported from the C09 development) *)
Theorem coll_frozen_forever ct self l s : frozen s = true -> frozen (run ct self s l) = true.
Proof. intros H. exact (proj2 (frozen_is_final ct self l s H)). Qed.

Theorem coll_md_frozen_forever ct self l : forall s, md_frozen s = true -> md_frozen (run ct self s l) = true.
Proof.
  induction l as [|eo l IH]; intros s H; cbn [run fold_left]; [ exact H | ].
  change (md_frozen (run ct self (apply ct self s eo) l) = true). apply IH.
  unfold apply. destruct (step ct self (fst eo) (snd eo) s) as [[s' ms]|] eqn:E; [ | exact H ].
  eapply md_frozen_step; eauto.
Qed.

(* tokens move / burn only for owner, live approval or live operator; approvals only for
   owner or live operator *)
Theorem coll_token_ops ct self e id s :
  (forall t, tfind id (tokens s) = Some t -> check_can_send (now e) (sender e) s t = false) ->
  (forall to, step ct self e (OTransfer to id) s = Err) /\
  (forall to acc, step ct self e (OSend to id acc) s = Err) /\
  step ct self e (OBurn id) s = Err.
Proof.
  intros H. repeat split; intros.
  - unsupported ct (OTransfer to id). unfold transfer.
    destruct (tfind id (tokens s)) as [t|] eqn:F; [ rewrite (H t eq_refl) | ]; reflexivity.
  - unsupported ct (OSend to id acc). destruct acc; [ | reflexivity ]. unfold transfer.
    destruct (tfind id (tokens s)) as [t|] eqn:F; [ rewrite (H t eq_refl) | ]; reflexivity.
  - unsupported ct (OBurn id). unfold burn.
    destruct (tfind id (tokens s)) as [t|] eqn:F; [ rewrite (H t eq_refl) | ]; reflexivity.
Qed.

Theorem coll_approval_ops ct self e id sp s :
  (forall t, tfind id (tokens s) = Some t -> check_can_approve (now e) (sender e) s t = false) ->
  (forall ex, step ct self e (OApprove sp id ex) s = Err) /\ step ct self e (ORevoke sp id) s = Err.
Proof.
  intros H. split; intros.
  - unsupported ct (OApprove sp id ex). unfold approve.
    destruct (tfind id (tokens s)) as [t|] eqn:F; [ rewrite (H t eq_refl) | ]; reflexivity.
  - unsupported ct (ORevoke sp id). unfold approve.
    destruct (tfind id (tokens s)) as [t|] eqn:F; [ rewrite (H t eq_refl) | ]; reflexivity.
Qed.

(* ---- agreement with model/Auth.v on the role-reserved messages ---- *)
Definition exp_abs (x : expiration) : Auth.expiry :=
  match x with ExNever => Auth.ExNever | ExAt t => Auth.ExAtTime t end.
Definition kind_abs (ct : ctype) : Auth.collkind :=
  match ct with Base => Auth.Sg721Base | Updatable => Auth.Sg721Updatable | Onchain => Auth.Sg721Metadata | NT => Auth.Sg721Nt end.
(* the principal part of the state; Auth.v's token table is not needed for these messages *)
Definition abs (s : state) : Auth.cstate :=
  Auth.mkCS (Auth.mkOwn (o_owner (own s)) (o_pending (own s)) (option_map exp_abs (o_expiry (own s))))
            (ci_creator (info s)) (frozen s) (md_frozen s) (md_enabled s) [] [].
Definition msg_abs (o : op) : option Auth.cmsg :=
  match o with
  | OStartTrading _ => Some Auth.CUpdateStartTradingTime
  | OUpdateInfo m => Some (Auth.CUpdateCollectionInfo (u_creator m))
  | OFreezeInfo => Some Auth.CFreezeCollectionInfo
  | OOwnTransfer n ex => Some (Auth.CUpdateOwnership (Auth.TransferOwnership n (option_map exp_abs ex)))
  | OOwnAccept => Some (Auth.CUpdateOwnership Auth.AcceptOwnership)
  | OOwnRenounce => Some (Auth.CUpdateOwnership Auth.RenounceOwnership)
  | OFreezeTokenMd => Some Auth.CFreezeTokenMetadata
  | OEnableUpdatable => Some Auth.CEnableUpdatable
  | _ => None
  end.

Lemma is_minter_spec who s : is_minter who s = true -> o_owner (own s) = Some who.
Proof. apply is_minter_true. Qed.

(* whatever the full model accepts among the role-reserved messages that do not touch
   the token table, Auth.v authorizes from the abstracted state, and lands in the
   abstraction of the full model's next state *)
Theorem coll_agrees ct self e o s s' ms c height :
  step ct self e o s = Ok (s', ms) -> msg_abs o = Some c ->
  Auth.coll_step (kind_abs ct) (abs s) (Auth.mkAE (now e) height) (sender e) c = Ok (abs s').
Proof.
  intros H Hc. apply step_exec in H. destruct H as [Hs H].
  destruct o; try discriminate Hc; inv Hc; cbn [exec] in H.
  - (* UpdateInfo *)
    apply quiet_ok in H. destruct H as [H _]. pose proof (uci_ok _ _ _ _ H) as (Hf & Hcr & _ & _ & _ & Ho & Hfr & Hmf & Hme & _).
    assert (Hc' : ci_creator (info s') = match u_creator m with Some a => a | None => ci_creator (info s) end).
    { unfold update_collection_info in H. repeat step_hyp H; inv H; reflexivity. }
    unfold Auth.coll_step. assert (Hh : Auth.coll_has (kind_abs ct) (Auth.CUpdateCollectionInfo (u_creator m)) = true) by (destruct ct; reflexivity).
    rewrite Hh. cbn [negb abs Auth.c_frozen Auth.c_creator]. rewrite Hf, Hcr, N.eqb_refl. cbn [negb].
    unfold abs. rewrite Ho, Hfr, Hmf, Hme, Hc', Hf, Hcr. reflexivity.
  - (* StartTrading *)
    apply quiet_ok in H. destruct H as [H _]. unfold update_start_trading_time in H.
    destruct (is_minter (sender e) s) eqn:Em; [ | discriminate ]. inv H.
    apply is_minter_spec in Em.
    unfold Auth.coll_step. assert (Hh : Auth.coll_has (kind_abs ct) Auth.CUpdateStartTradingTime = true) by (destruct ct; try discriminate Hs; reflexivity).
    rewrite Hh. cbn [negb]. unfold Auth.assert_owner, Auth.is_owner. cbn. rewrite Em. cbn. rewrite N.eqb_refl. reflexivity.
  - (* FreezeInfo *)
    apply quiet_ok in H. destruct H as [H _]. unfold freeze_collection_info in H.
    destruct (ci_creator (info s) =? sender e) eqn:Ec; [ | discriminate ]. inv H.
    unfold Auth.coll_step. assert (Hh : Auth.coll_has (kind_abs ct) Auth.CFreezeCollectionInfo = true) by (destruct ct; reflexivity).
    rewrite Hh. cbn. rewrite Ec. reflexivity.
  - (* OwnTransfer *)
    apply quiet_ok in H. destruct H as [H _]. unfold own_transfer in H.
    destruct (is_minter (sender e) s) eqn:Em; [ | discriminate ]. inv H. apply is_minter_spec in Em.
    unfold Auth.coll_step.
    assert (Hh : Auth.coll_has (kind_abs ct) (Auth.CUpdateOwnership (Auth.TransferOwnership new (option_map exp_abs e0))) = true) by (destruct ct; try discriminate Hs; reflexivity).
    rewrite Hh. cbn. rewrite Em. rewrite N.eqb_refl. reflexivity.
  - (* OwnAccept *)
    apply quiet_ok in H. destruct H as [H _]. unfold own_accept in H.
    destruct (o_pending (own s)) as [p|] eqn:Ep; [ | discriminate ].
    destruct (p =? sender e) eqn:Eq; cbn [negb] in H; [ | discriminate ]. apply N.eqb_eq in Eq. subst p.
    destruct (match o_expiry (own s) with Some x => is_expired (now e) x | None => false end) eqn:Ex; [ discriminate | ]. inv H.
    unfold Auth.coll_step.
    assert (Hh : Auth.coll_has (kind_abs ct) (Auth.CUpdateOwnership Auth.AcceptOwnership) = true) by (destruct ct; try discriminate Hs; reflexivity).
    rewrite Hh. cbn. rewrite Ep. rewrite N.eqb_refl. cbn.
    assert (Ex' : match option_map exp_abs (o_expiry (own s)) with
                  | Some x => Auth.expired x (Auth.mkAE (now e) height) | None => false end = false).
    { destruct (o_expiry (own s)) as [x|]; [ | reflexivity ]. destruct x; exact Ex. }
    rewrite Ex'. reflexivity.
  - (* OwnRenounce *)
    apply quiet_ok in H. destruct H as [H _]. unfold own_renounce in H.
    destruct (is_minter (sender e) s) eqn:Em; [ | discriminate ]. inv H. apply is_minter_spec in Em.
    unfold Auth.coll_step.
    assert (Hh : Auth.coll_has (kind_abs ct) (Auth.CUpdateOwnership Auth.RenounceOwnership) = true) by (destruct ct; try discriminate Hs; reflexivity).
    rewrite Hh. cbn. rewrite Em. rewrite N.eqb_refl. reflexivity.
  - (* FreezeTokenMd *)
    apply quiet_ok in H. destruct H as [H _]. unfold freeze_token_metadata in H.
    bind_in H u Hu. destruct (ci_creator (info s) =? sender e) eqn:Ec; [ | discriminate ]. inv H.
    unfold Auth.coll_step. assert (Hh : Auth.coll_has (kind_abs ct) Auth.CFreezeTokenMetadata = true) by (destruct ct; try discriminate Hs; reflexivity).
    rewrite Hh. cbn. rewrite N.eqb_sym, Ec. reflexivity.
  - (* EnableUpdatable *)
    unfold enable_updatable in H. destruct (md_enabled s) eqn:En; [ discriminate | ].
    destruct (ci_creator (info s) =? sender e) eqn:Ec; cbn [negb] in H; [ | discriminate ].
    bind_in H m0 Hm. inv H.
    unfold Auth.coll_step. assert (Hh : Auth.coll_has (kind_abs ct) Auth.CEnableUpdatable = true) by (destruct ct; try discriminate Hs; reflexivity).
    rewrite Hh. cbn. rewrite En. rewrite N.eqb_sym, Ec. reflexivity.
Qed.
End FullColl.
