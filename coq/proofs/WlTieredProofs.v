(* Tiered / tiered-flex whitelist accounting and the immutable whitelist (C11). *)
From LP Require Import Wl WlTiered Consts NumLemmas Sg1Proofs WlSchedProofs WlMemProofs.
From Coq Require Import ZArith Lia ZifyN ZifyBool.
Local Open Scope N_scope.

(* ---------------- whitelist-immutable ---------------- *)
Lemma imm_inst_spec funds ms l c :
  imm_inst funds ms = Ok (l, c) ->
  funds = [] /\ NoDup l /\ c = nlen l /\ 1 <= c /\ (forall x, In x l <-> In x ms).
Proof.
  unfold imm_inst. intros H. binds H. injection H as <- <-.
  unfold nonpayable in R. destruct funds; [ | discriminate ].
  repeat apply conj; try reflexivity.
  - apply NoDup_sort_dedup.
  - unfold nlen in *. lia.
  - intros y. apply In_sort_dedup.
Qed.

Lemma imm_includes_iff a funds ms st :
  imm_inst funds ms = Ok st -> (imm_includes a st = true <-> In a ms).
Proof.
  destruct st as [l c]. intros H. apply imm_inst_spec in H as (_ & _ & _ & _ & Hin).
  unfold imm_includes. cbn [fst]. rewrite <- Hin, existsb_exists. split.
  - intros [x [Hx E]]. apply N.eqb_eq in E. subst. exact Hx.
  - intros Hx. exists a. split; [ exact Hx | apply N.eqb_refl ].
Qed.

Lemma imm_empty_rejected funds : imm_inst funds [] = Err.
Proof. unfold imm_inst. destruct (nonpayable funds); reflexivity. Qed.
