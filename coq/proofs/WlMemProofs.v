(* Membership accounting, capacity and fees of the plain / flex whitelist model (C11). *)
From LP Require Import Wl Consts NumLemmas Sg1Proofs WlSchedProofs.
From Coq Require Import ZArith Lia ZifyN ZifyBool.
Local Open Scope N_scope.


(* ---------------- the association list ---------------- *)
Lemma m_has_In a m : m_has a m = true <-> In a (keys m).
Proof.
  unfold m_has, keys. rewrite existsb_exists. split.
  - intros [p [Hin Hp]]. apply N.eqb_eq in Hp. subst a. apply in_map. exact Hin.
  - intros Hin. apply in_map_iff in Hin as [p [Hp Hin]]. exists p. split; [ exact Hin | ].
    apply N.eqb_eq. exact Hp.
Qed.

Lemma m_has_false a m : m_has a m = false <-> ~ In a (keys m).
Proof. rewrite <- m_has_In. destruct (m_has a m); split; congruence. Qed.

Lemma keys_del a m : keys (m_del a m) = filter (fun k => negb (k =? a)) (keys m).
Proof.
  unfold keys, m_del. induction m as [|[k v] t IH]; [ reflexivity | ].
  cbn [filter map fst]. destruct (k =? a); cbn [negb map fst]; rewrite IH; reflexivity.
Qed.

Lemma In_keys_del x a m : In x (keys (m_del a m)) <-> In x (keys m) /\ x <> a.
Proof.
  rewrite keys_del, filter_In. split; intros [H1 H2]; split; auto.
  - intros ->. rewrite N.eqb_refl in H2. discriminate.
  - apply negb_true_iff. apply N.eqb_neq. exact H2.
Qed.

Lemma NoDup_filter_N (f : N -> bool) l : NoDup l -> NoDup (filter f l).
Proof.
  induction 1 as [|x l Hx Hnd IH]; cbn [filter]; [ constructor | ].
  destruct (f x); [ constructor; [ | exact IH ] | exact IH ].
  intros Hin. apply filter_In in Hin as [Hin _]. contradiction.
Qed.

Lemma NoDup_keys_del a m : NoDup (keys m) -> NoDup (keys (m_del a m)).
Proof. rewrite keys_del. apply NoDup_filter_N. Qed.

Lemma NoDup_keys_set a c m : NoDup (keys m) -> NoDup (keys (m_set a c m)).
Proof.
  intros H. unfold m_set. cbn [keys map fst]. constructor.
  - fold (keys (m_del a m)). rewrite In_keys_del. intros [_ Hne]. apply Hne. reflexivity.
  - apply NoDup_keys_del. exact H.
Qed.

Lemma In_keys_set x a c m : In x (keys (m_set a c m)) <-> x = a \/ In x (keys m).
Proof.
  unfold m_set. cbn [keys map fst In]. fold (keys (m_del a m)). rewrite In_keys_del.
  destruct (N.eq_dec x a) as [->|Hne]; intuition.
Qed.

Lemma len_del_absent a m : ~ In a (keys m) -> m_del a m = m.
Proof.
  unfold m_del, keys. induction m as [|[k v] t IH]; intros Hn; [ reflexivity | ].
  cbn [filter fst]. cbn [map fst In] in Hn.
  destruct (k =? a) eqn:E.
  - apply N.eqb_eq in E. exfalso. apply Hn. left. exact E.
  - cbn [negb]. rewrite IH; [ reflexivity | ]. intros H. apply Hn. right. exact H.
Qed.

Lemma len_del_present a m :
  NoDup (keys m) -> In a (keys m) -> nlen (m_del a m) + 1 = nlen m.
Proof.
  unfold nlen, m_del, keys. induction m as [|[k v] t IH]; intros Hnd Hin; [ destruct Hin | ].
  cbn [map fst] in Hnd, Hin. inversion Hnd as [|? ? Hk Hnd']; subst.
  cbn [filter fst]. destruct (k =? a) eqn:E; cbn [negb].
  - apply N.eqb_eq in E. subst k.
    change (filter (fun p => negb (fst p =? a)) t) with (m_del a t).
    rewrite len_del_absent by exact Hk. cbn [length]. lia.
  - destruct Hin as [Heq|Hin]; [ apply N.eqb_neq in E; contradiction | ].
    specialize (IH Hnd' Hin). cbn [length]. lia.
Qed.

(* storing an address: one more entry when it was absent, the same number when present *)
Lemma len_set a c m :
  NoDup (keys m) -> nlen (m_set a c m) = if m_has a m then nlen m else nlen m + 1.
Proof.
  intros Hnd. unfold m_set. destruct (m_has a m) eqn:E.
  - apply m_has_In in E. pose proof (len_del_present a m Hnd E). unfold nlen in *. cbn [length]. lia.
  - apply m_has_false in E. rewrite len_del_absent by exact E. unfold nlen. cbn [length]. lia.
Qed.

(* ---------------- sort + dedup ---------------- *)
Lemma In_ins x a l : In x (ins a l) <-> x = a \/ In x l.
Proof.
  induction l as [|y t IH]; cbn [ins In]; [ intuition | ].
  destruct (a <? y); [ cbn [In]; intuition | ].
  destruct (a =? y) eqn:E.
  - apply N.eqb_eq in E. subst. cbn [In]. intuition.
  - cbn [In]. rewrite IH. intuition.
Qed.

Lemma In_sort_dedup x l : In x (sort_dedup l) <-> In x l.
Proof.
  unfold sort_dedup. induction l as [|a t IH]; cbn [fold_right In]; [ reflexivity | ].
  rewrite In_ins, IH. intuition.
Qed.

Inductive inc : list N -> Prop :=
| inc_nil : inc []
| inc_cons x l : Forall (fun y => x < y) l -> inc l -> inc (x :: l).

Lemma inc_ins a l : inc l -> inc (ins a l).
Proof.
  induction 1 as [|x l Hx Hl IH]; cbn [ins].
  - constructor; constructor.
  - destruct (a <? x) eqn:E1.
    + constructor; [ | constructor; assumption ].
      constructor; [ lia | ]. eapply Forall_impl; [ | exact Hx ]. cbn. intros y Hy. lia.
    + destruct (a =? x) eqn:E2; [ constructor; assumption | ].
      constructor; [ | exact IH ].
      apply Forall_forall. intros y Hy. apply In_ins in Hy as [->|Hy]; [ lia | ].
      rewrite Forall_forall in Hx. apply Hx. exact Hy.
Qed.

Lemma inc_NoDup l : inc l -> NoDup l.
Proof.
  induction 1 as [|x l Hx Hl IH]; constructor; [ | exact IH ].
  intros Hin. rewrite Forall_forall in Hx. specialize (Hx x Hin). lia.
Qed.

Lemma NoDup_sort_dedup l : NoDup (sort_dedup l).
Proof.
  apply inc_NoDup. unfold sort_dedup. induction l as [|a t IH]; cbn [fold_right]; [ constructor | ].
  apply inc_ins. exact IH.
Qed.

Lemma keys_ones l : keys (map (fun a : N => (a, 1)) l) = l.
Proof. unfold keys. rewrite map_map. cbn [fst]. apply map_id. Qed.

Lemma nlen_map {A B} (f : A -> B) l : nlen (map f l) = nlen l.
Proof. unfold nlen. rewrite map_length. reflexivity. Qed.

(* ---------------- fee arithmetic ---------------- *)
Ltac Zify.zify_post_hook ::= Z.div_mod_to_equations.

Lemma tiers_mono a b : a <= b -> tiers a <= tiers b.
Proof. unfold tiers. intros H. apply N.div_le_mono; lia. Qed.

Lemma tiers_pos a : 1 <= a -> 1 <= tiers a.
Proof. unfold tiers. intros H. lia. Qed.

Lemma price_plain : price_per_1000 KPlain = 100000000. Proof. reflexivity. Qed.
Lemma price_flex : price_per_1000 KFlex = 100000000. Proof. reflexivity. Qed.
Lemma max_plain : max_members KPlain = 5000. Proof. reflexivity. Qed.
Lemma max_flex : max_members KFlex = 5000. Proof. reflexivity. Qed.

Lemma fee_telescopes k old new :
  old <= new -> creation_fee k old + upgrade_fee k old new = creation_fee k new.
Proof.
  intros H. unfold creation_fee, upgrade_fee. pose proof (tiers_mono _ _ H) as Hm.
  destruct (tiers old <? tiers new) eqn:E.
  - rewrite <- N.mul_add_distr_r. f_equal. lia.
  - assert (tiers old = tiers new) by lia. rewrite N.add_0_r. congruence.
Qed.

Section Mem.
Variable valid : addr -> bool.
Variable self : addr.

(* a list whitelist (plain or flex) in a consistent state *)
Definition MemInv (w : wl) : Prop :=
  NoDup (keys (w_mem w)) /\ w_num w = nlen (w_mem w) /\
  w_num w <= w_limit w /\ w_limit w <= max_members (w_kind w).

(* ---------------- the loops ---------------- *)
Lemma flex_store_spec whale ms : forall num m num' m',
  flex_store valid whale ms num m = Ok (num', m') ->
  NoDup (keys m) -> num = nlen m + nlen ms ->
  NoDup (keys m') /\ num' = nlen m' /\ num' <= num /\
  (forall x, In x (keys m') <-> In x (keys m) \/ In x (map fst ms)).
Proof.
  induction ms as [|[a c] t IH]; intros num m num' m' H Hnd Hnum; cbn [flex_store] in H.
  - injection H as <- <-. unfold nlen in *. cbn [length] in Hnum. repeat apply conj; try lia; try assumption.
    intros x. cbn [map In]. intuition.
  - binds H. pose proof (len_set a c m Hnd) as Hlen.
    destruct (m_has a m) eqn:Eh.
    + unfold dec1 in R. destruct (1 <=? num) eqn:E1; [ | discriminate R ]. injection R as <-.
      destruct (IH _ _ _ _ H (NoDup_keys_set a c m Hnd)) as (A & B & C & D).
      { unfold nlen in *. cbn [length] in Hnum. lia. }
      repeat apply conj; try assumption; try lia. intros x; split.
      * intros Hx. apply D in Hx. rewrite In_keys_set in Hx. cbn [map fst In].
        apply m_has_In in Eh. destruct Hx as [[->|Hx]|Hx]; auto.
      * intros Hx. apply D. rewrite In_keys_set. cbn [map fst In] in Hx. intuition.
    + injection R as <-.
      destruct (IH _ _ _ _ H (NoDup_keys_set a c m Hnd)) as (A & B & C & D).
      { unfold nlen in *. cbn [length] in Hnum. lia. }
      repeat apply conj; try assumption; try lia. intros x; split.
      * intros Hx. apply D in Hx. rewrite In_keys_set in Hx. cbn [map fst In]. intuition.
      * intros Hx. apply D. rewrite In_keys_set. cbn [map fst In] in Hx. intuition.
Qed.

Lemma add_plain_spec ms : forall limit num m num' m',
  add_plain valid ms limit num m = Ok (num', m') ->
  NoDup (keys m) -> num = nlen m -> num <= limit ->
  NoDup (keys m') /\ num' = nlen m' /\ num' <= limit /\ num <= num' /\
  (forall x, In x (keys m') <-> In x (keys m) \/ In x ms).
Proof.
  induction ms as [|a t IH]; intros limit num m num' m' H Hnd Hnum Hle; cbn [add_plain] in H.
  - injection H as <- <-. repeat apply conj; try lia; try assumption. intros x; cbn [In]; intuition.
  - binds H. destruct (m_has a m) eqn:Eh.
    + destruct (IH _ _ _ _ _ H Hnd Hnum Hle) as (A & B & C & D & E).
      repeat apply conj; try assumption. intros x; split.
      * intros Hx. apply E in Hx. cbn [In]. intuition.
      * intros Hx. apply E. cbn [In] in Hx. apply m_has_In in Eh. destruct Hx as [Hx|[->|Hx]]; auto.
    + pose proof (len_set a 1 m Hnd) as Hlen. rewrite Eh in Hlen.
      destruct (IH _ _ _ _ _ H (NoDup_keys_set a 1 m Hnd)) as (A & B & C & D & E); try lia.
      repeat apply conj; try assumption; try lia. intros x; split.
      * intros Hx. apply E in Hx. rewrite In_keys_set in Hx. cbn [In]. intuition.
      * intros Hx. apply E. rewrite In_keys_set. cbn [In] in Hx. intuition.
Qed.

Lemma add_flex_spec ms : forall limit num m num' m',
  add_flex valid ms limit num m = Ok (num', m') ->
  NoDup (keys m) -> num = nlen m -> num <= limit ->
  NoDup (keys m') /\ num' = nlen m' /\ num' <= limit /\ num' = num + nlen ms /\
  NoDup (map fst ms) /\ (forall x, In x (map fst ms) -> ~ In x (keys m)) /\
  (forall x, In x (keys m') <-> In x (keys m) \/ In x (map fst ms)).
Proof.
  induction ms as [|[a c] t IH]; intros limit num m num' m' H Hnd Hnum Hle; cbn [add_flex] in H.
  - injection H as <- <-. unfold nlen in *. cbn [length map].
    repeat apply conj; try lia; try assumption.
    + constructor.
    + intros x [].
    + intros x; cbn [In]; intuition.
  - binds H. apply negb_true_iff in G1. pose proof (len_set a c m Hnd) as Hlen. rewrite G1 in Hlen.
    destruct (IH _ _ _ _ _ H (NoDup_keys_set a c m Hnd)) as (A & B & C & D & E & F & I); try lia.
    apply m_has_false in G1.
    cbn [map fst]. repeat apply conj; try assumption; try lia.
    + unfold nlen in *. cbn [length]. lia.
    + constructor; [ | exact E ]. intros Hin. apply (F a Hin). apply In_keys_set. left. reflexivity.
    + intros x [<-|Hx]; [ exact G1 | ]. intros Hk. apply (F x Hx). apply In_keys_set. right. exact Hk.
    + intros x; split.
      * intros Hx. apply I in Hx. rewrite In_keys_set in Hx. cbn [In]. intuition.
      * intros Hx. apply I. rewrite In_keys_set. cbn [In] in Hx. intuition.
Qed.

Lemma remove_loop_spec ms : forall num m num' m',
  remove_loop valid ms num m = Ok (num', m') ->
  NoDup (keys m) -> num = nlen m ->
  NoDup (keys m') /\ num' = nlen m' /\ num' + nlen ms = num /\
  NoDup ms /\ (forall x, In x ms -> In x (keys m)) /\
  (forall x, In x (keys m') <-> In x (keys m) /\ ~ In x ms).
Proof.
  induction ms as [|a t IH]; intros num m num' m' H Hnd Hnum; cbn [remove_loop] in H.
  - injection H as <- <-. unfold nlen in *. cbn [length].
    repeat apply conj; try lia; try assumption.
    + constructor.
    + intros x [].
    + intros x; cbn [In]; intuition.
  - binds H. apply m_has_In in G0. pose proof (len_del_present a m Hnd G0) as Hlen.
    unfold dec1 in R. destruct (1 <=? num) eqn:E1; [ | discriminate R ]. injection R as <-.
    destruct (IH _ _ _ _ H (NoDup_keys_del a m Hnd)) as (A & B & C & D & E & F); try lia.
    repeat apply conj; try assumption.
    + unfold nlen in *. cbn [length]. lia.
    + constructor; [ | exact D ]. intros Hin. apply E in Hin. apply In_keys_del in Hin as [_ Hne]. apply Hne. reflexivity.
    + intros x [<-|Hx]; [ exact G0 | ]. apply E in Hx. apply In_keys_del in Hx as [Hx _]. exact Hx.
    + intros x; split.
      * intros Hx. apply F in Hx as [Hx Hn]. apply In_keys_del in Hx as [Hx Hne]. cbn [In]. intuition.
      * intros [Hx Hn]. apply F. cbn [In] in Hn. split; [ apply In_keys_del; split; auto | auto ].
Qed.

(* ---------------- instantiate ---------------- *)
Lemma inst_mem k e m w ms :
  k <> KMerkle -> inst valid k self e m = Ok (w, ms) ->
  MemInv w /\ w_limit w = i_limit m /\ 1 <= w_limit w /\
  (forall x, In x (keys (w_mem w)) <-> In x (map fst (i_members m))).
Proof.
  intros Hk H. destruct k; [ | | contradiction ]; unfold inst in H; cbv zeta in H; binds H.
  - injection H as <- _. unfold MemInv. cbn [w_mem w_num w_limit w_kind].
    rewrite keys_ones, nlen_map. apply andb_true_iff in G as [G Gm]. fold (nlen (sort_dedup (map fst (i_members m)))) in *.
    repeat split; try lia.
    + apply NoDup_sort_dedup.
    + apply In_sort_dedup.
    + apply In_sort_dedup.
  - destruct x2 as [num' m']. injection H as <- _. unfold MemInv. cbn [w_mem w_num w_limit w_kind fst snd].
    apply andb_true_iff in G as [G Gm].
    destruct (flex_store_spec _ _ _ _ _ _ R2) as (A & B & C & D).
    { constructor. } { unfold nlen. cbn [length]. lia. }
    fold (nlen (i_members m)) in *.
    repeat split; try assumption; try lia.
    + intros Hx. apply D in Hx as [[]|Hx]. exact Hx.
    + intros Hx. apply D. right. exact Hx.
Qed.

(* ---------------- every accepted call ---------------- *)
Lemma exec_mem e o w w' ms :
  w_kind w <> KMerkle -> exec valid self e o w = Ok (w', ms) -> MemInv w ->
  MemInv w' /\ w_limit w <= w_limit w'.
Proof.
  intros Hk H (Hnd & Hnum & Hle & Hmax). unfold MemInv.
  unfold exec in H; cbv zeta in H. destruct o as [t|t|l|l|n|n|l|].
  - binds H. injection H as <- _. cbn [set_start w_mem w_num w_limit w_kind]. repeat split; auto; lia.
  - binds H. injection H as <- _. cbn [set_end w_mem w_num w_limit w_kind]. repeat split; auto; lia.
  - destruct (w_kind w) eqn:K; [ | | discriminate H ]; binds H;
      match goal with R : add_plain _ _ _ _ _ = Ok ?x |- _ => destruct x as [num' m']
                    | R : add_flex _ _ _ _ _ = Ok ?x |- _ => destruct x as [num' m'] end;
      injection H as <- _; cbn [set_members w_mem w_num w_limit w_kind fst snd]; rewrite K.
    + destruct (add_plain_spec _ _ _ _ _ _ R Hnd Hnum Hle) as (A & B & C & D & E).
      repeat split; auto; lia.
    + destruct (add_flex_spec _ _ _ _ _ _ R Hnd Hnum Hle) as (A & B & C & D & E).
      repeat split; auto; lia.
  - destruct (w_kind w) eqn:K; [ | | discriminate H ]; binds H;
      match goal with R : remove_loop _ _ _ _ = Ok ?x |- _ => destruct x as [num' m'] end;
      injection H as <- _; cbn [set_members w_mem w_num w_limit w_kind fst snd]; rewrite K;
      match goal with R : remove_loop _ _ _ _ = Ok _ |- _ =>
        destruct (remove_loop_spec _ _ _ _ _ R Hnd Hnum) as (A & B & C & D) end;
      repeat split; auto; lia.
  - destruct (w_kind w) eqn:K; try discriminate H; binds H. injection H as <- _.
    cbn [set_pal w_mem w_num w_limit w_kind]. rewrite K. repeat split; auto; lia.
  - destruct (w_kind w) eqn:K; [ | | discriminate H ]; binds H; injection H as <- _;
      cbn [set_limit w_mem w_num w_limit w_kind]; rewrite K; repeat split; auto; lia.
  - binds H. injection H as <- _. cbn [set_admins w_mem w_num w_limit w_kind]. repeat split; auto; lia.
  - binds H. injection H as <- _. cbn [set_admins w_mem w_num w_limit w_kind]. repeat split; auto; lia.
Qed.

(* what add / remove do to the stored set *)
Lemma exec_add_effect e l w w' ms :
  exec valid self e (OAdd l) w = Ok (w', ms) -> MemInv w ->
  (forall x, In x (keys (w_mem w')) <-> In x (keys (w_mem w)) \/ In x (map fst l)) /\
  (w_kind w = KFlex -> NoDup (map fst l) /\ (forall x, In x (map fst l) -> ~ In x (keys (w_mem w))) /\
                       w_num w' = w_num w + nlen l).
Proof.
  intros H (Hnd & Hnum & Hle & Hmax). unfold exec in H; cbv zeta in H.
  destruct (w_kind w) eqn:K; [ | | discriminate H ]; binds H;
    match goal with R : add_plain _ _ _ _ _ = Ok ?x |- _ => destruct x as [num' m']
                  | R : add_flex _ _ _ _ _ = Ok ?x |- _ => destruct x as [num' m'] end;
    injection H as <- _; cbn [set_members w_mem w_num fst snd].
  - destruct (add_plain_spec _ _ _ _ _ _ R Hnd Hnum Hle) as (A & B & C & D & E). split.
    + intros x. rewrite E, In_sort_dedup. reflexivity.
    + discriminate.
  - destruct (add_flex_spec _ _ _ _ _ _ R Hnd Hnum Hle) as (A & B & C & D & E & F & I). split.
    + exact I.
    + intros _. repeat split; assumption.
Qed.

Lemma exec_remove_effect e l w w' ms :
  exec valid self e (ORemove l) w = Ok (w', ms) -> MemInv w ->
  NoDup l /\ (forall x, In x l -> In x (keys (w_mem w))) /\
  (forall x, In x (keys (w_mem w')) <-> In x (keys (w_mem w)) /\ ~ In x l) /\
  w_num w' + nlen l = w_num w.
Proof.
  intros H (Hnd & Hnum & Hle & Hmax). unfold exec in H; cbv zeta in H.
  destruct (w_kind w) eqn:K; [ | | discriminate H ]; binds H;
    match goal with R : remove_loop _ _ _ _ = Ok ?x |- _ => destruct x as [num' m'] end;
    injection H as <- _; cbn [set_members w_mem w_num fst snd];
    match goal with R : remove_loop _ _ _ _ = Ok _ |- _ =>
      destruct (remove_loop_spec _ _ _ _ _ R Hnd Hnum) as (A & B & C & D & E & F) end;
    repeat apply conj; assumption.
Qed.

(* calls other than add / remove leave the stored members and the count alone *)
Lemma exec_mem_frame e o w w' ms :
  exec valid self e o w = Ok (w', ms) ->
  match o with OAdd _ | ORemove _ => True | _ => w_mem w' = w_mem w /\ w_num w' = w_num w end.
Proof.
  intros H. unfold exec in H; cbv zeta in H. destruct o; try exact I;
    try (destruct (w_kind w) eqn:K; try discriminate H); binds H; injection H as <- _; split; reflexivity.
Qed.

(* membership query *)
Lemma q_has_iff a w b : q_has valid a w = Ok b -> (b = true <-> In a (keys (w_mem w))).
Proof.
  unfold q_has. destruct (valid a); [ | discriminate ]. intros H. injection H as <-. apply m_has_In.
Qed.

(* ---------------- fees ---------------- *)
Definition pay_of (e : env) : N := match may_pay (e_funds e) NATIVE with Ok p => p | Err => 0 end.

Lemma burn_all fee funds ms :
  checked_fair_burn self funds fee None = Ok ms -> may_pay funds NATIVE = Ok fee -> 0 < fee ->
  ms = [Burn NATIVE (fee / 2); FundPool self NATIVE (fee - fee / 2)] /\ sum_out ms = fee.
Proof.
  intros H Hp Hpos. rewrite checked_fair_burn_cases, Hp in H.
  rewrite N.ltb_irrefl in H. destruct (fee =? 0) eqn:E; [ lia | ].
  injection H as <-. unfold fair_burn_spec. split; [ reflexivity | ].
  cbn [sum_out fold_right bmsg_amount]. lia.
Qed.

Lemma must_may funds p : must_pay funds NATIVE = Ok p -> may_pay funds NATIVE = Ok p.
Proof.
  intros H. apply must_pay_ok_shape in H as [-> _]. unfold may_pay. cbn [c_denom c_amount].
  rewrite N.eqb_refl. reflexivity.
Qed.

(* instantiate: the exact creation fee is paid and all of it leaves again *)
Lemma inst_fee k e m w ms :
  k <> KMerkle -> inst valid k self e m = Ok (w, ms) ->
  let fee := tiers (w_limit w) * 100000000 in
  e_funds e = [mkCoin NATIVE fee] /\
  ms = [Burn NATIVE (fee / 2); FundPool self NATIVE (fee - fee / 2)] /\ sum_out ms = fee.
Proof.
  intros Hk H. destruct k; [ | | contradiction ]; unfold inst in H; cbv zeta in H; binds H;
    [ rewrite <- price_plain | rewrite <- price_flex ];
    injection H as <- <-; cbn [w_limit];
    match goal with G : (_ =? creation_fee _ _) = true |- _ => apply N.eqb_eq in G; subst x end;
    apply andb_true_iff in G as [G Gm];
    pose proof (tiers_pos (i_limit m)) as Hpos;
    (assert (Hfee : 0 < creation_fee KPlain (i_limit m)) by (unfold creation_fee; rewrite price_plain; lia) ||
     assert (Hfee : 0 < creation_fee KFlex (i_limit m)) by (unfold creation_fee; rewrite price_flex; lia));
    pose proof (must_pay_ok_shape _ _ _ R) as [Hf _];
    pose proof (must_may _ _ R) as Hmay;
    match goal with R1 : checked_fair_burn _ _ _ _ = Ok _ |- _ =>
      destruct (burn_all _ _ _ R1 Hmay Hfee) as [Hms Hsum] end;
    fold (creation_fee KPlain (i_limit m)); fold (creation_fee KFlex (i_limit m));
    repeat split; assumption.
Qed.

(* every accepted call: what is paid in fees and what leaves *)
Lemma exec_fee e o w w' ms :
  w_kind w <> KMerkle -> exec valid self e o w = Ok (w', ms) ->
  match o with
  | OIncrease n =>
      let fee := (tiers n - tiers (w_limit w)) * 100000000 in
      w_limit w < n /\ w_limit w' = n /\ may_pay (e_funds e) NATIVE = Ok fee /\ sum_out ms = fee /\
      (ms = [] \/ ms = [Burn NATIVE (fee / 2); FundPool self NATIVE (fee - fee / 2)])
  | _ => ms = [] /\ w_limit w' = w_limit w
  end.
Proof.
  intros Hk H. unfold exec in H; cbv zeta in H. destruct o as [t|t|l|l|n|n|l|];
    try (destruct (w_kind w) eqn:K; try discriminate H; try contradiction);
    binds H; try (injection H as <- <-; split; reflexivity).
  all: apply andb_true_iff in G as [G Gm]; apply N.eqb_eq in G0; subst x;
    injection H as <- <-; cbn [set_limit w_limit];
    pose proof (tiers_mono (w_limit w) n ltac:(lia)) as Hm.
  all: match goal with |- context [price_per_1000] => idtac | _ => idtac end.
  all: unfold upgrade_fee in *; (rewrite price_plain in * || rewrite price_flex in * );
    destruct (tiers (w_limit w) <? tiers n) eqn:E.
  all: try (destruct (0 <? (tiers n - tiers (w_limit w)) * 100000000) eqn:Ep; [ | lia ];
            destruct (burn_all _ _ _ R0 R ltac:(lia)) as [Hms Hsum];
            repeat split; try lia; try assumption; right; assumption).
  all: cbn [N.ltb N.compare] in R0; injection R0 as <-;
    replace (tiers n - tiers (w_limit w)) with 0 by lia; cbn [N.mul];
    repeat split; try lia; try assumption; try reflexivity; left; reflexivity.
Qed.

(* ---------------- histories with an account of fees ---------------- *)
(* (state, fees paid so far, amount sent out so far) *)
Definition is_increase (o : op) : bool := match o with OIncrease _ => true | _ => false end.
Definition astep (s : wl * N * N) (eo : env * op) : wl * N * N :=
  let '(w, paid, out) := s in
  match exec valid self (fst eo) (snd eo) w with
  | Ok (w', ms) => (w', paid + (if is_increase (snd eo) then pay_of (fst eo) else 0), out + sum_out ms)
  | Err => s
  end.
Definition arun (h : list (env * op)) (s : wl * N * N) : wl * N * N := fold_left astep h s.

Definition AcctInv (s : wl * N * N) : Prop :=
  let '(w, paid, out) := s in
  w_kind w <> KMerkle /\ MemInv w /\ 1 <= w_limit w /\
  paid = tiers (w_limit w) * 100000000 /\ out = paid.

Lemma astep_inv s eo : AcctInv s -> AcctInv (astep s eo).
Proof.
  destruct s as [[w paid] out]. intros (Hk & Hi & Hl & Hp & Ho). unfold astep.
  destruct (exec valid self (fst eo) (snd eo) w) as [[w' ms]|] eqn:E;
    [ | exact (conj Hk (conj Hi (conj Hl (conj Hp Ho)))) ].
  pose proof (exec_mem _ _ _ _ _ Hk E Hi) as [Hi' Hmono].
  pose proof (exec_sched_effect valid self _ _ _ _ _ E) as [Hkind _].
  pose proof (exec_fee _ _ _ _ _ Hk E) as Hf.
  unfold AcctInv. rewrite Hkind. split; [ exact Hk | ]. split; [ exact Hi' | ]. split; [ lia | ].
  destruct (snd eo) as [t|t|l|l|n|n|l|]; cbn [is_increase];
    try (destruct Hf as [-> Hlim]; rewrite Hlim; cbn [sum_out fold_right]; split; lia).
  destruct Hf as (Hlt & Hlim & Hpay & Hsum & _). unfold pay_of. rewrite Hpay, Hsum, Hlim.
  pose proof (tiers_mono (w_limit w) n ltac:(lia)). split; lia.
Qed.

Lemma arun_inv h : forall s, AcctInv s -> AcctInv (arun h s).
Proof.
  induction h as [|eo t IH]; intros s Hs; cbn [arun fold_left]; [ exact Hs | ].
  apply IH. apply astep_inv. exact Hs.
Qed.

Lemma arun_state h : forall w paid out, fst (fst (arun h (w, paid, out))) = run valid self h w.
Proof.
  induction h as [|eo t IH]; intros w paid out; cbn [arun run fold_left]; [ reflexivity | ].
  unfold astep at 2. unfold step at 2.
  destruct (exec valid self (fst eo) (snd eo) w) as [[w' ms]|]; apply IH.
Qed.

(* the C11 history theorem for the plain and flex whitelists *)
Lemma history_accounting k e m w0 ms0 h :
  k <> KMerkle -> inst valid k self e m = Ok (w0, ms0) ->
  let '(w, paid, out) := arun h (w0, pay_of e, sum_out ms0) in
  w = run valid self h w0 /\
  NoDup (keys (w_mem w)) /\ w_num w = nlen (w_mem w) /\
  w_num w <= w_limit w /\ w_limit w <= 5000 /\ w_limit w0 <= w_limit w /\
  paid = tiers (w_limit w) * 100000000 /\ out = paid.
Proof.
  intros Hk H.
  pose proof (inst_mem _ _ _ _ _ Hk H) as (Hi & Hlim & Hl & _).
  pose proof (inst_fee _ _ _ _ _ Hk H) as (Hf & _ & Hsum). cbv zeta in Hf, Hsum.
  pose proof (inst_sched valid self _ _ _ _ _ H) as (Hkind & _).
  assert (Hs : AcctInv (w0, pay_of e, sum_out ms0)).
  { unfold AcctInv. rewrite Hkind. repeat split; try assumption; try apply Hi.
    - unfold pay_of. rewrite Hf. unfold may_pay. cbn [c_denom c_amount]. rewrite N.eqb_refl. reflexivity.
    - rewrite Hsum. unfold pay_of. rewrite Hf. unfold may_pay. cbn [c_denom c_amount]. rewrite N.eqb_refl. reflexivity. }
  pose proof (arun_inv h _ Hs) as Hinv. pose proof (arun_state h w0 (pay_of e) (sum_out ms0)) as Hst.
  destruct (arun h (w0, pay_of e, sum_out ms0)) as [[w paid] out]. cbn [fst] in Hst.
  destruct Hinv as (Hk' & (A & B & C & D) & E & F & G).
  assert (Hmax : max_members (w_kind w) = 5000) by (destruct (w_kind w); [ reflexivity | reflexivity | contradiction ]).
  repeat split; try assumption; try lia.
  (* limit monotone along the run *)
  subst w. clear - Hi Hkind Hk. revert w0 Hi Hkind.
  induction h as [|eo t IH]; intros w0 Hi Hkind; cbn [run fold_left]; [ lia | ].
  unfold step at 2. destruct (exec valid self (fst eo) (snd eo) w0) as [[w' ms]|] eqn:E.
  - assert (Hk0 : w_kind w0 <> KMerkle) by (rewrite Hkind; exact Hk).
    pose proof (exec_mem _ _ _ _ _ Hk0 E Hi) as [Hi' Hmono].
    pose proof (exec_sched_effect valid self _ _ _ _ _ E) as [Hkind' _].
    specialize (IH w' Hi' ltac:(congruence)). unfold run in IH. lia.
  - apply IH; assumption.
Qed.

End Mem.
