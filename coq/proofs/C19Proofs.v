(* C19 — trading start time: creation rule, update rule (all families), the collection
   side and the history theorem "the visible value is always one the minter validated". *)
From LP Require Import Num Pay Sg1 MinterVending MinterVendingProofs Trading.
From Coq Require Import ZArith Lia ZifyN ZifyBool.
Local Open Scope N_scope.

(* ---------- u64 timestamp arithmetic ---------- *)
Lemma plus_seconds_ok t s v :
  plus_seconds t s = Ok v <->
  s * NANOS <= U64_MAX /\ t + s * NANOS <= U64_MAX /\ v = t + s * NANOS.
Proof.
  unfold plus_seconds.
  destruct (U64_MAX <? s * NANOS) eqn:E1; [ apply N.ltb_lt in E1 | apply N.ltb_ge in E1 ].
  - split; [ discriminate | lia ].
  - destruct (U64_MAX <? t + s * NANOS) eqn:E2; [ apply N.ltb_lt in E2 | apply N.ltb_ge in E2 ].
    + split; [ discriminate | lia ].
    + split.
      * intros H. inv H. auto.
      * intros (_ & _ & ->). reflexivity.
Qed.

Lemma plus_seconds_err t s :
  plus_seconds t s = Err <-> U64_MAX < s * NANOS \/ U64_MAX < t + s * NANOS.
Proof.
  unfold plus_seconds.
  destruct (U64_MAX <? s * NANOS) eqn:E1; [ apply N.ltb_lt in E1 | apply N.ltb_ge in E1 ].
  - split; auto.
  - destruct (U64_MAX <? t + s * NANOS) eqn:E2; [ apply N.ltb_lt in E2 | apply N.ltb_ge in E2 ].
    + split; auto.
    + split; [ discriminate | lia ].
Qed.

Lemma nonpayable_ok f : nonpayable f = Ok tt <-> f = [].
Proof. destruct f; cbn; split; congruence. Qed.

(* ---------- creation ---------- *)
Theorem create_some start offset t v :
  create_trading start offset (Some t) = Ok v <->
  offset * NANOS <= U64_MAX /\ start + offset * NANOS <= U64_MAX /\ t <= start + offset * NANOS /\ v = t.
Proof.
  unfold create_trading. destruct (plus_seconds start offset) as [b|] eqn:P; cbn [bind].
  - apply plus_seconds_ok in P. destruct P as (P1 & P2 & ->).
    destruct (start + offset * NANOS <? t) eqn:E; [ apply N.ltb_lt in E | apply N.ltb_ge in E ].
    + split; [ discriminate | lia ].
    + split; [ intros H; inv H; auto | intros (_ & _ & _ & ->); reflexivity ].
  - apply plus_seconds_err in P. split; [ discriminate | lia ].
Qed.

Theorem create_none start offset v :
  create_trading start offset None = Ok v <->
  offset * NANOS <= U64_MAX /\ start + offset * NANOS <= U64_MAX /\ v = start + offset * NANOS.
Proof. unfold create_trading. destruct (plus_seconds start offset) as [b|] eqn:P; cbn [bind].
  - apply plus_seconds_ok in P. destruct P as (P1 & P2 & ->).
    split; [ intros H; inv H; auto | intros (_ & _ & ->); reflexivity ].
  - apply plus_seconds_err in P. split; [ discriminate | lia ].
Qed.

Theorem create_err start offset requested :
  create_trading start offset requested = Err <->
  U64_MAX < offset * NANOS \/ U64_MAX < start + offset * NANOS \/
  (exists t, requested = Some t /\ start + offset * NANOS < t).
Proof.
  unfold create_trading. destruct (plus_seconds start offset) as [b|] eqn:P; cbn [bind].
  - apply plus_seconds_ok in P. destruct P as (P1 & P2 & ->).
    destruct requested as [t|].
    + destruct (start + offset * NANOS <? t) eqn:E; [ apply N.ltb_lt in E | apply N.ltb_ge in E ].
      * split; [ intros _; right; right; eauto | reflexivity ].
      * split; [ discriminate | ]. intros [H|[H|(t' & Ht & H)]]; try lia. inv Ht. lia.
    + split; [ discriminate | ]. intros [H|[H|(t' & Ht & H)]]; try lia. discriminate.
  - apply plus_seconds_err in P. split; [ intros _; tauto | reflexivity ].
Qed.

Theorem create_base_some now offset t : create_trading_base now offset (Some t) = Ok t.
Proof. reflexivity. Qed.

Theorem create_base_none now offset v :
  create_trading_base now offset None = Ok v <->
  offset * NANOS <= U64_MAX /\ now + offset * NANOS <= U64_MAX /\ v = now + offset * NANOS.
Proof. cbn [create_trading_base]. apply plus_seconds_ok. Qed.

Theorem create_base_err now offset requested :
  create_trading_base now offset requested = Err <->
  requested = None /\ (U64_MAX < offset * NANOS \/ U64_MAX < now + offset * NANOS).
Proof.
  destruct requested as [t|]; cbn [create_trading_base].
  - split; [ discriminate | intros [H _]; discriminate ].
  - rewrite plus_seconds_err. tauto.
Qed.

Theorem create_fam_dispatch f now start offset requested :
  create_trading_fam f now start offset requested =
  match f with FBase => create_trading_base now offset requested | _ => create_trading start offset requested end.
Proof. destruct f; reflexivity. Qed.

(* ---------- update: pure rule ---------- *)
Definition in_window (now bound : N) (t : option N) : Prop :=
  match t with Some tr => now <= tr /\ tr <= bound | None => True end.

Theorem update_pure now start offset adm nf t v :
  update_trading now start offset adm nf t = Ok v <->
  nf = true /\ adm = true /\ offset * NANOS <= U64_MAX /\ start + offset * NANOS <= U64_MAX /\
  in_window now (start + offset * NANOS) t /\ v = t.
Proof.
  unfold update_trading, in_window.
  destruct nf; cbn [negb]; [ | split; [ discriminate | intros (H & _); discriminate ] ].
  destruct adm; cbn [negb]; [ | split; [ discriminate | intros (_ & H & _); discriminate ] ].
  destruct (plus_seconds start offset) as [b|] eqn:P; cbn [bind].
  - apply plus_seconds_ok in P. destruct P as (P1 & P2 & ->).
    destruct t as [tr|].
    + destruct (tr <? now) eqn:E1; [ apply N.ltb_lt in E1 | apply N.ltb_ge in E1 ].
      * split; [ discriminate | lia ].
      * destruct (start + offset * NANOS <? tr) eqn:E2; [ apply N.ltb_lt in E2 | apply N.ltb_ge in E2 ].
        -- split; [ discriminate | lia ].
        -- split; [ intros H; inv H; repeat split; auto | intros (_ & _ & _ & _ & _ & ->); reflexivity ].
    + split; [ intros H; inv H; repeat split; auto | intros (_ & _ & _ & _ & _ & ->); reflexivity ].
  - apply plus_seconds_err in P. split; [ discriminate | lia ].
Qed.

Theorem update_base_pure now adm nf t v :
  update_trading_base now adm nf t = Ok v <->
  nf = true /\ adm = true /\ (match t with Some tr => now <= tr | None => True end) /\ v = t.
Proof.
  unfold update_trading_base.
  destruct nf; cbn [negb]; [ | split; [ discriminate | intros (H & _); discriminate ] ].
  destruct adm; cbn [negb]; [ | split; [ discriminate | intros (_ & H & _); discriminate ] ].
  destruct t as [tr|].
  - destruct (tr <? now) eqn:E1; [ apply N.ltb_lt in E1 | apply N.ltb_ge in E1 ].
    + split; [ discriminate | lia ].
    + split; [ intros H; inv H; repeat split; auto | intros (_ & _ & _ & ->); reflexivity ].
  - split; [ intros H; inv H; repeat split; auto | intros (_ & _ & _ & ->); reflexivity ].
Qed.

(* what a successful update of any family guarantees *)
Definition validated (f : family) (c : gcall) (v : option N) : Prop :=
  g_admin c = true /\ g_nofunds c = true /\ v = g_t c /\
  match g_t c with
  | Some tr => g_now c <= tr /\
               (f <> FBase -> tr <= g_start c + g_offset c * NANOS /\ g_start c + g_offset c * NANOS <= U64_MAX)
  | None => True
  end.

Lemma gupdate_validated f c v : gupdate f c = Some v -> validated f c v.
Proof.
  unfold gupdate, validated.
  destruct (update_trading_fam f (g_now c) (g_start c) (g_offset c) (g_admin c) (g_nofunds c) (g_t c)) as [v'|] eqn:U;
    [ | discriminate ].
  intros H. inv H.
  destruct f; cbn [update_trading_fam] in U.
  1-3: apply update_pure in U; destruct U as (A & B & P1 & P2 & W & ->);
       repeat split; auto; destruct (g_t c); auto; cbn in W; split; [ tauto | intros _; split; tauto ].
  apply update_base_pure in U. destruct U as (A & B & W & ->).
  repeat split; auto. destruct (g_t c); auto. split; [ exact W | intros H; congruence ].
Qed.

(* ---------- update: the vending handler ---------- *)
Theorem update_step vr s e fp wv t s' ms :
  step vr s e fp wv (OUpdateStartTradingTime t) = Ok (s', ms) <->
  (e_funds e = [] /\ e_sender e = s_admin s /\
   fp_offset_secs fp * NANOS <= U64_MAX /\ s_start s + fp_offset_secs fp * NANOS <= U64_MAX /\
   in_window (e_now e) (s_start s + fp_offset_secs fp * NANOS) t) /\
  s' = with_trading s t /\ ms = [OTrading t].
Proof.
  cbn [step]. unfold is_admin_sender, in_window, with_trading. split.
  - intros H. bind_in H u Hn. destruct u. apply nonpayable_ok in Hn.
    destruct (e_sender e =? s_admin s) eqn:Ea; cbn [negb] in H; [ | discriminate ].
    apply N.eqb_eq in Ea.
    bind_in H bound Hb. apply plus_seconds_ok in Hb. destruct Hb as (B1 & B2 & ->).
    destruct t as [tr|].
    + destruct (tr <? e_now e) eqn:E1; [ discriminate | ].
      destruct (s_start s + fp_offset_secs fp * NANOS <? tr) eqn:E2; [ discriminate | ].
      apply N.ltb_ge in E1. apply N.ltb_ge in E2. inv H. repeat split; auto.
    + inv H. repeat split; auto.
  - intros ((Hf & Ha & B1 & B2 & W) & -> & ->).
    rewrite Hf. cbn [nonpayable bind]. rewrite Ha, N.eqb_refl. cbn [negb].
    assert (P : plus_seconds (s_start s) (fp_offset_secs fp) = Ok (s_start s + fp_offset_secs fp * NANOS))
      by (apply plus_seconds_ok; auto).
    rewrite P. cbn [bind].
    destruct t as [tr|]; [ | reflexivity ].
    destruct W as [W1 W2].
    apply N.ltb_ge in W1. apply N.ltb_ge in W2. rewrite W1, W2. reflexivity.
Qed.

(* the handler and the pure rule accept exactly the same calls *)
Theorem step_refines_pure vr s e fp wv t :
  is_ok (step vr s e fp wv (OUpdateStartTradingTime t)) =
  is_ok (update_trading (e_now e) (s_start s) (fp_offset_secs fp) (is_admin_sender s e)
                        (match e_funds e with [] => true | _ => false end) t).
Proof.
  cbn [step]. unfold update_trading, nonpayable.
  destruct (e_funds e); cbn [bind negb is_ok]; [ | reflexivity ].
  destruct (is_admin_sender s e); cbn [negb is_ok]; [ | reflexivity ].
  destruct (plus_seconds (s_start s) (fp_offset_secs fp)); cbn [bind is_ok]; [ | reflexivity ].
  destruct t as [tr|]; cbn [is_ok]; [ | reflexivity ].
  destruct (tr <? e_now e); cbn [is_ok]; [ reflexivity | ].
  destruct (a <? tr); reflexivity.
Qed.

Theorem update_step_non_admin vr s e fp wv t :
  e_sender e <> s_admin s -> step vr s e fp wv (OUpdateStartTradingTime t) = Err.
Proof.
  intros Hn. destruct (step vr s e fp wv (OUpdateStartTradingTime t)) as [[s' ms]|] eqn:H; [ | reflexivity ].
  apply update_step in H. destruct H as ((_ & Ha & _) & _). contradiction.
Qed.

(* ---------- every other handler leaves the trading time alone ---------- *)
Definition no_trading_msg (ms : list omsg) : Prop := forall t, ~ In (OTrading t) ms.

Lemma no_trading_bank l : no_trading_msg (map OBank l).
Proof. intros t H. apply in_map_iff in H. destruct H as (x & Hx & _). discriminate. Qed.

Lemma mint_core_trading vr s e fp wv adm rcp tok choice isp s' ms :
  execute_mint_core vr s e fp wv adm rcp tok choice isp = Ok (s', ms) ->
  s_trading s' = s_trading s /\ no_trading_msg ms.
Proof.
  unfold execute_mint_core. intros H.
  destruct (s_mintable s =? 0) eqn:Em; [ discriminate | ].
  bind_in H u1 Hg.
  bind_in H pr Hpr. destruct pr as [amount dn].
  bind_in H payment Hpay.
  destruct (negb (payment =? amount)); [ discriminate | ].
  match type of H with (if ?c then _ else _) = _ => destruct c; [ discriminate | ] end.
  bind_in H fmsgs Hfm.
  bind_in H tid Htid.
  bind_in H pos Hpos.
  bind_in H s1 Hs1.
  bind_in H smsgs Hsm. inv H.
  split.
  - destruct isp.
    + inv Hs1. reflexivity.
    + destruct wv as [v|]; [ | discriminate ].
      bind_in Hs1 c3 Hc3. destruct c3 as [[cnt tiered] stage].
      destruct tiered.
      * destruct stage as [st|]; [ | discriminate ].
        destruct st as [|st]; [ discriminate | ].
        destruct st as [st|st|]; try (destruct st; try discriminate); inv Hs1; reflexivity.
      * inv Hs1. reflexivity.
  - intros t Hin. apply in_app_or in Hin. destruct Hin as [Hin|Hin]; [ exact (no_trading_bank _ _ Hin) | ].
    cbn [app In] in Hin. destruct Hin as [Hin|Hin]; [ discriminate | exact (no_trading_bank _ _ Hin) ].
Qed.

Definition is_trading_op (o : vop) : bool :=
  match o with OUpdateStartTradingTime _ => true | _ => false end.

Theorem other_ops_keep_trading vr s e fp wv o s' ms :
  is_trading_op o = false -> step vr s e fp wv o = Ok (s', ms) ->
  s_trading s' = s_trading s /\ no_trading_msg ms.
Proof.
  intros Ho H.
  destruct o; try discriminate Ho; cbn [step] in H; repeat step_hyp H;
    try (eapply mint_core_trading; eassumption);
    inv H; (split; [ reflexivity | ]);
    try (intros ? Hin; exact Hin); try apply no_trading_bank.
Qed.

(* ---------- the collection ---------- *)
Theorem coll_update_spec c sender t c' :
  coll_update c sender t = Ok c' <-> sender = cl_minter c /\ c' = mkColl (cl_minter c) t.
Proof.
  unfold coll_update. destruct (sender =? cl_minter c) eqn:E.
  - apply N.eqb_eq in E. split; [ intros H; inv H; auto | intros (_ & ->); reflexivity ].
  - apply N.eqb_neq in E. split; [ discriminate | intros (H & _); contradiction ].
Qed.

Theorem coll_update_stranger c sender t : sender <> cl_minter c -> coll_update c sender t = Err.
Proof. intros H. unfold coll_update. apply N.eqb_neq in H. rewrite H. reflexivity. Qed.

Lemma deliver_quiet m c ms : no_trading_msg ms -> deliver m c ms = Ok c.
Proof.
  induction ms as [|x r IH]; intros H; cbn [deliver]; [ reflexivity | ].
  assert (Hr : no_trading_msg r) by (intros t Ht; apply (H t); right; exact Ht).
  destruct x; try (apply IH; exact Hr).
  exfalso. apply (H t). left. reflexivity.
Qed.

(* ---------- "last successful update" over any fold ---------- *)
Section LastUpdate.
  Variables (St C V : Type).
  Variable app : St -> C -> St.
  Variable vis : St -> V.
  Variable upd : St -> C -> option V.
  Variable Inv : St -> Prop.
  Variable WF : C -> Prop.
  Hypothesis inv_app : forall s c, Inv s -> WF c -> Inv (app s c).
  Hypothesis upd_some : forall s c v, Inv s -> WF c -> upd s c = Some v -> vis (app s c) = v.
  Hypothesis upd_none : forall s c, Inv s -> WF c -> upd s c = None -> vis (app s c) = vis s.

  Lemma inv_run cs : forall s, Inv s -> Forall WF cs -> Inv (fold_left app cs s).
  Proof.
    induction cs as [|c cs IH]; intros s I W; cbn [fold_left]; [ exact I | ].
    inversion W as [|? ? Wc Wcs]; subst. apply IH; auto.
  Qed.

  (* no call of `post` (run after `pre`) is a successful update *)
  Definition quiet (s0 : St) (pre post : list C) : Prop :=
    forall p1 x p2, post = p1 ++ x :: p2 -> upd (fold_left app (pre ++ p1) s0) x = None.

  Lemma snoc_split (post p1 p2 : list C) x y :
    post ++ [x] = p1 ++ y :: p2 ->
    (p2 = [] /\ y = x /\ p1 = post) \/ (exists p2', p2 = p2' ++ [x] /\ post = p1 ++ y :: p2').
  Proof.
    destruct p2 as [|z p2] using rev_ind; intros E.
    - apply app_inj_tail in E. destruct E as [-> ->]. left. auto.
    - clear IHp2. right. exists p2.
      replace (p1 ++ y :: p2 ++ [z]) with ((p1 ++ y :: p2) ++ [z]) in E
        by (rewrite <- app_assoc; reflexivity).
      apply app_inj_tail in E. destruct E as [-> ->]. auto.
  Qed.

  Lemma quiet_snoc s0 pre post x :
    quiet s0 pre post -> upd (fold_left app (pre ++ post) s0) x = None -> quiet s0 pre (post ++ [x]).
  Proof.
    intros Q U p1 y p2 E. apply snoc_split in E.
    destruct E as [(-> & -> & ->) | (p2' & -> & ->)]; [ exact U | ].
    eapply Q. reflexivity.
  Qed.

  Lemma last_update cs : forall s0, Inv s0 -> Forall WF cs ->
    (vis (fold_left app cs s0) = vis s0 /\ quiet s0 [] cs) \/
    (exists pre c post v, cs = pre ++ c :: post /\ upd (fold_left app pre s0) c = Some v /\
        vis (fold_left app cs s0) = v /\ quiet s0 (pre ++ [c]) post).
  Proof.
    induction cs as [|x cs IH] using rev_ind; intros s0 I W.
    - left. split; [ reflexivity | ]. intros p1 y p2 E. destruct p1; discriminate.
    - apply Forall_app in W. destruct W as [W Wx].
      inversion Wx as [|? ? Hx _]; subst.
      rewrite fold_left_app. cbn [fold_left].
      pose proof (inv_run cs s0 I W) as Ics.
      destruct (upd (fold_left app cs s0) x) as [v|] eqn:U.
      + right. exists cs, x, [], v. split; [ reflexivity | ]. split; [ exact U | ].
        split; [ apply upd_some; auto | ]. intros p1 y p2 E. destruct p1; discriminate.
      + rewrite (upd_none _ _ Ics Hx U).
        destruct (IH s0 I W) as [[Hv Q] | (pre & c & post & v & E & Uc & Hv & Q)].
        * left. split; [ exact Hv | ]. apply quiet_snoc; auto.
        * right. exists pre, c, (post ++ [x]), v. subst cs.
          split; [ rewrite <- app_assoc; reflexivity | ]. split; [ exact Uc | ]. split; [ exact Hv | ].
          apply quiet_snoc; [ exact Q | ]. rewrite <- app_assoc. exact U.
  Qed.
End LastUpdate.

(* ---------- the minter + collection world ---------- *)
Definition coherent (minter : addr) (w : world) : Prop :=
  cl_minter (w_coll w) = minter /\ cl_trading (w_coll w) = s_trading (w_minter w).

Definition visible (w : world) : option N := cl_trading (w_coll w).

Lemma wapply_cases vr minter w x :
  coherent minter w -> wf_call minter x ->
  match trading_update vr w x with
  | Some t => coherent minter (wapply vr w x) /\ visible (wapply vr w x) = t
  | None => coherent minter (wapply vr w x) /\ visible (wapply vr w x) = visible w
  end.
Proof.
  intros [Hm Hc] Hwf. destruct x as [e fp wv o | sender t]; cbn [wf_call] in Hwf.
  - destruct (is_trading_op o) eqn:Ho.
    + destruct o; try discriminate Ho. cbn [trading_update wapply].
      destruct (step vr (w_minter w) e fp wv (OUpdateStartTradingTime t)) as [[s' ms]|] eqn:S; cbn [is_ok].
      * apply update_step in S. destruct S as (_ & -> & ->).
        cbn [deliver]. unfold coll_update. rewrite Hwf, Hm, N.eqb_refl. cbn [bind].
        split; [ split | ]; reflexivity.
      * split; [ split; assumption | reflexivity ].
    + assert (Hu : trading_update vr w (WMinter e fp wv o) = None) by (destruct o; try reflexivity; discriminate Ho).
      rewrite Hu. cbn [wapply].
      destruct (step vr (w_minter w) e fp wv o) as [[s' ms]|] eqn:S;
        [ | split; [ split; assumption | reflexivity ] ].
      destruct (other_ops_keep_trading _ _ _ _ _ _ _ _ Ho S) as [Ht Hq].
      rewrite (deliver_quiet _ _ _ Hq).
      split; [ split; cbn; congruence | reflexivity ].
  - cbn [trading_update wapply]. rewrite coll_update_stranger by congruence.
    split; [ split; assumption | reflexivity ].
Qed.

Definition update_validated (s : vstate) (e : env) (fp : fparams) (t : option N) : Prop :=
  e_sender e = s_admin s /\ e_funds e = [] /\
  s_start s + fp_offset_secs fp * NANOS <= U64_MAX /\
  match t with Some tr => e_now e <= tr /\ tr <= s_start s + fp_offset_secs fp * NANOS | None => True end.

Lemma trading_update_some vr w x v :
  trading_update vr w x = Some v ->
  exists e fp wv, x = WMinter e fp wv (OUpdateStartTradingTime v) /\
    is_ok (step vr (w_minter w) e fp wv (OUpdateStartTradingTime v)) = true /\
    update_validated (w_minter w) e fp v.
Proof.
  destruct x as [e fp wv o | sender t]; [ | discriminate ].
  destruct o; try discriminate. cbn [trading_update].
  destruct (step vr (w_minter w) e fp wv (OUpdateStartTradingTime t)) as [[s' ms]|] eqn:S; cbn [is_ok]; [ | discriminate ].
  intros H. inv H. exists e, fp, wv. rewrite S. split; [ reflexivity | ]. split; [ reflexivity | ].
  apply update_step in S. destruct S as ((Hf & Ha & B1 & B2 & W) & _).
  unfold update_validated. repeat split; auto.
Qed.

Theorem world_coherent vr minter cs w0 :
  coherent minter w0 -> Forall (wf_call minter) cs -> coherent minter (wrun vr w0 cs).
Proof.
  intros I W. unfold wrun.
  apply (inv_run world wcall (wapply vr) (coherent minter) (wf_call minter)); auto.
  intros s c Is Wc. pose proof (wapply_cases vr minter s c Is Wc) as H.
  destruct (trading_update vr s c); tauto.
Qed.

Theorem visible_value_was_validated vr minter cs w0 :
  coherent minter w0 -> Forall (wf_call minter) cs ->
  let w := wrun vr w0 cs in
  coherent minter w /\
  ((visible w = visible w0 /\
    forall p1 x p2, cs = p1 ++ x :: p2 -> trading_update vr (wrun vr w0 p1) x = None)
   \/
   exists pre e fp wv t post,
     cs = pre ++ WMinter e fp wv (OUpdateStartTradingTime t) :: post /\
     is_ok (step vr (w_minter (wrun vr w0 pre)) e fp wv (OUpdateStartTradingTime t)) = true /\
     update_validated (w_minter (wrun vr w0 pre)) e fp t /\
     visible w = t /\
     forall p1 x p2, post = p1 ++ x :: p2 ->
       trading_update vr (wrun vr w0 (pre ++ WMinter e fp wv (OUpdateStartTradingTime t) :: p1)) x = None).
Proof.
  intros I W w. split; [ apply world_coherent; assumption | ].
  assert (L := last_update world wcall (option N) (wapply vr) visible (trading_update vr)
                 (coherent minter) (wf_call minter)).
  assert (H1 : forall s c, coherent minter s -> wf_call minter c -> coherent minter (wapply vr s c)).
  { intros s c Is Wc. pose proof (wapply_cases vr minter s c Is Wc) as H. destruct (trading_update vr s c); tauto. }
  assert (H2 : forall s c v, coherent minter s -> wf_call minter c -> trading_update vr s c = Some v ->
                             visible (wapply vr s c) = v).
  { intros s c v Is Wc U. pose proof (wapply_cases vr minter s c Is Wc) as H. rewrite U in H. tauto. }
  assert (H3 : forall s c, coherent minter s -> wf_call minter c -> trading_update vr s c = None ->
                           visible (wapply vr s c) = visible s).
  { intros s c Is Wc U. pose proof (wapply_cases vr minter s c Is Wc) as H. rewrite U in H. tauto. }
  specialize (L H1 H2 H3 cs w0 I W).
  destruct L as [[Hv Q] | (pre & c & post & v & E & U & Hv & Q)].
  - left. split; [ exact Hv | ]. intros p1 x p2 E. exact (Q p1 x p2 E).
  - right. apply trading_update_some in U. destruct U as (e & fp & wv & -> & Hok & Hval).
    exists pre, e, fp, wv, v, post. repeat split; auto.
    + apply Hval.
    + apply Hval.
    + apply Hval.
    + apply Hval.
    + intros p1 x p2 Ep. specialize (Q p1 x p2 Ep). rewrite <- app_assoc in Q. exact Q.
Qed.

(* ---------- the ghost alone, over `run` ---------- *)
Definition call_update (vr : variant) (s : vstate) (c : call) : option (option N) :=
  match c_op c with
  | OUpdateStartTradingTime t =>
      if is_ok (step vr s (c_env c) (c_fp c) (c_wv c) (OUpdateStartTradingTime t)) then Some t else None
  | _ => None
  end.

Lemma apply_call_cases vr s c :
  match call_update vr s c with
  | Some t => s_trading (apply_call vr s c) = t
  | None => s_trading (apply_call vr s c) = s_trading s
  end.
Proof.
  unfold call_update, apply_call. destruct (is_trading_op (c_op c)) eqn:Ho.
  - destruct (c_op c) eqn:Eo; try discriminate Ho.
    destruct (step vr s (c_env c) (c_fp c) (c_wv c) (OUpdateStartTradingTime t)) as [[s' ms]|] eqn:S; cbn [is_ok].
    + apply update_step in S. destruct S as (_ & -> & _). reflexivity.
    + reflexivity.
  - destruct (step vr s (c_env c) (c_fp c) (c_wv c) (c_op c)) as [[s' ms]|] eqn:S.
    + destruct (other_ops_keep_trading _ _ _ _ _ _ _ _ Ho S) as [Ht _].
      destruct (c_op c); try exact Ht; discriminate Ho.
    + destruct (c_op c); try reflexivity; discriminate Ho.
Qed.

Theorem ghost_value_was_validated vr cs s0 :
  let s := run vr s0 cs in
  (s_trading s = s_trading s0 /\
   forall p1 x p2, cs = p1 ++ x :: p2 -> call_update vr (run vr s0 p1) x = None)
  \/
  exists pre c post t,
    cs = pre ++ c :: post /\ c_op c = OUpdateStartTradingTime t /\
    is_ok (step vr (run vr s0 pre) (c_env c) (c_fp c) (c_wv c) (OUpdateStartTradingTime t)) = true /\
    update_validated (run vr s0 pre) (c_env c) (c_fp c) t /\
    s_trading s = t /\
    forall p1 x p2, post = p1 ++ x :: p2 -> call_update vr (run vr s0 (pre ++ c :: p1)) x = None.
Proof.
  intros s.
  assert (L := last_update vstate call (option N) (apply_call vr) s_trading (call_update vr)
                 (fun _ => True) (fun _ => True)).
  assert (H2 : forall s c v, True -> True -> call_update vr s c = Some v -> s_trading (apply_call vr s c) = v).
  { intros s1 c v _ _ U. pose proof (apply_call_cases vr s1 c) as H. rewrite U in H. exact H. }
  assert (H3 : forall s c, True -> True -> call_update vr s c = None -> s_trading (apply_call vr s c) = s_trading s).
  { intros s1 c _ _ U. pose proof (apply_call_cases vr s1 c) as H. rewrite U in H. exact H. }
  specialize (L (fun _ _ _ _ => I) H2 H3 cs s0 I).
  assert (W : Forall (fun _ : call => True) cs) by (apply Forall_forall; auto).
  specialize (L W).
  destruct L as [[Hv Q] | (pre & c & post & v & E & U & Hv & Q)].
  - left. split; [ exact Hv | ]. intros p1 x p2 E. exact (Q p1 x p2 E).
  - right.
    unfold call_update in U. destruct (c_op c) eqn:Eo; try discriminate U.
    destruct (step vr (fold_left (apply_call vr) pre s0) (c_env c) (c_fp c) (c_wv c) (OUpdateStartTradingTime t))
      as [[s' ms]|] eqn:S; cbn [is_ok] in U; [ | discriminate ].
    injection U as Ev. rewrite <- Ev in Hv. clear Ev v.
    exists pre, c, post, t.
    split; [ exact E | ]. split; [ exact Eo | ].
    unfold run. rewrite S. split; [ reflexivity | ].
    apply update_step in S. destruct S as ((Hf & Ha & B1 & B2 & Wn) & _).
    split; [ unfold update_validated; repeat split; auto | ].
    split; [ exact Hv | ].
    intros p1 x p2 Ep. specialize (Q p1 x p2 Ep). rewrite <- app_assoc in Q. exact Q.
Qed.

(* ---------- any family, oracle form ---------- *)
Lemma gapply_cases f v c :
  match gupdate f c with
  | Some v' => gapply f v c = v'
  | None => gapply f v c = v
  end.
Proof.
  unfold gupdate, gapply.
  destruct (update_trading_fam f (g_now c) (g_start c) (g_offset c) (g_admin c) (g_nofunds c) (g_t c)); reflexivity.
Qed.

Theorem family_value_was_validated f cs v0 :
  (grun f v0 cs = v0 /\ forall x, In x cs -> gupdate f x = None)
  \/
  exists pre c post,
    cs = pre ++ c :: post /\ validated f c (grun f v0 cs) /\ gupdate f c = Some (grun f v0 cs) /\
    forall x, In x post -> gupdate f x = None.
Proof.
  assert (L := last_update (option N) gcall (option N) (gapply f) (fun v => v) (fun _ c => gupdate f c)
                 (fun _ => True) (fun _ => True)).
  assert (H2 : forall (s : option N) c v, True -> True -> gupdate f c = Some v -> gapply f s c = v).
  { intros s c v _ _ U. pose proof (gapply_cases f s c) as H. rewrite U in H. exact H. }
  assert (H3 : forall (s : option N) c, True -> True -> gupdate f c = None -> gapply f s c = s).
  { intros s c _ _ U. pose proof (gapply_cases f s c) as H. rewrite U in H. exact H. }
  assert (W : Forall (fun _ : gcall => True) cs) by (apply Forall_forall; auto).
  specialize (L (fun _ _ _ _ => I) H2 H3 cs v0 I W).
  destruct L as [[Hv Q] | (pre & c & post & v & E & U & Hv & Q)].
  - left. split; [ exact Hv | ]. intros x Hx. apply in_split in Hx. destruct Hx as (p1 & p2 & ->).
    exact (Q p1 x p2 eq_refl).
  - right. exists pre, c, post. unfold grun. rewrite Hv. split; [ exact E | ].
    split; [ apply gupdate_validated; exact U | ]. split; [ exact U | ].
    intros x Hx. apply in_split in Hx. destruct Hx as (p1 & p2 & ->). exact (Q p1 x p2 eq_refl).
Qed.

(* ---------- spelled-out forms used by the statements ---------- *)
Lemma other_ops_keep_trading_spelled vr s e fp wv o s' ms :
  (match o with OUpdateStartTradingTime _ => false | _ => true end) = true ->
  step vr s e fp wv o = Ok (s', ms) ->
  s_trading s' = s_trading s /\ forall t, ~ In (OTrading t) ms.
Proof. intros Ho. apply other_ops_keep_trading. destruct o; try reflexivity; discriminate Ho. Qed.

Lemma wf_call_spelled minter x :
  wf_call minter x <->
  match x with WMinter e _ _ _ => e_contract e = minter | WDirect sender _ => sender <> minter end.
Proof. destruct x; cbn [wf_call]; tauto. Qed.

Lemma trading_update_spelled vr w x v :
  trading_update vr w x = Some v <->
  exists e fp wv, x = WMinter e fp wv (OUpdateStartTradingTime v) /\
                  is_ok (step vr (w_minter w) e fp wv (OUpdateStartTradingTime v)) = true.
Proof.
  split.
  - intros H. apply trading_update_some in H. destruct H as (e & fp & wv & -> & Hok & _). eauto.
  - intros (e & fp & wv & -> & Hok). cbn [trading_update]. rewrite Hok. reflexivity.
Qed.
