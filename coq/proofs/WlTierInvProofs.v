(* Accounting invariant of the tiered / tiered-flex whitelist model (C11). *)
From LP Require Import Wl WlTiered Consts NumLemmas Sg1Proofs WlSchedProofs WlMemProofs.
From Coq Require Import ZArith Lia ZifyN ZifyBool.
Local Open Scope N_scope.

Definition tkeys (m : tmem) : list (N * addr) := map fst m.
Definition scount (j : N) (m : tmem) : N := nlen (t_stage j m).

Lemma is_key_true k a p : is_key k a p = true <-> fst p = (k, a).
Proof.
  destruct p as [[j b] c]. unfold is_key, e_stage, e_addr. cbn [fst snd]. split.
  - intros H. apply andb_true_iff in H as [H1 H2]. apply N.eqb_eq in H1, H2. subst. reflexivity.
  - intros H. injection H as -> ->. rewrite !N.eqb_refl. reflexivity.
Qed.

Lemma is_key_false k a p : is_key k a p = false <-> fst p <> (k, a).
Proof. rewrite <- is_key_true. destruct (is_key k a p); split; congruence. Qed.

Lemma t_has_In k a m : t_has k a m = true <-> In (k, a) (tkeys m).
Proof.
  unfold t_has, tkeys. rewrite existsb_exists. split.
  - intros [p [Hin Hp]]. apply is_key_true in Hp. rewrite <- Hp. apply in_map. exact Hin.
  - intros Hin. apply in_map_iff in Hin as [p [Hp Hin]]. exists p. split; [ exact Hin | ].
    apply is_key_true. exact Hp.
Qed.

Lemma t_has_false k a m : t_has k a m = false <-> ~ In (k, a) (tkeys m).
Proof. rewrite <- t_has_In. destruct (t_has k a m); split; congruence. Qed.

Lemma In_tkeys_filter q f m : In q (tkeys (filter f m)) -> In q (tkeys m).
Proof.
  unfold tkeys. intros H. apply in_map_iff in H as [p [Hp Hin]]. apply filter_In in Hin as [Hin _].
  rewrite <- Hp. apply in_map. exact Hin.
Qed.

Lemma NoDup_tkeys_filter f m : NoDup (tkeys m) -> NoDup (tkeys (filter f m)).
Proof.
  unfold tkeys. induction m as [|p t IH]; cbn [filter map]; intros H; [ constructor | ].
  inversion H as [|? ? Hp Ht]; subst. destruct (f p); cbn [map]; [ | apply IH; exact Ht ].
  constructor; [ | apply IH; exact Ht ]. intros Hin. apply Hp. apply (In_tkeys_filter _ f). exact Hin.
Qed.

Lemma In_tkeys_del q k a m : In q (tkeys (t_del k a m)) <-> In q (tkeys m) /\ q <> (k, a).
Proof.
  unfold tkeys, t_del. split.
  - intros H. apply in_map_iff in H as [p [Hp Hin]]. apply filter_In in Hin as [Hin Hf].
    apply negb_true_iff, is_key_false in Hf. subst q. split; [ apply in_map; exact Hin | exact Hf ].
  - intros [H Hne]. apply in_map_iff in H as [p [Hp Hin]]. apply in_map_iff. exists p. split; [ exact Hp | ].
    apply filter_In. split; [ exact Hin | ]. apply negb_true_iff, is_key_false. rewrite Hp. exact Hne.
Qed.

Lemma In_t_del p k a m : In p (t_del k a m) -> In p m.
Proof. unfold t_del. intros H. apply filter_In in H as [H _]. exact H. Qed.

Lemma t_del_absent k a m : ~ In (k, a) (tkeys m) -> t_del k a m = m.
Proof.
  unfold t_del, tkeys. induction m as [|p t IH]; intros Hn; [ reflexivity | ].
  cbn [filter]. cbn [map In] in Hn. destruct (is_key k a p) eqn:E.
  - apply is_key_true in E. exfalso. apply Hn. left. exact E.
  - cbn [negb]. rewrite IH; [ reflexivity | ]. intros H. apply Hn. right. exact H.
Qed.

Lemma len_t_del_present k a m :
  NoDup (tkeys m) -> In (k, a) (tkeys m) -> nlen (t_del k a m) + 1 = nlen m.
Proof.
  unfold nlen, t_del, tkeys. induction m as [|p t IH]; intros Hnd Hin; [ destruct Hin | ].
  cbn [map] in Hnd, Hin. inversion Hnd as [|? ? Hk Hnd']; subst.
  cbn [filter]. destruct (is_key k a p) eqn:E; cbn [negb].
  - apply is_key_true in E. rewrite E in Hk.
    change (filter (fun q => negb (is_key k a q)) t) with (t_del k a t).
    rewrite t_del_absent by exact Hk. cbn [length]. lia.
  - destruct Hin as [Heq|Hin]; [ apply is_key_false in E; contradiction | ].
    specialize (IH Hnd' Hin). cbn [length]. lia.
Qed.

Lemma NoDup_tkeys_set k a c m : NoDup (tkeys m) -> NoDup (tkeys (t_set k a c m)).
Proof.
  intros H. unfold t_set. cbn [tkeys map fst]. constructor.
  - fold (tkeys (t_del k a m)). rewrite In_tkeys_del. intros [_ Hne]. apply Hne. reflexivity.
  - apply NoDup_tkeys_filter. exact H.
Qed.

Lemma In_tkeys_set q k a c m : In q (tkeys (t_set k a c m)) <-> q = (k, a) \/ In q (tkeys m).
Proof.
  unfold t_set. cbn [tkeys map fst In]. fold (tkeys (t_del k a m)). rewrite In_tkeys_del.
  assert (Hdec : q = (k, a) \/ q <> (k, a)).
  { destruct q as [j b]. destruct (N.eq_dec j k) as [->|]; destruct (N.eq_dec b a) as [->|]; auto;
      right; intros H; injection H; auto. }
  destruct Hdec as [->|Hne]; intuition.
Qed.

Lemma In_t_set p k a c m : In p (t_set k a c m) -> p = (k, a, c) \/ In p m.
Proof. unfold t_set. intros [<-|H]; [ left; reflexivity | right; eapply In_t_del; eauto ]. Qed.

Lemma len_t_set k a c m :
  NoDup (tkeys m) -> nlen (t_set k a c m) = if t_has k a m then nlen m else nlen m + 1.
Proof.
  intros Hnd. unfold t_set. destruct (t_has k a m) eqn:E.
  - apply t_has_In in E. pose proof (len_t_del_present k a m Hnd E). unfold nlen in *. cbn [length]. lia.
  - apply t_has_false in E. rewrite t_del_absent by exact E. unfold nlen. cbn [length]. lia.
Qed.

(* ---- per-stage counts ---- *)
Lemma filter_comm {A} (f g : A -> bool) l : filter f (filter g l) = filter g (filter f l).
Proof.
  induction l as [|x t IH]; [ reflexivity | ]. cbn [filter].
  destruct (g x) eqn:Eg, (f x) eqn:Ef; cbn [filter]; rewrite ?Eg, ?Ef, IH; reflexivity.
Qed.

Lemma t_stage_del j k a m : t_stage j (t_del k a m) = t_del k a (t_stage j m).
Proof. unfold t_stage, t_del. apply filter_comm. Qed.

Lemma In_tkeys_stage k a j m : In (k, a) (tkeys (t_stage j m)) <-> j = k /\ In (k, a) (tkeys m).
Proof.
  unfold tkeys, t_stage. split.
  - intros H. apply in_map_iff in H as [p [Hp Hin]]. apply filter_In in Hin as [Hin Hf].
    apply N.eqb_eq in Hf. unfold e_stage in Hf. rewrite Hp in Hf. cbn [fst] in Hf. split; [ auto | ].
    rewrite <- Hp. apply in_map. exact Hin.
  - intros [-> H]. apply in_map_iff in H as [p [Hp Hin]]. apply in_map_iff. exists p. split; [ exact Hp | ].
    apply filter_In. split; [ exact Hin | ]. unfold e_stage. rewrite Hp. apply N.eqb_refl.
Qed.

Lemma scount_del j k a m :
  NoDup (tkeys m) ->
  scount j (t_del k a m) + (if (j =? k) && t_has k a m then 1 else 0) = scount j m.
Proof.
  intros Hnd. unfold scount. rewrite t_stage_del.
  pose proof (NoDup_tkeys_filter (fun p => e_stage p =? j) m Hnd) as Hnd'. fold (t_stage j m) in Hnd'.
  destruct ((j =? k) && t_has k a m) eqn:E.
  - apply andb_true_iff in E as [E1 E2]. apply N.eqb_eq in E1. apply t_has_In in E2.
    apply len_t_del_present; [ exact Hnd' | ]. apply In_tkeys_stage. auto.
  - rewrite t_del_absent; [ lia | ]. intros Hin. apply In_tkeys_stage in Hin as [-> Hin].
    apply t_has_In in Hin. rewrite Hin, N.eqb_refl in E. discriminate.
Qed.

Lemma scount_set j k a c m :
  NoDup (tkeys m) ->
  scount j (t_set k a c m) = if (j =? k) && negb (t_has k a m) then scount j m + 1 else scount j m.
Proof.
  intros Hnd. pose proof (scount_del j k a m Hnd) as Hd.
  unfold scount, t_set, t_stage in *. cbn [filter e_stage fst].
  rewrite (N.eqb_sym k j). destruct (j =? k) eqn:E; cbn [andb] in *.
  - destruct (t_has k a m); cbn [negb]; unfold nlen in *; cbn [length]; lia.
  - lia.
Qed.

(* ---- the counter map ---- *)
Lemma c_get_del_other j k c : j <> k -> c_get j (c_del k c) = c_get j c.
Proof.
  intros Hne. unfold c_del. induction c as [|[i v] t IH]; [ reflexivity | ].
  cbn [filter fst]. destruct (i =? k) eqn:E; cbn [negb c_get].
  - apply N.eqb_eq in E. subst i. assert (k =? j = false) by lia. rewrite H. exact IH.
  - rewrite IH. reflexivity.
Qed.

Lemma c_get_set_same k v c : c_get k (c_set k v c) = v.
Proof. unfold c_set. cbn [c_get]. rewrite N.eqb_refl. reflexivity. Qed.

Lemma c_get_set_other j k v c : j <> k -> c_get j (c_set k v c) = c_get j c.
Proof.
  intros Hne. unfold c_set. cbn [c_get]. assert (k =? j = false) by lia. rewrite H.
  apply c_get_del_other. exact Hne.
Qed.

Lemma c_get_del_range j k n c : j < k -> c_get j (c_del_range k n c) = c_get j c.
Proof.
  intros Hlt. unfold c_del_range. induction c as [|[i v] t IH]; [ reflexivity | ].
  cbn [filter fst]. destruct ((k <=? i) && (i <? n)) eqn:E; cbn [negb c_get].
  - assert (i =? j = false) by lia. rewrite H. exact IH.
  - rewrite IH. reflexivity.
Qed.

Section Tier.
Variable valid : addr -> bool.
Variable self : addr.

(* ---------------- the loops ---------------- *)
Lemma t_add_spec k ms : forall limit num m c num' m' c',
  t_add valid k ms limit num m c = Ok (num', m', c') ->
  NoDup (tkeys m) -> num = nlen m -> num <= limit ->
  NoDup (tkeys m') /\ num' = nlen m' /\ num' <= limit /\ num <= num' /\
  (forall p, In p m' -> In p m \/ e_stage p = k) /\
  (forall j, j <> k -> scount j m' = scount j m /\ c_get j c' = c_get j c) /\
  c_get k c' + scount k m = c_get k c + scount k m' /\
  (forall x, In (k, x) (tkeys m') <-> In (k, x) (tkeys m) \/ In x (map fst ms)).
Proof.
  induction ms as [|[a v] t IH]; intros limit num m c num' m' c' H Hnd Hnum Hle; cbn [t_add] in H.
  - injection H as <- <- <-. repeat apply conj; try lia; try assumption; auto.
    intros x. cbn [map In]. intuition.
  - binds H. destruct (t_has k a m) eqn:Eh.
    + destruct (IH _ _ _ _ _ _ _ H Hnd Hnum Hle) as (A & B & C & D & E & F & G1' & I).
      repeat apply conj; try assumption. intros x; split.
      * intros Hx. apply I in Hx. cbn [map fst In]. intuition.
      * intros Hx. apply I. cbn [map fst In] in Hx. apply t_has_In in Eh.
        destruct Hx as [Hx|[<-|Hx]]; auto.
    + pose proof (len_t_set k a v m Hnd) as Hlen. rewrite Eh in Hlen.
      destruct (IH _ _ _ _ _ _ _ H (NoDup_tkeys_set k a v m Hnd)) as (A & B & C & D & E & F & G1' & I); try lia.
      repeat apply conj; try assumption; try lia.
      * intros p Hp. apply E in Hp as [Hp|Hp]; [ | right; exact Hp ].
        apply In_t_set in Hp as [->|Hp]; [ right; reflexivity | left; exact Hp ].
      * intros j Hj. destruct (F j Hj) as [F1 F2]. rewrite F1, F2.
        rewrite (scount_set j k a v m Hnd), (c_get_set_other j k _ _ Hj).
        assert (j =? k = false) by lia. rewrite H0. cbn [andb]. split; reflexivity.
      * rewrite (scount_set k k a v m Hnd), N.eqb_refl, Eh in G1'. cbn [andb negb] in G1'.
        rewrite c_get_set_same in G1'. lia.
      * intros x; split.
        -- intros Hx. apply I in Hx. rewrite In_tkeys_set in Hx. cbn [map fst In].
           destruct Hx as [[Hx|Hx]|Hx]; auto. injection Hx as ->. auto.
        -- intros Hx. apply I. rewrite In_tkeys_set. cbn [map fst In] in Hx.
           destruct Hx as [Hx|[<-|Hx]]; auto.
Qed.

Lemma t_remove_spec k ms : forall num m c num' m' c',
  t_remove valid k ms num m c = Ok (num', m', c') ->
  NoDup (tkeys m) -> num = nlen m -> c_get k c = scount k m ->
  NoDup (tkeys m') /\ num' = nlen m' /\ num' + nlen ms = num /\
  (forall p, In p m' -> In p m) /\
  (forall j, j <> k -> scount j m' = scount j m /\ c_get j c' = c_get j c) /\
  c_get k c' = scount k m' /\
  NoDup ms /\ (forall x, In x ms -> In (k, x) (tkeys m)) /\
  (forall x, In (k, x) (tkeys m') <-> In (k, x) (tkeys m) /\ ~ In x ms).
Proof.
  induction ms as [|a t IH]; intros num m c num' m' c' H Hnd Hnum Hc; cbn [t_remove] in H.
  - injection H as <- <- <-. unfold nlen in *. cbn [length].
    repeat apply conj; try lia; try assumption; auto.
    + constructor.
    + intros x [].
    + intros x. cbn [In]. intuition.
  - binds H. pose proof G0 as Eh. apply t_has_In in G0.
    pose proof (len_t_del_present k a m Hnd G0) as Hlen.
    unfold dec1 in R. destruct (1 <=? num) eqn:E1; [ | discriminate R ]. injection R as <-.
    pose proof (scount_del k k a m Hnd) as Hsd. rewrite N.eqb_refl, Eh in Hsd. cbn [andb] in Hsd.
    destruct (IH _ _ _ _ _ _ H (NoDup_tkeys_filter _ m Hnd)) as (A & B & C & D & E & F & G' & I & J); try lia.
    { rewrite c_get_set_same. fold (t_del k a m). lia. }
    fold (t_del k a m) in *.
    repeat apply conj; try assumption.
    + unfold nlen in *. cbn [length]. lia.
    + intros p Hp. apply D in Hp. eapply In_t_del; eauto.
    + intros j Hj. destruct (E j Hj) as [E1' E2]. rewrite E1', E2, (c_get_set_other j k _ _ Hj).
      pose proof (scount_del j k a m Hnd) as Hs. assert (j =? k = false) by lia.
      rewrite H0 in Hs. cbn [andb] in Hs. split; [ lia | reflexivity ].
    + constructor; [ | exact G' ]. intros Hin. apply I in Hin. apply In_tkeys_del in Hin as [_ Hne]. apply Hne. reflexivity.
    + intros x [<-|Hx]; [ exact G0 | ]. apply I in Hx. apply In_tkeys_del in Hx as [Hx _]. exact Hx.
    + intros x; split.
      * intros Hx. apply J in Hx as [Hx Hn]. apply In_tkeys_del in Hx as [Hx Hne]. cbn [In].
        split; [ exact Hx | ]. intros [<-|Hin]; [ apply Hne; reflexivity | contradiction ].
      * intros [Hx Hn]. apply J. cbn [In] in Hn. split; [ | auto ].
        apply In_tkeys_del. split; [ exact Hx | ]. intros Heq. injection Heq as <-. auto.
Qed.

Lemma t_add_stage_spec whale k ms : forall limit num sm m num' sm' m',
  t_add_stage valid whale k ms limit num sm m = Ok (num', sm', m') ->
  NoDup (tkeys m) -> num = nlen m -> num <= limit ->
  NoDup (tkeys m') /\ num' = nlen m' /\ num' <= limit /\ num <= num' /\
  (forall p, In p m' -> In p m \/ e_stage p = k) /\
  (forall j, j <> k -> scount j m' = scount j m) /\
  sm' + scount k m = sm + scount k m' /\
  (NoDup (map fst ms) -> (forall x, In x (map fst ms) -> ~ In (k, x) (tkeys m)) -> sm' = sm + nlen ms) /\
  (forall x, In (k, x) (tkeys m') <-> In (k, x) (tkeys m) \/ In x (map fst ms)).
Proof.
  induction ms as [|[a v] t IH]; intros limit num sm m num' sm' m' H Hnd Hnum Hle; cbn [t_add_stage] in H.
  - injection H as <- <- <-. cbn [map].
    repeat apply conj; try lia; try assumption; auto.
    + intros _ _. unfold nlen. cbn [length]. lia.
    + intros x. cbn [In]. intuition.
  - binds H. destruct (t_has k a m) eqn:Eh.
    + destruct (IH _ _ _ _ _ _ _ H Hnd Hnum Hle) as (A & B & C & D & E & F & G' & I & J).
      repeat apply conj; try assumption.
      * intros Hnd' Hab. exfalso. apply (Hab a); [ left; reflexivity | ]. apply t_has_In. exact Eh.
      * intros x; split.
        -- intros Hx. apply J in Hx. cbn [map fst In]. intuition.
        -- intros Hx. apply J. cbn [map fst In] in Hx. apply t_has_In in Eh.
           destruct Hx as [Hx|[<-|Hx]]; auto.
    + pose proof (len_t_set k a v m Hnd) as Hlen. rewrite Eh in Hlen.
      destruct (IH _ _ _ _ _ _ _ H (NoDup_tkeys_set k a v m Hnd)) as (A & B & C & D & E & F & G' & I & J); try lia.
      repeat apply conj; try assumption; try lia.
      * intros p Hp. apply E in Hp as [Hp|Hp]; [ | right; exact Hp ].
        apply In_t_set in Hp as [->|Hp]; [ right; reflexivity | left; exact Hp ].
      * intros j Hj. rewrite (F j Hj), (scount_set j k a v m Hnd).
        assert (j =? k = false) by lia. rewrite H0. reflexivity.
      * rewrite (scount_set k k a v m Hnd), N.eqb_refl, Eh in G'. cbn [andb negb] in G'. lia.
      * intros Hnd' Hab. cbn [map fst] in Hnd', Hab. inversion Hnd' as [|? ? Hna Hndt]; subst.
        unfold nlen. cbn [length]. rewrite I.
        -- unfold nlen. lia.
        -- exact Hndt.
        -- intros x Hx Hin. apply In_tkeys_set in Hin as [Heq|Hin].
           ++ injection Heq as ->. contradiction.
           ++ apply (Hab x); [ right; exact Hx | exact Hin ].
      * intros x; split.
        -- intros Hx. apply J in Hx. rewrite In_tkeys_set in Hx. cbn [map fst In].
           destruct Hx as [[Hx|Hx]|Hx]; auto. injection Hx as ->. auto.
        -- intros Hx. apply J. rewrite In_tkeys_set. cbn [map fst In] in Hx.
           destruct Hx as [Hx|[<-|Hx]]; auto.
Qed.

(* ---------------- helpers on lists ---------------- *)
Lemma scount_zero k m : (forall p, In p m -> e_stage p <> k) -> scount k m = 0.
Proof.
  unfold scount, t_stage. induction m as [|p t IH]; intros H; [ reflexivity | ].
  cbn [filter]. destruct (e_stage p =? k) eqn:E.
  - apply N.eqb_eq in E. exfalso. apply (H p); [ left; reflexivity | exact E ].
  - apply IH. intros q Hq. apply H. right. exact Hq.
Qed.

Lemma no_stage_key k m x : (forall p, In p m -> e_stage p <> k) -> ~ In (k, x) (tkeys m).
Proof.
  intros H Hin. unfold tkeys in Hin. apply in_map_iff in Hin as [p [Hp Hin]].
  apply (H p Hin). unfold e_stage. rewrite Hp. reflexivity.
Qed.

Lemma nlen_app {A} (l1 l2 : list A) : nlen (l1 ++ l2) = nlen l1 + nlen l2.
Proof. unfold nlen. rewrite app_length. lia. Qed.

Lemma filter_partition {A} (f : A -> bool) l :
  nlen (filter f l) + nlen (filter (fun x => negb (f x)) l) = nlen l.
Proof.
  unfold nlen. induction l as [|x t IH]; [ reflexivity | ]. cbn [filter].
  destruct (f x); cbn [negb length]; lia.
Qed.

Lemma filter_absorb {A} (f g : A -> bool) l :
  (forall x, f x = true -> g x = true) -> filter f (filter g l) = filter f l.
Proof.
  intros H. induction l as [|x t IH]; [ reflexivity | ]. cbn [filter].
  destruct (g x) eqn:Eg; cbn [filter].
  - rewrite IH. reflexivity.
  - destruct (f x) eqn:Ef; [ apply H in Ef; congruence | exact IH ].
Qed.

Lemma scount_del_range j k n m : j < k -> scount j (t_del_range k n m) = scount j m.
Proof.
  intros Hlt. unfold scount, t_stage, t_del_range. rewrite filter_absorb; [ reflexivity | ].
  intros p Hp. unfold in_range. apply N.eqb_eq in Hp. rewrite Hp.
  assert (k <=? j = false) by lia. rewrite H. reflexivity.
Qed.

Lemma replace_nth_length {A} n (x : A) l : length (replace_nth n x l) = length l.
Proof.
  revert n. induction l as [|y t IH]; intros n; [ destruct n; reflexivity | ].
  destruct n; cbn [replace_nth length]; [ reflexivity | rewrite IH; reflexivity ].
Qed.

Lemma nth_error_lt {A} (l : list A) k x : nth_error l (N.to_nat k) = Some x -> k < nlen l.
Proof.
  intros H. assert (Hs : nth_error l (N.to_nat k) <> None) by congruence.
  apply nth_error_Some in Hs. unfold nlen. lia.
Qed.

Lemma nlen_firstn {A} (l : list A) k : k <= nlen l -> nlen (firstn (N.to_nat k) l) = k.
Proof. unfold nlen. intros H. rewrite firstn_length_le; lia. Qed.

(* ---------------- instantiate ---------------- *)
Lemma store_plain_spec k ms : forall m m',
  store_plain valid k ms m = Ok m' ->
  NoDup (tkeys m) -> NoDup ms -> (forall x, In x ms -> ~ In (k, x) (tkeys m)) ->
  NoDup (tkeys m') /\ nlen m' = nlen m + nlen ms /\
  (forall p, In p m' -> In p m \/ e_stage p = k) /\
  (forall j, j <> k -> scount j m' = scount j m) /\
  scount k m' = scount k m + nlen ms.
Proof.
  induction ms as [|a t IH]; intros m m' H Hnd Hms Hab; cbn [store_plain] in H.
  - injection H as <-. unfold nlen; cbn [length]. repeat apply conj; try lia; auto.
  - binds H. inversion Hms as [|? ? Hna Hndt]; subst.
    assert (Eh : t_has k a m = false) by (apply t_has_false; apply Hab; left; reflexivity).
    pose proof (len_t_set k a 1 m Hnd) as Hlen. rewrite Eh in Hlen.
    destruct (IH _ _ H (NoDup_tkeys_set k a 1 m Hnd) Hndt) as (A & B & C & D & E).
    { intros x Hx Hin. apply In_tkeys_set in Hin as [Heq|Hin].
      - injection Heq as ->. contradiction.
      - apply (Hab x); [ right; exact Hx | exact Hin ]. }
    repeat apply conj; try assumption.
    + unfold nlen in *. cbn [length]. lia.
    + intros p Hp. apply C in Hp as [Hp|Hp]; [ | right; exact Hp ].
      apply In_t_set in Hp as [->|Hp]; [ right; reflexivity | left; exact Hp ].
    + intros j Hj. rewrite (D j Hj), (scount_set j k a 1 m Hnd).
      assert (j =? k = false) by lia. rewrite H0. reflexivity.
    + rewrite E, (scount_set k k a 1 m Hnd), N.eqb_refl, Eh. cbn [andb negb].
      unfold nlen. cbn [length]. lia.
Qed.

Lemma store_flex_spec whale k ms : forall sm num m sm' num' m',
  store_flex valid whale k ms sm num m = Ok (sm', num', m') ->
  NoDup (tkeys m) ->
  NoDup (tkeys m') /\ sm' <= sm /\ num' <= num /\ sm - sm' = num - num' /\
  nlen m' + (num - num') = nlen m + nlen ms /\
  (forall p, In p m' -> In p m \/ e_stage p = k) /\
  (forall j, j <> k -> scount j m' = scount j m) /\
  scount k m' + (sm - sm') = scount k m + nlen ms.
Proof.
  induction ms as [|[a c] t IH]; intros sm num m sm' num' m' H Hnd; cbn [store_flex] in H.
  - injection H as <- <- <-. unfold nlen; cbn [length]. repeat apply conj; try lia; auto.
  - binds H. pose proof (len_t_set k a c m Hnd) as Hlen.
    pose proof (scount_set k k a c m Hnd) as Hsc. rewrite N.eqb_refl in Hsc.
    destruct (t_has k a m) eqn:Eh; cbn [andb negb] in Hsc.
    + binds H. unfold dec1 in R, R0.
      destruct (1 <=? sm) eqn:E1; [ | discriminate R ]. injection R as <-.
      destruct (1 <=? num) eqn:E2; [ | discriminate R0 ]. injection R0 as <-.
      destruct (IH _ _ _ _ _ _ H (NoDup_tkeys_set k a c m Hnd)) as (A & B & C & D & E & F & G' & I).
      repeat apply conj; try assumption; try lia.
      * unfold nlen in *. cbn [length]. lia.
      * intros p Hp. apply F in Hp as [Hp|Hp]; [ | right; exact Hp ].
        apply In_t_set in Hp as [->|Hp]; [ right; reflexivity | left; exact Hp ].
      * intros j Hj. rewrite (G' j Hj), (scount_set j k a c m Hnd).
        assert (j =? k = false) by lia. rewrite H0. reflexivity.
      * unfold nlen in *. cbn [length]. lia.
    + destruct (IH _ _ _ _ _ _ H (NoDup_tkeys_set k a c m Hnd)) as (A & B & C & D & E & F & G' & I).
      repeat apply conj; try assumption; try lia.
      * unfold nlen in *. cbn [length]. lia.
      * intros p Hp. apply F in Hp as [Hp|Hp]; [ | right; exact Hp ].
        apply In_t_set in Hp as [->|Hp]; [ right; reflexivity | left; exact Hp ].
      * intros j Hj. rewrite (G' j Hj), (scount_set j k a c m Hnd).
        assert (j =? k = false) by lia. rewrite H0. reflexivity.
      * unfold nlen in *. cbn [length]. lia.
Qed.

Lemma inst_loop_spec flex whale nst : forall k lists num m c num' m' c',
  inst_loop valid flex whale k nst lists num m c = Ok (num', m', c') ->
  NoDup (tkeys m) -> (forall p, In p m -> e_stage p < k) ->
  (forall j, j < k -> c_get j c = scount j m) ->
  num = nlen m + sum_len (firstn nst lists) ->
  (flex = false -> Forall (fun l => NoDup (map fst l)) lists) ->
  NoDup (tkeys m') /\ num' = nlen m' /\ num' <= num /\
  (forall p, In p m' -> e_stage p < k + N.of_nat nst) /\
  (forall j, j < k + N.of_nat nst -> c_get j c' = scount j m').
Proof.
  induction nst as [|n IH]; intros k lists num m c num' m' c' H Hnd Hst Hc Hnum Hdd; cbn [inst_loop] in H.
  - injection H as <- <- <-. cbn [firstn sum_len fold_right] in Hnum.
    repeat apply conj; try lia; try assumption.
    + intros p Hp. specialize (Hst p Hp). lia.
    + intros j Hj. apply Hc. lia.
  - destruct lists as [|l rest]; [ discriminate H | ].
    cbn [firstn sum_len fold_right] in Hnum. fold (sum_len (firstn n rest)) in Hnum.
    assert (Hnone : forall p, In p m -> e_stage p <> k) by (intros p Hp; specialize (Hst p Hp); lia).
    pose proof (scount_zero k m Hnone) as Hz.
    destruct flex.
    + binds H. destruct x as [[sm' num1] m1]. cbn [fst snd] in H.
      destruct (store_flex_spec _ _ _ _ _ _ _ _ _ R Hnd) as (A & B & C & D & E & F & G' & I).
      destruct (IH _ _ _ _ _ _ _ _ H A) as (A2 & B2 & C2 & D2 & E2).
      * intros p Hp. apply F in Hp as [Hp|Hp]; [ specialize (Hst p Hp); lia | lia ].
      * intros j Hj. destruct (N.eq_dec j k) as [->|Hne].
        -- rewrite c_get_set_same. lia.
        -- rewrite (c_get_set_other j k _ _ Hne), (G' j Hne). apply Hc. lia.
      * lia.
      * intros Hf. discriminate Hf.
      * repeat apply conj; try assumption; try lia.
        -- intros p Hp. specialize (D2 p Hp). lia.
        -- intros j Hj. apply E2. lia.
    + binds H. specialize (Hdd eq_refl). inversion Hdd as [|? ? Hl Hrest]; subst.
      destruct (store_plain_spec _ _ _ _ R Hnd Hl) as (A & B & C & D & E).
      { intros y _. apply no_stage_key. exact Hnone. }
      rewrite nlen_map in B, E.
      destruct (IH _ _ _ _ _ _ _ _ H A) as (A2 & B2 & C2 & D2 & E2).
      * intros p Hp. apply C in Hp as [Hp|Hp]; [ specialize (Hst p Hp); lia | lia ].
      * intros j Hj. destruct (N.eq_dec j k) as [->|Hne].
        -- rewrite c_get_set_same. lia.
        -- rewrite (c_get_set_other j k _ _ Hne), (D j Hne). apply Hc. lia.
      * lia.
      * intros _. exact Hrest.
      * repeat apply conj; try assumption; try lia.
        -- intros p Hp. specialize (D2 p Hp). lia.
        -- intros j Hj. apply E2. lia.
Qed.


(* ---------------- the invariant ---------------- *)
Definition TInv (w : tw) : Prop :=
  NoDup (tkeys (t_mem w)) /\
  t_num w = nlen (t_mem w) /\
  (forall p, In p (t_mem w) -> e_stage p < nlen (t_stages w)) /\
  (forall k, k < nlen (t_stages w) -> c_get k (t_cnt w) = scount k (t_mem w)) /\
  t_num w <= t_limit w /\ t_limit w <= T_MAX_MEMBERS (t_flex w) /\
  nlen (t_stages w) <= 3.

Lemma validate_stages_len flex fut l : validate_stages flex fut l = Ok tt -> 1 <= nlen l /\ nlen l <= 3.
Proof.
  unfold validate_stages. destruct l as [|s0 t]; [ discriminate | ]. intros H. binds H.
  unfold nlen in *. cbn [length] in *. lia.
Qed.

Lemma validate_stages_len' flex fut l u : validate_stages flex fut l = Ok u -> 1 <= nlen l /\ nlen l <= 3.
Proof. destruct u. apply validate_stages_len. Qed.

Lemma NoDup_lists_sorted (ls : list (list (addr * N))) :
  Forall (fun l => NoDup (map fst l)) (map (fun l => map (fun a : N => (a, 1)) (sort_dedup (map fst l))) ls).
Proof.
  apply Forall_forall. intros l Hl. apply in_map_iff in Hl as [l0 [<- _]].
  rewrite map_map. cbn [fst]. rewrite map_id. apply NoDup_sort_dedup.
Qed.

Lemma t_inst_inv flex e m w ms :
  t_inst valid flex self e m = Ok (w, ms) ->
  TInv w /\ t_flex w = flex /\ t_limit w = ti_limit m /\ 1 <= t_limit w /\ t_stages w = ti_stages m.
Proof.
  intros H. unfold t_inst in H; cbv zeta in H. binds H.
  match goal with R3 : inst_loop _ _ _ _ _ _ _ _ _ = Ok ?x |- _ => destruct x as [[num' m'] c'] end.
  injection H as <- _. cbn [fst snd] in *.
  apply andb_true_iff in G as [G Gm].
  pose proof (validate_stages_len' _ _ _ _ R) as [Hs1 Hs3].
  unfold TInv. cbn [t_mem t_num t_stages t_cnt t_limit t_flex].
  match goal with R3 : inst_loop _ _ _ _ _ ?lists ?num _ _ = Ok _ |- _ =>
    destruct (inst_loop_spec _ _ _ _ _ _ _ _ _ _ _ R3) as (A & B & C & D & E) end.
  - constructor.
  - intros p [].
  - intros j Hj. lia.
  - unfold nlen at 1. cbn [length]. lia.
  - intros ->. apply NoDup_lists_sorted.
  - unfold nlen in D, E. rewrite N.add_0_l in D, E. fold (nlen (ti_stages m)) in D, E.
    repeat apply conj; try assumption; try reflexivity; try lia.
Qed.

Lemma t_exec_inv e o w w' ms :
  t_exec valid self e o w = Ok (w', ms) -> TInv w ->
  TInv w' /\ t_flex w' = t_flex w /\ t_limit w <= t_limit w'.
Proof.
  intros H (Hnd & Hnum & Hst & Hc & Hle & Hmax & Hn3). unfold TInv.
  unfold t_exec in H; cbv zeta in H. destruct o as [k l|k l|s l|k|k st en pl|n|l|].
  - (* add_members *)
    binds H. match goal with R3 : t_add _ _ _ _ _ _ _ = Ok ?x |- _ => destruct x as [[num' m'] c'] end. injection H as <- _.
    cbn [tw_members t_mem t_num t_stages t_cnt t_limit t_flex fst snd].
    destruct (t_add_spec _ _ _ _ _ _ _ _ _ R Hnd Hnum Hle) as (A & B & C & D & E & F & G' & I).
    repeat apply conj; try assumption; try lia.
    + intros p Hp. apply E in Hp as [Hp|Hp]; [ apply Hst; exact Hp | lia ].
    + intros j Hj. destruct (N.eq_dec j k) as [->|Hne].
      * specialize (Hc k Hj). lia.
      * destruct (F j Hne) as [F1 F2]. rewrite F1, F2. apply Hc. exact Hj.
  - (* remove_members *)
    binds H. destruct (nth_error (t_stages w) (N.to_nat k)) as [s|] eqn:En; [ | discriminate H ].
    pose proof (nth_error_lt _ _ _ En) as Hk. binds H.
    match goal with R3 : t_remove _ _ _ _ _ _ = Ok ?x |- _ => destruct x as [[num' m'] c'] end. injection H as <- _.
    cbn [tw_members t_mem t_num t_stages t_cnt t_limit t_flex fst snd].
    destruct (t_remove_spec _ _ _ _ _ _ _ _ R Hnd Hnum (Hc k Hk)) as (A & B & C & D & E & F & _).
    repeat apply conj; try assumption; try lia.
    + intros p Hp. apply Hst. apply D. exact Hp.
    + intros j Hj. destruct (N.eq_dec j k) as [->|Hne]; [ exact F | ].
      destruct (E j Hne) as [E1 E2]. rewrite E1, E2. apply Hc. exact Hj.
  - (* add_stage *)
    binds H. match goal with R3 : t_add_stage _ _ _ _ _ _ _ _ = Ok ?x |- _ => destruct x as [[num' sm'] m'] end. injection H as <- _.
    cbn [tw_stages t_mem t_num t_stages t_cnt t_limit t_flex fst snd].
    rewrite nlen_app. change (nlen [s]) with 1.
    set (n := nlen (t_stages w)) in *.
    assert (Hnone : forall p, In p (t_mem w) -> e_stage p <> n) by (intros p Hp; specialize (Hst p Hp); lia).
    pose proof (scount_zero n _ Hnone) as Hz.
    destruct (t_add_stage_spec _ _ _ _ _ _ _ _ _ _ R0 Hnd Hnum Hle) as (A & B & C & D & E & F & G' & I & J).
    repeat apply conj; try assumption; try lia.
    + intros p Hp. apply E in Hp as [Hp|Hp]; [ specialize (Hst p Hp); lia | lia ].
    + intros j Hj. destruct (N.eq_dec j n) as [->|Hne].
      * rewrite c_get_set_same. destruct (t_flex w); [ lia | ].
        assert (Hsm : sm' = 0 + nlen (map (fun a : N => (a, 1)) (sort_dedup (map fst l)))).
        { apply I.
          - rewrite map_map. cbn [fst]. rewrite map_id. apply NoDup_sort_dedup.
          - intros y _. apply no_stage_key. exact Hnone. }
        transitivity sm'; [ rewrite Hsm; reflexivity | lia ].
      * rewrite (c_get_set_other j n _ _ Hne), (F j Hne). apply Hc. lia.
  - (* remove_stage *)
    binds H. destruct (nth_error (t_stages w) (N.to_nat k)) as [s|] eqn:En; [ | discriminate H ].
    pose proof (nth_error_lt _ _ _ En) as Hk. binds H. injection H as <- _.
    cbn [tw_stages t_mem t_num t_stages t_cnt t_limit t_flex].
    set (n := nlen (t_stages w)) in *.
    rewrite (nlen_firstn (t_stages w) k) by (fold n; lia).
    pose proof (filter_partition (in_range k n) (t_mem w)) as Hp.
    fold (t_range k n (t_mem w)) in Hp. fold (t_del_range k n (t_mem w)) in Hp.
    repeat apply conj; try lia.
    + apply NoDup_tkeys_filter. exact Hnd.
    + intros p Hin. unfold t_del_range in Hin. apply filter_In in Hin as [Hin Hf].
      specialize (Hst p Hin). unfold in_range in Hf. lia.
    + intros j Hj. rewrite (c_get_del_range j k n _ Hj), (scount_del_range j k n _ Hj). apply Hc. lia.
  - (* update_stage_config *)
    binds H. destruct (nth_error (t_stages w) (N.to_nat k)) as [s|] eqn:En; [ | discriminate H ].
    binds H. injection H as <- _.
    cbn [tw_stages t_mem t_num t_stages t_cnt t_limit t_flex].
    match goal with |- context [nlen (replace_nth ?i ?x ?l)] =>
      assert (Hlen : nlen (replace_nth i x l) = nlen l) by (unfold nlen; rewrite replace_nth_length; reflexivity) end.
    rewrite Hlen.
    repeat apply conj; try assumption; try lia.
  - (* increase_member_limit *)
    binds H. injection H as <- _. cbn [tw_limit t_mem t_num t_stages t_cnt t_limit t_flex].
    repeat apply conj; try assumption; try lia.
  - binds H. injection H as <- _. cbn [tw_admins t_mem t_num t_stages t_cnt t_limit t_flex].
    repeat apply conj; try assumption; try lia.
  - binds H. injection H as <- _. cbn [tw_admins t_mem t_num t_stages t_cnt t_limit t_flex].
    repeat apply conj; try assumption; try lia.
Qed.


(* ---------------- what add / remove do to a stage; queries ---------------- *)
Lemma t_exec_add_effect e k l w w' ms :
  t_exec valid self e (TAdd k l) w = Ok (w', ms) -> TInv w ->
  k < nlen (t_stages w) /\
  (forall x, In (k, x) (tkeys (t_mem w')) <-> In (k, x) (tkeys (t_mem w)) \/ In x (map fst l)) /\
  (forall j, j <> k -> scount j (t_mem w') = scount j (t_mem w)).
Proof.
  intros H (Hnd & Hnum & Hst & Hc & Hle & Hmax & Hn3).
  unfold t_exec in H; cbv zeta in H. binds H.
  match goal with R3 : t_add _ _ _ _ _ _ _ = Ok ?x |- _ => destruct x as [[num' m'] c'] end.
  injection H as <- _. cbn [tw_members t_mem fst snd].
  destruct (t_add_spec _ _ _ _ _ _ _ _ _ R Hnd Hnum Hle) as (A & B & C & D & E & F & G' & I).
  repeat apply conj; try lia.
  - intros x. rewrite I. destruct (t_flex w); [ reflexivity | ].
    rewrite map_map. cbn [fst]. rewrite map_id, In_sort_dedup. reflexivity.
  - intros j Hj. apply F. exact Hj.
Qed.

Lemma t_exec_remove_effect e k l w w' ms :
  t_exec valid self e (TRemove k l) w = Ok (w', ms) -> TInv w ->
  NoDup l /\ (forall x, In x l -> In (k, x) (tkeys (t_mem w))) /\
  (forall x, In (k, x) (tkeys (t_mem w')) <-> In (k, x) (tkeys (t_mem w)) /\ ~ In x l) /\
  t_num w' + nlen l = t_num w /\
  (forall j, j <> k -> scount j (t_mem w') = scount j (t_mem w)).
Proof.
  intros H (Hnd & Hnum & Hst & Hc & Hle & Hmax & Hn3).
  unfold t_exec in H; cbv zeta in H. binds H.
  destruct (nth_error (t_stages w) (N.to_nat k)) as [s|] eqn:En; [ | discriminate H ].
  pose proof (nth_error_lt _ _ _ En) as Hk. binds H.
  match goal with R3 : t_remove _ _ _ _ _ _ = Ok ?x |- _ => destruct x as [[num' m'] c'] end.
  injection H as <- _. cbn [tw_members t_mem t_num fst snd].
  destruct (t_remove_spec _ _ _ _ _ _ _ _ R Hnd Hnum (Hc k Hk)) as (A & B & C & D & E & F & G' & I & J).
  repeat apply conj; try assumption.
  intros j Hj. apply E. exact Hj.
Qed.

Lemma tq_stage_member_iff k a w b :
  tq_stage_member valid k a w = Ok b -> (b = true <-> In (k, a) (tkeys (t_mem w))).
Proof.
  unfold tq_stage_member. destruct (valid a); [ | discriminate ].
  destruct (t_flex w || (k <? nlen (t_stages w))); [ | discriminate ].
  intros H. injection H as <-. apply t_has_In.
Qed.

Lemma tq_stage_count_stored k w c :
  TInv w -> tq_stage_count k w = Ok c -> k < nlen (t_stages w) /\ c = scount k (t_mem w).
Proof.
  intros (_ & _ & _ & Hc & _) H. unfold tq_stage_count in H.
  destruct (k <? nlen (t_stages w)) eqn:E; [ | discriminate ]. injection H as <-.
  split; [ lia | apply Hc; lia ].
Qed.

Lemma active_index_bound now l : forall k i, active_index now k l = Some i -> k <= i /\ i < k + nlen l.
Proof.
  induction l as [|s t IH]; intros k i H; cbn [active_index] in H; [ discriminate | ].
  unfold nlen. cbn [length].
  destruct ((s_start s <=? now) && (now <=? s_end s)).
  - injection H as <-. lia.
  - apply IH in H. unfold nlen in H. lia.
Qed.

(* HasMember = true only for an address stored in one of the stages *)
Lemma tq_has_stored now a w :
  tq_has valid now a w = Ok true -> exists k, k < nlen (t_stages w) /\ In (k, a) (tkeys (t_mem w)).
Proof.
  unfold tq_has. destruct (valid a); [ | discriminate ].
  destruct (active_index now 0 (t_stages w)) as [k|] eqn:E; [ | discriminate ].
  intros H. injection H as H. apply active_index_bound in E. exists k. split; [ lia | ].
  apply t_has_In. exact H.
Qed.

(* the per-stage counts add up to the total *)
Fixpoint sumN (n : nat) (f : N -> N) : N :=
  match n with O => 0 | S n' => sumN n' f + f (N.of_nat n') end.

Lemma sumN_ext n f g : (forall j, j < N.of_nat n -> f j = g j) -> sumN n f = sumN n g.
Proof.
  induction n as [|n IH]; intros H; cbn [sumN]; [ reflexivity | ].
  rewrite IH, H; [ reflexivity | lia | ]. intros j Hj. apply H. lia.
Qed.

Lemma sumN_indicator n s :
  sumN n (fun j => if s =? j then 1 else 0) = if s <? N.of_nat n then 1 else 0.
Proof.
  induction n as [|n IH]; cbn [sumN]; [ destruct (s <? N.of_nat 0) eqn:E; [ lia | reflexivity ] | ].
  rewrite IH. destruct (s <? N.of_nat n) eqn:E1, (s =? N.of_nat n) eqn:E2, (s <? N.of_nat (S n)) eqn:E3; lia.
Qed.

Lemma sumN_add n f g : sumN n (fun j => f j + g j) = sumN n f + sumN n g.
Proof. induction n as [|n IH]; cbn [sumN]; [ reflexivity | rewrite IH; lia ]. Qed.

Lemma sum_scount n m :
  (forall p, In p m -> e_stage p < N.of_nat n) -> sumN n (fun j => scount j m) = nlen m.
Proof.
  induction m as [|p t IH]; intros H.
  - unfold scount, t_stage, nlen. cbn [filter length]. clear H. induction n as [|n IHn]; cbn [sumN]; [ reflexivity | rewrite IHn; reflexivity ].
  - rewrite (sumN_ext n _ (fun j => (if e_stage p =? j then 1 else 0) + scount j t)).
    + rewrite sumN_add, sumN_indicator, IH.
      * assert (Hp : e_stage p <? N.of_nat n = true) by (specialize (H p (or_introl eq_refl)); lia).
        rewrite Hp. unfold nlen. cbn [length]. lia.
      * intros q Hq. apply H. right. exact Hq.
    + intros j _. unfold scount, t_stage, nlen. cbn [filter].
      destruct (e_stage p =? j); cbn [length]; lia.
Qed.

Lemma counts_sum_to_total w :
  TInv w -> sumN (length (t_stages w)) (fun j => c_get j (t_cnt w)) = t_num w.
Proof.
  intros (_ & Hnum & Hst & Hc & _). rewrite Hnum, <- (sum_scount (length (t_stages w))).
  - apply sumN_ext. intros j Hj. apply Hc. exact Hj.
  - exact Hst.
Qed.

(* ---------------- fees ---------------- *)
Lemma t_price flex : T_PRICE flex = 100000000. Proof. destruct flex; reflexivity. Qed.
Lemma t_max flex : T_MAX_MEMBERS flex = 30000. Proof. destruct flex; reflexivity. Qed.

Lemma t_inst_fee flex e m w ms :
  t_inst valid flex self e m = Ok (w, ms) ->
  let fee := tiers (t_limit w) * 100000000 in
  e_funds e = [mkCoin NATIVE fee] /\
  ms = [Burn NATIVE (fee / 2); FundPool self NATIVE (fee - fee / 2)] /\ sum_out ms = fee.
Proof.
  intros H. unfold t_inst in H; cbv zeta in H. binds H.
  injection H as <- <-. cbn [t_limit].
  apply N.eqb_eq in G0. subst x0. apply andb_true_iff in G as [G Gm].
  unfold t_creation_fee in *. rewrite t_price in *.
  pose proof (tiers_pos (ti_limit m)) as Hpos.
  pose proof (must_pay_ok_shape _ _ _ R0) as [Hf _].
  pose proof (must_may _ _ R0) as Hmay.
  assert (Hfee : 0 < tiers (ti_limit m) * 100000000) by lia.
  match goal with R1 : checked_fair_burn _ _ _ _ = Ok _ |- _ =>
    destruct (burn_all valid self _ _ _ R1 Hmay Hfee) as [Hms Hsum] end.
  repeat split; assumption.
Qed.

Lemma t_exec_fee e o w w' ms :
  t_exec valid self e o w = Ok (w', ms) ->
  match o with
  | TIncrease n =>
      let fee := (tiers n - tiers (t_limit w)) * 100000000 in
      t_limit w < n /\ t_limit w' = n /\ may_pay (e_funds e) NATIVE = Ok fee /\ sum_out ms = fee /\
      (ms = [] \/ ms = [Burn NATIVE (fee / 2); FundPool self NATIVE (fee - fee / 2)])
  | _ => ms = [] /\ t_limit w' = t_limit w
  end.
Proof.
  intros H. unfold t_exec in H; cbv zeta in H. destruct o as [k l|k l|s l|k|k st en pl|n|l|].
  - binds H. injection H as <- <-. split; reflexivity.
  - binds H. destruct (nth_error (t_stages w) (N.to_nat k)); [ | discriminate H ].
    binds H. injection H as <- <-. split; reflexivity.
  - binds H. injection H as <- <-. split; reflexivity.
  - binds H. destruct (nth_error (t_stages w) (N.to_nat k)); [ | discriminate H ].
    binds H. injection H as <- <-. split; reflexivity.
  - binds H. destruct (nth_error (t_stages w) (N.to_nat k)); [ | discriminate H ].
    binds H. injection H as <- <-. split; reflexivity.
  - binds H. apply andb_true_iff in G as [G Gm]. apply N.eqb_eq in G0. subst x.
    injection H as <- <-. cbn [tw_limit t_limit].
    pose proof (tiers_mono (t_limit w) n ltac:(lia)) as Hm.
    unfold t_upgrade_fee in *. rewrite t_price in *.
    destruct (tiers (t_limit w) <? tiers n) eqn:E.
    + destruct (0 <? (tiers n - tiers (t_limit w)) * 100000000) eqn:Ep; [ | lia ].
      destruct (burn_all valid self _ _ _ R0 R ltac:(lia)) as [Hms Hsum].
      repeat split; try lia; try assumption. right. assumption.
    + cbn [N.ltb N.compare] in R0. injection R0 as <-.
      replace (tiers n - tiers (t_limit w)) with 0 by lia. cbn [N.mul].
      repeat split; try lia; try assumption; try reflexivity. left. reflexivity.
  - binds H. injection H as <- <-. split; reflexivity.
  - binds H. injection H as <- <-. split; reflexivity.
Qed.

(* ---------------- histories with an account of fees ---------------- *)
Definition t_is_increase (o : top) : bool := match o with TIncrease _ => true | _ => false end.
Definition t_astep (s : tw * N * N) (eo : env * top) : tw * N * N :=
  let '(w, paid, out) := s in
  match t_exec valid self (fst eo) (snd eo) w with
  | Ok (w', ms) => (w', paid + (if t_is_increase (snd eo) then pay_of (fst eo) else 0), out + sum_out ms)
  | Err => s
  end.
Definition t_arun (h : list (env * top)) (s : tw * N * N) : tw * N * N := fold_left t_astep h s.

Definition TAcctInv (flex : bool) (l0 : N) (s : tw * N * N) : Prop :=
  let '(w, paid, out) := s in
  TInv w /\ t_flex w = flex /\ l0 <= t_limit w /\ 1 <= t_limit w /\
  paid = tiers (t_limit w) * 100000000 /\ out = paid.

Lemma t_astep_inv flex l0 s eo : TAcctInv flex l0 s -> TAcctInv flex l0 (t_astep s eo).
Proof.
  destruct s as [[w paid] out]. intros (Hi & Hf & Hl0 & Hl & Hp & Ho). unfold t_astep.
  destruct (t_exec valid self (fst eo) (snd eo) w) as [[w' ms]|] eqn:E;
    [ | exact (conj Hi (conj Hf (conj Hl0 (conj Hl (conj Hp Ho))))) ].
  pose proof (t_exec_inv _ _ _ _ _ E Hi) as (Hi' & Hf' & Hmono).
  pose proof (t_exec_fee _ _ _ _ _ E) as Hfee.
  unfold TAcctInv. split; [ exact Hi' | ]. split; [ congruence | ]. split; [ lia | ]. split; [ lia | ].
  destruct (snd eo) as [k l|k l|s l|k|k st en pl|n|l|]; cbn [t_is_increase];
    try (destruct Hfee as [-> Hlim]; rewrite Hlim; cbn [sum_out fold_right]; split; lia).
  destruct Hfee as (Hlt & Hlim & Hpay & Hsum & _). unfold pay_of. rewrite Hpay, Hsum, Hlim.
  pose proof (tiers_mono (t_limit w) n ltac:(lia)). split; lia.
Qed.

Lemma t_arun_inv flex l0 h : forall s, TAcctInv flex l0 s -> TAcctInv flex l0 (t_arun h s).
Proof.
  induction h as [|eo t IH]; intros s Hs; cbn [t_arun fold_left]; [ exact Hs | ].
  apply IH. apply t_astep_inv. exact Hs.
Qed.

Lemma t_arun_state h : forall w paid out, fst (fst (t_arun h (w, paid, out))) = t_run valid self h w.
Proof.
  induction h as [|eo t IH]; intros w paid out; cbn [t_arun t_run fold_left]; [ reflexivity | ].
  unfold t_astep at 2. unfold t_step at 2.
  destruct (t_exec valid self (fst eo) (snd eo) w) as [[w' ms]|]; apply IH.
Qed.

(* the C11 history theorem for the tiered and tiered-flex whitelists *)
Lemma t_history_accounting flex e m w0 ms0 h :
  t_inst valid flex self e m = Ok (w0, ms0) ->
  let '(w, paid, out) := t_arun h (w0, pay_of e, sum_out ms0) in
  w = t_run valid self h w0 /\
  NoDup (tkeys (t_mem w)) /\ t_num w = nlen (t_mem w) /\
  (forall p, In p (t_mem w) -> e_stage p < nlen (t_stages w)) /\
  (forall k, k < nlen (t_stages w) -> c_get k (t_cnt w) = scount k (t_mem w)) /\
  sumN (length (t_stages w)) (fun j => c_get j (t_cnt w)) = t_num w /\
  t_num w <= t_limit w /\ t_limit w <= 30000 /\ t_limit w0 <= t_limit w /\ nlen (t_stages w) <= 3 /\
  paid = tiers (t_limit w) * 100000000 /\ out = paid.
Proof.
  intros H.
  pose proof (t_inst_inv _ _ _ _ _ H) as (Hi & Hfl & Hlim & Hl & _).
  pose proof (t_inst_fee _ _ _ _ _ H) as (Hf & _ & Hsum). cbv zeta in Hf, Hsum.
  assert (Hpay : pay_of e = tiers (t_limit w0) * 100000000).
  { unfold pay_of. rewrite Hf. unfold may_pay. cbn [c_denom c_amount]. rewrite N.eqb_refl. reflexivity. }
  assert (Hs : TAcctInv flex (t_limit w0) (w0, pay_of e, sum_out ms0)).
  { unfold TAcctInv. split; [ exact Hi | ]. repeat apply conj; try assumption; try lia. }
  pose proof (t_arun_inv _ _ h _ Hs) as Hinv. pose proof (t_arun_state h w0 (pay_of e) (sum_out ms0)) as Hst.
  destruct (t_arun h (w0, pay_of e, sum_out ms0)) as [[w paid] out]. cbn [fst] in Hst.
  destruct Hinv as (Hi' & Hf' & Hl0 & Hl1 & Hp & Ho).
  pose proof (counts_sum_to_total w Hi') as Hsumc.
  destruct Hi' as (A & B & C & D & E & F & G').
  rewrite t_max in F.
  repeat apply conj; try assumption; try lia; symmetry; exact Hst.
Qed.


(* ---------------- remaining effects: HasMember, add_stage, remove_stage ---------------- *)
Lemma tq_has_iff now a w b :
  tq_has valid now a w = Ok b ->
  (b = true <-> exists k, active_index now 0 (t_stages w) = Some k /\ In (k, a) (tkeys (t_mem w))).
Proof.
  unfold tq_has. destruct (valid a); [ | discriminate ].
  destruct (active_index now 0 (t_stages w)) as [k|] eqn:E; intros H; injection H as <-.
  - rewrite t_has_In. split.
    + intros Hin. exists k. split; [ reflexivity | exact Hin ].
    + intros [k' [Hk Hin]]. injection Hk as <-. exact Hin.
  - split; [ discriminate | ]. intros [k' [Hk _]]. discriminate.
Qed.

Lemma t_exec_add_stage_effect e s l w w' ms :
  t_exec valid self e (TAddStage s l) w = Ok (w', ms) -> TInv w ->
  let n := nlen (t_stages w) in
  t_stages w' = t_stages w ++ [s] /\ n < 3 /\
  (forall x, In (n, x) (tkeys (t_mem w')) <-> In x (map fst l)) /\
  (forall j, j <> n -> scount j (t_mem w') = scount j (t_mem w)) /\
  (forall p, In p (t_mem w') -> In p (t_mem w) \/ e_stage p = n).
Proof.
  intros H (Hnd & Hnum & Hst & Hc & Hle & Hmax & Hn3). cbv zeta.
  unfold t_exec in H; cbv zeta in H. binds H.
  match goal with R3 : t_add_stage _ _ _ _ _ _ _ _ = Ok ?x |- _ => destruct x as [[num' sm'] m'] end.
  injection H as <- _. cbn [tw_stages t_mem t_stages fst snd].
  set (n := nlen (t_stages w)) in *.
  assert (Hnone : forall p, In p (t_mem w) -> e_stage p <> n) by (intros p Hp; specialize (Hst p Hp); lia).
  destruct (t_add_stage_spec _ _ _ _ _ _ _ _ _ _ R0 Hnd Hnum Hle) as (A & B & C & D & E & F & G' & I & J).
  repeat apply conj; try reflexivity; try lia; try assumption.
  intros y. rewrite J. split.
  - intros [Hin|Hin]; [ exfalso; exact (no_stage_key n _ y Hnone Hin) | ].
    destruct (t_flex w); [ exact Hin | ].
    rewrite map_map in Hin. cbn [fst] in Hin. rewrite map_id, In_sort_dedup in Hin. exact Hin.
  - intros Hin. right. destruct (t_flex w); [ exact Hin | ].
    rewrite map_map. cbn [fst]. rewrite map_id, In_sort_dedup. exact Hin.
Qed.

Lemma t_exec_remove_stage_effect e k w w' ms :
  t_exec valid self e (TRemoveStage k) w = Ok (w', ms) -> TInv w ->
  k < nlen (t_stages w) /\ t_stages w' = firstn (N.to_nat k) (t_stages w) /\
  (forall p, In p (t_mem w') <-> In p (t_mem w) /\ e_stage p < k) /\
  t_num w' + nlen (t_range k (nlen (t_stages w)) (t_mem w)) = t_num w.
Proof.
  intros H (Hnd & Hnum & Hst & Hc & Hle & Hmax & Hn3).
  unfold t_exec in H; cbv zeta in H. binds H.
  destruct (nth_error (t_stages w) (N.to_nat k)) as [s|] eqn:En; [ | discriminate H ].
  pose proof (nth_error_lt _ _ _ En) as Hk. binds H. injection H as <- _.
  cbn [tw_stages t_mem t_num t_stages].
  repeat apply conj; try reflexivity; try lia.
  intros p. unfold t_del_range. rewrite filter_In. unfold in_range. split.
  - intros [Hin Hf]. split; [ exact Hin | ]. specialize (Hst p Hin). lia.
  - intros [Hin Hlt]. split; [ exact Hin | ]. lia.
Qed.

End Tier.
