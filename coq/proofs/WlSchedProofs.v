(* Schedule half of the plain / flex / Merkle whitelist model (property C12). *)
From LP Require Import Wl Consts.
From Coq Require Import ZArith Lia ZifyN ZifyBool.
Local Open Scope N_scope.

Lemma genesis_value : GENESIS = 1647032400000000000.
Proof. reflexivity. Qed.
Global Opaque GENESIS.

(* destructing the result monad *)
Ltac step_bind H :=
  match type of H with
  | bind (guard ?b) _ = Ok _ =>
      let E := fresh "G" in destruct b eqn:E; cbn [bind guard] in H; [ | discriminate H ]
  | guard ?b = Ok _ =>
      let E := fresh "G" in destruct b eqn:E; cbn [guard] in H; [ | discriminate H ]
  | bind ?r _ = Ok _ =>
      let E := fresh "R" in let x := fresh "x" in
      destruct r as [x|] eqn:E; cbn [bind] in H; [ | discriminate H ]
  end.
Ltac binds H := repeat step_bind H.

Definition SchedInv (w : wl) : Prop := GENESIS <= w_start w /\ w_start w <= w_end w.

(* ---- membership store facts needed for "no member disappears after the start" ---- *)
Lemma m_has_del a b m : m_has a (m_del b m) = negb (a =? b) && m_has a m.
Proof.
  unfold m_has, m_del. induction m as [|[k v] t IH]; cbn [filter existsb fst].
  - now rewrite andb_false_r.
  - destruct (k =? b) eqn:Ekb; cbn [negb].
    + rewrite IH. apply N.eqb_eq in Ekb. subst k.
      destruct (b =? a) eqn:Eba; cbn [orb]; [ | reflexivity ].
      apply N.eqb_eq in Eba. subst. rewrite N.eqb_refl. reflexivity.
    + cbn [existsb fst]. rewrite IH.
      destruct (k =? a) eqn:Eka; cbn [orb]; [ | reflexivity ].
      apply N.eqb_eq in Eka. subst k. rewrite Ekb. reflexivity.
Qed.

Lemma m_has_set a b c m : m_has a (m_set b c m) = (a =? b) || m_has a m.
Proof.
  unfold m_set. change (m_has a ((b, c) :: m_del b m)) with ((b =? a) || m_has a (m_del b m)).
  rewrite m_has_del, (N.eqb_sym b a). destruct (a =? b); reflexivity.
Qed.

(* activity flags *)
Lemma active_iff now w : q_active now w = true <-> w_start w <= now /\ now < w_end w.
Proof. unfold q_active. lia. Qed.
Lemma started_iff now w : q_started now w = true <-> w_start w <= now.
Proof. unfold q_started. lia. Qed.
Lemma ended_iff now w : q_ended now w = true <-> w_end w <= now.
Proof. unfold q_ended. lia. Qed.
Lemma config_active now w : snd (q_config now w) = q_active now w.
Proof. reflexivity. Qed.
Lemma config_window now w :
  q_config now w = (w_num w, w_pal w, w_limit w, w_start w, w_end w, q_active now w).
Proof. reflexivity. Qed.


(* the four activity answers are functions of the clock and the window only: replacing the
   stored members and the member count (by anything, the empty list included) changes none *)
Lemma activity_ignores_members now w num mem :
  q_active now (set_members w num mem) = q_active now w /\
  q_started now (set_members w num mem) = q_started now w /\
  q_ended now (set_members w num mem) = q_ended now w /\
  snd (q_config now (set_members w num mem)) = snd (q_config now w).
Proof. repeat split; reflexivity. Qed.

Section Sched.
Variable valid : addr -> bool.
Variable self : addr.

Lemma inst_times_ok now s e : inst_times now s e = Ok tt -> s <= e /\ now < s /\ GENESIS <= s.
Proof.
  unfold inst_times. intros H. binds H. lia.
Qed.

Lemma inst_times_unit now s e u : inst_times now s e = Ok u -> s <= e /\ now < s /\ GENESIS <= s.
Proof. destruct u. apply inst_times_ok. Qed.

(* creation: the window is the requested one, well-formed, not before genesis, and
   strictly in the future *)
Lemma inst_sched k e m w ms :
  inst valid k self e m = Ok (w, ms) ->
  w_kind w = k /\ w_start w = i_start m /\ w_end w = i_end m /\
  e_now e < w_start w /\ GENESIS <= w_start w /\ w_start w <= w_end w.
Proof.
  intros H. destruct k; unfold inst in H; cbv zeta in H; binds H;
    match goal with R : inst_times _ _ _ = Ok _ |- _ => apply inst_times_unit in R end;
    injection H as <- _; cbn [w_kind w_start w_end];
    match goal with R : _ /\ _ /\ _ |- _ => destruct R as (? & ? & ?) end;
    repeat split; try reflexivity; lia.
Qed.

Lemma add_plain_keeps ms : forall limit num m num' m' a,
  add_plain valid ms limit num m = Ok (num', m') -> m_has a m = true -> m_has a m' = true.
Proof.
  induction ms as [|b t IH]; intros limit num m num' m' a H Ha; cbn [add_plain] in H.
  - injection H as _ <-. exact Ha.
  - binds H. destruct (m_has b m) eqn:Eb.
    + eapply IH; eauto.
    + eapply IH; [ exact H | ]. rewrite m_has_set, Ha. apply orb_true_r.
Qed.

Lemma add_flex_keeps ms : forall limit num m num' m' a,
  add_flex valid ms limit num m = Ok (num', m') -> m_has a m = true -> m_has a m' = true.
Proof.
  induction ms as [|[b c] t IH]; intros limit num m num' m' a H Ha; cbn [add_flex] in H.
  - injection H as _ <-. exact Ha.
  - binds H. eapply IH; [ exact H | ]. rewrite m_has_set, Ha. apply orb_true_r.
Qed.

(* what each call does to the window, and what it leaves alone *)
Definition sched_effect (e : env) (o : op) (w w' : wl) : Prop :=
  match o with
  | OUpdStart t =>
      w_start w' = N.max t GENESIS /\ w_end w' = w_end w /\ e_now e < w_start w /\ t <= w_end w
  | OUpdEnd t =>
      w_end w' = t /\ w_start w' = w_start w /\ w_start w <= t /\ (w_start w <= e_now e -> t <= w_end w)
  | _ => w_start w' = w_start w /\ w_end w' = w_end w
  end.

Lemma exec_sched_effect e o w w' ms :
  exec valid self e o w = Ok (w', ms) -> w_kind w' = w_kind w /\ sched_effect e o w w'.
Proof.
  intros H. unfold exec in H; cbv zeta in H.
  destruct o as [t|t|l|l|n|n|l|]; unfold sched_effect.
  - binds H. injection H as <- _. cbn [set_start w_kind w_start w_end].
    split; [ reflexivity | ]. destruct (t <? GENESIS) eqn:E; lia.
  - binds H. injection H as <- _. cbn [set_end w_kind w_start w_end].
    split; [ reflexivity | ]. lia.
  - destruct (w_kind w) eqn:K; try discriminate H; binds H; injection H as <- _;
      cbn [set_members w_kind w_start w_end]; auto.
  - destruct (w_kind w) eqn:K; try discriminate H; binds H; injection H as <- _;
      cbn [set_members w_kind w_start w_end]; auto.
  - destruct (w_kind w) eqn:K; try discriminate H; binds H; injection H as <- _;
      cbn [set_pal w_kind w_start w_end]; auto.
  - destruct (w_kind w) eqn:K; try discriminate H; binds H; injection H as <- _;
      cbn [set_limit w_kind w_start w_end]; auto.
  - binds H. injection H as <- _. cbn [set_admins w_kind w_start w_end]. auto.
  - binds H. injection H as <- _. cbn [set_admins w_kind w_start w_end]. auto.
Qed.

(* SchedInv is preserved by every accepted call, at every clock value.  The clamp to
   genesis in update_start_time is safe only because end >= genesis is itself part of
   the invariant. *)
Lemma exec_sched_inv e o w w' ms :
  exec valid self e o w = Ok (w', ms) -> SchedInv w -> SchedInv w'.
Proof.
  intros H [Hg Hse]. apply exec_sched_effect in H as [_ H]. unfold SchedInv.
  destruct o; unfold sched_effect in H; try (destruct H as [-> ->]; split; assumption).
  - destruct H as (-> & -> & Hn & Ht). lia.
  - destruct H as (-> & -> & Hs & _). lia.
Qed.

(* once started: the start is frozen, the end can only come forward and never before
   the start *)
Lemma started_window_fixed e o w w' ms :
  exec valid self e o w = Ok (w', ms) -> SchedInv w -> w_start w <= e_now e ->
  w_start w' = w_start w /\ w_end w' <= w_end w /\ w_start w' <= w_end w'.
Proof.
  intros H [Hg Hse] Hst. apply exec_sched_effect in H as [_ H].
  destruct o; unfold sched_effect in H; try (destruct H as [-> ->]; lia).
  - destruct H as (_ & _ & Hn & _). lia.
  - destruct H as (-> & -> & Hs & Hle). specialize (Hle Hst). lia.
Qed.

Lemma started_start_rejected e t w :
  w_start w <= e_now e -> exec valid self e (OUpdStart t) w = Err.
Proof.
  intros Hst. destruct (exec valid self e (OUpdStart t) w) as [[w' ms]|] eqn:H; [ | reflexivity ].
  apply exec_sched_effect in H as [_ H]. unfold sched_effect in H. lia.
Qed.

Lemma started_extend_rejected e t w :
  w_start w <= e_now e -> w_end w < t -> exec valid self e (OUpdEnd t) w = Err.
Proof.
  intros Hst Hlt. destruct (exec valid self e (OUpdEnd t) w) as [[w' ms]|] eqn:H; [ | reflexivity ].
  apply exec_sched_effect in H as [_ H]. unfold sched_effect in H. lia.
Qed.

Lemma end_before_start_rejected e t w :
  t < w_start w -> exec valid self e (OUpdEnd t) w = Err.
Proof.
  intros Hlt. destruct (exec valid self e (OUpdEnd t) w) as [[w' ms]|] eqn:H; [ | reflexivity ].
  apply exec_sched_effect in H as [_ H]. unfold sched_effect in H. lia.
Qed.

Lemma started_no_removal e l w :
  w_start w <= e_now e -> exec valid self e (ORemove l) w = Err.
Proof.
  intros Hst. unfold exec; cbv zeta.
  assert (Hn : e_now e <? w_start w = false) by lia.
  destruct (w_kind w); [ | | reflexivity ];
    (destruct (is_admin (e_sender e) w); cbn [bind guard]; [ | reflexivity ]);
    rewrite Hn; reflexivity.
Qed.

(* ... and no accepted call of any kind makes a stored member disappear *)
Lemma started_members_kept e o w w' ms a :
  exec valid self e o w = Ok (w', ms) -> w_start w <= e_now e ->
  m_has a (w_mem w) = true -> m_has a (w_mem w') = true.
Proof.
  intros H Hst Ha. destruct o as [t|t|l|l|n|n|l|].
  - rewrite started_start_rejected in H by assumption. discriminate.
  - unfold exec in H; cbv zeta in H. binds H. injection H as <- _. exact Ha.
  - unfold exec in H; cbv zeta in H.
    destruct (w_kind w) eqn:K; try discriminate H; binds H; injection H as <- _;
      cbn [set_members w_mem];
      match goal with R : _ = Ok ?x |- context [snd ?x] => destruct x as [num' m']; cbn [snd] end.
    + eapply add_plain_keeps; eauto.
    + eapply add_flex_keeps; eauto.
  - rewrite started_no_removal in H by assumption. discriminate.
  - unfold exec in H; cbv zeta in H.
    destruct (w_kind w) eqn:K; try discriminate H; binds H; injection H as <- _; exact Ha.
  - unfold exec in H; cbv zeta in H.
    destruct (w_kind w) eqn:K; try discriminate H; binds H; injection H as <- _; exact Ha.
  - unfold exec in H; cbv zeta in H. binds H. injection H as <- _. exact Ha.
  - unfold exec in H; cbv zeta in H. binds H. injection H as <- _. exact Ha.
Qed.

(* schedule changes and removals need an admin *)
Lemma sched_needs_admin e o w :
  is_admin (e_sender e) w = false ->
  match o with OUpdStart _ | OUpdEnd _ | ORemove _ | OUpdPal _ => exec valid self e o w = Err | _ => True end.
Proof.
  intros Hna. destruct o; try exact I; unfold exec; cbv zeta; try (rewrite Hna; reflexivity);
    destruct (w_kind w); try reflexivity; rewrite Hna; reflexivity.
Qed.

(* ---- histories ---- *)
Lemma step_cases w eo :
  (exists ms, exec valid self (fst eo) (snd eo) w = Ok (step valid self w eo, ms)) \/
  (exec valid self (fst eo) (snd eo) w = Err /\ step valid self w eo = w).
Proof.
  unfold step. destruct (exec valid self (fst eo) (snd eo) w) as [[w' ms]|] eqn:E.
  - left. exists ms. reflexivity.
  - right. split; reflexivity.
Qed.

Lemma run_sched_inv h : forall w, SchedInv w -> SchedInv (run valid self h w).
Proof.
  induction h as [|eo t IH]; intros w Hi; cbn [run fold_left]; [ exact Hi | ].
  apply IH. destruct (step_cases w eo) as [[ms H]|[_ ->]]; [ | exact Hi ].
  eapply exec_sched_inv; eauto.
Qed.

Lemma run_kind h : forall w, w_kind (run valid self h w) = w_kind w.
Proof.
  induction h as [|eo t IH]; intros w; cbn [run fold_left]; [ reflexivity | ].
  unfold run in IH. rewrite IH. destruct (step_cases w eo) as [[ms H]|[_ ->]]; [ | reflexivity ].
  apply exec_sched_effect in H as [H _]. exact H.
Qed.

(* the whole remaining history of a started whitelist *)
Lemma run_started h : forall w,
  SchedInv w -> (forall eo, In eo h -> w_start w <= e_now (fst eo)) ->
  w_start (run valid self h w) = w_start w /\
  w_end (run valid self h w) <= w_end w /\
  w_start w <= w_end (run valid self h w) /\
  (forall a, m_has a (w_mem w) = true -> m_has a (w_mem (run valid self h w)) = true).
Proof.
  induction h as [|eo t IH]; intros w Hi Hall; cbn [run fold_left].
  - destruct Hi. repeat split; try lia; auto.
  - assert (Hnow : w_start w <= e_now (fst eo)) by (apply Hall; left; reflexivity).
    destruct (step_cases w eo) as [[ms H]|[_ Hs]].
    + pose proof (started_window_fixed _ _ _ _ _ H Hi Hnow) as (Es & Ee & Ese).
      pose proof (exec_sched_inv _ _ _ _ _ H Hi) as Hi'.
      destruct (IH (step valid self w eo) Hi') as (A & B & C & D).
      { intros eo' Hin. rewrite Es. apply Hall. right. exact Hin. }
      unfold run in *. rewrite A, Es. repeat split; try lia.
      intros a Ha. apply D. eapply started_members_kept; eauto.
    + rewrite Hs. apply IH; [ exact Hi | ]. intros eo' Hin. apply Hall. right. exact Hin.
Qed.

Lemma inst_run_sched k e m w ms h :
  inst valid k self e m = Ok (w, ms) ->
  SchedInv (run valid self h w) /\ w_kind (run valid self h w) = k.
Proof.
  intros H. apply inst_sched in H as (K & _ & _ & _ & Hg & Hse). split.
  - apply run_sched_inv. split; assumption.
  - rewrite run_kind. exact K.
Qed.

End Sched.
