(* C03 — per-address, per-whitelist and per-stage mint limits (vending family).
   Step lemmas about the counters of MinterVending.step, the oracle-independence of the
   entitlement, and history theorems over call lists (`run`). *)
From LP Require Import Num Pay Sg1 MinterVending MinterVendingProofs.
From Coq Require Import ZArith Lia ZifyN ZifyBool.
Local Open Scope N_scope.

(* ---------- association maps ---------- *)
Lemma get_set_same m a v : get (set m a v) a = v.
Proof.
  induction m as [|[k w] r IH]; cbn [get set].
  - rewrite N.eqb_refl. reflexivity.
  - destruct (k =? a) eqn:E; cbn [get]; rewrite E; auto.
Qed.

Lemma get_set_other m a b v : a <> b -> get (set m a v) b = get m b.
Proof.
  intros Hab. induction m as [|[k w] r IH]; cbn [get set].
  - apply N.eqb_neq in Hab. rewrite Hab. reflexivity.
  - destruct (k =? a) eqn:E; cbn [get].
    + apply N.eqb_eq in E. subst k. apply N.eqb_neq in Hab. rewrite Hab. reflexivity.
    + rewrite IH. reflexivity.
Qed.

(* ---------- which counter a whitelist mint uses ---------- *)
(* the plain whitelist map, or the map + total of tiered stage 1 / 2 / 3 *)
Inductive slot := SPlain | SFs | SSs | STs.

Definition slot_eqb (a b : slot) : bool :=
  match a, b with SPlain, SPlain | SFs, SFs | SSs, SSs | STs, STs => true | _, _ => false end.
Lemma slot_eqb_eq a b : slot_eqb a b = true <-> a = b.
Proof. destruct a, b; cbn; split; intros H; try reflexivity; discriminate. Qed.

Definition slot_of_stage (k : N) : option slot :=
  match k with 1 => Some SFs | 2 => Some SSs | 3 => Some STs | _ => None end.
Definition is_stage (sl : slot) : bool := match sl with SPlain => false | _ => true end.
Definition stage_num (sl : slot) : option N :=
  match sl with SPlain => None | SFs => Some 1 | SSs => Some 2 | STs => Some 3 end.

(* the slot the whitelist's answers select: the plain map for a non-tiered whitelist,
   the ACTIVE stage's map for a tiered one (never a caller-chosen stage) *)
Definition active_slot (v : wlview) : option slot :=
  if wv_tiered v then match wv_stage_id v with Some k => slot_of_stage k | None => None end
  else Some SPlain.

Definition slot_map (s : vstate) (sl : slot) : list (addr * N) :=
  match sl with SPlain => s_wl s | SFs => s_fs s | SSs => s_ss s | STs => s_ts s end.
(* per-stage total (the plain whitelist has none) *)
Definition stage_total (s : vstate) (sl : slot) : N :=
  match sl with SPlain => 0 | SFs => s_fs_count s | SSs => s_ss_count s | STs => s_ts_count s end.

(* whitelist phase: a whitelist is attached and says it is active at call time *)
Definition wl_phase (s : vstate) (wv : option wlview) : bool :=
  match s_whitelist s, wv with Some _, Some v => wv_active v | _, _ => false end.

(* the membership question is the proof-form one exactly when the minter is a Merkle
   variant, the whitelist presents itself as a Merkle tree and a proof was supplied *)
Definition verified (vr : variant) (v : wlview) (proof : bool) : bool :=
  v_merkle vr && is_merkle_tree_wl v && proof.

(* the entitlement in force for one call *)
Definition entitlement (vr : variant) (v : wlview) (proof : bool) (alloc : option N) : option N :=
  if v_flex vr then wv_flex_count v
  else if v_merkle vr then
         match alloc with
         | Some al => if verified vr v proof then Some al else Some (wv_limit v)
         | None => Some (wv_limit v)
         end
       else Some (wv_limit v).

(* stage mint-count limit respected (vacuous for the plain map / no limit set) *)
Definition stage_room (s : vstate) (v : wlview) (sl : slot) : Prop :=
  is_stage sl = true ->
  exists ol, wv_stage_limit v = Some ol /\ forall lim, ol = Some lim -> stage_total s sl < lim.

(* ---------- counters and configuration as tuples ---------- *)
Definition ctr (s : vstate) :=
  (s_public s, s_wl s, (s_fs s, s_ss s, s_ts s), (s_fs_count s, s_ss_count s, s_ts_count s)).
Definition cfg (s : vstate) :=
  (s_admin s, s_payment s, s_num_tokens s, s_pal s, s_whitelist s, s_start s,
   (s_price s, s_denom s, s_discount s, s_last_discount s, s_trading s)).

Definition bump (m : list (addr * N)) (a : addr) := set m a (get m a + 1).

Definition bump_pub (s : vstate) (a : addr) :=
  (bump (s_public s) a, s_wl s, (s_fs s, s_ss s, s_ts s), (s_fs_count s, s_ss_count s, s_ts_count s)).
Definition bump_wl (s : vstate) (sl : slot) (a : addr) :=
  match sl with
  | SPlain => (s_public s, bump (s_wl s) a, (s_fs s, s_ss s, s_ts s), (s_fs_count s, s_ss_count s, s_ts_count s))
  | SFs => (s_public s, s_wl s, (bump (s_fs s) a, s_ss s, s_ts s), (s_fs_count s + 1, s_ss_count s, s_ts_count s))
  | SSs => (s_public s, s_wl s, (s_fs s, bump (s_ss s) a, s_ts s), (s_fs_count s, s_ss_count s + 1, s_ts_count s))
  | STs => (s_public s, s_wl s, (s_fs s, s_ss s, bump (s_ts s) a), (s_fs_count s, s_ss_count s, s_ts_count s + 1))
  end.

Lemma ctr_fields s s' : ctr s' = ctr s ->
  s_public s' = s_public s /\ (forall sl, slot_map s' sl = slot_map s sl) /\ (forall sl, stage_total s' sl = stage_total s sl).
Proof.
  unfold ctr. intros H. inversion H. split; [ congruence | ].
  split; intros sl; destruct sl; cbn [slot_map stage_total]; congruence.
Qed.

Lemma bump_pub_fields s s' a : ctr s' = bump_pub s a ->
  s_public s' = bump (s_public s) a /\ (forall sl, slot_map s' sl = slot_map s sl) /\ (forall sl, stage_total s' sl = stage_total s sl).
Proof.
  unfold ctr, bump_pub. intros H. inversion H. split; [ congruence | ].
  split; intros sl; destruct sl; cbn [slot_map stage_total]; congruence.
Qed.

Lemma bump_wl_fields s s' sl a : ctr s' = bump_wl s sl a ->
  s_public s' = s_public s /\
  slot_map s' sl = bump (slot_map s sl) a /\
  (forall sl', sl' <> sl -> slot_map s' sl' = slot_map s sl') /\
  (is_stage sl = true -> stage_total s' sl = stage_total s sl + 1) /\
  (forall sl', sl' <> sl -> stage_total s' sl' = stage_total s sl').
Proof.
  unfold ctr, bump_wl. intros H.
  destruct sl; inversion H; cbn [slot_map stage_total is_stage];
    (split; [ congruence | ]); (split; [ congruence | ]);
    (split; [ intros sl' Hn; destruct sl'; cbn [slot_map]; congruence | ]);
    (split; [ intros Hs; try discriminate; congruence | ]);
    intros sl' Hn; destruct sl'; cbn [stage_total]; congruence.
Qed.

(* ---------- wl_count selects the active slot ---------- *)
Lemma wl_count_slot s v a c :
  wl_count s v a = Ok c ->
  exists sl, active_slot v = Some sl /\ c = (get (slot_map s sl) a, is_stage sl, stage_num sl).
Proof.
  unfold wl_count, active_slot. destruct (wv_tiered v).
  - destruct (wv_stage_id v) as [k|]; [ | discriminate ].
    destruct k as [|p]; [ discriminate | ].
    destruct p as [p|p|].
    + destruct p as [p|p|]; try discriminate. intros H. inv H. exists STs. split; reflexivity.
    + destruct p as [p|p|]; try discriminate. intros H. inv H. exists SSs. split; reflexivity.
    + intros H. inv H. exists SFs. split; reflexivity.
  - intros H. inv H. exists SPlain. split; reflexivity.
Qed.

(* ---------- is_public_mint ---------- *)
Lemma is_public_phase vr s wv a proof alloc b :
  is_public_mint vr s wv a proof alloc = Ok b -> b = negb (wl_phase s wv).
Proof.
  unfold is_public_mint, wl_phase. destruct (s_whitelist s) as [w|]; [ | intros H; inv H; reflexivity ].
  destruct wv as [v|]; [ | discriminate ].
  destruct (wv_active v); cbn [negb]; [ | intros H; inv H; reflexivity ].
  intros H. repeat step_hyp H; inv H; reflexivity.
Qed.

Lemma is_public_false vr s wv a proof alloc :
  is_public_mint vr s wv a proof alloc = Ok false ->
  exists w v sl ent,
    s_whitelist s = Some w /\ wv = Some v /\ wv_active v = true /\
    (if verified vr v proof then wv_has_proof v else wv_has_plain v) = Some true /\
    active_slot v = Some sl /\
    entitlement vr v proof alloc = Some ent /\
    get (slot_map s sl) a < ent /\
    stage_room s v sl.
Proof.
  unfold is_public_mint. destruct (s_whitelist s) as [w|]; [ | discriminate ].
  destruct wv as [v|]; [ | discriminate ].
  destruct (wv_active v) eqn:Eact; cbn [negb]; [ | discriminate ].
  fold (verified vr v proof).
  destruct (if verified vr v proof then wv_has_proof v else wv_has_plain v) as [[|]|] eqn:Ehas; try discriminate.
  intros H. bind_in H c Hc. apply wl_count_slot in Hc. destruct Hc as (sl & Hsl & ->).
  bind_in H maxc Hmax.
  destruct (maxc <=? get (slot_map s sl) a) eqn:Ele; [ discriminate | ].
  apply N.leb_gt in Ele.
  exists w, v, sl, maxc. repeat (split; [ first [ reflexivity | assumption ] | ]).
  split.
  { unfold entitlement. destruct (v_flex vr).
    - destruct (wv_flex_count v); inv Hmax. reflexivity.
    - destruct (v_merkle vr).
      + destruct alloc as [al|]; [ destruct (verified vr v proof) | ]; inv Hmax; reflexivity.
      + inv Hmax. reflexivity. }
  split; [ exact Ele | ].
  intros Hst. destruct sl; try discriminate; cbn [is_stage stage_num] in H;
    (destruct (wv_stage_limit v) as [[lim|]|]; [ | | discriminate ];
     [ | eexists; split; [ reflexivity | intros l Hl; discriminate ] ];
     match type of H with (if ?c then _ else _) = _ => destruct c eqn:El; [ discriminate | ] end;
     apply N.leb_gt in El; eexists; split; [ reflexivity | ]; intros l Hl; inv Hl; exact El).
Qed.

(* ---------- execute_mint_core on the counters ---------- *)
Lemma mint_core_ctr vr s e fp wv adm rcp tok choice isp s' ms :
  execute_mint_core vr s e fp wv adm rcp tok choice isp = Ok (s', ms) ->
  cfg s' = cfg s /\
  s_mintable s <> 0 /\
  (if isp then ctr s' = bump_pub s (e_sender e)
   else exists v sl, wv = Some v /\ active_slot v = Some sl /\ ctr s' = bump_wl s sl (e_sender e)).
Proof.
  unfold execute_mint_core. intros H.
  destruct (s_mintable s =? 0) eqn:Em; [ discriminate | ]. apply N.eqb_neq in Em.
  bind_in H u1 Hg.
  bind_in H pr Hpr. destruct pr as [amount dn].
  bind_in H payment Hpay.
  destruct (negb (payment =? amount)); [ discriminate | ].
  match type of H with (if ?c then _ else _) = _ => destruct c; [ discriminate | ] end.
  bind_in H fmsgs Hfm.
  bind_in H tid Htid.
  bind_in H pos Hpos.
  bind_in H s1 Hs1.
  bind_in H smsgs Hsm. inv H.
  destruct isp.
  - inv Hs1. cbn. auto.
  - destruct wv as [v|]; [ | discriminate ].
    bind_in Hs1 c3 Hc3. apply wl_count_slot in Hc3. destruct Hc3 as (sl & Hsl & ->).
    destruct sl; cbn [is_stage stage_num] in Hs1; inv Hs1; cbn;
      (split; [ reflexivity | ]); (split; [ exact Em | ]); exists v; eexists; (split; [ reflexivity | ]);
      (split; [ exact Hsl | ]); reflexivity.
Qed.

(* ---------- the Mint step ---------- *)
Theorem public_mint_step vr s e fp wv stage proof alloc choice s' ms :
  step vr s e fp wv (OMint stage proof alloc choice) = Ok (s', ms) ->
  wl_phase s wv = false ->
  s_start s <= e_now e /\
  get (s_public s) (e_sender e) < s_pal s /\
  get (s_public s') (e_sender e) = get (s_public s) (e_sender e) + 1 /\
  (forall b, b <> e_sender e -> get (s_public s') b = get (s_public s) b) /\
  (forall sl, slot_map s' sl = slot_map s sl) /\
  (forall sl, stage_total s' sl = stage_total s sl) /\
  cfg s' = cfg s /\ s_mintable s <> 0.
Proof.
  cbn [step]. intros H Hph.
  bind_in H isp Hisp. pose proof (is_public_phase _ _ _ _ _ _ _ Hisp) as Hb.
  rewrite Hph in Hb. cbn [negb] in Hb. subst isp. cbn [andb] in H.
  destruct (e_now e <? s_start s) eqn:Et; [ discriminate | ]. apply N.ltb_ge in Et.
  destruct (s_pal s <=? get (s_public s) (e_sender e)) eqn:El; [ discriminate | ]. apply N.leb_gt in El.
  apply mint_core_ctr in H. destruct H as (Hc & Hm & Hctr).
  apply bump_pub_fields in Hctr. destruct Hctr as (Hp & Hs & Ht).
  split; [ exact Et | ]. split; [ exact El | ].
  rewrite Hp. unfold bump. split; [ apply get_set_same | ].
  split; [ intros b Hb; apply get_set_other; congruence | ].
  auto.
Qed.

Theorem whitelist_mint_step vr s e fp wv stage proof alloc choice s' ms :
  step vr s e fp wv (OMint stage proof alloc choice) = Ok (s', ms) ->
  wl_phase s wv = true ->
  exists v sl ent,
    wv = Some v /\ wv_active v = true /\
    (* membership was answered by the whitelist: by proof only on the verified path *)
    (if verified vr v proof then wv_has_proof v else wv_has_plain v) = Some true /\
    active_slot v = Some sl /\
    entitlement vr v proof alloc = Some ent /\
    (* the counter that is checked ... *)
    get (slot_map s sl) (e_sender e) < ent /\
    stage_room s v sl /\
    (* ... is the one that is incremented, and nothing else moves *)
    get (slot_map s' sl) (e_sender e) = get (slot_map s sl) (e_sender e) + 1 /\
    (forall b, b <> e_sender e -> get (slot_map s' sl) b = get (slot_map s sl) b) /\
    (forall sl', sl' <> sl -> slot_map s' sl' = slot_map s sl') /\
    (is_stage sl = true -> stage_total s' sl = stage_total s sl + 1) /\
    (forall sl', sl' <> sl -> stage_total s' sl' = stage_total s sl') /\
    s_public s' = s_public s /\
    cfg s' = cfg s /\ s_mintable s <> 0.
Proof.
  cbn [step]. intros H Hph.
  bind_in H isp Hisp. pose proof (is_public_phase _ _ _ _ _ _ _ Hisp) as Hb.
  rewrite Hph in Hb. cbn [negb] in Hb. subst isp. cbn [andb] in H.
  apply is_public_false in Hisp.
  destruct Hisp as (w & v & sl & ent & Hw & Hwv & Hact & Hhas & Hsl & Hent & Hlt & Hroom).
  apply mint_core_ctr in H. destruct H as (Hc & Hm & v' & sl' & Hwv' & Hsl' & Hctr).
  rewrite Hwv in Hwv'. inv Hwv'. rewrite Hsl in Hsl'. inv Hsl'.
  apply bump_wl_fields in Hctr. destruct Hctr as (Hp & Hmap & Hoth & Htot & Htoth).
  exists v', sl', ent. repeat (split; [ first [ reflexivity | assumption ] | ]).
  rewrite Hmap. unfold bump. split; [ apply get_set_same | ].
  split; [ intros b Hb; apply get_set_other; congruence | ].
  auto 10.
Qed.

(* the allocation is the entitlement only behind an accepted proof *)
Theorem allocation_needs_proof vr v proof alloc al :
  alloc = Some al ->
  entitlement vr v proof alloc = Some al ->
  (v_flex vr = false /\ v_merkle vr = true /\ is_merkle_tree_wl v = true /\ proof = true) \/
  (v_flex vr = true /\ wv_flex_count v = Some al) \/
  (v_flex vr = false /\ wv_limit v = al).
Proof.
  intros -> H. unfold entitlement, verified in H.
  destruct (v_flex vr); [ right; left; auto | ].
  destruct (v_merkle vr); cbn [andb] in H.
  - destruct (is_merkle_tree_wl v); cbn [andb] in H.
    + destruct proof; [ left; auto | right; right; inv H; auto ].
    + right; right; inv H; auto.
  - right; right; inv H; auto.
Qed.

Theorem entitlement_cases vr v proof alloc :
  entitlement vr v proof alloc =
    if v_flex vr then wv_flex_count v
    else match alloc with
         | Some al => if v_merkle vr && is_merkle_tree_wl v && proof then Some al else Some (wv_limit v)
         | None => Some (wv_limit v)
         end.
Proof.
  unfold entitlement, verified. destruct (v_flex vr); [ reflexivity | ].
  destruct (v_merkle vr); cbn [andb]; [ reflexivity | ]. destruct alloc; reflexivity.
Qed.

(* ---------- unauthenticated fields ---------- *)
Definition with_has_proof (v : wlview) (hp : option bool) : wlview :=
  mkWV (wv_active v) (wv_price v) (wv_denom v) (wv_limit v) (wv_member_limit v) (wv_num_members v)
       (wv_has_plain v) hp (wv_tiered v) (wv_stage_id v) (wv_stage_limit v) (wv_flex_count v).

Definition unverified_call (vr : variant) (wv : option wlview) (proof : bool) : Prop :=
  match wv with Some v => verified vr v proof = false | None => True end.

Lemma mint_price_hp s fp v hp adm :
  mint_price s fp (Some (with_has_proof v hp)) adm = mint_price s fp (Some v) adm.
Proof. reflexivity. Qed.

Lemma core_hp vr s e fp v hp adm rcp tok choice isp :
  execute_mint_core vr s e fp (Some (with_has_proof v hp)) adm rcp tok choice isp =
  execute_mint_core vr s e fp (Some v) adm rcp tok choice isp.
Proof. reflexivity. Qed.

(* without a verified proof neither `stage`, nor `allocation`, nor whatever the
   whitelist would answer to a proof-form question has any influence on the outcome *)
Theorem entitlement_not_caller_chosen vr s e fp wv proof choice st al st' al' :
  unverified_call vr wv proof ->
  step vr s e fp wv (OMint st proof al choice) = step vr s e fp wv (OMint st' proof al' choice).
Proof.
  intros Hu. cbn [step].
  assert (Hip : is_public_mint vr s wv (e_sender e) proof al = is_public_mint vr s wv (e_sender e) proof al').
  { unfold is_public_mint. destruct (s_whitelist s); [ | reflexivity ].
    destruct wv as [v|]; [ | reflexivity ]. cbn in Hu. fold (verified vr v proof). rewrite Hu.
    destruct (negb (wv_active v)); [ reflexivity | ].
    destruct (wv_has_plain v) as [[|]|]; try reflexivity.
    destruct (wl_count s v (e_sender e)) as [c|]; cbn [bind]; [ | reflexivity ].
    destruct (v_flex vr); [ reflexivity | ]. destruct (v_merkle vr); [ | reflexivity ].
    destruct al, al'; reflexivity. }
  rewrite Hip. reflexivity.
Qed.

Theorem unverified_ignores_proof_answer vr s e fp v hp proof choice st al :
  verified vr v proof = false ->
  step vr s e fp (Some (with_has_proof v hp)) (OMint st proof al choice) =
  step vr s e fp (Some v) (OMint st proof al choice).
Proof.
  intros Hu. cbn [step].
  assert (Hip : is_public_mint vr s (Some (with_has_proof v hp)) (e_sender e) proof al =
                is_public_mint vr s (Some v) (e_sender e) proof al).
  { unfold is_public_mint. destruct (s_whitelist s); [ | reflexivity ].
    change (is_merkle_tree_wl (with_has_proof v hp)) with (is_merkle_tree_wl v).
    fold (verified vr v proof). rewrite Hu. reflexivity. }
  rewrite Hip. reflexivity.
Qed.

(* the `stage` argument reaches the minter's decision only through the whitelist's
   answer to the proof-form membership question *)
Theorem stage_only_through_proof vr s e fp wv proof choice st st' al :
  step vr s e fp wv (OMint st proof al choice) = step vr s e fp wv (OMint st' proof al choice).
Proof. reflexivity. Qed.

(* ---------- admin mints ---------- *)
Theorem admin_mint_step vr s e fp wv o s' ms :
  (match o with OMintTo _ _ _ | OMintFor _ _ _ => True | _ => False end) ->
  step vr s e fp wv o = Ok (s', ms) ->
  e_sender e = s_admin s /\
  get (s_public s') (s_admin s) = get (s_public s) (s_admin s) + 1 /\
  (forall b, b <> s_admin s -> get (s_public s') b = get (s_public s) b) /\
  (forall sl, slot_map s' sl = slot_map s sl) /\
  (forall sl, stage_total s' sl = stage_total s sl) /\
  cfg s' = cfg s /\ s_mintable s <> 0.
Proof.
  intros Ho H. destruct o; try contradiction; cbn [step] in H.
  - destruct (negb recipient_ok); [ discriminate | ].
    destruct (negb (is_admin_sender s e)) eqn:Ea; [ discriminate | ].
    apply negb_false_iff in Ea. unfold is_admin_sender in Ea. apply N.eqb_eq in Ea.
    apply mint_core_ctr in H. destruct H as (Hc & Hm & Hctr).
    apply bump_pub_fields in Hctr. destruct Hctr as (Hp & Hs & Ht).
    split; [ exact Ea | ]. rewrite Hp, Ea. unfold bump. split; [ apply get_set_same | ].
    split; [ intros b Hb; apply get_set_other; congruence | ]. auto.
  - destruct (negb recipient_ok); [ discriminate | ].
    destruct (negb (is_admin_sender s e)) eqn:Ea; [ discriminate | ].
    apply negb_false_iff in Ea. unfold is_admin_sender in Ea. apply N.eqb_eq in Ea.
    apply mint_core_ctr in H. destruct H as (Hc & Hm & Hctr).
    apply bump_pub_fields in Hctr. destruct Hctr as (Hp & Hs & Ht).
    split; [ exact Ea | ]. rewrite Hp, Ea. unfold bump. split; [ apply get_set_same | ].
    split; [ intros b Hb; apply get_set_other; congruence | ]. auto.
Qed.

(* ---------- purge ---------- *)
Theorem purge_step vr s e fp wv s' ms :
  step vr s e fp wv OPurge = Ok (s', ms) ->
  s_mintable s = 0 /\
  s_public s' = [] /\
  slot_map s' SPlain = (if v_flex vr then [] else slot_map s SPlain) /\
  (forall sl, is_stage sl = true -> slot_map s' sl = slot_map s sl) /\
  (forall sl, stage_total s' sl = stage_total s sl) /\
  cfg s' = cfg s /\ s_mintable s' = 0.
Proof.
  cbn [step]. intros H. bind_in H u Hu.
  destruct (negb (s_mintable s =? 0)) eqn:Em; [ discriminate | ].
  apply negb_false_iff in Em. apply N.eqb_eq in Em. inv H. cbn.
  split; [ exact Em | ]. split; [ reflexivity | ]. split; [ reflexivity | ].
  split; [ intros sl Hs; destruct sl; try discriminate; reflexivity | ].
  split; [ intros sl; destruct sl; reflexivity | ]. split; [ reflexivity | exact Em ].
Qed.

Theorem purge_needs_sell_out vr s e fp wv : s_mintable s <> 0 -> step vr s e fp wv OPurge = Err.
Proof.
  intros Hm. destruct (step vr s e fp wv OPurge) as [[s' ms]|] eqn:H; [ | reflexivity ].
  apply purge_step in H. destruct H as (H & _). contradiction.
Qed.

(* ---------- every other operation leaves the counters alone ---------- *)
Definition counting_op (o : vop) : bool :=
  match o with OMint _ _ _ _ | OMintTo _ _ _ | OMintFor _ _ _ | OPurge => true | _ => false end.

Theorem other_ops_keep_counters vr s e fp wv o s' ms :
  counting_op o = false -> step vr s e fp wv o = Ok (s', ms) -> ctr s' = ctr s.
Proof.
  intros Ho H. destruct o; try discriminate Ho; cbn [step] in H; repeat step_hyp H; inv H; reflexivity.
Qed.

(* the per-address limit changes only through a successful UpdatePerAddressLimit *)
Theorem pal_changes_only_by_update vr s e fp wv o s' ms :
  (match o with OUpdatePerAddressLimit _ => False | _ => True end) ->
  step vr s e fp wv o = Ok (s', ms) -> s_pal s' = s_pal s.
Proof.
  intros Ho H.
  assert (Hcore : forall adm rcp tok choice isp,
             execute_mint_core vr s e fp wv adm rcp tok choice isp = Ok (s', ms) -> s_pal s' = s_pal s).
  { intros adm rcp tok choice isp Hc. apply mint_core_ctr in Hc. destruct Hc as (Hc & _). unfold cfg in Hc. congruence. }
  destruct o; try contradiction; cbn [step] in H; repeat step_hyp H; try (eapply Hcore; eassumption); inv H; reflexivity.
Qed.

(* ---------- histories ---------- *)
Definition cstep (vr : variant) (s : vstate) (c : call) := step vr s (c_env c) (c_fp c) (c_wv c) (c_op c).
Definition sender (c : call) : addr := e_sender (c_env c).

Lemma run_cons vr s c cs : run vr s (c :: cs) = run vr (apply_call vr s c) cs.
Proof. reflexivity. Qed.
Lemma run_app vr cs1 cs2 s : run vr s (cs1 ++ cs2) = run vr (run vr s cs1) cs2.
Proof. unfold run. apply fold_left_app. Qed.

(* events a successful call contributes to a tally *)
Inductive ev := EvNone | EvInc | EvReset.
Definition apply_ev (x : ev) (acc : N) : N :=
  match x with EvNone => acc | EvInc => acc + 1 | EvReset => 0 end.

(* fold over the SUCCESSFUL steps of a history; failed calls contribute nothing *)
Fixpoint tally (vr : variant) (evf : vstate -> call -> ev) (s : vstate) (cs : list call) (acc : N) : N :=
  match cs with
  | [] => acc
  | c :: r =>
      match cstep vr s c with
      | Ok (s', _) => tally vr evf s' r (apply_ev (evf s c) acc)
      | Err => tally vr evf s r acc
      end
  end.

Lemma tally_app vr evf cs1 cs2 : forall s acc,
  tally vr evf s (cs1 ++ cs2) acc = tally vr evf (run vr s cs1) cs2 (tally vr evf s cs1 acc).
Proof.
  induction cs1 as [|c r IH]; intros s acc; [ reflexivity | ].
  cbn [app tally]. rewrite run_cons. unfold apply_call. fold (cstep vr s c).
  destruct (cstep vr s c) as [[s' ms]|]; apply IH.
Qed.

Lemma tally_inv vr evf (R : vstate -> N -> Prop) :
  (forall s c s' ms acc, cstep vr s c = Ok (s', ms) -> R s acc -> R s' (apply_ev (evf s c) acc)) ->
  forall cs s acc, R s acc -> R (run vr s cs) (tally vr evf s cs acc).
Proof.
  intros Hstep. induction cs as [|c r IH]; intros s acc HR; [ exact HR | ].
  cbn [tally]. rewrite run_cons. unfold apply_call. fold (cstep vr s c).
  destruct (cstep vr s c) as [[s' ms]|] eqn:E; apply IH; [ eapply Hstep; eauto | exact HR ].
Qed.

(* classification of calls, from the property's words *)
Definition is_pub_mint_of (a : addr) (s : vstate) (c : call) : bool :=
  match c_op c with
  | OMint _ _ _ _ => (sender c =? a) && negb (wl_phase s (c_wv c))
  | _ => false
  end.
Definition is_admin_mint_of (a : addr) (c : call) : bool :=
  match c_op c with OMintTo _ _ _ | OMintFor _ _ _ => sender c =? a | _ => false end.
Definition call_slot (c : call) : option slot :=
  match c_wv c with Some v => active_slot v | None => None end.
Definition is_wl_mint_in (sl : slot) (s : vstate) (c : call) : bool :=
  match c_op c with
  | OMint _ _ _ _ =>
      wl_phase s (c_wv c) && match call_slot c with Some sl' => slot_eqb sl' sl | None => false end
  | _ => false
  end.
Definition is_wl_mint_of (a : addr) (sl : slot) (s : vstate) (c : call) : bool :=
  (sender c =? a) && is_wl_mint_in sl s c.
Definition is_purge (c : call) : bool := match c_op c with OPurge => true | _ => false end.

(* public mints `a` initiated (Mint in the public phase, MintTo / MintFor as admin)
   since the last purge *)
Definition pub_ev (a : addr) (s : vstate) (c : call) : ev :=
  if is_purge c then EvReset
  else if is_pub_mint_of a s c || is_admin_mint_of a c then EvInc else EvNone.
(* ... and ever *)
Definition pub_total_ev (a : addr) (s : vstate) (c : call) : ev :=
  if is_pub_mint_of a s c || is_admin_mint_of a c then EvInc else EvNone.
(* only the Mint calls *)
Definition pub_own_ev (a : addr) (s : vstate) (c : call) : ev :=
  if is_pub_mint_of a s c then EvInc else EvNone.

(* whitelist mints of `a` counted in slot `sl` since the last purge that clears that
   slot (only the plain map of the flex variants is ever cleared) *)
Definition purge_clears (vr : variant) (sl : slot) : bool :=
  v_flex vr && match sl with SPlain => true | _ => false end.
Definition wl_ev (vr : variant) (a : addr) (sl : slot) (s : vstate) (c : call) : ev :=
  if is_purge c && purge_clears vr sl then EvReset
  else if is_wl_mint_of a sl s c then EvInc else EvNone.
Definition wl_total_ev (a : addr) (sl : slot) (s : vstate) (c : call) : ev :=
  if is_wl_mint_of a sl s c then EvInc else EvNone.
(* whitelist mints by anyone in stage `sl` *)
Definition stage_ev (sl : slot) (s : vstate) (c : call) : ev :=
  if is_wl_mint_in sl s c then EvInc else EvNone.

(* one successful step against each classification *)
Lemma step_public_count vr a s c s' ms :
  cstep vr s c = Ok (s', ms) ->
  get (s_public s') a = apply_ev (pub_ev a s c) (get (s_public s) a) /\
  (is_purge c = false -> get (s_public s') a = apply_ev (pub_total_ev a s c) (get (s_public s) a)).
Proof.
  unfold cstep, pub_ev, pub_total_ev, is_purge, is_pub_mint_of, is_admin_mint_of, sender.
  intros H. destruct (c_op c) eqn:Eo.
  - (* Mint *)
    cbn [orb]. rewrite orb_false_r.
    destruct (wl_phase s (c_wv c)) eqn:Eph; cbn [negb].
    + rewrite andb_false_r. cbn [apply_ev].
      apply whitelist_mint_step in H; [ | exact Eph ].
      destruct H as (v & sl & ent & _ & _ & _ & _ & _ & _ & _ & _ & _ & _ & _ & _ & Hp & _). rewrite Hp. auto.
    + rewrite andb_true_r. apply public_mint_step in H; [ | exact Eph ].
      destruct H as (_ & _ & Hinc & Hoth & _).
      destruct (e_sender (c_env c) =? a) eqn:Ea; cbn [apply_ev].
      * apply N.eqb_eq in Ea. subst a. auto.
      * apply N.eqb_neq in Ea. rewrite Hoth by congruence. auto.
  - cbn [orb]. apply admin_mint_step in H; [ | exact I ]. destruct H as (Hs & Hinc & Hoth & _).
    destruct (e_sender (c_env c) =? a) eqn:Ea; cbn [apply_ev].
    + apply N.eqb_eq in Ea. subst a. rewrite Hs. auto.
    + apply N.eqb_neq in Ea. rewrite Hoth by congruence. auto.
  - cbn [orb]. apply admin_mint_step in H; [ | exact I ]. destruct H as (Hs & Hinc & Hoth & _).
    destruct (e_sender (c_env c) =? a) eqn:Ea; cbn [apply_ev].
    + apply N.eqb_eq in Ea. subst a. rewrite Hs. auto.
    + apply N.eqb_neq in Ea. rewrite Hoth by congruence. auto.
  - apply purge_step in H. destruct H as (_ & Hp & _). rewrite Hp. cbn. split; [ reflexivity | discriminate ].
  - apply other_ops_keep_counters in H; [ | reflexivity ]. apply ctr_fields in H. destruct H as (Hp & _). rewrite Hp. cbn. auto.
  - apply other_ops_keep_counters in H; [ | reflexivity ]. apply ctr_fields in H. destruct H as (Hp & _). rewrite Hp. cbn. auto.
  - apply other_ops_keep_counters in H; [ | reflexivity ]. apply ctr_fields in H. destruct H as (Hp & _). rewrite Hp. cbn. auto.
  - apply other_ops_keep_counters in H; [ | reflexivity ]. apply ctr_fields in H. destruct H as (Hp & _). rewrite Hp. cbn. auto.
  - apply other_ops_keep_counters in H; [ | reflexivity ]. apply ctr_fields in H. destruct H as (Hp & _). rewrite Hp. cbn. auto.
  - apply other_ops_keep_counters in H; [ | reflexivity ]. apply ctr_fields in H. destruct H as (Hp & _). rewrite Hp. cbn. auto.
  - apply other_ops_keep_counters in H; [ | reflexivity ]. apply ctr_fields in H. destruct H as (Hp & _). rewrite Hp. cbn. auto.
  - apply other_ops_keep_counters in H; [ | reflexivity ]. apply ctr_fields in H. destruct H as (Hp & _). rewrite Hp. cbn. auto.
  - apply other_ops_keep_counters in H; [ | reflexivity ]. apply ctr_fields in H. destruct H as (Hp & _). rewrite Hp. cbn. auto.
Qed.

Lemma step_wl_count vr a sl s c s' ms :
  cstep vr s c = Ok (s', ms) ->
  get (slot_map s' sl) a = apply_ev (wl_ev vr a sl s c) (get (slot_map s sl) a) /\
  (is_purge c = false -> get (slot_map s' sl) a = apply_ev (wl_total_ev a sl s c) (get (slot_map s sl) a)) /\
  stage_total s' sl = (if is_stage sl then apply_ev (stage_ev sl s c) (stage_total s sl) else 0).
Proof.
  unfold cstep, wl_ev, wl_total_ev, stage_ev, is_purge, is_wl_mint_of, is_wl_mint_in, call_slot, sender.
  intros H. destruct (c_op c) eqn:Eo.
  - (* Mint *)
    cbn [andb]. destruct (wl_phase s (c_wv c)) eqn:Eph; cbn [andb].
    + apply whitelist_mint_step in H; [ | exact Eph ].
      destruct H as (v & sl0 & ent & Hwv & _ & _ & Hsl & _ & _ & _ & Hinc & Hoth & Hslots & Htot & Htoth & _).
      rewrite Hwv, Hsl. destruct (slot_eqb sl0 sl) eqn:Es.
      * apply slot_eqb_eq in Es. subst sl0.
        assert (Ht : stage_total s' sl = (if is_stage sl then stage_total s sl + 1 else 0)).
        { destruct (is_stage sl) eqn:Ei; [ apply Htot; reflexivity | destruct sl; try discriminate; reflexivity ]. }
        destruct (e_sender (c_env c) =? a) eqn:Ea; cbn [andb apply_ev].
        -- apply N.eqb_eq in Ea. subst a. auto.
        -- apply N.eqb_neq in Ea. rewrite Hoth by congruence. auto.
      * assert (Hne : sl <> sl0). { intro; subst. destruct sl0; discriminate. }
        rewrite andb_false_r. cbn [apply_ev]. rewrite (Hslots _ Hne), (Htoth _ Hne).
        split; [ reflexivity | ]. split; [ reflexivity | ]. destruct sl; reflexivity.
    + rewrite andb_false_r. cbn [apply_ev]. apply public_mint_step in H; [ | exact Eph ].
      destruct H as (_ & _ & _ & _ & Hs & Ht & _). rewrite Hs, Ht.
      split; [ reflexivity | ]. split; [ reflexivity | ]. destruct sl; reflexivity.
  - cbn [andb apply_ev]. rewrite andb_false_r. cbn [apply_ev].
    apply admin_mint_step in H; [ | exact I ]. destruct H as (_ & _ & _ & Hs & Ht & _). rewrite Hs, Ht.
    split; [ reflexivity | ]. split; [ reflexivity | ]. destruct sl; reflexivity.
  - cbn [andb apply_ev]. rewrite andb_false_r. cbn [apply_ev].
    apply admin_mint_step in H; [ | exact I ]. destruct H as (_ & _ & _ & Hs & Ht & _). rewrite Hs, Ht.
    split; [ reflexivity | ]. split; [ reflexivity | ]. destruct sl; reflexivity.
  - apply purge_step in H. destruct H as (_ & _ & Hpl & Hst & Ht & _). rewrite Ht.
    unfold purge_clears. cbn [andb]. split; [ | split; [ discriminate | destruct sl; reflexivity ] ].
    destruct sl; cbn [andb]; rewrite ?andb_false_r; cbn [apply_ev]; try (rewrite Hst by reflexivity; reflexivity).
    rewrite Hpl. rewrite andb_true_r. destruct (v_flex vr); reflexivity.
  - apply other_ops_keep_counters in H; [ | reflexivity ]. apply ctr_fields in H. destruct H as (_ & Hs & Ht). rewrite Hs, Ht. cbn. rewrite andb_false_r. cbn. repeat split; destruct sl; reflexivity.
  - apply other_ops_keep_counters in H; [ | reflexivity ]. apply ctr_fields in H. destruct H as (_ & Hs & Ht). rewrite Hs, Ht. cbn. rewrite andb_false_r. cbn. repeat split; destruct sl; reflexivity.
  - apply other_ops_keep_counters in H; [ | reflexivity ]. apply ctr_fields in H. destruct H as (_ & Hs & Ht). rewrite Hs, Ht. cbn. rewrite andb_false_r. cbn. repeat split; destruct sl; reflexivity.
  - apply other_ops_keep_counters in H; [ | reflexivity ]. apply ctr_fields in H. destruct H as (_ & Hs & Ht). rewrite Hs, Ht. cbn. rewrite andb_false_r. cbn. repeat split; destruct sl; reflexivity.
  - apply other_ops_keep_counters in H; [ | reflexivity ]. apply ctr_fields in H. destruct H as (_ & Hs & Ht). rewrite Hs, Ht. cbn. rewrite andb_false_r. cbn. repeat split; destruct sl; reflexivity.
  - apply other_ops_keep_counters in H; [ | reflexivity ]. apply ctr_fields in H. destruct H as (_ & Hs & Ht). rewrite Hs, Ht. cbn. rewrite andb_false_r. cbn. repeat split; destruct sl; reflexivity.
  - apply other_ops_keep_counters in H; [ | reflexivity ]. apply ctr_fields in H. destruct H as (_ & Hs & Ht). rewrite Hs, Ht. cbn. rewrite andb_false_r. cbn. repeat split; destruct sl; reflexivity.
  - apply other_ops_keep_counters in H; [ | reflexivity ]. apply ctr_fields in H. destruct H as (_ & Hs & Ht). rewrite Hs, Ht. cbn. rewrite andb_false_r. cbn. repeat split; destruct sl; reflexivity.
  - apply other_ops_keep_counters in H; [ | reflexivity ]. apply ctr_fields in H. destruct H as (_ & Hs & Ht). rewrite Hs, Ht. cbn. rewrite andb_false_r. cbn. repeat split; destruct sl; reflexivity.
Qed.

(* ----- reported count = mints initiated since the clearing purge ----- *)
Theorem public_count_reported vr a cs s :
  get (s_public (run vr s cs)) a = tally vr (pub_ev a) s cs (get (s_public s) a).
Proof.
  apply (tally_inv vr (pub_ev a) (fun s acc => get (s_public s) a = acc)); [ | reflexivity ].
  intros s0 c s' ms acc H <-. apply (step_public_count vr a) in H. tauto.
Qed.

Theorem whitelist_count_reported vr a sl cs s :
  get (slot_map (run vr s cs) sl) a = tally vr (wl_ev vr a sl) s cs (get (slot_map s sl) a).
Proof.
  apply (tally_inv vr (wl_ev vr a sl) (fun s acc => get (slot_map s sl) a = acc)); [ | reflexivity ].
  intros s0 c s' ms acc H <-. apply (step_wl_count vr a sl) in H. tauto.
Qed.

Theorem stage_total_reported vr sl cs s :
  is_stage sl = true ->
  stage_total (run vr s cs) sl = tally vr (stage_ev sl) s cs (stage_total s sl).
Proof.
  intros Hst.
  apply (tally_inv vr (stage_ev sl) (fun s acc => stage_total s sl = acc)); [ | reflexivity ].
  intros s0 c s' ms acc H <-. apply (step_wl_count vr 0 sl) in H. rewrite Hst in H. tauto.
Qed.

(* what the MintCount query reports, in terms of the tallies *)
Definition wl_sum (f : slot -> N) : N := f SPlain + (f SFs + f SSs + f STs).

Theorem mint_count_query_reported vr a cs s :
  let pub := tally vr (pub_ev a) s cs (get (s_public s) a) in
  let wl := wl_sum (fun sl => tally vr (wl_ev vr a sl) s cs (get (slot_map s sl) a)) in
  q_mint_count vr (run vr s cs) a = if v_flex vr then (pub, wl) else (pub + wl, 0).
Proof.
  cbn zeta. unfold q_mint_count, wl_sum.
  rewrite <- (public_count_reported vr a cs s).
  rewrite <- !(whitelist_count_reported vr a _ cs s). reflexivity.
Qed.

(* ----- purge cannot be used to mint beyond a limit ----- *)
Lemma mintable_zero_stays vr s c s' ms : cstep vr s c = Ok (s', ms) -> s_mintable s = 0 -> s_mintable s' = 0.
Proof. unfold cstep. intros H Hz. apply mintable_never_increases in H. lia. Qed.

Lemma mint_needs_supply vr s c s' ms :
  cstep vr s c = Ok (s', ms) ->
  (match c_op c with OMint _ _ _ _ | OMintTo _ _ _ | OMintFor _ _ _ => True | _ => False end) ->
  s_mintable s <> 0.
Proof.
  unfold cstep. intros H Ho Hz.
  rewrite (mint_at_zero_fails vr s (c_env c) (c_fp c) (c_wv c) (c_op c) Hz Ho) in H. discriminate.
Qed.

(* total public mints `a` ever initiated = reported count, as long as anything is left *)
Lemma public_total_inv vr a cs s :
  let s' := run vr s cs in
  s_mintable s' = 0 \/ get (s_public s') a = tally vr (pub_total_ev a) s cs (get (s_public s) a).
Proof.
  cbn zeta.
  apply (tally_inv vr (pub_total_ev a) (fun s acc => s_mintable s = 0 \/ get (s_public s) a = acc)); [ | right; reflexivity ].
  intros s0 c s' ms acc H [Hz | <-].
  - left. eapply mintable_zero_stays; eauto.
  - destruct (is_purge c) eqn:Ep.
    + left. unfold is_purge in Ep. unfold cstep in H. destruct (c_op c); try discriminate.
      apply purge_step in H. tauto.
    + right. apply (step_public_count vr a) in H. destruct H as (_ & H). apply H. exact Ep.
Qed.

Lemma wl_total_inv vr a sl cs s :
  let s' := run vr s cs in
  s_mintable s' = 0 \/ get (slot_map s' sl) a = tally vr (wl_total_ev a sl) s cs (get (slot_map s sl) a).
Proof.
  cbn zeta.
  apply (tally_inv vr (wl_total_ev a sl) (fun s acc => s_mintable s = 0 \/ get (slot_map s sl) a = acc)); [ | right; reflexivity ].
  intros s0 c s' ms acc H [Hz | <-].
  - left. eapply mintable_zero_stays; eauto.
  - destruct (is_purge c) eqn:Ep.
    + left. unfold is_purge in Ep. unfold cstep in H. destruct (c_op c); try discriminate.
      apply purge_step in H. tauto.
    + right. apply (step_wl_count vr a sl) in H. destruct H as (_ & H & _). apply H. exact Ep.
Qed.

(* ----- never exceeds, with the limit in force at each mint ----- *)
Theorem never_exceeds_public vr a s0 cs1 c s2 ms :
  let s1 := run vr s0 cs1 in
  cstep vr s1 c = Ok (s2, ms) ->
  is_pub_mint_of a s1 c = true ->
  tally vr (pub_total_ev a) s0 (cs1 ++ [c]) (get (s_public s0) a) <= s_pal s1.
Proof.
  cbn zeta. intros H Hp.
  rewrite tally_app. cbn [tally]. rewrite H.
  unfold pub_total_ev at 1. rewrite Hp. cbn [orb apply_ev].
  unfold is_pub_mint_of in Hp. destruct (c_op c) eqn:Eo; try discriminate.
  apply andb_prop in Hp. destruct Hp as [Ha Hph]. apply N.eqb_eq in Ha. apply negb_true_iff in Hph.
  assert (Hm : s_mintable (run vr s0 cs1) <> 0) by (eapply mint_needs_supply; [ exact H | rewrite Eo; exact I ]).
  unfold cstep in H. rewrite Eo in H. apply public_mint_step in H; [ | exact Hph ].
  destruct H as (_ & Hlt & _).
  destruct (public_total_inv vr a cs1 s0) as [Hz | He]; [ contradiction | ].
  unfold sender in Ha. rewrite Ha in Hlt. rewrite <- He. lia.
Qed.

Theorem never_exceeds_whitelist vr a sl s0 cs1 c s2 ms :
  let s1 := run vr s0 cs1 in
  cstep vr s1 c = Ok (s2, ms) ->
  is_wl_mint_of a sl s1 c = true ->
  exists stage proof alloc choice v ent,
    c_op c = OMint stage proof alloc choice /\ c_wv c = Some v /\
    entitlement vr v proof alloc = Some ent /\
    tally vr (wl_total_ev a sl) s0 (cs1 ++ [c]) (get (slot_map s0 sl) a) <= ent.
Proof.
  cbn zeta. intros H Hp.
  rewrite tally_app. cbn [tally]. rewrite H.
  unfold wl_total_ev at 1. rewrite Hp. cbn [apply_ev].
  unfold is_wl_mint_of, is_wl_mint_in, call_slot in Hp. destruct (c_op c) eqn:Eo; try (rewrite andb_false_r in Hp; discriminate).
  apply andb_prop in Hp. destruct Hp as [Ha Hp]. apply andb_prop in Hp. destruct Hp as [Hph Hsl].
  apply N.eqb_eq in Ha.
  assert (Hm : s_mintable (run vr s0 cs1) <> 0) by (eapply mint_needs_supply; [ exact H | rewrite Eo; exact I ]).
  unfold cstep in H. rewrite Eo in H. apply whitelist_mint_step in H; [ | exact Hph ].
  destruct H as (v & sl0 & ent & Hwv & _ & _ & Hsl0 & Hent & Hlt & _).
  rewrite Hwv, Hsl0 in Hsl. apply slot_eqb_eq in Hsl. subst sl0.
  exists stage, proof, alloc, choice, v, ent. repeat (split; [ first [ reflexivity | assumption ] | ]).
  destruct (wl_total_inv vr a sl cs1 s0) as [Hz | He]; [ contradiction | ].
  unfold sender in Ha. rewrite Ha in Hlt. rewrite <- He. lia.
Qed.

Theorem never_exceeds_stage vr sl s0 cs1 c s2 ms :
  let s1 := run vr s0 cs1 in
  is_stage sl = true ->
  cstep vr s1 c = Ok (s2, ms) ->
  is_wl_mint_in sl s1 c = true ->
  exists v ol, c_wv c = Some v /\ wv_stage_limit v = Some ol /\
    forall lim, ol = Some lim ->
      tally vr (stage_ev sl) s0 (cs1 ++ [c]) (stage_total s0 sl) <= lim.
Proof.
  cbn zeta. intros Hst H Hp.
  rewrite tally_app. cbn [tally]. rewrite H.
  unfold stage_ev at 1. rewrite Hp. cbn [apply_ev].
  unfold is_wl_mint_in, call_slot in Hp. destruct (c_op c) eqn:Eo; try discriminate.
  apply andb_prop in Hp. destruct Hp as [Hph Hsl].
  unfold cstep in H. rewrite Eo in H. apply whitelist_mint_step in H; [ | exact Hph ].
  destruct H as (v & sl0 & ent & Hwv & _ & _ & Hsl0 & _ & _ & Hroom & _).
  rewrite Hwv, Hsl0 in Hsl. apply slot_eqb_eq in Hsl. subst sl0.
  destruct (Hroom Hst) as (ol & Hol & Hlim).
  exists v, ol. split; [ exact Hwv | ]. split; [ exact Hol | ].
  intros lim Hl. specialize (Hlim lim Hl).
  rewrite <- (stage_total_reported vr sl cs1 s0 Hst). lia.
Qed.

(* ----- constant limit: the classic statement ----- *)
Definition no_limit_update (c : call) : Prop :=
  match c_op c with OUpdatePerAddressLimit _ => False | _ => True end.

Lemma pal_constant vr cs : forall s, Forall no_limit_update cs -> s_pal (run vr s cs) = s_pal s.
Proof.
  induction cs as [|c r IH]; intros s HF; [ reflexivity | ].
  inversion HF as [|? ? Hc Hr]; subst. rewrite run_cons, IH by exact Hr.
  unfold apply_call. destruct (step vr s (c_env c) (c_fp c) (c_wv c) (c_op c)) as [[s' ms]|] eqn:E; [ | reflexivity ].
  eapply pal_changes_only_by_update; [ exact Hc | exact E ].
Qed.

(* own public mints are part of the total *)
Lemma own_le_total vr a cs : forall s x y, x <= y ->
  tally vr (pub_own_ev a) s cs x <= tally vr (pub_total_ev a) s cs y.
Proof.
  induction cs as [|c r IH]; intros s x y Hxy; [ exact Hxy | ].
  cbn [tally]. destruct (cstep vr s c) as [[s' ms]|]; [ | apply IH; exact Hxy ].
  apply IH. unfold pub_own_ev, pub_total_ev.
  destruct (is_pub_mint_of a s c); cbn [orb apply_ev]; [ lia | ].
  destruct (is_admin_mint_of a c); cbn [apply_ev]; lia.
Qed.

Theorem constant_limit_public vr a cs : forall s0,
  Forall no_limit_update cs ->
  tally vr (pub_own_ev a) s0 cs 0 <= s_pal s0.
Proof.
  induction cs as [|c r IH] using rev_ind; intros s0 HF; [ cbn; lia | ].
  apply Forall_app in HF. destruct HF as [HFr HFc].
  rewrite tally_app. cbn [tally].
  destruct (cstep vr (run vr s0 r) c) as [[s2 ms]|] eqn:E; [ | apply IH; exact HFr ].
  unfold pub_own_ev at 1. destruct (is_pub_mint_of a (run vr s0 r) c) eqn:Ep; cbn [apply_ev]; [ | apply IH; exact HFr ].
  pose proof (never_exceeds_public vr a s0 r c s2 ms E Ep) as Hn.
  rewrite tally_app in Hn. cbn [tally] in Hn. rewrite E in Hn.
  unfold pub_total_ev at 1 in Hn. rewrite Ep in Hn. cbn [orb apply_ev] in Hn.
  rewrite (pal_constant vr r s0 HFr) in Hn.
  pose proof (own_le_total vr a r s0 0 (get (s_public s0) a)) as Hle.
  assert (0 <= get (s_public s0) a) by lia. specialize (Hle H). lia.
Qed.

(* ---------- the whitelist's answers against what its admin intended ---------- *)
(* The limit and the cap reach the minter only through the whitelist's answers to this very
   call.  For ANY intended per-address entitlement `ient` and stage cap `icap` (the harness
   keeps them in its own ledger of accepted admin messages): if the answers are faithful to
   them, the count and the stage total stay within the intended values; and if a count
   passes an intended value, the whitelist answered with a larger figure. *)
Theorem faithful_whitelist_within_intended vr (ient icap : N) s e fp wv stage proof alloc choice s' ms :
  step vr s e fp wv (OMint stage proof alloc choice) = Ok (s', ms) ->
  wl_phase s wv = true ->
  (forall v ent, wv = Some v -> entitlement vr v proof alloc = Some ent -> ent <= ient) ->
  (forall v sl, wv = Some v -> active_slot v = Some sl -> is_stage sl = true ->
     exists lim, wv_stage_limit v = Some (Some lim) /\ lim <= icap) ->
  exists v sl, wv = Some v /\ active_slot v = Some sl /\
    get (slot_map s' sl) (e_sender e) <= ient /\
    (is_stage sl = true -> stage_total s' sl <= icap).
Proof.
  intros H Hph Hent Hcap. apply whitelist_mint_step in H; [ | exact Hph ].
  destruct H as (v & sl & ent & Hwv & _ & _ & Hsl & He & Hlt & Hroom & Hinc & _ & _ & Htot & _).
  exists v, sl. split; [ exact Hwv | ]. split; [ exact Hsl | ].
  specialize (Hent v ent Hwv He). split; [ rewrite Hinc; lia | ].
  intros Hst. destruct (Hcap v sl Hwv Hsl Hst) as (lim & Hl & Hle).
  destruct (Hroom Hst) as (ol & Hol & Hr). rewrite Hl in Hol. inv Hol.
  specialize (Hr lim eq_refl). rewrite (Htot Hst). lia.
Qed.

Theorem excess_blames_whitelist_answer vr (ient : N) s e fp wv stage proof alloc choice s' ms :
  step vr s e fp wv (OMint stage proof alloc choice) = Ok (s', ms) ->
  wl_phase s wv = true ->
  forall v sl, wv = Some v -> active_slot v = Some sl ->
    ient < get (slot_map s' sl) (e_sender e) ->
    exists ent, entitlement vr v proof alloc = Some ent /\ ient < ent.
Proof.
  intros H Hph v0 sl0 Hwv0 Hsl0 Hex. apply whitelist_mint_step in H; [ | exact Hph ].
  destruct H as (v & sl & ent & Hwv & _ & _ & Hsl & He & Hlt & _ & Hinc & _).
  rewrite Hwv0 in Hwv. inv Hwv. rewrite Hsl0 in Hsl. inv Hsl.
  exists ent. split; [ exact He | ]. rewrite Hinc in Hex. lia.
Qed.

(* over a history: the number of whitelist mints `a` completed in a slot is within the intended
   entitlement at every mint whose whitelist answers were faithful to it *)
Theorem never_exceeds_intended vr a sl (ient : N) s0 cs1 c s2 ms :
  let s1 := run vr s0 cs1 in
  cstep vr s1 c = Ok (s2, ms) ->
  is_wl_mint_of a sl s1 c = true ->
  (forall stage proof alloc choice v ent,
     c_op c = OMint stage proof alloc choice -> c_wv c = Some v ->
     entitlement vr v proof alloc = Some ent -> ent <= ient) ->
  tally vr (wl_total_ev a sl) s0 (cs1 ++ [c]) (get (slot_map s0 sl) a) <= ient.
Proof.
  cbn zeta. intros H Hp Hf.
  destruct (never_exceeds_whitelist vr a sl s0 cs1 c s2 ms H Hp) as (stage & proof & alloc & choice & v & ent & Ho & Hwv & He & Hle).
  specialize (Hf stage proof alloc choice v ent Ho Hwv He). lia.
Qed.
