(* C20 over histories: along any sequence of migrate attempts on one contract the recorded
   version never decreases, and a non-factory that has migrated once stays at the code
   version (added round 8). *)
From Coq Require Import String List ZArith Lia.
From LP Require Import Semver Migrate Consts SemverProofs MigrateProofs.
Import ListNotations.
Local Open Scope N_scope.

(* one attempt: block time and optional factory message; a refused migration leaves the state *)
Definition mig_step (c : contract) (st : cstate) (a : N * option fmsg) : cstate :=
  match migrate c (fst a) (snd a) st with
  | Ok (st', _) => st'
  | Err => st
  end.

Lemma mig_step_mono : forall c a st v,
  parse_version (c_version st) = Some v ->
  exists v', parse_version (c_version (mig_step c st a)) = Some v' /\ ver_ltb v' v = false.
Proof.
  intros c a st v Hv. unfold mig_step.
  destruct (migrate c (fst a) (snd a) st) as [[st' p]|] eqn:M.
  - assert (is_ok (migrate c (fst a) (snd a) st) = true) as Hok by (rewrite M; reflexivity).
    destruct (migrate_never_newer _ _ _ _ Hok) as [w [Hw Hn]].
    rewrite Hv in Hw. inversion Hw; subst w.
    destruct (kind_of c) eqn:K.
    3: { destruct (post_factory c _ _ _ _ _ K M) as [-> _].
         exists v. split; [exact Hv | apply ver_ltb_irrefl]. }
    all: assert (kind_of c <> KFactory) as NF by (rewrite K; discriminate);
         destruct (post_version_nonfactory c _ _ _ _ _ NF M) as [_ [P _]];
         exists CODE; split; [exact P | exact Hn].
  - exists v. split; [exact Hv | apply ver_ltb_irrefl].
Qed.

Lemma ver_not_lt_trans : forall a b c, ver_ltb b a = false -> ver_ltb c b = false -> ver_ltb c a = false.
Proof.
  intros a b c H1 H2. rewrite <- (Bool.negb_involutive (ver_ltb c a)), <- ver_leb_not_gt.
  rewrite <- (Bool.negb_involutive (ver_ltb b a)), <- ver_leb_not_gt in H1.
  rewrite <- (Bool.negb_involutive (ver_ltb c b)), <- ver_leb_not_gt in H2.
  apply Bool.negb_false_iff. apply Bool.negb_false_iff in H1, H2.
  destruct a as [[a1 a2] a3], b as [[b1 b2] b3], c as [[c1 c2] c3].
  unfold ver_leb, ver_ltb, ver_eqb in *. lia.
Qed.

Theorem migrate_history_never_downgrades : forall c l st v,
  parse_version (c_version st) = Some v ->
  exists v', parse_version (c_version (fold_left (mig_step c) l st)) = Some v' /\ ver_ltb v' v = false.
Proof.
  intros c l. induction l as [|a l IH]; intros st v Hv; cbn [fold_left].
  - exists v. split; [exact Hv | apply ver_ltb_irrefl].
  - destruct (mig_step_mono c a st v Hv) as [w [Hw Hle]].
    destruct (IH _ _ Hw) as [v' [Hv' Hle']].
    exists v'. split; [exact Hv'|]. eapply ver_not_lt_trans; eassumption.
Qed.

(* an unparsable record stays as it is: every attempt is refused *)
Theorem migrate_history_unparsable_stuck : forall c l st,
  parse_version (c_version st) = None -> fold_left (mig_step c) l st = st.
Proof.
  intros c l. induction l as [|a l IH]; intros st H; cbn [fold_left]; [reflexivity|].
  unfold mig_step at 2. rewrite (migrate_unparsable _ _ _ _ H). apply IH. exact H.
Qed.

(* the contract's identity is never replaced by a foreign one: after any history the name
   is the one before or the contract's own *)
Theorem migrate_history_name : forall c l st,
  c_name (fold_left (mig_step c) l st) = c_name st \/
  c_name (fold_left (mig_step c) l st) = own_name c.
Proof.
  intros c l. induction l as [|a l IH]; intros st; cbn [fold_left]; [left; reflexivity|].
  assert (c_name (mig_step c st a) = c_name st \/ c_name (mig_step c st a) = own_name c) as S.
  { unfold mig_step. destruct (migrate c (fst a) (snd a) st) as [[st' p]|] eqn:M; [|left; reflexivity].
    destruct (kind_of c) eqn:K.
    3: { destruct (post_factory c _ _ _ _ _ K M) as [-> _]. left; reflexivity. }
    all: assert (kind_of c <> KFactory) as NF by (rewrite K; discriminate);
         destruct (post_version_nonfactory c _ _ _ _ _ NF M) as [P _]; right; exact P. }
  destruct (IH (mig_step c st a)) as [E|E]; destruct S as [S|S]; rewrite E; auto.
Qed.

(* at the contract's own name and the code version every further attempt leaves the state
   exactly as it is (minters answer Ok without writing, sg721-updatable refuses, factories
   keep their record) *)
Lemma mig_step_at_code : forall c a st,
  c_name st = own_name c -> parse_version (c_version st) = Some CODE -> mig_step c st a = st.
Proof.
  intros c [now msg] st Hn Hv. unfold mig_step, migrate. cbn [fst snd].
  rewrite (code_version_all c), Hn, Hv, String.eqb_refl.
  change (ver_ltb (3,16,0) CODE) with false. change (ver_eqb CODE (3,16,0)) with true.
  destruct c; cbn; try reflexivity; destruct msg as [m|]; try reflexivity;
  match goal with |- context [if ?b then _ else _] => destruct b end; reflexivity.
Qed.

Lemma mig_fold_at_code : forall c l st,
  c_name st = own_name c -> parse_version (c_version st) = Some CODE ->
  fold_left (mig_step c) l st = st.
Proof.
  intros c l. induction l as [|a l IH]; intros st Hn Hv; cbn [fold_left]; [reflexivity|].
  rewrite (mig_step_at_code c a st Hn Hv). apply IH; assumption.
Qed.

(* a migration is applied once: after one accepted migration of a non-factory contract,
   no sequence of further attempts changes anything *)
Theorem migrate_once_then_fixed : forall c now msg st st' p l,
  kind_of c <> KFactory -> migrate c now msg st = Ok (st', p) ->
  fold_left (mig_step c) l st' = st'.
Proof.
  intros c now msg st st' p l NF M.
  destruct (post_version_nonfactory c _ _ _ _ _ NF M) as [Hn [Hv _]].
  apply mig_fold_at_code; assumption.
Qed.
