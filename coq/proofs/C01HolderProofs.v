(* C01 with holders burning / transferring tokens on the collection between minter calls:
   the frame of model/Holder.v instantiated for the vending minters, the open-edition
   minters and the base minter (token-merge minter: C01HolderTmProofs.v). *)
From LP Require Import Num Pay Sg1 MinterVending MinterOpen MinterVendingProofs MinterOpenProofs Holder HolderProofs.
From Coq Require Import ZArith Lia ZifyN ZifyBool.
Local Open Scope N_scope.

(* ================= vending ================= *)
Definition v_emit (vr : variant) (s : vstate) (c : call) : list (N * addr) :=
  match step vr s (c_env c) (c_fp c) (c_wv c) (c_op c) with
  | Ok (_, ms) => nft_msgs ms
  | Err => []
  end.

(* what one successful call hands out: nothing, or exactly one id never issued before *)
Lemma step_emits n vr s e fp wv o s' ms :
  InvV n s -> step vr s e fp wv o = Ok (s', ms) ->
  (nft_msgs ms = [] /\ s_minted s' = s_minted s) \/
  (exists t ow, nft_msgs ms = [(t, ow)] /\ s_minted s' = t :: s_minted s /\ ~ In t (s_minted s) /\ 1 <= t <= n).
Proof.
  intros I H.
  assert (Hcore : forall adm rcp tok choice isp,
             execute_mint_core vr s e fp wv adm rcp tok choice isp = Ok (s', ms) ->
             exists t ow, nft_msgs ms = [(t, ow)] /\ s_minted s' = t :: s_minted s /\ ~ In t (s_minted s) /\ 1 <= t <= n).
  { intros adm rcp tok choice isp Hc. pose proof Hc as Hc'. apply mint_core_supply in Hc.
    destruct Hc as (tid & pos & Hf & _ & _ & _ & _ & Mi & _ & _ & Hn).
    exists tid, (match rcp with Some r => r | None => e_sender e end).
    assert (Hi : In tid (ids (s_positions s))).
    { apply find_id_in in Hf. change (In (snd (pos, tid)) (map snd (s_positions s))). apply in_map. exact Hf. }
    destruct I as [In_ Ik Ii Ir Imd Imr Idj Il Ic].
    split; [ exact Hn | ]. split; [ exact Mi | ]. split; [ | apply Ir; exact Hi ].
    intro Hx. apply (Idj _ Hx Hi). }
  destruct o; cbn [step] in H; repeat step_hyp H; try (right; eapply Hcore; eassumption);
    left; inv H; cbn; rewrite ?nft_msgs_bank; auto.
Qed.

(* an id that was ever issued is sold for good: MintFor it fails, whether or not its holder
   has burned the token on the collection since *)
Theorem mint_for_issued_fails n vr s e fp wv t rok r :
  InvV n s -> In t (s_minted s) -> step vr s e fp wv (OMintFor t rok r) = Err.
Proof.
  intros I Hin. destruct (step vr s e fp wv (OMintFor t rok r)) as [[s' ms]|] eqn:H; [ exfalso | reflexivity ].
  pose proof (mint_for_exact _ _ _ _ _ _ _ _ _ _ H) as Hn.
  destruct (minted_token_fresh n vr s e fp wv _ s' ms t r I H) as (_ & _ & Hf & _).
  - rewrite Hn. left. reflexivity.
  - contradiction.
Qed.

Lemma v_issued_fresh n vr cs : forall s,
  InvV n s ->
  NoDup (map fst (issued vstate call (apply_call vr) (v_emit vr) s cs)) /\
  (forall t, In t (map fst (issued vstate call (apply_call vr) (v_emit vr) s cs)) -> 1 <= t <= n /\ ~ In t (s_minted s)).
Proof.
  induction cs as [|c cs IH]; intros s I; cbn [issued]; [ split; [ constructor | intros t [] ] | ].
  remember (apply_call vr s c) as s1 eqn:Hs1. remember (v_emit vr s c) as em eqn:Hem.
  unfold apply_call in Hs1. unfold v_emit in Hem.
  destruct (step vr s (c_env c) (c_fp c) (c_wv c) (c_op c)) as [[s' ms]|] eqn:E; subst s1 em.
  - pose proof (step_inv _ _ _ _ _ _ _ _ _ I E) as I'.
    destruct (IH s' I') as [ND R].
    destruct (step_emits _ _ _ _ _ _ _ _ _ I E) as [[Hn Hm]|(t & ow & Hn & Hm & Hf & Hr)]; rewrite Hn; cbn [app map fst].
    + split; [ exact ND | ]. intros x Hx. destruct (R x Hx) as [A B]. rewrite Hm in B. auto.
    + split.
      * constructor; [ | exact ND ]. intro Hx. destruct (R t Hx) as [_ B]. apply B. rewrite Hm. left. reflexivity.
      * intros x [Hx|Hx]; [ subst x; auto | ].
        destruct (R x Hx) as [A B]. split; [ exact A | ]. intro Hy. apply B. rewrite Hm. right. exact Hy.
  - cbn [app]. apply IH. exact I.
Qed.

Theorem v_world_minter_state vr xs s c :
  fst (wrun vstate call (apply_call vr) (v_emit vr) (s, c) xs) = run vr s (minter_calls call xs).
Proof. apply wrun_minter_state. Qed.

Theorem v_world_issued_ids_fresh n vr xs s :
  InvV n s ->
  NoDup (map fst (wissued vstate call (apply_call vr) (v_emit vr) s xs)) /\
  (forall t, In t (map fst (wissued vstate call (apply_call vr) (v_emit vr) s xs)) -> 1 <= t <= n /\ ~ In t (s_minted s)).
Proof. intros I. rewrite wissued_minter_calls. apply v_issued_fresh. exact I. Qed.

(* ================= open edition ================= *)
Definition o_emit (vr : ovariant) (s : ostate) (c : ocall) : list (N * addr) :=
  match ostep vr s (oc_env c) (oc_fp c) (oc_wv c) (oc_op c) with
  | Ok (_, ms) => nft_msgs ms
  | Err => []
  end.

Lemma o_issued_otrace vr cs : forall s, issued ostate ocall (o_apply vr) (o_emit vr) s cs = otrace vr s cs.
Proof.
  induction cs as [|c cs IH]; intros s; cbn [issued otrace]; [ reflexivity | ].
  rewrite IH. unfold o_emit, o_apply.
  destruct (ostep vr s (oc_env c) (oc_fp c) (oc_wv c) (oc_op c)) as [[s' ms]|]; reflexivity.
Qed.

Theorem o_world_minter_state vr xs s c :
  fst (wrun ostate ocall (o_apply vr) (o_emit vr) (s, c) xs) = orun vr s (minter_calls ocall xs).
Proof. apply wrun_minter_state. Qed.

Theorem o_world_ids_are_1_2_3 vr xs s :
  o_token_index s = 0 ->
  map fst (wissued ostate ocall (o_apply vr) (o_emit vr) s xs)
  = map N.of_nat (seq 1 (osuccesses vr s (minter_calls ocall xs))).
Proof. intros Z. rewrite wissued_minter_calls, o_issued_otrace. apply o_ids_are_1_2_3. exact Z. Qed.

(* the next id is index + 1 whatever the collection holds *)
Theorem o_next_id_ignores_collection vr s c k t ow :
  In (t, ow) (o_emit vr s k) ->
  t = o_token_index s + 1 /\
  wapply ostate ocall (o_apply vr) (o_emit vr) (s, c) (WMinter k) = (o_apply vr s k, c ++ [(t, ow)]).
Proof.
  unfold o_emit, o_apply. cbn [wapply fst snd]. unfold o_emit, o_apply.
  destruct (ostep vr s (oc_env k) (oc_fp k) (oc_wv k) (oc_op k)) as [[s' ms]|] eqn:E; [ | intros [] ].
  intros Hin. destruct (o_mint_emits_next_id _ _ _ _ _ _ _ _ _ _ E Hin) as (_ & Ht & Hn & _).
  split; [ exact Ht | rewrite Hn; reflexivity ].
Qed.

(* ================= base minter ================= *)
Definition b_emit (s : bstate) (c : bcall) : list (N * addr) :=
  match bstep s (bc_env c) (bc_creator c) (bc_bps c) (bc_op c) with
  | Ok (_, ms) => nft_msgs ms
  | Err => []
  end.

Lemma b_issued_btrace cs : forall s, issued bstate bcall b_apply b_emit s cs = btrace s cs.
Proof.
  induction cs as [|c cs IH]; intros s; cbn [issued btrace]; [ reflexivity | ].
  rewrite IH. unfold b_emit, b_apply.
  destruct (bstep s (bc_env c) (bc_creator c) (bc_bps c) (bc_op c)) as [[s' ms]|]; reflexivity.
Qed.

Theorem b_world_minter_state xs s c :
  fst (wrun bstate bcall b_apply b_emit (s, c) xs) = brun s (minter_calls bcall xs).
Proof. apply wrun_minter_state. Qed.

Theorem b_world_ids_are_1_2_3 xs s :
  b_token_index s = 0 ->
  map fst (wissued bstate bcall b_apply b_emit s xs) = map N.of_nat (seq 1 (bsuccesses s (minter_calls bcall xs))).
Proof. intros Z. rewrite wissued_minter_calls, b_issued_btrace. apply b_ids_are_1_2_3. exact Z. Qed.

Theorem b_next_id_ignores_collection s c k t ow :
  In (t, ow) (b_emit s k) ->
  t = b_token_index s + 1 /\
  wapply bstate bcall b_apply b_emit (s, c) (WMinter k) = (b_apply s k, c ++ [(t, ow)]).
Proof.
  unfold b_emit, b_apply. cbn [wapply fst snd]. unfold b_emit, b_apply.
  destruct (bstep s (bc_env k) (bc_creator k) (bc_bps k) (bc_op k)) as [[s' ms]|] eqn:E; [ | intros [] ].
  intros Hin. destruct (b_mint_emits_next_id _ _ _ _ _ _ _ _ _ E Hin) as (_ & Ht & _ & Hn & _).
  split; [ exact Ht | rewrite Hn; reflexivity ].
Qed.
