(* C07 part 3 — governance minimum-price changes reach the minters' floor.
   The factories' sudo UpdateParams (Params.update_params, shared by the base, vending
   and open-edition factories) is last-writer-wins on min_mint_price: an accepted proposal
   that supplies a minimum stores exactly that coin (which must be native), one that does
   not mention it keeps the stored one, a refused proposal changes nothing.  The minters
   read the factory's parameters at call time (the oracle `fparams` / `ofparams` of the
   minter models), so every price-setting operation accepted afterwards is at or above the
   minimum governance last supplied. *)
From LP Require Import Num Pay Sg1 MinterVending MinterOpen Params ParamsProofs MinterVendingProofs MinterOpenProofs C07Proofs C07OeProofs.
From Coq Require Import ZArith Lia ZifyN ZifyBool.
Local Open Scope N_scope.

Lemma gov_min_after p m p' :
  update_params p m = Ok p' ->
  cp_min_mint_price p' = unwrap_or (cm_min_mint_price m) (cp_min_mint_price p) /\
  (forall c, cm_min_mint_price m = Some c -> c_denom c = NATIVE) /\
  cp_creation_fee p' = unwrap_or (cm_creation_fee m) (cp_creation_fee p).
Proof.
  intros H. apply update_params_frame in H. destruct H as (_ & _ & F & M & _ & _ & _ & D). auto.
Qed.

(* the stored minimum after any sequence of proposals = the last minimum supplied by an
   accepted one (refused proposals are skipped) *)
Lemma gov_min_sequence ms p :
  cp_min_mint_price (apply_seq base_sudo p ms) =
  fold_left (fun a m => unwrap_or (cm_min_mint_price m) a) (filter base_accepts ms) (cp_min_mint_price p).
Proof. pose proof (base_sequence_scalars ms p) as H. cbv zeta in H. tauto. Qed.

Section Floor.
  Variables (p p' : cparams) (m : cmsg) (c : coin).
  Hypothesis Hupd : update_params p m = Ok p'.
  Hypothesis Hsup : cm_min_mint_price m = Some c.

  Lemma gov_stored : cp_min_mint_price p' = c /\ c_denom c = NATIVE.
  Proof.
    destruct (gov_min_after _ _ _ Hupd) as (M & D & _). rewrite Hsup in M. cbn in M. split; [ exact M | apply D; exact Hsup ].
  Qed.

  (* vending minters: the oracle answers with the factory's stored minimum *)
  Lemma gov_floor_update_price vr s e fp wv x s' ms :
    fp_min_price fp = c_amount (cp_min_mint_price p') ->
    step vr s e fp wv (OUpdateMintPrice x) = Ok (s', ms) -> c_amount c <= x.
  Proof.
    intros Hfp H. destruct gov_stored as [E _]. rewrite E in Hfp.
    apply update_price_ok in H. destruct H as (_ & _ & Hm & _). lia.
  Qed.

  Lemma gov_floor_update_discount vr s e fp wv x s' ms :
    fp_min_price fp = c_amount (cp_min_mint_price p') ->
    step vr s e fp wv (OUpdateDiscountPrice x) = Ok (s', ms) -> c_amount c <= x.
  Proof.
    intros Hfp H. destruct gov_stored as [E _]. rewrite E in Hfp.
    apply update_discount_ok in H. destruct H as (_ & _ & _ & _ & Hm & _). lia.
  Qed.

  Lemma gov_floor_set_whitelist vr s e fp wv wok w nv s' ms :
    fp_min_price fp = c_amount (cp_min_mint_price p') ->
    step vr s e fp wv (OSetWhitelist wok w (Some nv)) = Ok (s', ms) -> c_amount c <= wv_price nv.
  Proof.
    intros Hfp H. destruct gov_stored as [E _]. rewrite E in Hfp.
    apply set_whitelist_ok in H. destruct H as (_ & _ & _ & _ & (nv' & Hn & _ & Hm & _) & _).
    inv Hn. lia.
  Qed.

  (* open-edition minters *)
  Lemma gov_floor_oe_update_price vr s e fp wv x s' ms :
    ofp_min_price fp = c_amount (cp_min_mint_price p') ->
    ostep vr s e fp wv (EUpdateMintPrice x) = Ok (s', ms) -> c_amount c <= x.
  Proof.
    intros Hfp H. destruct gov_stored as [E _]. rewrite E in Hfp.
    apply o_update_price_ok in H. destruct H as (_ & _ & _ & Hm & _). lia.
  Qed.

  Lemma gov_floor_oe_set_whitelist vr s e fp wv wok w nv s' ms :
    ofp_min_price fp = c_amount (cp_min_mint_price p') ->
    ostep vr s e fp wv (ESetWhitelist wok w (Some nv)) = Ok (s', ms) -> c_amount c <= wv_price nv.
  Proof.
    intros Hfp H. destruct gov_stored as [E _]. rewrite E in Hfp.
    apply o_set_whitelist_ok in H. destruct H as (_ & _ & _ & _ & (nv' & Hn & _ & Hm & _) & _).
    inv Hn. lia.
  Qed.
End Floor.
